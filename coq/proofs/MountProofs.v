(* VirtualOS.findMount: the chosen mount point is the longest component-wise prefix, the path
   handed to the mount has only normal components, and a path under no mount point is refused. *)
From Coq Require Import List Bool Arith Lia.
Require Import RV.model.Paths RV.proofs.PathsProofs.
Import ListNotations.

Section MountProofs.
  Context {A : Alphabet}.
  Hypothesis slash_dot : slash <> dot.
  Notation str := (list char).

  (* canonical absolute paths: "/" followed by normal elements joined with "/" *)
  Definition canon (s : str) : Prop :=
    exists segs, Forall normal segs /\ s = slash :: join_segs segs.

  Lemma clean_rooted_canon s : is_rooted s = true -> canon (clean s).
  Proof.
    intros Hr. exists (clean_segs s). split; [apply clean_segs_rooted; assumption|].
    unfold clean. rewrite Hr. reflexivity.
  Qed.

  Lemma canon_comps s segs : Forall normal segs -> s = slash :: join_segs segs -> comps s = segs.
  Proof. intros H ->. apply comps_rooted_join; assumption. Qed.

  Lemma is_slash_slash : is_slash slash = true.
  Proof. unfold is_slash. destruct (ceq slash slash); [reflexivity|contradiction]. Qed.

  Lemma has_prefix_iff s p : has_prefix s p = true <-> exists r, s = p ++ r.
  Proof.
    revert s; induction p as [|x p IH]; intros s; cbn.
    - split; [intros _; exists s; reflexivity|reflexivity].
    - destruct s as [|y s].
      + split; [discriminate|intros (r & E); discriminate].
      + destruct (ceq x y) as [->|N].
        * rewrite IH. split; intros (r & E); exists r; [rewrite E; reflexivity|injection E as E; exact E].
        * split; [discriminate|intros (r & E); injection E as E1 E2; symmetry in E1; contradiction].
  Qed.

  Lemma drop_prefix_app p r : drop_prefix (p ++ r) p = r.
  Proof.
    induction p as [|x p IH]; cbn; [destruct r; reflexivity|].
    destruct (ceq x x); [exact IH|contradiction].
  Qed.

  Lemma trim_prefix_app p r : trim_prefix (p ++ r) p = r.
  Proof. unfold trim_prefix. rewrite has_prefix_app. apply drop_prefix_app. Qed.

  Lemma comps_app_slash a b : comps (a ++ slash :: b) = comps a ++ comps b.
  Proof. unfold comps. rewrite split_app. apply filter_app. Qed.

  Lemma comps_nil : comps [] = [].
  Proof. reflexivity. Qed.

  Lemma comps_trailing a : comps (a ++ [slash]) = comps a.
  Proof. rewrite comps_app_slash, comps_nil, app_nil_r. reflexivity. Qed.

  Lemma comps_leading b : comps (slash :: b) = comps b.
  Proof. change (slash :: b) with ([] ++ slash :: b). rewrite comps_app_slash. reflexivity. Qed.

  Lemma join_segs_cons s r : r <> [] -> join_segs (s :: r) = s ++ slash :: join_segs r.
  Proof. destruct r; [contradiction|reflexivity]. Qed.

  Lemma join_segs_app ks rest : ks <> [] -> rest <> [] ->
    join_segs (ks ++ rest) = join_segs ks ++ slash :: join_segs rest.
  Proof.
    induction ks as [|s r IH]; intros H1 H2; [contradiction|].
    destruct r as [|s' r'].
    - cbn [app]. rewrite join_segs_cons by assumption. reflexivity.
    - change ((s :: s' :: r') ++ rest) with (s :: ((s' :: r') ++ rest)).
      rewrite join_segs_cons by (cbn; discriminate).
      rewrite IH by (try discriminate; assumption).
      rewrite (join_segs_cons s (s' :: r')) by discriminate.
      rewrite <- app_assoc. reflexivity.
  Qed.

  (* a non-empty string without slash does not end in a slash *)
  Lemma has_suffix_slash_app a b : b <> [] -> has_suffix_slash (a ++ b) = has_suffix_slash b.
  Proof.
    induction a as [|c a IH]; intros H; [reflexivity|].
    cbn [app]. destruct (a ++ b) as [|c0 l] eqn:E.
    - apply app_eq_nil in E. destruct E; contradiction.
    - change (has_suffix_slash (c :: c0 :: l)) with (has_suffix_slash (c0 :: l)). apply IH; assumption.
  Qed.

  Lemma noslash_no_suffix s : s <> [] -> noslash s -> has_suffix_slash s = false.
  Proof.
    induction s as [|c r IH]; intros NE H; [contradiction|].
    inversion H as [|? ? Hc Hr]; subst.
    destruct r as [|c' r'].
    - cbn. unfold is_slash. destruct (ceq c slash); [contradiction|reflexivity].
    - change (has_suffix_slash (c :: c' :: r')) with (has_suffix_slash (c' :: r')).
      apply IH; [discriminate|assumption].
  Qed.

  Lemma normal_ne s : normal s -> s <> [].
  Proof. intros (H & _) ->. discriminate. Qed.

  Lemma join_segs_no_suffix segs : segs <> [] -> Forall normal segs -> has_suffix_slash (join_segs segs) = false.
  Proof.
    induction segs as [|s r IH]; intros NE H; [contradiction|].
    inversion H as [|? ? Hs Hr]; subst.
    destruct r as [|s' r'].
    - cbn. apply noslash_no_suffix; [apply normal_ne; assumption|apply normal_noslash; assumption].
    - rewrite join_segs_cons by discriminate.
      change (s ++ slash :: join_segs (s' :: r')) with (s ++ (slash :: join_segs (s' :: r'))).
      rewrite has_suffix_slash_app by discriminate.
      destruct (join_segs (s' :: r')) eqn:E.
      + exfalso. destruct r'; cbn in E; [subst; inversion Hr as [|? ? Hs' _]; apply normal_ne in Hs'; contradiction|].
        apply app_eq_nil in E. destruct E as (E & _). subst. inversion Hr as [|? ? Hs' _]. apply normal_ne in Hs'. contradiction.
      + change (has_suffix_slash (slash :: c :: l)) with (has_suffix_slash (c :: l)).
        apply IH; [discriminate|assumption].
  Qed.

  Lemma trim_suffix_slash_id s : has_suffix_slash s = false -> trim_suffix_slash s = s.
  Proof.
    induction s as [|c r IH]; intros H; [reflexivity|].
    destruct r as [|c' r'].
    - cbn in *. rewrite H. reflexivity.
    - change (trim_suffix_slash (c :: c' :: r')) with (c :: trim_suffix_slash (c' :: r')).
      f_equal. apply IH. exact H.
  Qed.

  Lemma canon_trim k ks : ks <> [] -> Forall normal ks -> k = slash :: join_segs ks ->
    trim_suffix_slash k = k.
  Proof.
    intros NE H ->. apply trim_suffix_slash_id.
    change (slash :: join_segs ks) with ([slash] ++ join_segs ks).
    rewrite has_suffix_slash_app.
    - apply join_segs_no_suffix; assumption.
    - destruct ks as [|s r]; [contradiction|]. inversion H as [|? ? Hs Hr]; subst.
      apply normal_ne in Hs. destruct r; cbn; [assumption|]. intros E. apply app_eq_nil in E. destruct E; contradiction.
  Qed.

  (* ---------- the shape of the normalised path ---------- *)

  Definition pform (p : str) (segs : list str) (trail : bool) : Prop :=
    Forall normal segs /\ (trail = true -> segs <> []) /\
    p = slash :: join_segs segs ++ (if trail then [slash] else []).

  Lemma pform_comps p segs trail : pform p segs trail -> comps p = segs.
  Proof.
    intros (Hn & _ & ->). destruct trail.
    - change (slash :: join_segs segs ++ [slash]) with ((slash :: join_segs segs) ++ [slash]).
      rewrite comps_trailing. apply comps_rooted_join; assumption.
    - rewrite app_nil_r. apply comps_rooted_join; assumption.
  Qed.

  Lemma is_rooted_clean s : is_rooted s = true -> is_rooted (clean s) = true.
  Proof. intros H. unfold clean. rewrite H. cbn. apply is_slash_slash. Qed.

  Lemma join_rooted cwd path : is_rooted cwd = true -> is_rooted (join cwd path) = true.
  Proof.
    intros H. destruct cwd as [|c cw]; [discriminate|]. unfold join.
    destruct path; apply is_rooted_clean; exact H.
  Qed.

  Lemma str_eqb_refl s : str_eqb s s = true.
  Proof. apply str_eqb_eq. reflexivity. Qed.

  Lemma mount_path_form cwd path : is_rooted cwd = true ->
    exists segs trail, pform (mount_path cwd path) segs trail.
  Proof.
    intros Hc. unfold mount_path.
    set (p1 := if is_rooted path then path else join cwd path).
    assert (Hr : is_rooted p1 = true).
    { unfold p1. destruct (is_rooted path) eqn:E; [exact E|apply join_rooted; exact Hc]. }
    destruct (clean_rooted_canon p1 Hr) as (segs & Hn & E).
    destruct (has_suffix_slash path && negb (str_eqb (clean p1) [slash])) eqn:Et.
    - exists segs, true. repeat split; [assumption| |rewrite E; reflexivity].
      intros _ ->. apply andb_prop in Et. destruct Et as (_ & Et). rewrite E in Et. cbn in Et.
      destruct (ceq slash slash); [discriminate|contradiction].
    - exists segs, false. repeat split; [assumption|discriminate|rewrite E, app_nil_r; reflexivity].
  Qed.

  (* ---------- one key against the path ---------- *)

  Definition key_ok (k : str) : Prop := is_rooted k = true /\ clean k = k.

  Lemma key_ok_canon k : key_ok k -> canon k.
  Proof. intros (Hr & E). rewrite <- E. apply clean_rooted_canon; assumption. Qed.

  Definition is_pre (a b : list str) : Prop := exists rest, b = a ++ rest.

  Lemma key_match_sound p k : key_ok k -> is_rooted p = true ->
    mount_key_match p k <> 0 ->
    exists rel, comps p = comps k ++ comps rel /\
      ((mount_key_match p k = 1 /\ rel = [slash]) \/
       (mount_key_match p k = 2 /\ rel = (let r := trim_prefix p k in if is_empty r then [slash] else r))).
  Proof.
    intros Hk Hp Hm. destruct (key_ok_canon k Hk) as (ks & Hn & Ek).
    unfold mount_key_match in *.
    destruct (str_eqb k p) eqn:E1.
    - apply str_eqb_eq in E1. subst p. exists [slash]. split; [|left; split; reflexivity].
      rewrite (comps_leading []), comps_nil, app_nil_r. reflexivity.
    - destruct (str_eqb k [slash] || has_prefix p (trim_suffix_slash k ++ [slash])) eqn:E2; [|contradiction].
      eexists; split; [|right; split; reflexivity].
      destruct (str_eqb k [slash]) eqn:E3.
      + apply str_eqb_eq in E3. subst k. destruct p as [|c x]; [discriminate|].
        cbn in Hp. unfold is_slash in Hp. destruct (ceq c slash) as [->|]; [|discriminate].
        assert (C1 : comps [slash] = []) by (rewrite (comps_leading []); reflexivity).
        assert (T : trim_prefix (slash :: x) [slash] = x) by (apply (trim_prefix_app [slash] x)).
        cbn zeta. rewrite T, C1. cbn [app]. rewrite comps_leading.
        destruct x; cbn [is_empty]; [rewrite C1; reflexivity|reflexivity].
      + cbn [orb] in E2. destruct ks as [|s0 r0].
        { cbn in Ek. subst k. rewrite str_eqb_refl in E3. discriminate. }
        rewrite (canon_trim k (s0 :: r0)) in E2 by (try discriminate; assumption).
        apply has_prefix_iff in E2. destruct E2 as (r & ->).
        rewrite <- app_assoc. cbn [app]. rewrite trim_prefix_app. cbn zeta. cbn [is_empty].
        rewrite comps_app_slash, comps_leading. reflexivity.
  Qed.

  Lemma key_match_complete p segs trail k :
    key_ok k -> pform p segs trail -> is_pre (comps k) segs -> mount_key_match p k <> 0.
  Proof.
    intros Hk (Hn & Ht & Ep) (rest & Es). destruct (key_ok_canon k Hk) as (ks & Hkn & Ek).
    rewrite (canon_comps k ks Hkn Ek) in Es.
    unfold mount_key_match.
    destruct (str_eqb k p) eqn:E1; [discriminate|].
    destruct ks as [|s0 r0].
    - cbn in Ek. subst k. rewrite str_eqb_refl. cbn. discriminate.
    - rewrite (canon_trim k (s0 :: r0)) by (try discriminate; assumption).
      assert (Hpre : has_prefix p (k ++ [slash]) = true).
      { apply has_prefix_iff. subst p k segs. destruct rest as [|x rest'].
        - rewrite app_nil_r. destruct trail.
          + exists []. rewrite app_nil_r. reflexivity.
          + exfalso. rewrite !app_nil_r, str_eqb_refl in E1. discriminate.
        - rewrite join_segs_app by discriminate. exists (join_segs (x :: rest') ++ (if trail then [slash] else [])).
          cbn [app]. rewrite <- !app_assoc. reflexivity. }
      rewrite Hpre, orb_true_r. discriminate.
  Qed.

  (* ---------- the loop over the mount table, in any iteration order ---------- *)

  Definition rel_of (p k : str) : str :=
    if Nat.eqb (mount_key_match p k) 1 then [slash]
    else let r := trim_prefix p k in if is_empty r then [slash] else r.

  Lemma mkm_cases p k : mount_key_match p k = 0 \/ mount_key_match p k = 1 \/ mount_key_match p k = 2.
  Proof.
    unfold mount_key_match. destruct (str_eqb k p); [auto|].
    destruct (str_eqb k [slash] || has_prefix p (trim_suffix_slash k ++ [slash])); auto.
  Qed.

  Lemma loop_spec p keys : forall best k rel,
    (forall b, best = Some b -> mount_key_match p b = 2) ->
    mount_loop p keys best = Some (k, rel) ->
    (In k keys \/ best = Some k) /\ mount_key_match p k <> 0 /\ rel = rel_of p k /\
    (forall k', (In k' keys \/ best = Some k') -> mount_key_match p k' <> 0 ->
                mount_key_match p k = 1 \/ length k' <= length k).
  Proof.
    induction keys as [|k0 r IH]; intros best k rel Hb H; cbn [mount_loop] in H.
    - destruct best as [b|]; [|discriminate]. injection H as <- <-.
      pose proof (Hb b eq_refl) as Hm.
      split; [right; reflexivity|]. split; [rewrite Hm; discriminate|].
      split; [unfold rel_of; rewrite Hm; reflexivity|].
      intros k' [[]|E] _. injection E as <-. right. lia.
    - destruct (mkm_cases p k0) as [E0|[E0|E0]]; rewrite E0 in H.
      + destruct (IH best k rel Hb H) as (Hin & Hm & Hr & Hmax).
        split; [destruct Hin; [left; right; assumption|right; assumption]|].
        split; [assumption|]. split; [assumption|].
        intros k' [[<-|Hi]|Hbk] Hk'; [contradiction| |]; apply Hmax; auto.
      + injection H as <- <-. split; [left; left; reflexivity|]. split; [rewrite E0; discriminate|].
        split; [unfold rel_of; rewrite E0; reflexivity|]. intros; left; assumption.
      + assert (Hstep : forall best', (forall b, best' = Some b -> mount_key_match p b = 2) ->
                  mount_loop p r best' = Some (k, rel) ->
                  (forall k', (k' = k0 \/ best = Some k') -> (exists b', best' = Some b' /\ length k' <= length b')) ->
                  (best' = Some k0 \/ best' = best) ->
                  (In k (k0 :: r) \/ best = Some k) /\ mount_key_match p k <> 0 /\ rel = rel_of p k /\
                  (forall k', (In k' (k0 :: r) \/ best = Some k') -> mount_key_match p k' <> 0 ->
                      mount_key_match p k = 1 \/ length k' <= length k)).
        { intros best' Hb' H' Hle Hor.
          destruct (IH best' k rel Hb' H') as (Hin & Hm & Hr & Hmax).
          split.
          { destruct Hin as [Hi|Hi]; [left; right; assumption|].
            destruct Hor as [->| ->]; [injection Hi as <-; left; left; reflexivity|right; assumption]. }
          split; [assumption|]. split; [assumption|].
          intros k' [[<-|Hi]|Hbk] Hk'.
          - destruct (Hle k0 (or_introl eq_refl)) as (b' & Eb & Hl).
            destruct (Hmax b' (or_intror Eb)) as [|Hl2]; [rewrite (Hb' b' Eb); discriminate|left; assumption|right; lia].
          - apply Hmax; auto.
          - destruct (Hle k' (or_intror Hbk)) as (b' & Eb & Hl).
            destruct (Hmax b' (or_intror Eb)) as [|Hl2]; [rewrite (Hb' b' Eb); discriminate|left; assumption|right; lia]. }
        destruct best as [b|].
        * destruct (Nat.ltb (length b) (length k0)) eqn:El.
          -- apply Nat.ltb_lt in El. apply (Hstep (Some k0)); auto.
             ++ intros b0 E; injection E as <-; assumption.
             ++ intros k' [->|E]; [exists k0; split; [reflexivity|lia]|injection E as <-; exists k0; split; [reflexivity|lia]].
          -- apply Nat.ltb_ge in El. apply (Hstep (Some b)); auto.
             intros k' [->|E]; [exists b; split; [reflexivity|lia]|injection E as <-; exists b; split; [reflexivity|lia]].
        * apply (Hstep (Some k0)); auto.
          -- intros b0 E; injection E as <-; assumption.
          -- intros k' [->|E]; [exists k0; split; [reflexivity|lia]|discriminate].
  Qed.

  Lemma loop_none p keys : forall best,
    mount_loop p keys best = None <-> (best = None /\ forall k, In k keys -> mount_key_match p k = 0).
  Proof.
    induction keys as [|k0 r IH]; intros best; cbn [mount_loop].
    - destruct best; split; try discriminate; try (intros (E & _); discriminate).
      + intros _. split; [reflexivity|intros k []].
      + reflexivity.
    - destruct (mkm_cases p k0) as [E0|[E0|E0]]; rewrite E0.
      + rewrite IH. split; intros (Hb & Hk); (split; [assumption|]).
        * intros k [<-|Hi]; auto.
        * intros k Hi; apply Hk; right; assumption.
      + split; [discriminate|]. intros (_ & Hk). rewrite (Hk k0 (or_introl eq_refl)) in E0. discriminate.
      + split.
        * intros H. exfalso. destruct best as [b|]; [destruct (Nat.ltb (length b) (length k0))|];
            apply IH in H; destruct H as (H & _); discriminate.
        * intros (_ & Hk). rewrite (Hk k0 (or_introl eq_refl)) in E0. discriminate.
  Qed.

  (* ---------- string length orders matching keys as component count does ---------- *)

  Lemma join_segs_ne segs : segs <> [] -> Forall normal segs -> join_segs segs <> [].
  Proof.
    intros NE H. destruct segs as [|s r]; [contradiction|]. inversion H as [|? ? Hs Hr]; subst.
    apply normal_ne in Hs. destruct r; cbn; [assumption|]. intros E. apply app_eq_nil in E. destruct E; contradiction.
  Qed.

  Lemma len_mono segs ks1 ks2 :
    Forall normal ks2 -> is_pre ks1 segs -> is_pre ks2 segs -> length ks1 < length ks2 ->
    length (slash :: join_segs ks1) < length (slash :: join_segs ks2).
  Proof.
    intros Hn (r1 & E1) (r2 & E2) Hl. rewrite E1 in E2.
    apply app_eq_app in E2. destruct E2 as (l & [(E & _)|(E & _)]).
    - exfalso. rewrite E, app_length in Hl. lia.
    - subst ks2. destruct l as [|x l]; [rewrite app_nil_r in Hl; lia|].
      apply Forall_app in Hn. destruct Hn as (_ & Hn).
      pose proof (join_segs_ne (x :: l) ltac:(discriminate) Hn) as NE.
      destruct ks1 as [|s r].
      + cbn [app]. change (join_segs []) with (@nil char).
        destruct (join_segs (x :: l)) as [|c0 l0]; [contradiction|cbn [length]; lia].
      + rewrite join_segs_app by discriminate. cbn [length]. rewrite app_length. cbn [length]. lia.
  Qed.

  Lemma mount_path_rooted cwd path : is_rooted cwd = true -> is_rooted (mount_path cwd path) = true.
  Proof.
    intros Hc. destruct (mount_path_form cwd path Hc) as (segs & trail & _ & _ & ->). cbn. apply is_slash_slash.
  Qed.

  Theorem find_mount_longest cwd keys path k rel :
    is_rooted cwd = true -> Forall key_ok keys ->
    find_mount cwd keys path = Some (k, rel) ->
    In k keys /\
    comps (mount_path cwd path) = comps k ++ comps rel /\
    Forall normal (comps rel) /\
    (forall k', In k' keys -> is_pre (comps k') (comps (mount_path cwd path)) ->
                length (comps k') <= length (comps k)).
  Proof.
    intros Hc Hks H. unfold find_mount in H.
    destruct (mount_path_form cwd path Hc) as (segs & trail & Hpf).
    pose proof (mount_path_rooted cwd path Hc) as Hpr.
    set (p := mount_path cwd path) in *.
    destruct (loop_spec p keys None k rel ltac:(discriminate) H) as (Hin & Hm & Hr & Hmax).
    destruct Hin as [Hin|]; [|discriminate].
    rewrite Forall_forall in Hks.
    destruct (key_match_sound p k (Hks k Hin) Hpr Hm) as (rel' & Hc1 & Hrel).
    assert (Er : rel = rel').
    { rewrite Hr. unfold rel_of. destruct Hrel as [(E & ->)|(E & ->)]; rewrite E; reflexivity. }
    subst rel'. split; [assumption|]. split; [assumption|].
    pose proof (pform_comps p segs trail Hpf) as Hseg.
    split.
    { destruct Hpf as (Hn & _). rewrite Hseg in Hc1. rewrite Hc1 in Hn. apply Forall_app in Hn. tauto. }
    intros k' Hin' Hpre. rewrite Hseg in Hpre.
    pose proof (key_match_complete p segs trail k' (Hks k' Hin') Hpf Hpre) as Hm'.
    destruct (Hmax k' (or_introl Hin') Hm') as [Hex|Hlen].
    - (* exact match: k = p, so its components are all of segs *)
      unfold mount_key_match in Hex. destruct (str_eqb k p) eqn:E.
      + apply str_eqb_eq in E. rewrite E, Hseg. destruct Hpre as (rest & ->). rewrite app_length. lia.
      + destruct (str_eqb k [slash] || has_prefix p (trim_suffix_slash k ++ [slash])); discriminate.
    - destruct (Nat.le_gt_cases (length (comps k')) (length (comps k))) as [|Hgt]; [assumption|exfalso].
      destruct (key_ok_canon k (Hks k Hin)) as (ks & Hkn & Ek).
      destruct (key_ok_canon k' (Hks k' Hin')) as (ks' & Hkn' & Ek').
      rewrite (canon_comps k ks Hkn Ek) in *. rewrite (canon_comps k' ks' Hkn' Ek') in *.
      assert (Hp1 : is_pre ks segs) by (exists (comps rel); rewrite <- Hseg; assumption).
      pose proof (len_mono segs ks ks' Hkn' Hp1 Hpre Hgt) as Hl. rewrite <- Ek, <- Ek' in Hl. lia.
  Qed.

  Theorem find_mount_refuses cwd keys path :
    is_rooted cwd = true -> Forall key_ok keys ->
    (find_mount cwd keys path = None <->
     forall k, In k keys -> ~ is_pre (comps k) (comps (mount_path cwd path))).
  Proof.
    intros Hc Hks. unfold find_mount.
    destruct (mount_path_form cwd path Hc) as (segs & trail & Hpf).
    pose proof (mount_path_rooted cwd path Hc) as Hpr.
    set (p := mount_path cwd path) in *.
    pose proof (pform_comps p segs trail Hpf) as Hseg. rewrite Hseg.
    rewrite Forall_forall in Hks. rewrite loop_none. split.
    - intros (_ & H) k Hin Hpre. apply (key_match_complete p segs trail k (Hks k Hin) Hpf Hpre). apply H; assumption.
    - intros H. split; [reflexivity|]. intros k Hin.
      destruct (mkm_cases p k) as [E|E]; [assumption|exfalso].
      assert (Hm : mount_key_match p k <> 0) by (destruct E as [E|E]; rewrite E; discriminate).
      destruct (key_match_sound p k (Hks k Hin) Hpr Hm) as (rel' & Hc1 & _).
      apply (H k Hin). exists (comps rel'). rewrite <- Hseg. assumption.
  Qed.

  (* Two-path operations: when the operation is handed to a mount, that mount point is the longest component-wise
     prefix of BOTH paths, each resolved on its own, and each path is handed over as its components below it. *)
  Theorem mount_two_longest cwd keys p1 p2 k r1 r2 :
    is_rooted cwd = true -> Forall key_ok keys ->
    mount_two cwd keys p1 p2 = Some (k, r1, r2) ->
    find_mount cwd keys p1 = Some (k, r1) /\ find_mount cwd keys p2 = Some (k, r2) /\
    In k keys /\
    comps (mount_path cwd p1) = comps k ++ comps r1 /\ comps (mount_path cwd p2) = comps k ++ comps r2 /\
    Forall normal (comps r1) /\ Forall normal (comps r2) /\
    (forall k', In k' keys ->
       is_pre (comps k') (comps (mount_path cwd p1)) \/ is_pre (comps k') (comps (mount_path cwd p2)) ->
       length (comps k') <= length (comps k)).
  Proof.
    intros Hc Hks H. unfold mount_two in H.
    destruct (find_mount cwd keys p1) as [[k1 q1]|] eqn:E1; [|discriminate].
    destruct (find_mount cwd keys p2) as [[k2 q2]|] eqn:E2; [|discriminate].
    destruct (str_eqb k1 k2) eqn:Ek; [|discriminate].
    apply str_eqb_eq in Ek. subst k2. inversion H; subst k1 q1 q2. clear H.
    destruct (find_mount_longest cwd keys p1 k r1 Hc Hks E1) as (Hin & Hc1 & Hn1 & Hm1).
    destruct (find_mount_longest cwd keys p2 k r2 Hc Hks E2) as (_ & Hc2 & Hn2 & Hm2).
    repeat (split; [first [assumption|reflexivity]|]).
    intros k' Hin' [Hp|Hp]; [apply Hm1|apply Hm2]; assumption.
  Qed.

  (* ... and it is refused - nothing is handed to any mount - when either path lies under no mount point or the two
     paths are served by different mount points. *)
  Theorem mount_two_refuses cwd keys p1 p2 :
    mount_two cwd keys p1 p2 = None <->
    find_mount cwd keys p1 = None \/ find_mount cwd keys p2 = None \/
    (exists k1 r1 k2 r2, find_mount cwd keys p1 = Some (k1, r1) /\ find_mount cwd keys p2 = Some (k2, r2) /\ k1 <> k2).
  Proof.
    unfold mount_two.
    destruct (find_mount cwd keys p1) as [[k1 q1]|]; [|split; [intros _; left; reflexivity|reflexivity]].
    destruct (find_mount cwd keys p2) as [[k2 q2]|]; [|split; [intros _; right; left; reflexivity|reflexivity]].
    destruct (str_eqb k1 k2) eqn:Ek.
    - apply str_eqb_eq in Ek. subst k2. split; [discriminate|].
      intros [H|[H|(a & b & c & d & Ha & Hb & Hne)]]; try discriminate.
      inversion Ha; inversion Hb; subst. exfalso; apply Hne; reflexivity.
    - split; [|reflexivity]. intros _. right. right. exists k1, q1, k2, q2. repeat split; try reflexivity.
      intros ->. rewrite str_eqb_refl in Ek. discriminate.
  Qed.

  (* mount, then the mount's rooted filesystem: the host path lies under that filesystem's base and
     continues with exactly the path's components below the mount point *)
  Theorem mount_then_local cwd keys path k rel base q :
    is_rooted cwd = true -> Forall key_ok keys -> base_ok base ->
    is_empty base || str_eqb base [slash] = false ->
    find_mount cwd keys path = Some (k, rel) ->
    resolve_path base rel = Ok q ->
    exists rest, comps q = comps base ++ rest /\ Forall normal rest.
  Proof.
    intros _ _ Hb Hnb _ Hres. exact (resolve_confined slash_dot base rel q Hb Hres Hnb).
  Qed.
  (* Histories: a lookup depends on the mount table, the path and the working directory set by the LAST
     Chdir - on nothing else that happened before (no memo of earlier lookups, no trace of earlier cwds). *)
  Lemma vrun_app (keys : list str) : forall ops1 (cwd : str) ops2,
    vrun keys cwd (ops1 ++ ops2) =
    vrun keys cwd ops1 ++ vrun keys (fold_left (fun c o => match o with VChdir d => d | VUse _ => c end) ops1 cwd) ops2.
  Proof.
    induction ops1 as [|o r IH]; intros cwd ops2; cbn [app vrun fold_left]; [reflexivity|].
    destruct o as [d|p]; cbn [vrun]; rewrite IH; reflexivity.
  Qed.

  Lemma vrun_uses (keys : list str) : forall ops (cwd : str), forallb is_use ops = true ->
    fold_left (fun c o => match o with VChdir d => d | VUse _ => c end) ops cwd = cwd.
  Proof.
    induction ops as [|o r IH]; intros cwd H; cbn [fold_left]; [reflexivity|].
    cbn [forallb] in H. apply andb_true_iff in H. destruct H as [Ho Hr].
    destruct o; [discriminate|]. apply IH. exact Hr.
  Qed.

  Theorem history_memoryless (keys : list str) (cwd0 : str) before d between p :
    forallb is_use between = true ->
    exists earlier,
      vrun keys cwd0 (before ++ VChdir d :: between ++ [VUse p]) = earlier ++ [find_mount d keys p].
  Proof.
    intros Hu. rewrite vrun_app. cbn [vrun]. rewrite vrun_app. rewrite (vrun_uses keys between d Hu).
    cbn [vrun]. eexists. rewrite app_assoc. reflexivity.
  Qed.

  Theorem history_initial (keys : list str) (cwd0 : str) between p :
    forallb is_use between = true ->
    exists earlier, vrun keys cwd0 (between ++ [VUse p]) = earlier ++ [find_mount cwd0 keys p].
  Proof.
    intros Hu. rewrite vrun_app. rewrite (vrun_uses keys between cwd0 Hu). cbn [vrun]. eexists. reflexivity.
  Qed.
End MountProofs.
