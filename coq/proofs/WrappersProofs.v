(* Proofs about the generic wrapper interpreter (model/Wrappers.v). *)
From Coq Require Import List Bool ZArith NArith String Arith Lia.
Require Import RV.model.Wrappers.
Import ListNotations.
Close Scope string_scope.

Section Generic.
  Variable F : string -> list gval -> gret.

  (* the wrapper returns exactly what the Go function returns on the converted arguments ... *)
  Lemma wrapper_exact : forall w args a,
    unpack w args = Ok a -> guards_pass w (place w a) = true ->
    run_wrapper F w args = lift (w_ret w) (F (w_callee w) (place w a)).
  Proof. intros w args a H G. unfold run_wrapper. rewrite H. cbv zeta. rewrite G. reflexivity. Qed.

  (* ... when an argument is rejected the Go function is not consulted at all ... *)
  Lemma wrapper_error : forall w args e,
    unpack w args = Err e -> run_wrapper F w args = Ret (OErr e).
  Proof. intros w args e H. unfold run_wrapper. rewrite H. reflexivity. Qed.

  (* ... nor when one of the wrapper's own value checks fires *)
  Lemma wrapper_guard_error : forall w args a,
    unpack w args = Ok a -> guards_pass w (place w a) = false ->
    run_wrapper F w args = Ret (OErr EValue).
  Proof. intros w args a H G. unfold run_wrapper. rewrite H. cbv zeta. rewrite G. reflexivity. Qed.

  Lemma wrapper_value : forall w args a v,
    unpack w args = Ok a -> guards_pass w (place w a) = true ->
    F (w_callee w) (place w a) = GOk v ->
    run_wrapper F w args = Ret (mk_ret (w_ret w) v).
  Proof. intros. erewrite wrapper_exact by eassumption. rewrite H1. reflexivity. Qed.

  Lemma wrapper_go_error : forall w args a t,
    unpack w args = Ok a -> guards_pass w (place w a) = true ->
    F (w_callee w) (place w a) = GFail t ->
    run_wrapper F w args = Ret (OErr (EGo t)).
  Proof. intros. erewrite wrapper_exact by eassumption. rewrite H1. reflexivity. Qed.

  (* faithful to the code as it is: a panic of the Go function is not turned into an error *)
  Lemma wrapper_panic_propagates : forall w args a t,
    unpack w args = Ok a -> guards_pass w (place w a) = true ->
    F (w_callee w) (place w a) = GPanic t ->
    run_wrapper F w args = Panic t.
  Proof. intros. erewrite wrapper_exact by eassumption. rewrite H1. reflexivity. Qed.

  Lemma wrapper_total_guarded : forall w args,
    (forall a t, unpack w args = Ok a -> guards_pass w (place w a) = true ->
                 F (w_callee w) (place w a) <> GPanic t) ->
    exists o, run_wrapper F w args = Ret o.
  Proof.
    intros w args H. unfold run_wrapper. destruct (unpack w args) as [a|e] eqn:U; [|eauto].
    cbv zeta. destruct (guards_pass w (place w a)) eqn:G; [|eauto].
    specialize (H a). destruct (F (w_callee w) (place w a)) eqn:E; simpl; eauto.
    exfalso. eapply H; eauto.
  Qed.

  (* the result of a wrong number of arguments *)
  Lemma wrapper_arity : forall w args,
    arity_ok w args = false -> run_wrapper F w args = Ret (OErr EArgs).
  Proof. intros. apply wrapper_error. unfold unpack. rewrite H. reflexivity. Qed.
End Generic.

(* ------------------------------------------------------------------ unpack *)
Lemma unpack_params_pos : forall ps args a,
  unpack_params ps args = Ok a -> map fst a = map p_pos ps.
Proof.
  induction ps as [|p ps IH]; simpl; intros args a H.
  - inversion H. reflexivity.
  - destruct (match nth_error args (p_arg p) with
              | Some o => match convert (p_conv p) o with Ok g => apply_cast (p_cast p) g | Err e => Err e end
              | None => match p_opt p with Some d => Ok d | None => Err EArgs end
              end) as [g|e]; [|discriminate].
    destruct (unpack_params ps args) as [r|e] eqn:E; [|discriminate].
    inversion H. subst. simpl. f_equal. eapply IH. eassumption.
Qed.

Lemma unpack_pos : forall w args a,
  unpack w args = Ok a -> map fst a = map p_pos (w_params w).
Proof.
  unfold unpack. intros w args a. destruct (arity_ok w args); [|discriminate].
  apply unpack_params_pos.
Qed.

(* the first conversion that fails decides the error: later arguments are not looked at *)
Lemma unpack_params_first_error : forall p ps args e,
  (match nth_error args (p_arg p) with
   | Some o => match convert (p_conv p) o with Ok g => apply_cast (p_cast p) g | Err e => Err e end
   | None => match p_opt p with Some d => Ok d | None => Err EArgs end
   end) = Err e ->
  unpack_params (p :: ps) args = Err e.
Proof. intros. simpl. rewrite H. reflexivity. Qed.

(* ------------------------------------------------------------------ place *)
Lemma lookup_pos_in : forall l i g,
  nodup_nat (map fst l) = true -> In (i, g) l -> lookup_pos i l = Some g.
Proof.
  induction l as [|[j h] l IH]; simpl; intros i g N H; [contradiction|].
  apply andb_true_iff in N. destruct N as [N1 N2].
  destruct H as [H|H].
  - inversion H. subst. rewrite Nat.eqb_refl. reflexivity.
  - destruct (Nat.eqb i j) eqn:E.
    + apply Nat.eqb_eq in E. subst.
      apply negb_true_iff in N1. exfalso.
      assert (existsb (Nat.eqb j) (map fst l) = true); [|congruence].
      apply existsb_exists. exists j. split; [|apply Nat.eqb_refl].
      change j with (fst (j, g)). apply in_map. assumption.
    + apply IH; assumption.
Qed.

Lemma lookup_pos_some : forall l i,
  existsb (Nat.eqb i) (map fst l) = true -> exists g, lookup_pos i l = Some g.
Proof.
  induction l as [|[j h] l IH]; simpl; intros i H; [discriminate|].
  destruct (Nat.eqb i j); [eauto|]. simpl in H. apply IH. assumption.
Qed.

Lemma place_from_nth : forall n i l k,
  covers n i (map fst l) = true -> (k < n)%nat ->
  List.length (place_from i n l) = n /\
  nth_error (place_from i n l) k = lookup_pos (i + k) l.
Proof.
  induction n as [|n IH]; intros i l k C K; [lia|].
  simpl in C. apply andb_true_iff in C. destruct C as [C1 C2].
  destruct (lookup_pos_some _ _ C1) as [g Hg]. simpl. rewrite Hg.
  destruct k as [|k].
  - simpl. rewrite Nat.add_0_r. split; [|congruence].
    destruct n as [|n']; [reflexivity|].
    f_equal. apply (IH (S i) l 0%nat C2). lia.
  - simpl. destruct (IH (S i) l k C2) as [L Nth]; [lia|].
    split; [congruence|]. rewrite Nth. f_equal. lia.
Qed.

(* each converted parameter and each constant reaches the Go function at its recorded position,
   and nothing else is passed *)
Lemma place_spec : forall w a,
  positions_ok w = true -> map fst a = map p_pos (w_params w) ->
  List.length (place w a) = (List.length a + List.length (w_consts w))%nat /\
  forall i g, In (i, g) (a ++ w_consts w) -> nth_error (place w a) i = Some g.
Proof.
  intros w a P M. unfold positions_ok in P.
  repeat (apply andb_true_iff in P; destruct P as [P ?]).
  set (all := a ++ w_consts w) in *.
  assert (Hfst : map fst all = map p_pos (w_params w) ++ map fst (w_consts w)).
  { unfold all. rewrite map_app, M. reflexivity. }
  rewrite <- Hfst in *.
  assert (Hlen : List.length (map fst all) = List.length all) by apply map_length.
  rewrite Hlen in *.
  unfold place. fold all.
  split.
  - rewrite <- app_length. fold all.
    destruct (List.length all) as [|n] eqn:L.
    + reflexivity.
    + apply (place_from_nth (S n) 0 all 0); [assumption|lia].
  - intros i g Hin.
    assert (Hi : (i < List.length all)%nat).
    { rewrite forallb_forall in H. apply Nat.ltb_lt. apply H.
      change i with (fst (i, g)). apply in_map. assumption. }
    destruct (place_from_nth (List.length all) 0 all i) as [_ Nth]; [assumption|assumption|].
    rewrite Nth. simpl. apply lookup_pos_in; assumption.
Qed.

(* parameters that are not the receiver keep their declaration order in the callee *)
Lemma increasing_from_lb : forall l i a, increasing_from i l = true -> In a l -> (i <= a)%nat.
Proof.
  induction l as [|j l IH]; simpl; intros i a H Hin; [contradiction|].
  apply andb_true_iff in H. destruct H as [H1 H2]. apply Nat.leb_le in H1.
  destruct Hin as [Hin|Hin]; [subst; assumption|].
  specialize (IH _ _ H2 Hin). lia.
Qed.

Lemma increasing_from_sorted : forall l i x y a b,
  increasing_from i l = true -> (x < y)%nat ->
  nth_error l x = Some a -> nth_error l y = Some b -> (a < b)%nat.
Proof.
  induction l as [|j l IH]; intros i x y a b H L Hx Hy.
  - destruct x; discriminate.
  - simpl in H. apply andb_true_iff in H. destruct H as [H1 H2].
    destruct y as [|y]; [lia|]. simpl in Hy.
    destruct x as [|x].
    + simpl in Hx. inversion Hx. subst a.
      apply nth_error_In in Hy. pose proof (increasing_from_lb _ _ _ H2 Hy) as Hlb. simpl in Hlb. lia.
    + simpl in Hx. eapply (IH (S j) x y); [exact H2 | lia | exact Hx | exact Hy].
Qed.

Lemma wf_plain_order : forall w x y p q,
  positions_ok w = true -> (x < y)%nat ->
  nth_error (plain_params w) x = Some p -> nth_error (plain_params w) y = Some q ->
  (p_pos p < p_pos q)%nat.
Proof.
  intros w x y p q P L Hx Hy. unfold positions_ok in P.
  repeat (apply andb_true_iff in P; destruct P as [P ?]).
  eapply increasing_from_sorted; [eassumption|eassumption| |];
    rewrite nth_error_map; [rewrite Hx|rewrite Hy]; reflexivity.
Qed.

Lemma wf_regular : forall w,
  wrapper_wf w = true -> w_regular w = true ->
  args_in_order w = true /\ positions_ok w = true /\
  w_callee w = expected_callee (w_name w).
Proof.
  intros w H R. unfold wrapper_wf in H. rewrite R in H.
  repeat (apply andb_true_iff in H; destruct H as [H ?]).
  repeat split; try assumption. apply String.eqb_eq. assumption.
Qed.

(* a regular, well-formed record: the Go function named in the specification receives every
   converted parameter at its recorded position, the non-receiver parameters in declaration order *)
Lemma wrapper_passes_in_order : forall w args a,
  wrapper_wf w = true -> w_regular w = true -> unpack w args = Ok a ->
  w_callee w = expected_callee (w_name w) /\
  map fst a = map p_pos (w_params w) /\
  List.length (place w a) = (List.length a + List.length (w_consts w))%nat /\
  (forall i g, In (i, g) (a ++ w_consts w) -> nth_error (place w a) i = Some g) /\
  (forall x y p q, (x < y)%nat ->
     nth_error (plain_params w) x = Some p -> nth_error (plain_params w) y = Some q ->
     (p_pos p < p_pos q)%nat).
Proof.
  intros w args a W R U. destruct (wf_regular w W R) as [_ [P C]].
  pose proof (unpack_pos w args a U) as M.
  destruct (place_spec w a P M) as [L N].
  repeat split; try assumption.
  intros. eapply wf_plain_order; eassumption.
Qed.

(* ------------------------------------------------------------------ the guarded repeat wrappers *)
Lemma mk_repeat_unpack : forall name callee c0 ret b args a,
  text_conv c0 = true ->
  unpack (mk_repeat name callee c0 ret b) args = Ok a ->
  exists g n, (exists s, g = GStr s \/ g = GBytes s) /\
              place (mk_repeat name callee c0 ret b) a = [g; GInt n].
Proof.
  intros name callee c0 ret b args a T U. unfold unpack in U.
  destruct args as [|x [|y [|z r]]]; try discriminate U.
  cbn in U.
  destruct (convert c0 x) as [g|e] eqn:Cx; [|discriminate U].
  assert (Hg : exists s, g = GStr s \/ g = GBytes s).
  { destruct c0; try discriminate T; destruct x; simpl in Cx; try discriminate Cx;
      inversion Cx; eauto. }
  destruct (as_int y) as [gi|e] eqn:Cy; [|discriminate U].
  destruct y; simpl in Cy; try discriminate Cy; inversion Cy; subst gi; cbn in U;
    inversion U; subst a; eexists; eexists; (split; [exact Hg|reflexivity]).
Qed.

(* with the checks in place the wrapper never lets strings.Repeat / bytes.Repeat panic *)
Lemma mk_repeat_total : forall name callee c0 ret b args,
  text_conv c0 = true -> (0 <= b < 2 ^ 40)%Z ->
  exists o, run_wrapper go_repeat (mk_repeat name callee c0 ret b) args = Ret o.
Proof.
  intros name callee c0 ret b args T B. apply wrapper_total_guarded.
  intros a t U G.
  destruct (mk_repeat_unpack _ _ _ _ _ _ _ T U) as [g [n [[s Hs] P]]].
  rewrite P in *. unfold guards_pass in G. cbn in G.
  assert (Hlen : glen g = Some (Z.of_nat (List.length s))) by (destruct Hs; subst g; reflexivity).
  rewrite Hlen in G.
  apply negb_true_iff in G. apply orb_false_iff in G. destruct G as [G1 G2].
  apply orb_false_iff in G2. destruct G2 as [G2 _].
  apply Z.ltb_ge in G1.
  assert (Hsafe : repeat_panics s n = false).
  { unfold repeat_panics. apply orb_false_iff. split; [apply Z.ltb_ge; assumption|].
    apply Z.leb_gt.
    destruct (0 <? Z.of_nat (List.length s))%Z eqn:K.
    - simpl in G2. apply Z.ltb_ge in G2. apply Z.ltb_lt in K.
      assert (Z.of_nat (List.length s) * n <= b)%Z; [|lia].
      transitivity (Z.of_nat (List.length s) * (b / Z.of_nat (List.length s)))%Z.
      + apply Z.mul_le_mono_nonneg_l; lia.
      + apply Z.mul_div_le. assumption.
    - apply Z.ltb_ge in K. assert (Z.of_nat (List.length s) = 0)%Z as -> by lia. lia. }
  destruct Hs; subst g; cbn; rewrite Hsafe; discriminate.
Qed.

(* a negative count is answered with an error object, whatever the Go function would do *)
Lemma mk_repeat_negative : forall (F : string -> list gval -> gret) name callee c0 ret b x g n,
  convert c0 x = Ok g -> (n < 0)%Z ->
  run_wrapper F (mk_repeat name callee c0 ret b) [x; OInt n] = Ret (OErr EValue).
Proof.
  intros F name callee c0 ret b x g n C N.
  unfold run_wrapper, unpack. cbn. rewrite C. cbn.
  unfold guards_pass. cbn. apply Z.ltb_lt in N. rewrite N. reflexivity.
Qed.
