(* Proofs about the Go <-> script conversion model (C08). *)
From Coq Require Import List Bool Arith NArith ZArith Lia.
Require Import RV.model.Conv.
Import ListNotations.
Local Open Scope Z_scope.

(* ---------- integer conversions ---------- *)

Lemma in_range_spec k z : in_range k z = true <-> ik_min k <= z <= ik_max k.
Proof. unfold in_range. rewrite andb_true_iff, !Z.leb_le. tauto. Qed.

Lemma mod_unsigned m x y : 0 < m -> 0 <= x < m -> (exists q, y = x + q * m) -> y mod m = x.
Proof. intros Hm Hx (q & ->). rewrite Z.mod_add by lia. apply Z.mod_small; lia. Qed.

Lemma mod_signed h x y : 0 < h -> - h <= x < h -> (exists q, y = x + q * (2 * h)) ->
  (if y mod (2 * h) <? h then y mod (2 * h) else y mod (2 * h) - 2 * h) = x.
Proof.
  intros Hh Hx (q & ->). rewrite Z.mod_add by lia.
  destruct (Z_lt_le_dec x 0) as [Hn|Hp].
  - assert (E : x mod (2 * h) = x + 2 * h).
    { replace x with ((x + 2 * h) + (-1) * (2 * h)) at 1 by lia. rewrite Z.mod_add by lia. apply Z.mod_small; lia. }
    rewrite E. destruct (x + 2 * h <? h) eqn:L; [apply Z.ltb_lt in L; lia|lia].
  - rewrite Z.mod_small by lia. destruct (x <? h) eqn:L; [reflexivity|apply Z.ltb_ge in L; lia].
Qed.

(* wrap k y is the representative of y modulo 2^bits in the range of k *)
Lemma wrap_unique k x y : in_range k x = true -> (exists q, y = x + q * 2 ^ ik_bits k) -> wrap k y = x.
Proof.
  intros H Hq. apply in_range_spec in H. unfold ik_min, ik_max in H. unfold wrap.
  destruct (ik_signed k) eqn:S.
  - assert (E : 2 ^ ik_bits k = 2 * 2 ^ (ik_bits k - 1)).
    { rewrite <- Z.pow_succ_r by (destruct k; cbn; lia). f_equal. lia. }
    rewrite E in *. rewrite Z.mul_comm, Z.div_mul by lia. rewrite Z.mul_comm.
    apply mod_signed; [apply Z.pow_pos_nonneg; [lia|destruct k; cbn; lia]|lia|].
    destruct Hq as (q & ->). exists q. lia.
  - apply mod_unsigned; [apply Z.pow_pos_nonneg; [lia|destruct k; cbn; lia]|lia|exact Hq].
Qed.

Lemma wrap_cong k z : exists q, wrap k z = z + q * 2 ^ ik_bits k.
Proof.
  unfold wrap. set (m := 2 ^ ik_bits k).
  assert (Hm : 0 < m) by (apply Z.pow_pos_nonneg; [lia|destruct k; cbn; lia]).
  pose proof (Z_div_mod_eq_full z m) as E.
  destruct (ik_signed k); [destruct (z mod m <? m / 2)|].
  - exists (- (z / m)). lia.
  - exists (- (z / m) - 1). lia.
  - exists (- (z / m)). lia.
Qed.

(* T(int64(x)) = x for every x of type T: what a Go integer becomes in the script converts back to itself *)
Lemma wrap_wrap64 k z : in_range k z = true -> wrap k (wrap64 z) = z.
Proof.
  intros H. apply wrap_unique; [exact H|].
  destruct (wrap_cong KInt64 z) as (q & E). unfold wrap64. rewrite E. cbn [ik_bits].
  exists (q * 2 ^ (64 - ik_bits k)).
  replace (2 ^ 64) with (2 ^ (64 - ik_bits k) * 2 ^ ik_bits k).
  - lia.
  - rewrite <- Z.pow_add_r by (destruct k; cbn; lia). f_equal. lia.
Qed.

Lemma wrap_in_range k z : in_range k z = true -> wrap k z = z.
Proof. intros H. apply wrap_unique; [exact H|]. exists 0. lia. Qed.

(* the script sees the Go integer itself unless it is an unsigned 64-bit value above MaxInt64 *)
Lemma wrap64_small k z : in_range k z = true -> z <= 2 ^ 63 - 1 -> wrap64 z = z.
Proof.
  intros H Hs. apply wrap_in_range. apply in_range_spec in H. apply in_range_spec.
  unfold ik_min, ik_max in *. cbn [ik_signed ik_bits].
  destruct k; cbn [ik_signed ik_bits] in H;
    change (2 ^ (8 - 1)) with 128 in H; change (2 ^ (16 - 1)) with 32768 in H; change (2 ^ (32 - 1)) with 2147483648 in H;
    change (2 ^ (64 - 1)) with 9223372036854775808 in *; change (2 ^ 63) with 9223372036854775808 in Hs; lia.
Qed.

(* ---------- typing of Go values, the guarded class ---------- *)

Definition not_structlike (t : gotype) : bool := match t with TStruct _ _ | TTime => false | _ => true end.

(* unnamed types built from the scalars with pointer, slice, array and map[string]: no declared types *)
Fixpoint plain_type (t : gotype) : bool :=
  match t with
  | TBool | TInt _ | TFloat32 | TFloat64 | TString | TTime => true
  | TPtr x => plain_type x && not_structlike x
  | TSlice x | TMap x | TArray _ x => plain_type x
  | _ => false
  end.

Fixpoint wt (t : gotype) (v : goval) {struct t} : bool :=
  match t, v with
  | TBool, GBool _ => true
  | TInt k, GInt z => in_range k z
  | TFloat32, GFloat b => is_f32 b
  | TFloat64, GFloat _ => true
  | TString, GStr _ => true
  | TTime, GTime _ => true
  | TPtr x, GNil => true
  | TPtr x, GBox y => wt x y
  | TSlice x, GNil => true
  | TSlice x, GSlice l => forallb (wt x) l
  | TArray n x, GArray l => Nat.eqb (length l) n && forallb (wt x) l
  | TMap x, GNil => true
  | TMap x, GMap m => forallb (fun kv => wt x (snd kv)) m
  | _, _ => false
  end.

Definition is_nil (v : goval) : bool := match v with GNil => true | _ => false end.
Definition is_ptr (t : gotype) : bool := match t with TPtr _ => true | _ => false end.

(* no pointer to a nil pointer anywhere inside (pointers are transparent in the script: such a pointer reads as nil) *)
Fixpoint solid (t : gotype) (v : goval) {struct t} : bool :=
  match t, v with
  | TPtr x, GBox y => solid x y && negb (is_ptr x && is_nil y)
  | TSlice x, GSlice l => forallb (solid x) l
  | TArray _ x, GArray l => forallb (solid x) l
  | TMap x, GMap m => forallb (fun kv => solid x (snd kv)) m
  | _, _ => true
  end.

Definition raw_slice (et : gotype) : bool := match et with TInt KUint8 | TFloat64 => true | _ => false end.

(* what a value looks like after a trip through the script: nil slices and maps come back empty (a nil []byte or
   []float64 stays nil: the script object wraps the Go slice itself) *)
Fixpoint norm (t : gotype) (v : goval) {struct t} : goval :=
  match t, v with
  | TSlice x, GNil => if raw_slice x then GNil else GSlice []
  | TSlice x, GSlice l => if raw_slice x then v else GSlice (map (norm x) l)
  | TMap x, GNil => GMap []
  | TMap x, GMap m => GMap (map (fun kv => (fst kv, norm x (snd kv))) m)
  | TArray n x, GArray l => GArray (map (norm x) l)
  | TPtr x, GBox y => GBox (norm x y)
  | _, _ => v
  end.

Fixpoint tdepth (t : gotype) : nat :=
  match t with TPtr x | TSlice x | TArray _ x | TMap x => S (tdepth x) | _ => O end.

Fixpoint mapM {A B} (f : A -> res B) (l : list A) : res (list B) :=
  match l with
  | [] => Ok []
  | x :: r => do o <- f x ;; do os <- mapM f r ;; Ok (o :: os)
  end.

Lemma mapM_ok {A B} (f : A -> res B) (g : A -> B) l :
  (forall x, In x l -> f x = Ok (g x)) -> mapM f l = Ok (map g l).
Proof.
  induction l as [|x r IH]; intros H; [reflexivity|].
  cbn. rewrite (H x) by (left; reflexivity). cbn. rewrite IH by (intros y Hy; apply H; right; exact Hy). reflexivity.
Qed.

(* ---------- unfolding lemmas for the nested loops of from_go ---------- *)

Lemma from_go_slice d et l : raw_slice et = false ->
  from_go d (TSlice et) (GSlice l) = (do os <- mapM (from_go false et) l ;; Ok (RList os)).
Proof.
  intros H.
  assert (E : forall l, (fix elems (et : gotype) (l : list goval) {struct l} : res (list robj) :=
                  match l with
                  | [] => Ok []
                  | x :: r => do o <- from_go false et x;; do os <- elems et r;; Ok (o :: os)
                  end) et l = mapM (from_go false et) l).
  { induction l0 as [|x r IH]; [reflexivity|]. cbn [mapM]. rewrite <- IH. reflexivity. }
  destruct et as [|k| | | | |id u|x|x|n x|x|id fs|]; try destruct k; try discriminate H; cbn [from_go]; rewrite E; reflexivity.
Qed.

Lemma from_go_array d n et l :
  from_go d (TArray n et) (GArray l) = (do os <- mapM (from_go false et) l ;; Ok (RList os)).
Proof.
  assert (E : forall l, (fix elems (et : gotype) (l : list goval) {struct l} : res (list robj) :=
                  match l with
                  | [] => Ok []
                  | x :: r => do o <- from_go false et x;; do os <- elems et r;; Ok (o :: os)
                  end) et l = mapM (from_go false et) l).
  { induction l0 as [|x r IH]; [reflexivity|]. cbn [mapM]. rewrite <- IH. reflexivity. }
  cbn [from_go]. rewrite E. reflexivity.
Qed.

Lemma from_go_map d et m :
  from_go d (TMap et) (GMap m) =
  (do os <- mapM (fun kv => do o <- from_go false et (snd kv) ;; Ok (fst kv, o)) m ;; Ok (RMap os)).
Proof.
  assert (E : forall m, (fix entries (et : gotype) (m : list (str * goval)) {struct m} : res (list (str * robj)) :=
                  match m with
                  | [] => Ok []
                  | (k, x) :: r => do o <- from_go false et x;; do os <- entries et r;; Ok ((k, o) :: os)
                  end) et m = mapM (fun kv => do o <- from_go false et (snd kv) ;; Ok (fst kv, o)) m).
  { induction m0 as [|[k x] r IH]; [reflexivity|]. cbn [mapM fst snd]. rewrite <- IH.
    destruct (from_go false et x); reflexivity. }
  cbn [from_go]. rewrite E. reflexivity.
Qed.

(* ---------- From never fails on well-typed values of unnamed types ---------- *)

Lemma from_total t : plain_type t = true -> forall d v, wt t v = true -> exists o, from_go d t v = Ok o.
Proof.
  induction t as [|k| | | | |id u IHu|x IHx|x IHx|n x IHx|x IHx|id fs|]; intros Hp d v Hw; try discriminate Hp.
  - destruct v; try discriminate Hw. eexists; reflexivity.
  - destruct v; try discriminate Hw. destruct k; cbn; try (eexists; reflexivity). destruct d; eexists; reflexivity.
  - destruct v; try discriminate Hw. eexists; reflexivity.
  - destruct v; try discriminate Hw. eexists; reflexivity.
  - destruct v; try discriminate Hw. eexists; reflexivity.
  - destruct v; try discriminate Hw. eexists; reflexivity.
  - (* pointer *)
    cbn [plain_type] in Hp. apply andb_true_iff in Hp. destruct Hp as (Hp & Hs).
    destruct v; try discriminate Hw.
    + destruct x; try discriminate Hs; eexists; reflexivity.
    + cbn [wt] in Hw. destruct (IHx Hp false v Hw) as (o & E).
      exists o. destruct x; try discriminate Hs; cbn [from_go]; exact E.
  - (* slice *)
    cbn [plain_type] in Hp. destruct v; try discriminate Hw.
    + destruct x; try destruct k; cbn; eexists; reflexivity.
    + cbn [wt] in Hw. destruct (raw_slice x) eqn:R.
      * destruct x; try destruct k; try discriminate R; cbn [from_go].
        -- assert (exists bs, all_bytes l = Some bs) as (bs & ->).
           { induction l as [|y r IH]; [eexists; reflexivity|]. cbn [forallb] in Hw. apply andb_true_iff in Hw.
             destruct Hw as (Hy & Hr). destruct (IH Hr) as (bs & Eb). destruct y; try discriminate Hy.
             cbn. unfold all_bytes in Eb. rewrite Eb. eexists; reflexivity. }
           eexists; reflexivity.
        -- assert (exists bs, all_floats l = Some bs) as (bs & ->).
           { induction l as [|y r IH]; [eexists; reflexivity|]. cbn [forallb] in Hw. apply andb_true_iff in Hw.
             destruct Hw as (Hy & Hr). destruct (IH Hr) as (bs & Eb). destruct y; try discriminate Hy.
             cbn. unfold all_floats in Eb. rewrite Eb. eexists; reflexivity. }
           eexists; reflexivity.
      * rewrite from_go_slice by exact R.
        assert (exists os, mapM (from_go false x) l = Ok os) as (os & ->).
        { induction l as [|y r IH]; [eexists; reflexivity|]. cbn [forallb] in Hw. apply andb_true_iff in Hw.
          destruct Hw as (Hy & Hr). destruct (IH Hr) as (os & Eo). destruct (IHx Hp false y Hy) as (o & Ey).
          cbn. rewrite Ey. cbn. rewrite Eo. eexists; reflexivity. }
        eexists; reflexivity.
  - (* array *)
    cbn [plain_type] in Hp. destruct v; try discriminate Hw. cbn [wt] in Hw. apply andb_true_iff in Hw. destruct Hw as (_ & Hw).
    rewrite from_go_array.
    assert (exists os, mapM (from_go false x) l = Ok os) as (os & ->).
    { induction l as [|y r IH]; [eexists; reflexivity|]. cbn [forallb] in Hw. apply andb_true_iff in Hw.
      destruct Hw as (Hy & Hr). destruct (IH Hr) as (os & Eo). destruct (IHx Hp false y Hy) as (o & Ey).
      cbn. rewrite Ey. cbn. rewrite Eo. eexists; reflexivity. }
    eexists; reflexivity.
  - (* map *)
    cbn [plain_type] in Hp. destruct v; try discriminate Hw.
    + eexists; reflexivity.
    + cbn [wt] in Hw. rewrite from_go_map.
      assert (exists os, mapM (fun kv => do o <- from_go false x (snd kv) ;; Ok (fst kv, o)) m = Ok os) as (os & ->).
      { induction m as [|[k y] r IH]; [eexists; reflexivity|]. cbn [forallb snd] in Hw. apply andb_true_iff in Hw.
        destruct Hw as (Hy & Hr). destruct (IH Hr) as (os & Eo). destruct (IHx Hp false y Hy) as (o & Ey).
        cbn. rewrite Ey. cbn. rewrite Eo. eexists; reflexivity. }
      eexists; reflexivity.
Qed.

(* ---------- unfolding lemmas for the nested loops of to_go ---------- *)

Lemma type_eqb_refl t : type_eqb t t = true.
Proof.
  induction t as [|k| | | | |id u IHu|x IHx|x IHx|n x IHx|x IHx|id fs|]; cbn; try reflexivity; try assumption.
  - destruct k; reflexivity.
  - apply N.eqb_refl.
  - rewrite Nat.eqb_refl. exact IHx.
  - apply N.eqb_refl.
Qed.

Lemma assignable_refl t : assignable t t = true.
Proof. unfold assignable. rewrite type_eqb_refl. reflexivity. Qed.

Lemma place_same t v : t <> TIface -> place t (Some (t, v)) = Ok v.
Proof. intros H. unfold place. rewrite assignable_refl. destruct t; try reflexivity. contradiction. Qed.

Definition conv_elem (h : heap) (f : nat) (et : gotype) (x : robj) : res goval :=
  do tvx <- to_go h f false et x ;; match tvx with None => Ok (zero et) | Some _ => place et tvx end.

Lemma elems_mapM h f et l :
  (fix elems (et : gotype) (l : list robj) {struct l} : res (list goval) :=
     match l with
     | [] => Ok []
     | x :: r => do tvx <- to_go h f false et x;;
                 do g <- match tvx with
                         | Some _ => place et tvx
                         | None => Ok (zero et)
                         end;; do gs <- elems et r;; Ok (g :: gs)
     end) et l = mapM (conv_elem h f et) l.
Proof.
  induction l as [|x r IH]; [reflexivity|]. cbn [mapM]. rewrite <- IH. unfold conv_elem.
  destruct (to_go h f false et x) as [[tvx|]| | |]; reflexivity.
Qed.

Lemma to_go_slice h f d et l : raw_slice et = false ->
  to_go h (S f) d (TSlice et) (RList l) = (do gs <- mapM (conv_elem h f et) l ;; Ok (Some (TSlice et, GSlice gs))).
Proof.
  intros H. cbn [to_go under].
  destruct et as [|k| | | | |id u|x|x|n x|x|id fs|]; try destruct k; try discriminate H; rewrite elems_mapM; reflexivity.
Qed.

Lemma to_go_array h f d n et l :
  to_go h (S f) d (TArray n et) (RList l) =
  (if Nat.ltb n (length l) then Err
   else do gs <- mapM (conv_elem h f et) l ;; Ok (Some (TArray n et, GArray (gs ++ repeat (zero et) (n - length l))))).
Proof. cbn [to_go under]. rewrite elems_mapM. reflexivity. Qed.

Definition conv_entry (h : heap) (f : nat) (et : gotype) (kv : str * robj) : res (str * goval) :=
  do tvx <- to_go h f false et (snd kv) ;;
  do g <- (match tvx with None => Ok (zero et) | Some _ => place et tvx end) ;; Ok (fst kv, g).

Lemma to_go_map h f d et m :
  to_go h (S f) d (TMap et) (RMap m) = (do gs <- mapM (conv_entry h f et) m ;; Ok (Some (TMap et, GMap gs))).
Proof.
  assert (E : forall m, (fix entries (et : gotype) (m : list (str * robj)) {struct m} : res (list (str * goval)) :=
        match m with
        | [] => Ok []
        | (k, x) :: r =>
            do tvx <- to_go h f false et x;;
            do g <- match tvx with
                    | Some _ => place et tvx
                    | None => Ok (zero et)
                    end;; do gs <- entries et r;; Ok ((k, g) :: gs)
        end) et m = mapM (conv_entry h f et) m).
  { induction m0 as [|[k x] r IH]; [reflexivity|]. cbn [mapM]. unfold conv_entry at 1. cbn [fst snd].
    destruct (to_go h f false et x) as [[tvx|]| | |]; cbn [bind]; try reflexivity.
    - destruct (place et (Some tvx)); cbn [bind]; try reflexivity. rewrite IH. reflexivity.
    - rewrite IH. reflexivity. }
  cbn [to_go under]. rewrite E. reflexivity.
Qed.

(* ---------- round trip: Go -> script -> Go ---------- *)

Lemma all_bytes_spec l bs : all_bytes l = Some bs -> map GInt bs = l.
Proof.
  revert bs; induction l as [|y r IH]; intros bs H; cbn in H.
  - injection H as <-. reflexivity.
  - destruct y; try discriminate H. fold (all_bytes r) in H. destruct (all_bytes r) as [bs'|]; [|discriminate H].
    injection H as <-. cbn. rewrite (IH bs' eq_refl). reflexivity.
Qed.
Lemma all_floats_spec l bs : all_floats l = Some bs -> map GFloat bs = l.
Proof.
  revert bs; induction l as [|y r IH]; intros bs H; cbn in H.
  - injection H as <-. reflexivity.
  - destruct y; try discriminate H. fold (all_floats r) in H. destruct (all_floats r) as [bs'|]; [|discriminate H].
    injection H as <-. cbn. rewrite (IH bs' eq_refl). reflexivity.
Qed.

Lemma plain_not_iface t : plain_type t = true -> t <> TIface.
Proof. intros H E. subst t. discriminate H. Qed.

(* only a nil pointer becomes nil in the script *)
Lemma from_solid_nonnil t : plain_type t = true -> forall d v o,
  wt t v = true -> solid t v = true -> is_ptr t && is_nil v = false -> from_go d t v = Ok o -> o <> RNil.
Proof.
  induction t as [|k| | | | |id u IHu|x IHx|x IHx|n x IHx|x IHx|id fs|]; intros Hp d v o Hw Hs Hn E; try discriminate Hp.
  - destruct v; try discriminate Hw. cbn in E. injection E as <-. discriminate.
  - destruct v; try discriminate Hw. destruct k; cbn in E; try (injection E as <-; discriminate).
    destruct d; injection E as <-; discriminate.
  - destruct v; try discriminate Hw. cbn in E. injection E as <-. discriminate.
  - destruct v; try discriminate Hw. cbn in E. injection E as <-. discriminate.
  - destruct v; try discriminate Hw. cbn in E. injection E as <-. discriminate.
  - destruct v; try discriminate Hw. cbn in E. injection E as <-. discriminate.
  - cbn [plain_type] in Hp. apply andb_true_iff in Hp. destruct Hp as (Hp & Hns).
    destruct v; try discriminate Hw; try discriminate Hn. cbn [wt solid] in *.
    apply andb_true_iff in Hs. destruct Hs as (Hs & Hnn). apply negb_true_iff in Hnn.
    assert (E' : from_go false x v = Ok o) by (destruct x; try discriminate Hns; cbn [from_go] in E; exact E).
    exact (IHx Hp false v o Hw Hs Hnn E').
  - cbn [plain_type] in Hp. destruct v; try discriminate Hw.
    + destruct x; try destruct k; cbn in E; injection E as <-; discriminate.
    + destruct (raw_slice x) eqn:R.
      * destruct x; try destruct k; try discriminate R; cbn [from_go] in E.
        -- destruct (all_bytes l); [injection E as <-; discriminate|discriminate E].
        -- destruct (all_floats l); [injection E as <-; discriminate|discriminate E].
      * rewrite from_go_slice in E by exact R. destruct (mapM (from_go false x) l); try discriminate E.
        injection E as <-. discriminate.
  - destruct v; try discriminate Hw. rewrite from_go_array in E. destruct (mapM (from_go false x) l); try discriminate E.
    injection E as <-. discriminate.
  - destruct v; try discriminate Hw.
    + cbn in E. injection E as <-. discriminate.
    + rewrite from_go_map in E. destruct (mapM _ m); try discriminate E. injection E as <-. discriminate.
Qed.

(* the converter's result for a value that came from Go: a nil pointer converts to "no value" (the caller stores
   the zero value), everything else to a value of exactly the original type *)
Definition tv_of (t : gotype) (v : goval) : tv := if is_ptr t && is_nil v then None else Some (t, norm t v).

Lemma zero_ptr_norm t v : is_ptr t && is_nil v = true -> zero t = norm t v.
Proof. destruct t; try discriminate. destruct v; try discriminate. reflexivity. Qed.

Lemma conv_elem_of h f et x y : et <> TIface -> to_go h f false et x = Ok (tv_of et y) -> conv_elem h f et x = Ok (norm et y).
Proof.
  intros Hi E. unfold conv_elem. rewrite E. cbn [bind]. unfold tv_of. destruct (is_ptr et && is_nil y) eqn:B.
  - rewrite (zero_ptr_norm et y B). reflexivity.
  - apply place_same. exact Hi.
Qed.

Theorem roundtrip t : plain_type t = true -> forall h fuel d v o,
  wt t v = true -> solid t v = true -> from_go d t v = Ok o -> (tdepth t < fuel)%nat ->
  to_go h fuel false t o = Ok (tv_of t v).
Proof.
  induction t as [|k| | | | |id u IHu|x IHx|x IHx|n x IHx|x IHx|id fs|]; intros Hp h fuel d v o Hw Hs E Hf; try discriminate Hp;
    (destruct fuel as [|f]; [lia|]).
  - destruct v; try discriminate Hw. cbn in E. injection E as <-. reflexivity.
  - destruct v; try discriminate Hw. cbn [wt] in Hw.
    assert (Ew : forall o', (o' = RInt (wrap64 z) \/ (k = KUint8 /\ (o' = RInt z \/ o' = RByte z))) ->
                 to_go h (S f) false (TInt k) o' = Ok (Some (TInt k, GInt z))).
    { intros o' [->|(-> & [->| ->])]; cbn [to_go under to_int].
      - rewrite wrap_wrap64 by exact Hw. reflexivity.
      - rewrite wrap_in_range by exact Hw. reflexivity.
      - rewrite wrap_in_range by exact Hw. reflexivity. }
    unfold tv_of. cbn [is_ptr andb norm]. apply Ew. destruct k; cbn in E; try (injection E as <-; left; reflexivity).
    destruct d; injection E as <-; right; (split; [reflexivity|]); [left|right]; reflexivity.
  - destruct v; try discriminate Hw. cbn [wt] in Hw. cbn in E. injection E as <-.
    cbn [to_go under to_float]. rewrite Hw. reflexivity.
  - destruct v; try discriminate Hw. cbn in E. injection E as <-. reflexivity.
  - destruct v; try discriminate Hw. cbn in E. injection E as <-. reflexivity.
  - destruct v; try discriminate Hw. cbn in E. injection E as <-. reflexivity.
  - (* pointer *)
    cbn [plain_type] in Hp. apply andb_true_iff in Hp. destruct Hp as (Hp & Hn).
    destruct v; try discriminate Hw.
    + (* nil pointer *)
      assert (o = RNil) as -> by (destruct x; try discriminate Hn; cbn in E; injection E as <-; reflexivity).
      destruct x; try discriminate Hn; reflexivity.
    + cbn [wt solid norm tdepth] in *. apply andb_true_iff in Hs. destruct Hs as (Hs & Hnn). apply negb_true_iff in Hnn.
      assert (E' : from_go false x v = Ok o) by (destruct x; try discriminate Hn; cbn [from_go] in E; exact E).
      pose proof (from_solid_nonnil x Hp false v o Hw Hs Hnn E') as Hne.
      pose proof (IHx Hp h f false v o Hw Hs E' ltac:(lia)) as IH. unfold tv_of in IH. rewrite Hnn in IH.
      unfold tv_of. cbn [is_ptr is_nil andb norm].
      destruct x; try discriminate Hn; cbn [to_go under]; (destruct o; try contradiction (Hne eq_refl)); rewrite IH; reflexivity.
  - (* slice *)
    cbn [plain_type tdepth] in *. unfold tv_of. cbn [is_ptr andb]. destruct v; try discriminate Hw.
    + (* nil slice *)
      cbn [norm]. destruct (raw_slice x) eqn:R.
      * destruct x; try destruct k; try discriminate R; cbn in E; injection E as <-; reflexivity.
      * assert (o = RList []) as -> by (destruct x; try destruct k; try discriminate R; cbn in E; injection E as <-; reflexivity).
        rewrite to_go_slice by exact R. reflexivity.
    + cbn [wt solid norm] in *. destruct (raw_slice x) eqn:R.
      * destruct x; try destruct k; try discriminate R; cbn [from_go] in E.
        -- destruct (all_bytes l) as [bs|] eqn:Eb; [|discriminate E]. injection E as <-.
           cbn [to_go under]. rewrite (all_bytes_spec l bs Eb). reflexivity.
        -- destruct (all_floats l) as [bs|] eqn:Eb; [|discriminate E]. injection E as <-.
           cbn [to_go under]. rewrite (all_floats_spec l bs Eb). reflexivity.
      * rewrite from_go_slice in E by exact R.
        destruct (mapM (from_go false x) l) as [os| | |] eqn:Em; try discriminate E. injection E as <-.
        rewrite to_go_slice by exact R.
        assert (Eg : mapM (conv_elem h f x) os = Ok (map (norm x) l)).
        { revert os Em. induction l as [|y r IHl]; intros os Em.
          - cbn in Em. injection Em as <-. reflexivity.
          - cbn [forallb] in Hw, Hs. apply andb_true_iff in Hw, Hs. destruct Hw as (Hy & Hr). destruct Hs as (Sy & Sr).
            cbn [mapM] in Em. destruct (from_go false x y) as [oy| | |] eqn:Ey; try discriminate Em. cbn [bind] in Em.
            destruct (mapM (from_go false x) r) as [or| | |] eqn:Er; try discriminate Em. injection Em as <-.
            cbn [mapM map].
            rewrite (conv_elem_of h f x oy y (plain_not_iface x Hp) (IHx Hp h f false y oy Hy Sy Ey ltac:(lia))). cbn [bind].
            rewrite (IHl Hr Sr or eq_refl). reflexivity. }
        rewrite Eg. reflexivity.
  - (* array *)
    cbn [plain_type tdepth] in *. unfold tv_of. cbn [is_ptr andb]. destruct v; try discriminate Hw. cbn [wt solid norm] in *.
    apply andb_true_iff in Hw. destruct Hw as (Hlen & Hw). apply Nat.eqb_eq in Hlen.
    rewrite from_go_array in E.
    destruct (mapM (from_go false x) l) as [os| | |] eqn:Em; try discriminate E. injection E as <-.
    rewrite to_go_array.
    assert (Eg : mapM (conv_elem h f x) os = Ok (map (norm x) l) /\ length os = length l).
    { clear Hlen. revert os Em. induction l as [|y r IHl]; intros os Em.
      - cbn in Em. injection Em as <-. split; reflexivity.
      - cbn [forallb] in Hw, Hs. apply andb_true_iff in Hw, Hs. destruct Hw as (Hy & Hr). destruct Hs as (Sy & Sr).
        cbn [mapM] in Em. destruct (from_go false x y) as [oy| | |] eqn:Ey; try discriminate Em. cbn [bind] in Em.
        destruct (mapM (from_go false x) r) as [or| | |] eqn:Er; try discriminate Em. injection Em as <-.
        cbn [mapM map length].
        rewrite (conv_elem_of h f x oy y (plain_not_iface x Hp) (IHx Hp h f false y oy Hy Sy Ey ltac:(lia))). cbn [bind].
        destruct (IHl Hr Sr or eq_refl) as (E1 & E2). rewrite E1, E2. split; reflexivity. }
    destruct Eg as (E1 & E2). rewrite E2, Hlen, Nat.ltb_irrefl, E1. cbn [bind]. rewrite Nat.sub_diag. cbn [repeat].
    rewrite app_nil_r. reflexivity.
  - (* map *)
    cbn [plain_type tdepth] in *. unfold tv_of. cbn [is_ptr andb]. destruct v; try discriminate Hw.
    + cbn in E. injection E as <-. cbn [norm]. rewrite to_go_map. reflexivity.
    + cbn [wt solid norm] in *. rewrite from_go_map in E.
      destruct (mapM _ m) as [os| | |] eqn:Em; try discriminate E. injection E as <-.
      rewrite to_go_map.
      assert (Eg : mapM (conv_entry h f x) os = Ok (map (fun kv => (fst kv, norm x (snd kv))) m)).
      { revert os Em. induction m as [|[ky y] r IHl]; intros os Em.
        - cbn in Em. injection Em as <-. reflexivity.
        - cbn [forallb snd] in Hw, Hs. apply andb_true_iff in Hw, Hs. destruct Hw as (Hy & Hr). destruct Hs as (Sy & Sr).
          cbn [mapM fst snd] in Em. destruct (from_go false x y) as [oy| | |] eqn:Ey; try discriminate Em. cbn [bind] in Em.
          destruct (mapM _ r) as [or| | |] eqn:Er; try discriminate Em. injection Em as <-.
          cbn [mapM map fst snd]. unfold conv_entry at 1. cbn [fst snd].
          pose proof (conv_elem_of h f x oy y (plain_not_iface x Hp) (IHx Hp h f false y oy Hy Sy Ey ltac:(lia))) as Ce.
          unfold conv_elem in Ce. destruct (to_go h f false x oy) as [tvx| | |]; try discriminate Ce. cbn [bind] in *.
          rewrite Ce. cbn [bind]. rewrite (IHl Hr Sr or eq_refl). reflexivity. }
      rewrite Eg. reflexivity.
Qed.

(* a value that made the round trip reads the same in the script *)
Lemma from_norm t : plain_type t = true -> forall d v, wt t v = true -> from_go d t (norm t v) = from_go d t v.
Proof.
  induction t as [|k| | | | |id u IHu|x IHx|x IHx|n x IHx|x IHx|id fs|]; intros Hp d v Hw; try discriminate Hp;
    try (destruct v; reflexivity).
  - (* pointer *)
    cbn [plain_type] in Hp. apply andb_true_iff in Hp. destruct Hp as (Hp & Hn).
    destruct v; try discriminate Hw; try reflexivity. cbn [norm wt] in *.
    destruct x; try discriminate Hn; cbn [from_go]; apply IHx; assumption.
  - (* slice *)
    cbn [plain_type] in Hp. destruct v; try discriminate Hw; cbn [norm wt] in *.
    + destruct (raw_slice x) eqn:R; [reflexivity|].
      rewrite from_go_slice by exact R. destruct x; try destruct k; try discriminate R; reflexivity.
    + destruct (raw_slice x) eqn:R; [reflexivity|]. rewrite !from_go_slice by exact R.
      assert (E : mapM (from_go false x) (map (norm x) l) = mapM (from_go false x) l).
      { induction l as [|y r IH]; [reflexivity|]. cbn [forallb] in Hw. apply andb_true_iff in Hw. destruct Hw as (Hy & Hr).
        cbn [map mapM]. rewrite (IHx Hp false y Hy), (IH Hr). reflexivity. }
      rewrite E. reflexivity.
  - (* array *)
    cbn [plain_type] in Hp. destruct v; try discriminate Hw; cbn [norm wt] in *.
    apply andb_true_iff in Hw. destruct Hw as (_ & Hw). rewrite !from_go_array.
    assert (E : mapM (from_go false x) (map (norm x) l) = mapM (from_go false x) l).
    { induction l as [|y r IH]; [reflexivity|]. cbn [forallb] in Hw. apply andb_true_iff in Hw. destruct Hw as (Hy & Hr).
      cbn [map mapM]. rewrite (IHx Hp false y Hy), (IH Hr). reflexivity. }
    rewrite E. reflexivity.
  - (* map *)
    cbn [plain_type] in Hp. destruct v; try discriminate Hw; cbn [norm wt] in *.
    + rewrite from_go_map. reflexivity.
    + rewrite !from_go_map.
      assert (E : mapM (fun kv => do o <- from_go false x (snd kv);; Ok (fst kv, o)) (map (fun kv => (fst kv, norm x (snd kv))) m)
                  = mapM (fun kv => do o <- from_go false x (snd kv);; Ok (fst kv, o)) m).
      { induction m as [|[ky y] r IH]; [reflexivity|]. cbn [forallb snd] in Hw. apply andb_true_iff in Hw. destruct Hw as (Hy & Hr).
        cbn [map mapM fst snd]. rewrite (IHx Hp false y Hy), (IH Hr). reflexivity. }
      rewrite E. reflexivity.
Qed.

(* ---------- the heap ---------- *)

Lemma nth_error_set_nth {A} (l : list A) i x y : nth_error l i = Some x -> nth_error (set_nth l i y) i = Some y.
Proof.
  revert i; induction l as [|a r IH]; intros i H; destruct i; cbn in *; try discriminate H; [reflexivity|].
  apply IH. exact H.
Qed.

Lemma get_set_path p : forall v x v', set_path v p x = Some v' -> get_path v' p = Some x.
Proof.
  induction p as [|i r IH]; intros v x v' H; cbn in H.
  - injection H as <-. reflexivity.
  - destruct v; try discriminate H.
    + destruct v; try discriminate H.
      destruct (nth_error fs i) as [f|] eqn:En; [|discriminate H].
      destruct (set_path f r x) as [f'|] eqn:Es; [|discriminate H]. injection H as <-.
      cbn. rewrite (nth_error_set_nth fs i f f' En). exact (IH f x f' Es).
    + destruct (nth_error fs i) as [f|] eqn:En; [|discriminate H].
      destruct (set_path f r x) as [f'|] eqn:Es; [|discriminate H]. injection H as <-.
      cbn. rewrite (nth_error_set_nth fs i f f' En). exact (IH f x f' Es).
Qed.

Lemma heap_get_set h c p x h' : heap_set h c p x = Some h' -> heap_get h' c p = Some x.
Proof.
  unfold heap_set, heap_get. destruct (nth_error h c) as [v|] eqn:En; [|discriminate].
  destruct (set_path v p x) as [v'|] eqn:Es; [|discriminate]. intros H. injection H as <-.
  rewrite (nth_error_set_nth h c v v' En). exact (get_set_path p v x v' Es).
Qed.

(* ---------- a field written from a script reads back ---------- *)

Definition field_conv_type (ft : gotype) : gotype := match ft with TStruct _ _ | TTime => TPtr ft | _ => ft end.
(* what Proxy.SetAttr stores for the converter's result: the zero value for "no value", else field_store *)
Definition stored_val (h : heap) (ft : gotype) (r : tv) : res goval :=
  match r with None => Ok (zero ft) | Some (dt, v) => field_store h ft dt v end.

Theorem setfield_reads_back fuel h pt c p name x h' :
  set_attr fuel h (RProxy pt c p) name x = Ok h' ->
  exists i ft r g,
    field_index (struct_fields (under pt)) name 0 = Some (i, ft) /\
    to_go h fuel true (field_conv_type ft) x = Ok r /\
    stored_val h ft r = Ok g /\
    heap_get h' c (p ++ [i]) = Some g /\
    get_attr h' (RProxy pt c p) name = from_field ft g c (p ++ [i]).
Proof.
  unfold set_attr. destruct (field_index (struct_fields (under pt)) name 0) as [[i ft]|] eqn:Ef; [|discriminate].
  fold (field_conv_type ft).
  destruct (to_go h fuel true (field_conv_type ft) x) as [r| | |] eqn:Et; cbn [bind]; try discriminate.
  fold (stored_val h ft r).
  destruct (stored_val h ft r) as [g| | |] eqn:Es; cbn [bind]; try discriminate.
  destruct (heap_set h c (p ++ [i]) g) as [h2|] eqn:Eh; [|discriminate].
  intros H. injection H as <-. exists i, ft, r, g.
  split; [reflexivity|]. split; [exact Et|]. split; [exact Es|].
  pose proof (heap_get_set _ _ _ _ _ Eh) as Hg. split; [exact Hg|].
  unfold get_attr. rewrite Ef, Hg. reflexivity.
Qed.

(* a struct-valued field now takes a struct built from a script map *)
Lemma field_store_struct h sid sfs x : field_store h (TStruct sid sfs) (TPtr (TStruct sid sfs)) (GBox x) = Ok x.
Proof. cbn [field_store]. rewrite assignable_refl. reflexivity. Qed.

(* ---------- the arguments a Go method receives ---------- *)

Fixpoint args_spec (fuel : nat) (h : heap) (params : list gotype) (args : list robj) (gvs : list goval) : Prop :=
  match params, args, gvs with
  | [], _, [] => True                                   (* surplus arguments are ignored *)
  | pt :: pr, a :: ar, g :: gr =>
      ((a = RNil /\ g = zero pt) \/
       (a <> RNil /\ exists dt v, to_go h fuel true pt a = Ok (Some (dt, v)) /\ assignable pt dt = true /\
                                  g = match pt with TIface => GDyn dt v | _ => v end))
      /\ args_spec fuel h pr ar gr
  | _, _, _ => False
  end.

Theorem call_args_spec fuel h params : forall args gvs,
  call_args fuel h params args = Ok gvs -> args_spec fuel h params args gvs.
Proof.
  induction params as [|pt pr IH]; intros args gvs H; cbn in H.
  - injection H as <-. destruct args; exact I.
  - destruct args as [|a ar]; [discriminate H|].
    assert (Hnn : forall a, a <> RNil ->
              (do g <- (do r <- to_go h fuel true pt a;;
                        match r with
                        | Some (dt, v) => if assignable pt dt then Ok match pt with TIface => GDyn dt v | _ => v end else Panic
                        | None => Panic
                        end);; do gs <- call_args fuel h pr ar;; Ok (g :: gs)) = Ok gvs ->
              args_spec fuel h (pt :: pr) (a :: ar) gvs).
    { intros a0 Hne H0.
      destruct (to_go h fuel true pt a0) as [[[dt v]|]| | |] eqn:Et; cbn [bind] in H0; try discriminate H0.
      destruct (assignable pt dt) eqn:Ea; cbn [bind] in H0; try discriminate H0.
      destruct (call_args fuel h pr ar) as [gs| | |] eqn:Ec; try discriminate H0.
      injection H0 as <-. cbn [args_spec]. split; [|exact (IH ar gs Ec)].
      right. split; [exact Hne|]. exists dt, v. split; [exact Et|]. split; [exact Ea|reflexivity]. }
    destruct a; try (apply Hnn; [discriminate|exact H]).
    cbn [bind] in H. destruct (call_args fuel h pr ar) as [gs| | |] eqn:Ec; try discriminate H.
    injection H as <-. cbn [args_spec]. split; [left; split; reflexivity|exact (IH ar gs Ec)].
Qed.

(* integers and strings arrive exactly when they are representable in the parameter type *)
Lemma to_go_int_exact h f d k z : in_range k z = true ->
  to_go h (S f) d (TInt k) (RInt z) = Ok (Some (TInt k, GInt z)).
Proof. intros H. cbn [to_go under to_int]. rewrite wrap_in_range by exact H. reflexivity. Qed.
Lemma to_go_str_exact h f d s : to_go h (S f) d TString (RStr s) = Ok (Some (TString, GStr s)).
Proof. reflexivity. Qed.
Lemma to_go_bool_exact h f d b : to_go h (S f) d TBool (RBool b) = Ok (Some (TBool, GBool b)).
Proof. reflexivity. Qed.
Lemma to_go_float_exact h f d b : to_go h (S f) d TFloat64 (RFloat b) = Ok (Some (TFloat64, GFloat b)).
Proof. reflexivity. Qed.

(* a list that does not fit the array is rejected with an error, whatever its elements *)
Lemma to_go_array_too_long h f d n et l : (n < length l)%nat -> to_go h (S f) d (TArray n et) (RList l) = Err.
Proof. intros H. rewrite to_go_array. apply Nat.ltb_lt in H. rewrite H. reflexivity. Qed.
