(* Stage A, part 2: on the scalar fragment the reference semantics Sem.eval computes exactly [sev],
   leaves environment and state untouched, for every environment, state and sufficient fuel. *)
From Coq Require Import List ZArith NArith Bool Arith Lia.
Require Import RV.model.Syntax RV.model.Sem.
Require RV.model.ScalarFrag.
Module F := RV.model.ScalarFrag.
Import ListNotations.
Local Open Scope nat_scope.

Definition inj (v : F.sval) : value :=
  match v with F.VNil => VNil | F.VBool b => VBool b | F.VInt z => VInt z | F.VStr t => VStr t end.
Definition lift (r : F.sval + F.serr) : outcome :=
  match r with inl v => OVal (inj v) | inr F.EType => OErr XType | inr F.EDiv0 => OErr XDiv0 end.

Lemma wrap_same z : wrap64 z = F.wrap64 z.
Proof. reflexivity. Qed.

Lemma truthy_inj s v : truthy s (inj v) = F.struthy v.
Proof. destruct v; reflexivity. Qed.

Lemma str_cmp_same a : forall b, str_cmp a b = F.str_cmp a b.
Proof. induction a as [|x a IH]; intros [|y b]; cbn; try reflexivity. Qed.

Lemma veq_inj s a b : veq 200 s (inj a) (inj b) = F.sveq a b.
Proof. destruct a, b; reflexivity. Qed.

Definition is_cmp (o : F.bop) : bool :=
  match o with F.CLt | F.CLe | F.CEq | F.CNe | F.CGt | F.CGe => true | _ => false end.

Lemma cmp_flag o :
  (beq (F.op_text o) [61;61]%N || beq (F.op_text o) [33;61]%N || beq (F.op_text o) [60]%N ||
   beq (F.op_text o) [60;61]%N || beq (F.op_text o) [62]%N || beq (F.op_text o) [62;61]%N) = is_cmp o.
Proof. destruct o; reflexivity. Qed.

Lemma compare_inj s o a b : is_cmp o = true ->
  compare_op s (F.op_text o) (inj a) (inj b) = lift (F.sbin o a b).
Proof.
  intros H. destruct o; try discriminate; unfold compare_op; cbn [F.op_text];
    try (change (beq [61; 61]%N [61; 61]%N) with true; cbn iota; rewrite veq_inj; reflexivity);
    try (change (beq [33; 61]%N [61; 61]%N) with false; change (beq [33; 61]%N [33; 61]%N) with true; cbn iota;
         rewrite veq_inj; reflexivity);
    destruct a as [|x|x|x], b as [|y|y|y]; try reflexivity;
    try (destruct x, y; reflexivity);
    cbn [inj F.sbin lift F.cmp_res]; rewrite ?str_cmp_same;
    try (destruct (x ?= y)%Z; reflexivity); try (destruct (F.str_cmp x y); reflexivity).
Qed.

Lemma binop_inj s o a b : is_cmp o = false ->
  binop s (F.op_text o) (inj a) (inj b) = (lift (F.sbin o a b), s).
Proof.
  intros H. destruct o; try discriminate; destruct a as [|x|x|x], b as [|y|y|y]; try reflexivity;
    unfold binop; cbn [F.op_text inj]; cbn [F.sbin lift inj];
    try reflexivity; destruct (y =? 0)%Z eqn:E; cbn; rewrite ?E; reflexivity.
Qed.

(* one-step unfoldings of Sem.eval on the node forms of the fragment *)
Lemma eval_NInt f e s z : eval (S f) e s (NInt z) = (OVal (VInt z), e, s).
Proof. reflexivity. Qed.
Lemma eval_NBool f e s b : eval (S f) e s (NBool b) = (OVal (VBool b), e, s).
Proof. reflexivity. Qed.
Lemma eval_NNil f e s : eval (S f) e s NNil = (OVal VNil, e, s).
Proof. reflexivity. Qed.
Lemma eval_NString f e s t : eval (S f) e s (NString t None) = (OVal (VStr t), e, s).
Proof. reflexivity. Qed.
Lemma eval_NPrefix f e s op r : eval (S f) e s (NPrefix op r) =
  match eval f e s r with
  | (OVal v, e', s') =>
      if beq op [33%N] then (OVal (VBool (negb (truthy s' v))), e', s')
      else match v with VInt z => (OVal (VInt (wrap64 (- z))), e', s') | _ => (OErr XType, e', s') end
  | other => other
  end.
Proof. reflexivity. Qed.
Lemma eval_NInfix f e s op l r : eval (S f) e s (NInfix op l r) =
  if beq op [38;38]%N then
    match eval f e s l with
    | (OVal a, e1, s1) => if truthy s1 a then eval f e1 s1 r else (OVal a, e1, s1)
    | other => other
    end
  else if beq op [124;124]%N then
    match eval f e s l with
    | (OVal a, e1, s1) => if truthy s1 a then (OVal a, e1, s1) else eval f e1 s1 r
    | other => other
    end
  else
    match eval f e s l with
    | (OVal a, e1, s1) =>
        match eval f e1 s1 r with
        | (OVal b, e2, s2) =>
            if beq op [61;61]%N || beq op [33;61]%N || beq op [60]%N || beq op [60;61]%N || beq op [62]%N || beq op [62;61]%N
            then (compare_op s2 op a b, e2, s2)
            else let '(o, s3) := binop s2 op a b in (o, e2, s3)
        | other => other
        end
    | other => other
    end.
Proof. reflexivity. Qed.
Lemma eval_NTernary f e s c t el : eval (S f) e s (NTernary c t el) =
  match eval f e s c with
  | (OVal v, e1, s1) => if truthy s1 v then eval f e1 s1 t else eval f e1 s1 el
  | other => other
  end.
Proof. reflexivity. Qed.

Lemma eval_NIdent f e s name : name <> [] ->
  eval (S f) e s (NIdent name) =
  match lookup e name with
  | Some (l, _) => (OVal (nth l (store s) VNil), e, s)
  | None => (OErr XUndefined, e, s)
  end.
Proof. intros H. destruct name; [contradiction|reflexivity]. Qed.

Arguments eval : simpl never.

(* the environment binds the first n variables, and the store holds their current values *)
Definition env_ok (names : list (list N)) (rho : list F.sval) (e : env) (s : state) : Prop :=
  forall i v, nth_error rho i = Some v ->
    nth i names [] <> [] /\
    exists l c, lookup e (nth i names []) = Some (l, c) /\ nth l (store s) VNil = inj v.

Lemma op_text_not_land o : beq (F.op_text o) [38;38]%N = false.
Proof. destruct o; reflexivity. Qed.
Lemma op_text_not_lor o : beq (F.op_text o) [124;124]%N = false.
Proof. destruct o; reflexivity. Qed.

Theorem sem_scalar : forall names rho x f e s,
  F.height x <= f -> F.wf (length rho) x = true -> env_ok names rho e s ->
  eval f e s (F.embed names x) = (lift (F.sev rho x), e, s).
Proof.
  intros names rho.
  induction x as [z|b| |str|i|a IHa|a IHa|o a IHa b IHb|a IHa b IHb|a IHa b IHb|c IHc t IHt el IHe];
    intros f e s Hf Hwf Henv; cbn [F.height] in Hf; (destruct f as [|f]; [lia|]); cbn [F.embed F.sev]; cbn [F.wf] in Hwf.
  - apply eval_NInt.
  - apply eval_NBool.
  - apply eval_NNil.
  - apply eval_NString.
  - apply Nat.ltb_lt in Hwf. destruct (nth_error rho i) as [v|] eqn:Ei; [|apply nth_error_None in Ei; lia].
    destruct (Henv i v Ei) as [Hne [l [c [Hl Hv]]]].
    rewrite (eval_NIdent f e s _ Hne), Hl, Hv. reflexivity.
  - rewrite eval_NPrefix, (IHa f e s) by (lia || assumption). change (beq [45%N] [33%N]) with false. cbn iota.
    destruct (F.sev rho a) as [[|x|x|x]|[|]]; reflexivity.
  - rewrite eval_NPrefix, (IHa f e s) by (lia || assumption). change (beq [33%N] [33%N]) with true. cbn iota.
    destruct (F.sev rho a) as [v|[|]]; cbn [lift]; [rewrite truthy_inj|..]; reflexivity.
  - apply andb_true_iff in Hwf. destruct Hwf as [Hwa Hwb].
    rewrite eval_NInfix, op_text_not_land, op_text_not_lor. rewrite (IHa f e s) by (lia || assumption).
    destruct (F.sev rho a) as [va|[|]]; cbn [lift]; try reflexivity.
    rewrite (IHb f e s) by (lia || assumption).
    destruct (F.sev rho b) as [vb|[|]]; cbn [lift]; try reflexivity.
    rewrite cmp_flag. destruct (is_cmp o) eqn:Ec.
    + rewrite (compare_inj s o va vb Ec). reflexivity.
    + rewrite (binop_inj s o va vb Ec). reflexivity.
  - apply andb_true_iff in Hwf. destruct Hwf as [Hwa Hwb].
    rewrite eval_NInfix. change (beq [38;38]%N [38;38]%N) with true. cbn iota.
    rewrite (IHa f e s) by (lia || assumption).
    destruct (F.sev rho a) as [va|[|]]; cbn [lift]; try reflexivity.
    rewrite truthy_inj. destruct (F.struthy va); [apply IHb; (lia || assumption)|reflexivity].
  - apply andb_true_iff in Hwf. destruct Hwf as [Hwa Hwb].
    rewrite eval_NInfix. change (beq [124;124]%N [38;38]%N) with false. change (beq [124;124]%N [124;124]%N) with true. cbn iota.
    rewrite (IHa f e s) by (lia || assumption).
    destruct (F.sev rho a) as [va|[|]]; cbn [lift]; try reflexivity.
    rewrite truthy_inj. destruct (F.struthy va); [reflexivity|apply IHb; (lia || assumption)].
  - apply andb_true_iff in Hwf. destruct Hwf as [Hwct Hwe]. apply andb_true_iff in Hwct. destruct Hwct as [Hwc Hwt].
    rewrite eval_NTernary. rewrite (IHc f e s) by (lia || assumption).
    destruct (F.sev rho c) as [vc|[|]]; cbn [lift]; try reflexivity.
    rewrite truthy_inj. destruct (F.struthy vc); [apply IHt|apply IHe]; (lia || assumption).
Qed.
