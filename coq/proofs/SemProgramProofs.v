From Coq Require Import List ZArith NArith Bool Arith Lia.
Require Import RV.model.Syntax RV.model.Sem RV.proofs.SemScalarProofs.
Require RV.model.ScalarFrag.
Import ListNotations.
Local Open Scope nat_scope.

Lemma embed_is_expression e : is_expression (F.embed e) = true.
Proof. destruct e; reflexivity. Qed.

(* the reference semantics of the single-expression program *)
Theorem sem_scalar_program e f : F.height e <= f ->
  Sem.run f [F.embed e] = (lift (F.sev e), init_state).
Proof.
  intros Hf. unfold Sem.run. cbn [fold_left].
  replace (match F.embed e with
           | NFunc (Some nm) _ _ _ => _
           | _ => ([] :: global_env, init_state) end) with ([] :: global_env, init_state) by (destruct e; reflexivity).
  rewrite (sem_scalar e f _ _ Hf). rewrite embed_is_expression.
  destruct (F.sev e) as [v|[|]]; reflexivity.
Qed.
