(* Proofs about spawned calls (model/Spawn.v): wait() and the argument snapshot, over all schedules. *)
From Coq Require Import List Bool Arith NArith Lia.
Require Import RV.model.Spawn.
Import ListNotations.

(* ------------------------------------------------------------------ 1. wait() *)

Definition TInv (o : outcome) (s : tst) : Prop :=
  pc s <= 3 /\
  (done s = true -> pc s = 3) /\
  (2 <= pc s -> result s = Some (result_of o)) /\
  (pc s = 1 -> match o with Panics _ => True | _ => result s = Some (result_of o) end) /\
  (forall k r, In (k, r) (waits s) ->
     r = Some (result_of o) \/ (tcancelled s = true /\ r = Some (RErr EWaitCtx))).

Lemma tinv_init o : TInv o tinit.
Proof. unfold TInv, tinit; cbn. repeat split; try lia; try discriminate; try (intros k r []). Qed.

Lemma tinv_step o s a s' : TInv o s -> tstep o s a = Some s' -> TInv o s'.
Proof.
  intros (B & D & R2 & R1 & W) H. destruct a as [|k| |k]; cbn in H.
  - destruct (pc s) as [|[|[|p]]] eqn:P; try discriminate; injection H as <-; unfold TInv; cbn.
    + split; [lia|]. split; [intros Dn; specialize (D Dn); lia|]. split; [lia|]. split; [|exact W].
      intros _. destruct o; reflexivity.
    + split; [lia|]. split; [intros Dn; specialize (D Dn); lia|]. split; [|split; [discriminate|exact W]].
      intros _. specialize (R1 eq_refl). destruct o; [exact R1|exact R1|reflexivity].
    + split; [lia|]. split; [reflexivity|]. split; [|split; [discriminate|exact W]].
      intros _. apply R2. lia.
  - destruct (done s) eqn:Dn; [|discriminate]. injection H as <-. unfold TInv; cbn. repeat split; try assumption.
    intros k' r Hin. apply in_app_or in Hin. destruct Hin as [Hin|[[= <- <-]|[]]]; [apply (W _ _ Hin)|].
    left. apply R2. specialize (D eq_refl). lia.
  - injection H as <-. unfold TInv; cbn. repeat split; try assumption.
    intros k' r Hin. destruct (W _ _ Hin) as [L|(_ & L)]; [left; exact L|right; split; [reflexivity|exact L]].
  - destruct (tcancelled s) eqn:Cn; [|discriminate]. injection H as <-. unfold TInv; cbn. repeat split; try assumption.
    intros k' r Hin. apply in_app_or in Hin. destruct Hin as [Hin|[[= <- <-]|[]]]; [apply (W _ _ Hin)|].
    right. split; reflexivity.
Qed.

Lemma tinv_run o sch : forall s s', TInv o s -> trun o s sch = Some s' -> TInv o s'.
Proof.
  induction sch as [|a r IH]; intros s s' I R; cbn in R.
  - injection R as <-. exact I.
  - destruct (tstep o s a) as [s1|] eqn:E; [|discriminate]. apply (IH s1); [eapply tinv_step; eassumption|exact R].
Qed.

(* every wait() returns exactly the call's result (value, raised error, or the recovered panic) -
   or, if the context was cancelled, possibly the context error; never a nil Object, never a stale value *)
Theorem wait_result o sch s k r :
  trun o tinit sch = Some s -> In (k, r) (waits s) ->
  r = Some (result_of o) \/ (tcancelled s = true /\ r = Some (RErr EWaitCtx)).
Proof. intros R Hin. destruct (tinv_run o sch _ _ (tinv_init o) R) as (_ & _ & _ & _ & W). apply (W _ _ Hin). Qed.

Lemma tstep_cancelled o s a s' : tstep o s a = Some s' -> a <> TCancel -> tcancelled s' = tcancelled s.
Proof.
  destruct a as [|k| |k]; cbn; intros H N; try contradiction.
  - destruct (pc s) as [|[|[|p]]]; try discriminate; injection H as <-; reflexivity.
  - destruct (done s); [|discriminate]. injection H as <-. reflexivity.
  - destruct (tcancelled s); [|discriminate]. injection H as <-. reflexivity.
Qed.

Theorem wait_result_uncancelled o sch s k r :
  trun o tinit sch = Some s -> ~ In TCancel sch -> In (k, r) (waits s) -> r = Some (result_of o).
Proof.
  intros R NC Hin. destruct (wait_result _ _ _ _ _ R Hin) as [E|(C & _)]; [exact E|exfalso].
  assert (G : forall sch s0 s1, trun o s0 sch = Some s1 -> ~ In TCancel sch -> tcancelled s1 = tcancelled s0).
  { clear. induction sch as [|a r IH]; intros s0 s1 R N; cbn in R.
    - injection R as <-. reflexivity.
    - destruct (tstep o s0 a) as [s2|] eqn:E; [|discriminate].
      rewrite (IH _ _ R) by (intros H; apply N; right; exact H).
      eapply tstep_cancelled; [exact E|]. intros ->. apply N. left. reflexivity. }
  rewrite (G _ _ _ R NC) in C. discriminate.
Qed.

(* wait() blocks until the call has finished *)
Theorem wait_blocks_until_done o s k : done s = false -> tstep o s (Wait k) = None.
Proof. intros D. cbn. rewrite D. reflexivity. Qed.

(* ------------------------------------------------------------------ 2. argument snapshot *)

Lemma set_at_length {A} n (x : A) l : length (set_at n x l) = length l.
Proof. revert n. induction l as [|y l IH]; intros [|n]; cbn; try reflexivity. f_equal. apply IH. Qed.

Lemma nth_set_at_other {A} (d : A) n k x l : n <> k -> nth k (set_at n x l) d = nth k l d.
Proof.
  revert n k. induction l as [|y l IH]; intros n k H; cbn.
  - destruct n; reflexivity.
  - destruct n, k; cbn; try reflexivity; [contradiction|]. apply IH. congruence.
Qed.

Definition SInv (s : sst) : Prop :=
  length (heap s) = 2 * length (thr s) /\
  (forall t a b g, nth_error (thr s) t = Some (a, b, g) -> a = 2 * t /\ b = 2 * t + 1 /\ nth b (heap s) [] = g) /\
  (forall t vs, In (t, vs) (reads s) -> exists a b, nth_error (thr s) t = Some (a, b, vs)).

Lemma sinv_init e : SInv (sinit true e).
Proof.
  unfold SInv, sinit; cbn. split; [reflexivity|]. split; [intros t a b g H; destruct t; discriminate|intros t vs []].
Qed.

Lemma sinv_step s a s' : copying s = true -> SInv s -> sstep s a = Some s' -> SInv s' /\ copying s' = true.
Proof.
  intros C (L & T & R) H. destruct a as [x v|xs|t k v|t]; cbn in H.
  - injection H as <-. split; [|exact C]. unfold SInv; cbn. split; [exact L|split; [exact T|exact R]].
  - rewrite C in H. injection H as <-. split; [|reflexivity]. unfold SInv; cbn. rewrite !app_length. cbn.
    split; [lia|]. split.
    + intros t a b g H. destruct (Nat.lt_ge_cases t (length (thr s))) as [Lt|Ge].
      * rewrite nth_error_app1 in H by exact Lt. destruct (T _ _ _ _ H) as (Ea & Eb & Eg).
        split; [exact Ea|]. split; [exact Eb|]. rewrite app_nth1 by lia. exact Eg.
      * rewrite nth_error_app2 in H by exact Ge. destruct (t - length (thr s)) as [|d] eqn:Ed; cbn in H; [|destruct d; discriminate].
        injection H as <- <- <-. split; [lia|]. split; [lia|].
        rewrite app_nth2 by lia. replace (S (length (heap s)) - length (heap s)) with 1 by lia. reflexivity.
    + intros t vs Hin. destruct (R _ _ Hin) as (a & b & E). exists a, b.
      rewrite nth_error_app1; [exact E|]. apply nth_error_Some. rewrite E. discriminate.
  - destruct (nth_error (thr s) t) as [((a, b), g)|] eqn:E; [|discriminate]. injection H as <-. split; [|exact C].
    destruct (T _ _ _ _ E) as (Ea & _). unfold SInv; cbn. rewrite set_at_length.
    split; [exact L|]. split; [|exact R].
    intros t' a' b' g' H. destruct (T _ _ _ _ H) as (Ea' & Eb' & Eg').
    split; [exact Ea'|]. split; [exact Eb'|]. rewrite nth_set_at_other by lia. exact Eg'.
  - destruct (nth_error (thr s) t) as [((a, b), g)|] eqn:E; [|discriminate]. injection H as <-. split; [|exact C].
    unfold SInv; cbn. split; [exact L|]. split; [exact T|].
    intros t' vs Hin. apply in_app_or in Hin. destruct Hin as [Hin|[[= <- <-]|[]]]; [apply R; exact Hin|].
    destruct (T _ _ _ _ E) as (_ & _ & Eg). rewrite Eg. exists a, b. exact E.
Qed.

Lemma sinv_run sch : forall s s', copying s = true -> SInv s -> srun s sch = Some s' -> SInv s'.
Proof.
  induction sch as [|a r IH]; intros s s' C I R; cbn in R.
  - injection R as <-. exact I.
  - destruct (sstep s a) as [s1|] eqn:E; [|discriminate].
    destruct (sinv_step _ _ _ C I E) as (I1 & C1). apply (IH s1); assumption.
Qed.

(* whatever the spawner does afterwards (reassign variables, overwrite the slice it passed), and whenever
   the call looks, the call sees the argument values of the spawn site *)
Theorem args_snapshot e sch s t vs :
  srun (sinit true e) sch = Some s -> In (t, vs) (reads s) ->
  exists a b, nth_error (thr s) t = Some (a, b, vs).
Proof.
  intros R Hin. destruct (sinv_run sch (sinit true e) s eq_refl (sinv_init e) R) as (_ & _ & Rd). apply Rd. exact Hin.
Qed.

(* the ghost component really is "the values of the argument variables at the spawn site" *)
Lemma thr_ghost_is_spawn_site s xs s' :
  sstep s (SSpawn xs) = Some s' -> exists a b, thr s' = thr s ++ [(a, b, map (env s) xs)].
Proof. cbn. destruct (copying s); intros [= <-]; cbn; eexists; eexists; reflexivity. Qed.

(* the copy is what the theorem rests on: without it a caller-side write is visible to the call *)
Lemma no_copy_refuted :
  exists s, srun (sinit false (fun _ => 7%N)) [SSpawn [0]; SPoke 0 0 9%N; SRead 0] = Some s /\
            reads s = [(0, [9%N])] /\ exists a b, nth_error (thr s) 0 = Some (a, b, [7%N]).
Proof. eexists. split; [vm_compute; reflexivity|]. split; [reflexivity|]. eexists; eexists; reflexivity. Qed.
