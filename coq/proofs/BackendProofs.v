(* Stage A of C01_back on the REAL models: for the scalar expression fragment,
   (1) Compiler.compile emits exactly [cexp], (2) Sem.eval computes exactly [sev], and
   (3) the VM model running the emitted code inside any code object, at any position, under any
   stack, pushes the value [sev] gives (or stops with the error class it gives). *)
From Coq Require Import List ZArith NArith Bool Arith Lia.
Require Import RV.model.Syntax RV.model.Compiler RV.model.ScalarFrag.
Import ListNotations.
Local Open Scope nat_scope.

(* ------------------------------------------------------------------ (1) the compiler *)

Definition add_consts (st : cstate) (ks : list konst) : cstate :=
  match st_stack st with
  | w :: r => {| st_tabs := st_tabs st; st_stack := with_consts w (w_consts w ++ ks) :: r; st_funcindex := st_funcindex st |}
  | [] => st
  end.

Lemma add_consts_nil st w r : st_stack st = w :: r -> add_consts st [] = st.
Proof.
  intros H. unfold add_consts. rewrite H. rewrite app_nil_r. destruct st as [t s fi]. cbn in *. subst s.
  destruct w; reflexivity.
Qed.

Lemma add_consts_app st w r ka kb : st_stack st = w :: r ->
  add_consts (add_consts st ka) kb = add_consts st (ka ++ kb).
Proof. intros H. unfold add_consts. rewrite H. cbn. rewrite app_assoc. reflexivity. Qed.

Lemma add_consts_stack st w r ks : st_stack st = w :: r ->
  st_stack (add_consts st ks) = with_consts w (w_consts w ++ ks) :: r.
Proof. intros H. unfold add_consts. rewrite H. reflexivity. Qed.

(* one-step unfoldings of the big compile function, by computation *)
Lemma compile_NInt f z : compile (S f) (NInt z) = bind (constant (KInt z)) (fun k => ret (I [opLoadConst; k])).
Proof. reflexivity. Qed.
Lemma compile_NString f v : compile (S f) (NString v None) = bind (constant (KStr v)) (fun k => ret (I [opLoadConst; k])).
Proof. reflexivity. Qed.
Lemma compile_NBool f b : compile (S f) (NBool b) = ret (I [if b then opTrue else opFalse]).
Proof. reflexivity. Qed.
Lemma compile_NNil f : compile (S f) NNil = ret (I [opNil]).
Proof. reflexivity. Qed.
Lemma compile_NPrefix f op r : compile (S f) (NPrefix op r) =
  bind (compile f r) (fun a => ret (a ++ (if beq op [33%N] then I [opUnaryNot] else if beq op [45%N] then I [opUnaryNegative] else []))).
Proof. reflexivity. Qed.
Lemma compile_NInfix f op l r : compile (S f) (NInfix op l r) =
  if beq op [38;38]%N || beq op [124;124]%N then
    bind (compile f l) (fun a => bind (compile f r) (fun b =>
      let body := b ++ I [opBinaryOp; if beq op [38;38]%N then bAnd else bOr; opNop] in
      ret (a ++ I [opCopy; 0%N; if beq op [38;38]%N then opPopJumpForwardIfFalse else opPopJumpForwardIfTrue;
                   (nlen body + 2)%N] ++ body)))
  else
    bind (compile f l) (fun a => bind (compile f r) (fun b =>
      match binop_code op with Some c => ret (a ++ b ++ c) | None => fail EUnknownOperator end)).
Proof. reflexivity. Qed.
Lemma compile_NTernary f c t e : compile (S f) (NTernary c t e) =
  bind (compile f c) (fun a => bind (compile f t) (fun tc => bind (compile f e) (fun ec =>
    ret (a ++ I [opPopJumpForwardIfFalse; (nlen tc + 4)%N] ++ tc ++ I [opJumpForward; (nlen ec + 2)%N] ++ ec)))).
Proof. reflexivity. Qed.

Lemma compile_NIdent f name : compile (S f) (NIdent name) = bind (resolve_cur name) (fun rs => ret (load_res rs)).
Proof. reflexivity. Qed.

Arguments compile : simpl never.

(* ------------------------------------------------------------------ variables: what the root table knows *)
Definition sym_at (names : list (list N)) (slot : nat -> nat) (i : nat) : symbol :=
  {| sy_name := nth i names []; sy_index := N.of_nat (slot i); sy_const := false |}.
Definition sym_of (names : list (list N)) (i : nat) : symbol := sym_at names (fun j => j) i.

(* table 0 is the root table (no parent) and maps the first n variable names to the global slots 0 .. n-1 *)
Definition tabs_ok (names : list (list N)) (tabs : list table) (n : nat) : Prop :=
  tb_parent (nth 0 tabs dummy_table) = None /\
  forall i, i < n -> Compiler.assoc (nth i names []) (tb_byname (nth 0 tabs dummy_table)) = Some (sym_of names i).

Lemma resolve_cur_bound names st w r n i :
  st_stack st = w :: r -> w_tab w = 0 -> tabs_ok names (st_tabs st) n -> i < n ->
  resolve_cur (nth i names []) st =
  inr ({| rs_sym := sym_of names i; rs_scope := Global; rs_depth := 0; rs_free := 0 |}, st).
Proof.
  intros Hs Hw [Hp Ha] Hi.
  unfold resolve_cur, bind, cur. rewrite Hs. unfold resolve, bind, get, get_tab. rewrite Hw.
  rewrite (Ha i Hi). unfold ret, fuel_of. cbn [is_global]. rewrite Hp. reflexivity.
Qed.

(* what compile_scalar needs to know about the compiler state: the first n variables resolve to the global slots
   0 .. n-1, without changing the state, and this stays so when constants are appended *)
Definition res_ok_at (names : list (list N)) (slot : nat -> nat) (st : cstate) (n : nat) : Prop :=
  forall ks i, i < n ->
    resolve_cur (nth i names []) (add_consts st ks) =
    inr ({| rs_sym := sym_at names slot i; rs_scope := Global; rs_depth := 0; rs_free := 0 |}, add_consts st ks).
Definition res_ok (names : list (list N)) (st : cstate) (n : nat) : Prop := res_ok_at names (fun j => j) st n.

Lemma add_consts_tabs st ks : st_tabs (add_consts st ks) = st_tabs st.
Proof. unfold add_consts. destruct (st_stack st); reflexivity. Qed.

Lemma constant_spec k st w r : st_stack st = w :: r ->
  constant k st = inr (N.of_nat (length (w_consts w)), add_consts st [k]).
Proof.
  intros H. unfold constant, bind, cur, set_cur, ret. rewrite H. cbn. unfold add_consts. rewrite H. reflexivity.
Qed.

Lemma I_app a b : I (a ++ b) = I a ++ I b.
Proof. unfold I. apply map_app. Qed.
Lemma nlen_I l : nlen (I l) = nlenN l.
Proof. unfold nlen, nlenN, I. rewrite map_length. reflexivity. Qed.

Lemma op_text_not_logic o : beq (op_text o) [38;38]%N || beq (op_text o) [124;124]%N = false.
Proof. destruct o; reflexivity. Qed.
Lemma binop_code_op o : binop_code (op_text o) = Some (I (op_code o)).
Proof. destruct o; reflexivity. Qed.

Lemma add_consts_twice st ka kb : add_consts (add_consts st ka) kb = add_consts st (ka ++ kb).
Proof.
  unfold add_consts. destruct (st_stack st) as [|w r] eqn:E; cbn [st_stack]; [rewrite E; reflexivity|].
  cbn [w_consts with_consts]. rewrite app_assoc. reflexivity.
Qed.

Lemma res_ok_at_add names slot st n ks : res_ok_at names slot st n -> res_ok_at names slot (add_consts st ks) n.
Proof. intros H ks' i Hi. rewrite add_consts_twice. apply H. exact Hi. Qed.
Lemma res_ok_add names st n ks : res_ok names st n -> res_ok names (add_consts st ks) n.
Proof. apply res_ok_at_add. Qed.

Lemma res_ok_at_here names slot st n w r i : st_stack st = w :: r -> res_ok_at names slot st n -> i < n ->
  resolve_cur (nth i names []) st = inr ({| rs_sym := sym_at names slot i; rs_scope := Global; rs_depth := 0; rs_free := 0 |}, st).
Proof. intros Hs H Hi. specialize (H [] i Hi). rewrite (add_consts_nil st w r Hs) in H. exact H. Qed.
Lemma res_ok_here names st n w r i : st_stack st = w :: r -> res_ok names st n -> i < n ->
  resolve_cur (nth i names []) st = inr ({| rs_sym := sym_of names i; rs_scope := Global; rs_depth := 0; rs_free := 0 |}, st).
Proof. apply res_ok_at_here. Qed.

(* at the root: table 0 knows the variables *)
Lemma res_ok_root names st w r n :
  st_stack st = w :: r -> w_tab w = 0 -> tabs_ok names (st_tabs st) n -> res_ok names st n.
Proof.
  intros Hs Hw Ht ks i Hi.
  apply (resolve_cur_bound names (add_consts st ks) (with_consts w (w_consts w ++ ks)) r n i).
  - apply add_consts_stack. exact Hs.
  - exact Hw.
  - rewrite add_consts_tabs. exact Ht.
  - exact Hi.
Qed.

(* the compiler emits exactly [cexp], appends exactly its constants, and touches nothing else *)
Theorem compile_scalar_at : forall names slot n e f st w r,
  st_stack st = w :: r -> res_ok_at names slot st n -> wf n e = true -> height e <= f ->
  compile f (embed names e) st =
  inr (I (fst (cexp_at slot (length (w_consts w)) e)), add_consts st (snd (cexp_at slot (length (w_consts w)) e))).
Proof.
  intros names slot n.
  induction e as [z|b| |str|i|a IHa|a IHa|o a IHa b IHb|a IHa b IHb|a IHa b IHb|c IHc t IHt e IHe];
    intros f st w r Hst Ht Hwf Hf; cbn [height] in Hf; (destruct f as [|f]; [lia|]); cbn [embed]; cbn [wf] in Hwf.
  - rewrite compile_NInt. unfold bind. rewrite (constant_spec _ _ _ _ Hst). reflexivity.
  - rewrite compile_NBool. cbn. rewrite (add_consts_nil _ _ _ Hst). reflexivity.
  - rewrite compile_NNil. cbn. rewrite (add_consts_nil _ _ _ Hst). reflexivity.
  - rewrite compile_NString. unfold bind. rewrite (constant_spec _ _ _ _ Hst). reflexivity.
  - apply Nat.ltb_lt in Hwf. rewrite compile_NIdent. unfold bind.
    rewrite (res_ok_at_here names slot st n w r i Hst Ht Hwf). cbn. rewrite (add_consts_nil _ _ _ Hst). reflexivity.
  - rewrite compile_NPrefix. unfold bind. rewrite (IHa f st w r Hst Ht Hwf) by lia.
    cbn [cexp_at]. destruct (cexp_at slot (length (w_consts w)) a) as [ca ka]. cbn. rewrite I_app. reflexivity.
  - rewrite compile_NPrefix. unfold bind. rewrite (IHa f st w r Hst Ht Hwf) by lia.
    cbn [cexp_at]. destruct (cexp_at slot (length (w_consts w)) a) as [ca ka]. cbn. rewrite I_app. reflexivity.
  - apply andb_true_iff in Hwf. destruct Hwf as [Hwa Hwb].
    rewrite compile_NInfix, op_text_not_logic. unfold bind.
    rewrite (IHa f st w r Hst Ht Hwa) by lia. cbn [cexp_at].
    destruct (cexp_at slot (length (w_consts w)) a) as [ca ka] eqn:Ea. cbn [fst snd].
    pose proof (add_consts_stack st w r ka Hst) as Hst2.
    pose proof (res_ok_at_add names slot st n ka Ht) as Ht2.
    rewrite (IHb f _ _ r Hst2 Ht2 Hwb) by lia. cbn [w_consts with_consts]. rewrite app_length.
    destruct (cexp_at slot (length (w_consts w) + length ka) b) as [cb kb] eqn:Eb. cbn [fst snd].
    rewrite binop_code_op. unfold ret. rewrite (add_consts_app _ _ _ _ _ Hst). rewrite !I_app. reflexivity.
  - apply andb_true_iff in Hwf. destruct Hwf as [Hwa Hwb].
    rewrite compile_NInfix. change (beq [38;38]%N [38;38]%N || beq [38;38]%N [124;124]%N) with true. cbn iota. unfold bind.
    rewrite (IHa f st w r Hst Ht Hwa) by lia. cbn [cexp_at].
    destruct (cexp_at slot (length (w_consts w)) a) as [ca ka] eqn:Ea. cbn [fst snd].
    pose proof (add_consts_stack st w r ka Hst) as Hst2.
    pose proof (res_ok_at_add names slot st n ka Ht) as Ht2.
    rewrite (IHb f _ _ r Hst2 Ht2 Hwb) by lia. cbn [w_consts with_consts]. rewrite app_length.
    destruct (cexp_at slot (length (w_consts w) + length ka) b) as [cb kb] eqn:Eb. cbn [fst snd].
    unfold ret. rewrite (add_consts_app _ _ _ _ _ Hst).
    change (beq [38; 38]%N [38; 38]%N) with true. cbn iota zeta.
    rewrite <- I_app, nlen_I. rewrite !I_app. cbn [I map app]. reflexivity.
  - apply andb_true_iff in Hwf. destruct Hwf as [Hwa Hwb].
    rewrite compile_NInfix. change (beq [124;124]%N [38;38]%N || beq [124;124]%N [124;124]%N) with true. cbn iota. unfold bind.
    rewrite (IHa f st w r Hst Ht Hwa) by lia. cbn [cexp_at].
    destruct (cexp_at slot (length (w_consts w)) a) as [ca ka] eqn:Ea. cbn [fst snd].
    pose proof (add_consts_stack st w r ka Hst) as Hst2.
    pose proof (res_ok_at_add names slot st n ka Ht) as Ht2.
    rewrite (IHb f _ _ r Hst2 Ht2 Hwb) by lia. cbn [w_consts with_consts]. rewrite app_length.
    destruct (cexp_at slot (length (w_consts w) + length ka) b) as [cb kb] eqn:Eb. cbn [fst snd].
    unfold ret. rewrite (add_consts_app _ _ _ _ _ Hst).
    change (beq [124; 124]%N [38; 38]%N) with false. cbn iota zeta.
    rewrite <- I_app, nlen_I. rewrite !I_app. cbn [I map app]. reflexivity.
  - apply andb_true_iff in Hwf. destruct Hwf as [Hwct Hwe]. apply andb_true_iff in Hwct. destruct Hwct as [Hwc Hwt].
    rewrite compile_NTernary. unfold bind.
    rewrite (IHc f st w r Hst Ht Hwc) by lia. cbn [cexp_at].
    destruct (cexp_at slot (length (w_consts w)) c) as [cc kc] eqn:Ec. cbn [fst snd].
    pose proof (add_consts_stack st w r kc Hst) as Hst2.
    pose proof (res_ok_at_add names slot st n kc Ht) as Ht2.
    rewrite (IHt f _ _ r Hst2 Ht2 Hwt) by lia. cbn [w_consts with_consts]. rewrite app_length.
    destruct (cexp_at slot (length (w_consts w) + length kc) t) as [ct kt] eqn:Et. cbn [fst snd].
    rewrite (add_consts_app _ _ _ _ _ Hst).
    pose proof (add_consts_stack st w r (kc ++ kt) Hst) as Hst3.
    pose proof (res_ok_at_add names slot st n (kc ++ kt) Ht) as Ht3.
    rewrite (IHe f _ _ r Hst3 Ht3 Hwe) by lia. cbn [w_consts with_consts]. rewrite !app_length, Nat.add_assoc.
    destruct (cexp_at slot (length (w_consts w) + length kc + length kt) e) as [cf kf] eqn:Ef. cbn [fst snd].
    unfold ret. rewrite (add_consts_app _ _ _ _ _ Hst). rewrite <- app_assoc.
    rewrite !nlen_I. rewrite !I_app. cbn [I map app]. reflexivity.
Qed.

Theorem compile_scalar_res : forall names n e f st w r,
  st_stack st = w :: r -> res_ok names st n -> wf n e = true -> height e <= f ->
  compile f (embed names e) st =
  inr (I (fst (cexp (length (w_consts w)) e)), add_consts st (snd (cexp (length (w_consts w)) e))).
Proof. intros names n. exact (compile_scalar_at names (fun j => j) n). Qed.

(* the root-table form *)
Theorem compile_scalar : forall names n e f st w r,
  st_stack st = w :: r -> w_tab w = 0 -> tabs_ok names (st_tabs st) n -> wf n e = true -> height e <= f ->
  compile f (embed names e) st =
  inr (I (fst (cexp (length (w_consts w)) e)), add_consts st (snd (cexp (length (w_consts w)) e))).
Proof.
  intros names n e f st w r Hst Hw Ht Hwf Hf.
  exact (compile_scalar_res names n e f st w r Hst (res_ok_root names st w r n Hst Hw Ht) Hwf Hf).
Qed.

(* inside a block directly under the root: the current table is empty and its parent is table 0 *)
Definition block_tb (tb : table) : Prop :=
  tb_byname tb = [] /\ tb_freebyname tb = [] /\ tb_parent tb = Some 0.

Lemma resolve_cur_block names st w r n i :
  st_stack st = w :: r -> block_tb (nth (w_tab w) (st_tabs st) dummy_table) ->
  tabs_ok names (st_tabs st) n -> i < n ->
  resolve_cur (nth i names []) st =
  inr ({| rs_sym := sym_of names i; rs_scope := Global; rs_depth := 0; rs_free := 0 |}, st).
Proof.
  intros Hs [Hb [Hf Hp]] [Hrp Ha] Hi.
  unfold resolve_cur, bind, cur. rewrite Hs. unfold resolve, bind, get, get_tab.
  rewrite Hb, Hf, Hp. cbn [Compiler.assoc]. unfold fuel_of. cbn [resolve_up].
  rewrite (Ha i Hi). cbn [is_global]. rewrite Hrp. reflexivity.
Qed.

Lemma res_ok_block names st w r n :
  st_stack st = w :: r -> block_tb (nth (w_tab w) (st_tabs st) dummy_table) ->
  tabs_ok names (st_tabs st) n -> res_ok names st n.
Proof.
  intros Hs Hb Ht ks i Hi.
  apply (resolve_cur_block names (add_consts st ks) (with_consts w (w_consts w ++ ks)) r n i).
  - apply add_consts_stack. exact Hs.
  - rewrite add_consts_tabs. exact Hb.
  - rewrite add_consts_tabs. exact Ht.
  - exact Hi.
Qed.
