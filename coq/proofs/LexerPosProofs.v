(* Every position the lexer model reports exists in the source text.
   [Reach input s]: s is reachable from [init input] by readChar / bookkeeping steps - every lexer
   function only moves through such states - and the line / column / line-start fields of a
   reachable state are exactly those of its character offset in [input]. *)
From Coq Require Import List NArith Bool Arith Lia.
Require Import RV.model.Lexer.
Import ListNotations.
Local Open Scope nat_scope.

Inductive Reach (input : list N) : lst -> Prop :=
| R_init : Reach input (init input)
| R_read s : Reach input s -> Reach input (read_char s)
| R_prev s k : Reach input s -> Reach input (set_prev s k).
#[export] Hint Constructors Reach : reach.

(* ---------- reference coordinates of an offset ---------- *)
Fixpoint nlcount (l : list N) : nat :=
  match l with [] => 0 | c :: r => (if N.eqb c 10 then 1 else 0) + nlcount r end.
(* offset just after the last newline of l, counted from [base] *)
Fixpoint line_start (base : nat) (l : list N) : nat :=
  match l with
  | [] => base
  | c :: r => if N.eqb c 10 then line_start (S base) r
              else match nlcount r with O => base | _ => line_start (S base) r end
  end.

Definition coords_ok (input : list N) (char line lstart col : nat) : Prop :=
  char <= length input /\
  line = nlcount (firstn char input) /\
  lstart <= char /\ col = char - lstart /\
  (* no newline between the line start and the offset, and a newline (or the beginning) before it *)
  nlcount (firstn (char - lstart) (skipn lstart input)) = 0 /\
  (lstart = 0 \/ nth (lstart - 1) input 0%N = 10%N).

Definition Inv (input : list N) (s : lst) : Prop :=
  rest s = skipn (lpos s) input /\
  coords_ok input (lpos s) (lline s) (lstart s) (lcol s).

Lemma nlcount_app a b : nlcount (a ++ b) = nlcount a + nlcount b.
Proof. induction a as [|c a IH]; cbn; [reflexivity|]. rewrite IH. lia. Qed.

Lemma firstn_S_nth (l : list N) n : n < length l -> firstn (S n) l = firstn n l ++ [nth n l 0%N].
Proof.
  revert n; induction l as [|c l IH]; intros n H; cbn in H; [lia|].
  destruct n as [|n]; [reflexivity|]. simpl. f_equal. apply IH. lia.
Qed.

Lemma skipn_hd (l : list N) n : n < length l -> skipn n l = nth n l 0%N :: skipn (S n) l.
Proof.
  revert n; induction l as [|c l IH]; intros n H; cbn in H; [lia|].
  destruct n as [|n]; [reflexivity|]. simpl. apply IH. lia.
Qed.

Lemma skipn_skipn' (l : list N) a b : skipn a (skipn b l) = skipn (a + b) l.
Proof.
  revert l; induction b as [|b IH]; intros l; [rewrite Nat.add_0_r; reflexivity|].
  destruct l as [|c l]; [rewrite !skipn_nil; reflexivity|].
  rewrite Nat.add_succ_r. cbn [skipn]. apply IH.
Qed.

Lemma nth_skipn (l : list N) a i : nth i (skipn a l) 0%N = nth (a + i) l 0%N.
Proof.
  revert l; induction a as [|a IH]; intros l; [reflexivity|].
  destruct l as [|c l]; [destruct i; reflexivity|]. simpl. apply IH.
Qed.

Arguments skipn : simpl never.
Arguments firstn : simpl never.
Arguments Nat.sub : simpl never.
Arguments nth : simpl never.

Lemma Inv_init input : Inv input (init input).
Proof.
  unfold Inv, init, coords_ok; cbn. repeat split; try lia; try discriminate; auto.
Qed.

Lemma Inv_set_prev input s k : Inv input s -> Inv input (set_prev s k).
Proof. unfold Inv, set_prev; cbn. tauto. Qed.

Lemma Inv_read input s : Inv input s -> Inv input (read_char s).
Proof.
  intros H. unfold read_char. destruct (rest s) as [|prev r] eqn:Er; [exact H|].
  destruct H as (Hr & Hc). destruct Hc as (C1 & C2 & C3 & C4 & C5 & C6).
  assert (Hlt : lpos s < length input).
  { destruct (Nat.le_gt_cases (length input) (lpos s)) as [Hge|]; [|assumption].
    rewrite Er in Hr. rewrite skipn_all2 in Hr by assumption. discriminate. }
  rewrite Er in Hr. rewrite (skipn_hd input (lpos s) Hlt) in Hr. injection Hr as Eprev Erest.
  set (c := nth (lpos s) input 0%N) in *. subst prev.
  destruct (N.eqb_spec c 10) as [Ec|Ec]; unfold Inv, coords_ok; cbn.
  + split; [exact Erest|].
    split; [lia|].
    split; [rewrite firstn_S_nth by lia; rewrite nlcount_app; fold c; rewrite Ec; cbn; lia|].
    split; [lia|]. split; [lia|].
    split; [rewrite Nat.sub_diag; reflexivity|].
    right. replace (S (lpos s) - 1) with (lpos s) by lia. exact Ec.
  + split; [exact Erest|].
    split; [lia|].
    split.
    { rewrite firstn_S_nth by lia. rewrite nlcount_app. fold c. cbn.
      destruct (N.eqb_spec c 10); [contradiction|]. lia. }
    split; [lia|]. split; [lia|].
    split; [|exact C6].
    replace (S (lpos s) - lstart s) with (S (lpos s - lstart s)) by lia.
    rewrite firstn_S_nth by (rewrite skipn_length; lia).
    rewrite nlcount_app, C5. cbn. rewrite nth_skipn.
    replace (lstart s + (lpos s - lstart s)) with (lpos s) by lia. fold c.
    destruct (N.eqb_spec c 10); [contradiction|]. reflexivity.
Qed.

Lemma Reach_Inv input s : Reach input s -> Inv input s.
Proof. induction 1; [apply Inv_init|apply Inv_read; assumption|apply Inv_set_prev; assumption]. Qed.

(* ---------- every lexer function moves through reachable states ---------- *)
Section ReachPreservation.
  Variable input : list N.
  Notation Rch := (Reach input).

  Ltac rs := repeat first [assumption | apply R_read | apply R_prev].

  Lemma reach_skip_ws f : forall s, Rch s -> Rch (skip_ws f s).
  Proof. induction f as [|f IH]; intros s H; cbn; [assumption|]. destruct (is_tab_or_space (cur s)); [apply IH; rs|assumption]. Qed.

  Lemma reach_skip_to_eol f : forall s, Rch s -> Rch (skip_to_eol f s).
  Proof. induction f as [|f IH]; intros s H; cbn; [assumption|]. destruct ((cur s =? 10)%N || (cur s =? 0)%N); [assumption|apply IH; rs]. Qed.

  Lemma reach_skip_multi f : forall s, Rch s -> Rch (skip_multi f s).
  Proof.
    induction f as [|f IH]; intros s H; cbn; [assumption|].
    destruct (cur s =? 0)%N; [rs|]. destruct ((cur s =? 42)%N && (peek s =? 47)%N); [rs|apply IH; rs].
  Qed.

  Lemma reach_read_accept f a : forall s acc, Rch s -> Rch (fst (read_accept f a s acc)).
  Proof.
    induction f as [|f IH]; intros s acc H; cbn; [assumption|].
    destruct (in_accept a (peek s) && negb (peek s =? 0)%N); [apply IH; rs|assumption].
  Qed.

  Arguments read_accept : simpl never.

  Lemma reach_read_number od s : Rch s -> Rch (fst (fst (read_number od s))).
  Proof.
    intros H. unfold read_number.
    destruct (if od then (acc_dec, NDec) else _) as [accept nt].
    pose proof (reach_read_accept (sz s) accept s [cur s] H) as Hr.
    destruct (read_accept (sz s) accept s [cur s]) as [s' str0]. cbn in Hr.
    destruct (is_letter_or_number (peek s')) as [[|]|]; cbn; assumption.
  Qed.

  Arguments read_number : simpl never.

  Definition TokR (t : token) : Prop :=
    (exists s1 s2, Rch s1 /\ Rch s2 /\ t_start t = get_pos s1 /\ t_end t = get_pos s2) \/ t = empty_token.

  Lemma TokR_mk k lit s0 s1 : Rch s0 -> Rch s1 -> TokR (mk_token k lit (get_pos s0) s1).
  Proof. intros H0 H1. left. exists s0, s1. repeat split; assumption. Qed.

  Lemma reach_read_decimal s0 s : Rch s0 -> Rch s ->
    let r := read_decimal (get_pos s0) s in Rch (fst (fst r)) /\ TokR (snd (fst r)).
  Proof.
    intros H0 H. unfold read_decimal.
    pose proof (reach_read_number false s H) as Hn.
    destruct (read_number false s) as [[s1 [[nt integer]|]] e]; cbn in Hn; cbn; [|split; [assumption|right; reflexivity]].
    destruct (negb (peek s1 =? 46)%N); cbn; [split; [assumption|apply TokR_mk; assumption]|].
    destruct nt; cbn; try (split; [assumption|right; reflexivity]).
    destruct (is_digit (peek (read_char s1))); cbn; [|split; [rs|right; reflexivity]].
    pose proof (reach_read_number true (read_char (read_char s1)) ltac:(rs)) as Hn2.
    destruct (read_number true (read_char (read_char s1))) as [[s4 [[nt2 fraction]|]] e2]; cbn in Hn2; cbn;
      [split; [assumption|apply TokR_mk; assumption]|split; [assumption|right; reflexivity]].
  Qed.

  Lemma reach_read_escape n base : forall s acc, Rch s -> Rch (fst (fst (read_escape n base s acc))).
  Proof.
    induction n as [|n IH]; intros s acc H; cbn; [assumption|].
    destruct (cur (read_char s) =? 0)%N; cbn; [rs|].
    destruct (negb (is_ascii (cur (read_char s)))); cbn; [rs|].
    destruct (digit_val (cur (read_char s))) as [d|]; cbn; [|rs].
    destruct (d <? base)%N; cbn; [apply IH; rs|rs].
  Qed.

  Lemma reach_read_backtick f : forall s acc, Rch s -> Rch (fst (fst (read_backtick f s acc))).
  Proof.
    induction f as [|f IH]; intros s acc H; cbn; [assumption|].
    destruct (peek s =? 0)%N; cbn; [assumption|].
    destruct (cur (read_char s) =? 96)%N; cbn; [rs|apply IH; rs].
  Qed.

  Lemma reach_read_ident_rest f : forall s acc, Rch s -> Rch (fst (fst (read_ident_rest f s acc))).
  Proof.
    induction f as [|f IH]; intros s acc H; cbn; [assumption|].
    destruct (is_identifier (peek s)) as [[|]|]; cbn; [apply IH; rs|assumption|assumption].
  Qed.

  Arguments read_escape : simpl never.
  Arguments utf8_encode : simpl never.

  Lemma reach_read_string f endc : forall s acc, Rch s -> Rch (fst (fst (read_string f endc s acc))).
  Proof.
    induction f as [|f IH]; intros s acc H; [exact H|].
    cbn [read_string].
    destruct ((peek s =? 0)%N || (peek s =? 10)%N); [exact H|].
    destruct (cur (read_char s) =? endc)%N; [cbn [fst]; rs|].
    destruct (negb (cur (read_char s) =? 92)%N); [apply IH; rs|].
    assert (H2 : Rch (read_char (read_char s))) by rs.
    repeat match goal with
           | |- context [if ?b then _ else _] => destruct b; [first [apply IH; exact H2 | idtac]|]
           end;
      try (apply IH; exact H2); try (cbn [fst]; exact H2).
    all: try match goal with
             | |- context [read_escape ?n ?b ?st ?a] =>
                 let Hr := fresh "Hr" in
                 pose proof (reach_read_escape n b st a H2) as Hr;
                 destruct (read_escape n b st a) as [[s3 [nn|]] er]; cbn [fst] in Hr |- *;
                 [try (destruct (2147483647 <? nn)%N; [cbn [fst]; exact Hr|]); apply IH; exact Hr | exact Hr]
             end.
  Qed.

  Arguments read_string : simpl never.
  Arguments read_backtick : simpl never.
  Arguments read_decimal : simpl never.
  Arguments read_ident_rest : simpl never.
  Arguments skip_ws : simpl never.
  Arguments skip_multi : simpl never.
  Arguments skip_to_eol : simpl never.
  Arguments keyword : simpl never.
  Arguments utf8_string : simpl never.

  Definition res_ok (r : lexres) : Prop :=
    match r with LTok t s => TokR t /\ Rch s | LErr t e s => TokR t /\ Rch s end.

  Lemma res_finish k lit s0 s1 : Rch s0 -> Rch s1 -> res_ok (finish (mk_token k lit (get_pos s0) s1) s1).
  Proof. intros H0 H1. unfold finish. cbn. split; [apply TokR_mk; assumption|]. apply R_prev, R_read. exact H1. Qed.

  Lemma reach_next : forall f s0, Rch s0 -> res_ok (next f s0).
  Proof.
    induction f as [|f IH]; intros s0 H0; [cbn; split; [right; reflexivity|exact H0]|].
    cbn [next].
    set (s := skip_ws (sz s0) s0).
    assert (Hs : Rch s) by (apply reach_skip_ws; exact H0).
    clearbody s.
    destruct ((cur s =? 35)%N || (cur s =? 47)%N && (peek s =? 47)%N).
    { apply IH. apply reach_skip_ws, reach_skip_to_eol. exact Hs. }
    destruct ((cur s =? 47)%N && (peek s =? 42)%N).
    { apply IH. apply reach_skip_ws, reach_skip_multi. exact Hs. }
    destruct (prev_eof s).
    { cbn. split; [apply TokR_mk; assumption|assumption]. }
    assert (Hs1 : Rch (read_char s)) by (apply R_read; exact Hs).
    repeat match goal with
           | |- res_ok (if ?b then _ else _) => destruct b
           end;
      try (apply res_finish; assumption).
    all: try match goal with
         | |- context [read_string ?f ?c ?st []] =>
             let Hr := fresh "Hr" in
             pose proof (reach_read_string f c st [] Hs) as Hr;
             destruct (read_string f c st []) as [[s1 lit] [e|]]; cbn [fst] in Hr;
             [cbn; split; [apply TokR_mk; assumption|apply R_prev, R_read; exact Hr]
             |apply res_finish; assumption]
         | |- context [read_backtick ?f ?st []] =>
             let Hr := fresh "Hr" in
             pose proof (reach_read_backtick f st [] Hs) as Hr;
             destruct (read_backtick f st []) as [[s1 lit] [e|]]; cbn [fst] in Hr;
             [cbn; split; [apply TokR_mk; assumption|apply R_prev, R_read; exact Hr]
             |apply res_finish; assumption]
         | |- context [read_decimal (get_pos ?st) ?st] =>
             let Hr := fresh "Hr" in let Ht := fresh "Ht" in
             pose proof (reach_read_decimal st st Hs Hs) as (Hr & Ht);
             destruct (read_decimal (get_pos st) st) as [[s1 t] [e|]]; cbn [fst snd] in Hr, Ht;
             [cbn; split; [apply TokR_mk; assumption|exact Hr]
             |unfold finish; cbn; split; [exact Ht|apply R_prev, R_read; exact Hr]]
         end.
    all: try (cbn; split; [first [right; reflexivity|apply TokR_mk; assumption]|exact Hs]).
    (* identifiers and keywords *)
    destruct (is_identifier (cur s)) as [[|]|]; try (cbn; split; [first [right; reflexivity|apply TokR_mk; assumption]|exact Hs]).
    pose proof (reach_read_ident_rest (sz s) s [cur s] Hs) as Hr.
    destruct (read_ident_rest (sz s) s [cur s]) as [[s1 ident] [e|]]; cbn [fst] in Hr.
    + cbn. split; [apply TokR_mk; assumption|exact Hr].
    + destruct (negb (is_ascii (peek s1))); [cbn; split; [apply TokR_mk; assumption|exact Hr]|].
      apply res_finish; assumption.
  Qed.
End ReachPreservation.

(* ---------- the token stream ---------- *)
Definition pos_valid (input : list N) (p : position) : Prop :=
  coords_ok input (p_char p) (p_line p) (p_linestart p) (p_col p).
Definition tok_valid (input : list N) (t : token) : Prop :=
  pos_valid input (t_start t) /\ pos_valid input (t_end t).

Lemma pos_valid_reach input s : Reach input s -> pos_valid input (get_pos s).
Proof. intros H. destruct (Reach_Inv input s H) as (_ & Hc). exact Hc. Qed.

Lemma pos_valid_empty input : pos_valid input empty_pos.
Proof. unfold pos_valid, empty_pos, coords_ok; cbn. repeat split; try lia; auto. Qed.

Lemma TokR_valid input t : TokR input t -> tok_valid input t.
Proof.
  intros [(s1 & s2 & H1 & H2 & E1 & E2)| ->].
  - split; [rewrite E1|rewrite E2]; apply pos_valid_reach; assumption.
  - split; apply pos_valid_empty.
Qed.

Lemma lex_all_ok input f : forall s, Reach input s ->
  Forall (tok_valid input) (fst (lex_all f s)) /\
  match snd (lex_all f s) with Some (t, _) => tok_valid input t | None => True end.
Proof.
  induction f as [|f IH]; intros s H; cbn [lex_all]; [split; [constructor|exact I]|].
  pose proof (reach_next input (S (sz s)) s H) as Hn.
  destruct (next (S (sz s)) s) as [t s'|t e s']; cbn in Hn; destruct Hn as (Ht & Hs').
  - destruct (t_kind t) eqn:Ek;
      try (specialize (IH s' Hs'); destruct (lex_all f s') as [ts e]; cbn [fst snd] in *;
           destruct IH as (IH1 & IH2); split; [constructor; [apply TokR_valid; exact Ht|exact IH1]|exact IH2]).
    cbn. split; [constructor; [apply TokR_valid; exact Ht|constructor]|exact I].
  - cbn. split; [constructor|apply TokR_valid; exact Ht].
Qed.

(* Every position of every token the lexer produces - and of the token an error is reported at -
   is a position of the source text: its line, line start and column are those of its character
   offset in [input]. *)
Theorem lex_positions_valid input :
  Forall (tok_valid input) (fst (lex input)) /\
  match snd (lex input) with Some (t, _) => tok_valid input t | None => True end.
Proof. unfold lex. apply lex_all_ok. constructor. Qed.

(* readable consequences *)
Lemma nlcount_firstn_le (l : list N) n : nlcount (firstn n l) <= nlcount l.
Proof.
  revert n; induction l as [|c l IH]; intros n; [rewrite firstn_nil; cbn; lia|].
  destruct n as [|n]; [change (firstn 0 (c :: l)) with (@nil N); cbn; lia|]. change (firstn (S n) (c :: l)) with (c :: firstn n l). cbn. specialize (IH n). lia.
Qed.

Fixpoint line_len (l : list N) : nat :=
  match l with [] => 0 | c :: r => if N.eqb c 10 then 0 else S (line_len r) end.

Lemma nonl_prefix_le (l : list N) k : k <= length l -> nlcount (firstn k l) = 0 -> k <= line_len l.
Proof.
  revert k; induction l as [|c l IH]; intros k Hk H; cbn in Hk; [lia|].
  destruct k as [|k]; [lia|]. change (firstn (S k) (c :: l)) with (c :: firstn k l) in H. cbn in H |- *.
  destruct (N.eqb c 10); [lia|]. assert (k <= line_len l) by (apply IH; lia). lia.
Qed.

(* the reported line exists, and the reported column lies within that line or just past its end
   (the position of the newline / of the end of the input) *)
Corollary pos_valid_in_source input p :
  pos_valid input p ->
  p_line p <= nlcount input /\ p_col p <= line_len (skipn (p_linestart p) input).
Proof.
  intros (C1 & C2 & C3 & C4 & C5 & _). split.
  - rewrite C2. apply nlcount_firstn_le.
  - rewrite C4. apply nonl_prefix_le; [rewrite skipn_length; lia|exact C5].
Qed.
