(* Proofs about the codec models (model/Codecs.v). *)
From Coq Require Import List Bool ZArith NArith Arith Lia.
Require Import RV.model.Wrappers RV.model.Codecs.
Import ListNotations.
Close Scope string_scope.
Open Scope N_scope.

(* ------------------------------------------------------------------ equality *)
Lemma bytes_eqb_refl : forall s, bytes_eqb s s = true.
Proof. induction s; simpl; [reflexivity|]. rewrite N.eqb_refl. assumption. Qed.

Lemma bytes_eqb_eq : forall s t, bytes_eqb s t = true -> s = t.
Proof.
  induction s; destruct t; simpl; intros H; try discriminate; [reflexivity|].
  apply andb_true_iff in H. destruct H as [H1 H2]. apply N.eqb_eq in H1. subst.
  f_equal. apply IHs. assumption.
Qed.

(* ------------------------------------------------------------------ byte codecs *)
Definition bytes_shape (cs : cshape) : Prop :=
  (cs_in cs = CBytes \/ cs_in cs = CString) /\ (cs_mid cs = RString \/ cs_mid cs = RBytes).

Lemma convert_content : forall c v g,
  c = CBytes \/ c = CString -> convert c v = Ok g ->
  content v = Some (content_of g) /\ (exists s, g = GBytes s \/ g = GStr s).
Proof.
  intros c v g [->| ->] H; destruct v; simpl in H; try discriminate; inversion H; subst; simpl; eauto.
Qed.

Lemma convert_mk_content : forall c k s,
  c = CBytes \/ c = CString -> k = RString \/ k = RBytes ->
  exists g, convert c (mk_content k s) = Ok g /\ content_of g = s.
Proof.
  intros c k s [->| ->] [->| ->]; simpl; eauto.
Qed.

Section CodecLaw.
  Variable enc : bytes -> bytes.
  Variable dec : bytes -> bytes + bytes.
  Hypothesis law : forall b, dec (enc b) = inl b.

  Lemma codec_inverse : forall cs v g,
    bytes_shape cs -> convert (cs_in cs) v = Ok g ->
    (forall f, cs_len cs = Some f -> forall b, f (length b) = length (strip_nl (enc b))) ->
    codec_decode dec cs (codec_encode enc cs v) = mk_content (cs_out cs) (content_of g) /\
    veq (mk_content (cs_out cs) (content_of g)) v = true.
  Proof.
    intros cs v g [Hin Hmid] Hc Hlen. unfold codec_encode. rewrite Hc.
    destruct (convert_mk_content (cs_in cs) (cs_mid cs) (enc (content_of g)) Hin Hmid) as [g' [Hg' Hc']].
    unfold codec_decode. rewrite Hg', Hc', law.
    assert (Hres : match cs_len cs with
                   | Some f => if Nat.eqb (f (length (content_of g))) (length (strip_nl (enc (content_of g))))
                               then mk_content (cs_out cs) (content_of g) else OErr EValue
                   | None => mk_content (cs_out cs) (content_of g)
                   end = mk_content (cs_out cs) (content_of g)).
    { destruct (cs_len cs) as [f|] eqn:L; [|reflexivity].
      rewrite (Hlen f eq_refl (content_of g)), Nat.eqb_refl. reflexivity. }
    rewrite Hres. split; [reflexivity|].
    destruct (convert_content _ _ _ Hin Hc) as [Hv _].
    destruct (cs_out cs); simpl; rewrite Hv; apply bytes_eqb_refl.
  Qed.

  (* an argument that is not bytes/string is refused by both directions, without calling the codec *)
  Lemma codec_type_error : forall cs v e,
    convert (cs_in cs) v = Err e ->
    codec_encode enc cs v = OErr e /\ codec_decode dec cs v = OErr e.
  Proof. intros cs v e H. unfold codec_encode, codec_decode. rewrite H. split; reflexivity. Qed.
End CodecLaw.

(* decode's own canonical-length check rejects what the Go decoder let through *)
Lemma codec_rejects_noncanonical : forall dec cs v g b f,
  convert (cs_in cs) v = Ok g -> dec (content_of g) = inl b -> cs_len cs = Some f ->
  f (length b) <> length (strip_nl (content_of g)) ->
  codec_decode dec cs v = OErr EValue.
Proof.
  intros dec cs v g b f H D L N. unfold codec_decode. rewrite H, D, L.
  apply Nat.eqb_neq in N. rewrite N. reflexivity.
Qed.

(* what the decoder rejects is reported as an error object *)
Lemma codec_rejects : forall dec cs v g t,
  convert (cs_in cs) v = Ok g -> dec (content_of g) = inr t ->
  codec_decode dec cs v = OErr (EGo t).
Proof. intros dec cs v g t H D. unfold codec_decode. rewrite H, D. reflexivity. Qed.

(* ------------------------------------------------------------------ hex *)
Lemma hex_val_digit : forall d, d < 16 -> hex_val (hex_digit d) = Some d.
Proof.
  intros d H.
  destruct d as [|p]; [reflexivity|].
  do 4 (destruct p as [p|p|]; try reflexivity; try lia).
Qed.

Lemma hex_pair : forall c, c < 256 ->
  hex_val (hex_digit (c / 16)) = Some (c / 16) /\ hex_val (hex_digit (c mod 16)) = Some (c mod 16) /\
  16 * (c / 16) + c mod 16 = c.
Proof.
  intros c H. repeat split.
  - apply hex_val_digit. apply N.div_lt_upper_bound; lia.
  - apply hex_val_digit. apply N.mod_lt. lia.
  - symmetry. apply N.div_mod. lia.
Qed.

Lemma hex_decode_encode : forall b, bytes_ok b -> hex_decode (hex_encode b) = inl b.
Proof.
  induction 1 as [|c b Hc Hb IH]; [reflexivity|].
  destruct (hex_pair c Hc) as [H1 [H2 H3]].
  change (hex_encode (c :: b)) with (hex_digit (c / 16) :: hex_digit (c mod 16) :: hex_encode b).
  cbn [hex_decode]. rewrite H1, H2, IH, H3. reflexivity.
Qed.

Lemma list_ind2 : forall (A : Type) (P : list A -> Prop),
  P [] -> (forall a, P [a]) -> (forall a b l, P l -> P (a :: b :: l)) -> forall l, P l.
Proof.
  intros A P H0 H1 H2.
  fix IH 1. intros [|a [|b l]]; [exact H0|exact (H1 a)|exact (H2 a b l (IH l))].
Qed.

(* accepted exactly when of even length and made of hex digits *)
Lemma hex_decode_accepts_iff : forall s,
  (exists b, hex_decode s = inl b) <-> (Nat.even (length s) = true /\ forallb is_hex s = true).
Proof.
  induction s as [| a | a b s IH] using list_ind2.
  - simpl. split; eauto.
  - simpl. split.
    + intros [b H]. destruct (hex_val a); discriminate.
    + intros [H _]. discriminate.
  - cbn [hex_decode length Nat.even forallb]. unfold is_hex at 1 2.
    destruct (hex_val a) as [x|].
    + destruct (hex_val b) as [y|].
      * simpl. rewrite <- IH. split.
        -- intros [r H]. destruct (hex_decode s); [eauto|discriminate].
        -- intros [r H]. rewrite H. eauto.
      * simpl. split; [intros [r H]; discriminate|intros [_ H]; discriminate].
    + simpl. split; [intros [r H]; discriminate|intros [_ H]; discriminate].
Qed.

Lemma hex_decode_rejects : forall s,
  Nat.even (length s) = false \/ forallb is_hex s = false -> exists e, hex_decode s = inr e.
Proof.
  intros s H. destruct (hex_decode s) as [b|e] eqn:E; [|eauto].
  assert (exists b, hex_decode s = inl b) as X by eauto.
  apply hex_decode_accepts_iff in X. destruct X as [X1 X2]. destruct H; congruence.
Qed.

Lemma hex_dec_law : forall b, bytes_ok b -> hex_dec (hex_encode b) = inl b.
Proof. intros. unfold hex_dec. rewrite hex_decode_encode by assumption. reflexivity. Qed.

(* the hex codec, without hypotheses: byte strings come back, whatever object carried them *)
Lemma hex_codec_inverse : forall v b,
  as_bytes v = Ok (GBytes b) -> bytes_ok b ->
  codec_decode hex_dec cs_hex (codec_encode hex_encode cs_hex v) = OBytes b /\ veq (OBytes b) v = true.
Proof.
  intros v b H Hb. unfold codec_encode, codec_decode. cbn [cs_hex cs_base64 cs_in cs_mid cs_out convert].
  rewrite H. cbn. rewrite hex_dec_law by assumption. split; [reflexivity|].
  destruct v; simpl in H; try discriminate; inversion H; subst; simpl; apply bytes_eqb_refl.
Qed.

Lemma hex_codec_rejects : forall v s,
  as_bytes v = Ok (GBytes s) ->
  Nat.even (length s) = false \/ forallb is_hex s = false ->
  exists t, codec_decode hex_dec cs_hex v = OErr (EGo t).
Proof.
  intros v s H M. destruct (hex_decode_rejects s M) as [e He].
  exists (hex_err_token e). eapply codec_rejects; [exact H|].
  unfold hex_dec. simpl. rewrite He. reflexivity.
Qed.

(* ------------------------------------------------------------------ numbers *)
Open Scope Z_scope.

Lemma strip_pos_value : forall p e, 0 <= e ->
  0 <= snd (strip_pos p e) /\
  Z.pos (fst (strip_pos p e)) * 2 ^ snd (strip_pos p e) = Z.pos p * 2 ^ e.
Proof.
  induction p as [p IH|p IH|]; intros e He; cbn [strip_pos fst snd]; try (split; [assumption|reflexivity]).
  destruct (IH (e + 1)) as [H1 H2]; [lia|]. split; [assumption|].
  rewrite H2. rewrite Z.pow_add_r by lia. change (Z.pos p~0) with (2 * Z.pos p). ring.
Qed.

Lemma f64_to_z_mk_fin : forall neg m e, 0 <= e ->
  f64_to_z (mk_fin neg m e) = Some (if neg then - (Z.of_N m * 2 ^ e) else Z.of_N m * 2 ^ e).
Proof.
  intros neg m e He. destruct m as [|p]; simpl.
  - destruct neg; reflexivity.
  - destruct (strip_pos_value p e He) as [H1 H2].
    destruct (strip_pos p e) as [p' e'] eqn:E. simpl in *.
    apply Z.leb_le in H1. rewrite H1. rewrite H2. reflexivity.
Qed.

Lemma z_to_f64_exact : forall z, Z.abs z <= 2 ^ 53 -> f64_to_z (z_to_f64 z) = Some z.
Proof.
  intros z H.
  assert (Z.abs z < 2 ^ 53 \/ z = 2 ^ 53 \/ z = - 2 ^ 53) as [Hlt|[->| ->]] by lia;
    [|vm_compute; reflexivity|vm_compute; reflexivity].
  unfold z_to_f64, round53.
  assert ((Z.abs_N z <? 2 ^ 53)%N = true) as ->.
  { apply N.ltb_lt. apply N2Z.inj_lt. rewrite N2Z.inj_abs_N. exact Hlt. }
  rewrite f64_to_z_mk_fin by lia. rewrite N2Z.inj_abs_N, Z.mul_1_r.
  destruct (z <? 0) eqn:S; f_equal.
  - apply Z.ltb_lt in S. lia.
  - apply Z.ltb_ge in S. lia.
Qed.

Lemma f64_eqb_refl : forall f, f64_eqb f f = true.
Proof.
  destruct f; simpl; try apply eqb_reflx; [|reflexivity].
  rewrite N.eqb_refl, Z.eqb_refl, eqb_reflx. reflexivity.
Qed.

Close Scope Z_scope.

(* ------------------------------------------------------------------ UTF-8 *)
Lemma utf8_width_le : forall s, (utf8_width s <= length s)%nat.
Proof.
  intros s. unfold utf8_width.
  destruct s as [|c r]; [simpl; lia|].
  destruct (c <? 128); [simpl; lia|].
  destruct ((194 <=? c) && (c <=? 223)).
  { destruct r as [|c1 r]; [simpl; lia|]. destruct (is_cont c1); simpl; lia. }
  destruct ((224 <=? c) && (c <=? 239)).
  { destruct r as [|c1 [|c2 r]]; try (simpl; lia).
    match goal with |- context [if ?b then 3%nat else 0%nat] => destruct b end; simpl; lia. }
  destruct ((240 <=? c) && (c <=? 244)).
  { destruct r as [|c1 [|c2 [|c3 r]]]; try (simpl; lia).
    match goal with |- context [if ?b then 4%nat else 0%nat] => destruct b end; simpl; lia. }
  simpl; lia.
Qed.

Lemma utf8_valid_fix_f : forall fuel s,
  (length s <= fuel)%nat -> utf8_valid_f fuel s = true -> utf8_fix_f fuel s = s.
Proof.
  induction fuel as [|f IH]; intros s L V.
  - destruct s; [reflexivity|simpl in L; lia].
  - destruct s as [|c r]; [reflexivity|].
    cbn [utf8_valid_f utf8_fix_f] in *.
    pose proof (utf8_width_le (c :: r)) as W.
    destruct (utf8_width (c :: r)) as [|w] eqn:E; [discriminate|].
    rewrite IH.
    + apply firstn_skipn.
    + rewrite skipn_length. simpl in *. lia.
    + assumption.
Qed.

Lemma utf8_valid_fix : forall s, utf8_valid s = true -> utf8_fix s = s.
Proof. intros. apply utf8_valid_fix_f; [lia|assumption]. Qed.

(* ------------------------------------------------------------------ induction over objects *)
Section ObjInd.
  Variable P : obj -> Prop.
  Hypothesis HNil : P ONil.
  Hypothesis HBool : forall b, P (OBool b).
  Hypothesis HInt : forall z, P (OInt z).
  Hypothesis HByte : forall n, P (OByte n).
  Hypothesis HFloat : forall f, P (OFloat f).
  Hypothesis HString : forall s, P (OString s).
  Hypothesis HBytes : forall s, P (OBytes s).
  Hypothesis HBuffer : forall s, P (OBuffer s).
  Hypothesis HRegexp : forall s, P (ORegexp s).
  Hypothesis HList : forall l, Forall P l -> P (OList l).
  Hypothesis HMap : forall kv, Forall (fun p => P (snd p)) kv -> P (OMap kv).
  Hypothesis HErr : forall k, P (OErr k).
  Hypothesis HOther : forall t, P (OOther t).

  Fixpoint obj_ind' (o : obj) : P o :=
    match o with
    | ONil => HNil
    | OBool b => HBool b
    | OInt z => HInt z
    | OByte n => HByte n
    | OFloat f => HFloat f
    | OString s => HString s
    | OBytes s => HBytes s
    | OBuffer s => HBuffer s
    | ORegexp s => HRegexp s
    | OList l =>
        HList l ((fix go (l : list obj) : Forall P l :=
                    match l with
                    | [] => Forall_nil P
                    | x :: r => Forall_cons x (obj_ind' x) (go r)
                    end) l)
    | OMap kv =>
        HMap kv ((fix go (l : list (bytes * obj)) : Forall (fun p => P (snd p)) l :=
                    match l with
                    | [] => Forall_nil _
                    | x :: r => Forall_cons x (obj_ind' (snd x)) (go r)
                    end) kv)
    | OErr k => HErr k
    | OOther t => HOther t
    end.
End ObjInd.

(* ------------------------------------------------------------------ JSON *)
Definition veq_list : list obj -> list obj -> bool :=
  fix go (l m : list obj) : bool :=
    match l, m with
    | [], [] => true
    | x :: l', y :: m' => veq x y && go l' m'
    | _, _ => false
    end.

Definition veq_map : list (bytes * obj) -> list (bytes * obj) -> bool :=
  fix go (l m : list (bytes * obj)) : bool :=
    match l, m with
    | [], [] => true
    | (k, x) :: l', (k', y) :: m' => bytes_eqb k k' && veq x y && go l' m'
    | _, _ => false
    end.

Lemma veq_OList : forall l m, veq (OList l) (OList m) = veq_list l m.
Proof. reflexivity. Qed.
Lemma veq_OMap : forall l m, veq (OMap l) (OMap m) = veq_map l m.
Proof. reflexivity. Qed.

Definition rt_ok (by_method : bool) (v : obj) : Prop :=
  exists j, to_jv by_method v = Some j /\ veq (of_jv j) v = true.

Lemma rt_list : forall bm l,
  Forall (fun v => json_safe v = true -> rt_ok bm v) l -> forallb json_safe l = true ->
  exists t, all_some (map (to_jv bm) l) = Some t /\ veq_list (map of_jv t) l = true.
Proof.
  induction 1 as [|v l Hv Hl IH]; simpl; intros S.
  - exists []. split; reflexivity.
  - apply andb_true_iff in S. destruct S as [S1 S2].
    destruct (Hv S1) as [j [Hj Ej]]. destruct (IH S2) as [t [Ht Et]].
    rewrite Hj, Ht. exists (j :: t). split; [reflexivity|]. simpl. rewrite Ej, Et. reflexivity.
Qed.

Lemma rt_map : forall bm kv,
  Forall (fun p => json_safe (snd p) = true -> rt_ok bm (snd p)) kv ->
  forallb (fun p => utf8_valid (fst p) && json_safe (snd p)) kv = true ->
  exists t,
    all_some (map (fun p => match to_jv bm (snd p) with
                            | Some j => Some (utf8_fix (fst p), j)
                            | None => None
                            end) kv) = Some t /\
    veq_map (map (fun p => (fst p, of_jv (snd p))) t) kv = true.
Proof.
  induction 1 as [|[k v] l Hv Hl IH]; simpl; intros S.
  - exists []. split; reflexivity.
  - apply andb_true_iff in S. destruct S as [S1 S2]. apply andb_true_iff in S1. destruct S1 as [Sk Sv].
    simpl in Hv. destruct (Hv Sv) as [j [Hj Ej]]. destruct (IH S2) as [t [Ht Et]].
    rewrite Hj, Ht. exists ((utf8_fix k, j) :: t). split; [reflexivity|].
    simpl. rewrite (utf8_valid_fix k Sk), bytes_eqb_refl, Ej, Et. reflexivity.
Qed.

(* every value of the safe JSON domain comes back equal, by either encoder *)
Lemma json_rt_safe : forall bm v, json_safe v = true -> rt_ok bm v.
Proof.
  intros bm. induction v using obj_ind'; intros S; simpl in S; try discriminate.
  - exists JNull. split; reflexivity.
  - exists (JBool b). split; [reflexivity|]. simpl. apply eqb_reflx.
  - exists (JNum (JInt z)). split; [reflexivity|]. simpl.
    unfold int_exact in S. apply Z.leb_le in S. rewrite (z_to_f64_exact z S). apply Z.eqb_refl.
  - exists (JNum (JInt (Z.of_N n))). split; [reflexivity|]. simpl.
    apply N.ltb_lt in S. rewrite z_to_f64_exact; [apply Z.eqb_refl|].
    rewrite Z.abs_eq by lia. change (2 ^ 53)%Z with (Z.of_N (2 ^ 53)). lia.
  - exists (JNum (JFloat f)). simpl. rewrite S. split; [reflexivity|]. simpl. apply f64_eqb_refl.
  - exists (JStr s). simpl. rewrite (utf8_valid_fix s S). split; [reflexivity|]. simpl. apply bytes_eqb_refl.
  - destruct (rt_list bm l H S) as [t [Ht Et]].
    exists (JArr t). split; [simpl; rewrite Ht; reflexivity|].
    change (of_jv (JArr t)) with (OList (map of_jv t)). rewrite veq_OList. exact Et.
  - destruct (rt_map bm kv H S) as [t [Ht Et]].
    exists (JObj t). split; [simpl; rewrite Ht; reflexivity|].
    change (of_jv (JObj t)) with (OMap (map (fun p => (fst p, of_jv (snd p))) t)). rewrite veq_OMap. exact Et.
Qed.

Lemma json_roundtrip_safe : forall v,
  json_safe v = true ->
  exists v', json_roundtrip v = Some v' /\ veq v' v = true.
Proof.
  intros v S. destruct (json_rt_safe false v S) as [j [Hj Ej]].
  exists (of_jv j). split; [|assumption].
  unfold json_roundtrip, json_encode. rewrite Hj. reflexivity.
Qed.

(* json.marshal and the json codec produce the same JSON on the JSON domain *)
Lemma to_jv_agree : forall v, json_dom v = true -> to_jv true v = to_jv false v.
Proof.
  induction v using obj_ind'; intros D; simpl in D; try discriminate; try reflexivity.
  - simpl. f_equal.
    assert (map (to_jv true) l = map (to_jv false) l) as ->; [|reflexivity].
    induction H as [|x l Hx Hl IH]; [reflexivity|]. simpl in *.
    apply andb_true_iff in D. destruct D as [D1 D2]. rewrite (Hx D1), (IH D2). reflexivity.
  - simpl.
    match goal with |- match all_some ?a with _ => _ end = match all_some ?b with _ => _ end =>
      assert (a = b) as ->; [|reflexivity] end.
    induction H as [|x l Hx Hl IH]; [reflexivity|]. simpl in *.
    apply andb_true_iff in D. destruct D as [D1 D2]. rewrite (Hx D1), (IH D2). reflexivity.
Qed.

Lemma json_agree : forall v, json_dom v = true -> json_marshal v = json_encode v.
Proof. intros v D. unfold json_marshal, json_encode. apply to_jv_agree. assumption. Qed.

Lemma json_decoders_agree : forall parse v,
  err_blind (json_unmarshal parse v) = err_blind (json_decode parse v).
Proof.
  intros parse v. unfold json_unmarshal, json_decode.
  destruct (as_bytes v); [|reflexivity]. destruct (parse (content_of a)); reflexivity.
Qed.

Lemma json_malformed_rejected : forall parse v g,
  as_bytes v = Ok g -> parse (content_of g) = None ->
  (exists e, json_decode parse v = OErr e) /\ (exists e, json_unmarshal parse v = OErr e).
Proof.
  intros parse v g H P. unfold json_decode, json_unmarshal. rewrite H, P. split; eauto.
Qed.
