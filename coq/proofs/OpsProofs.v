(* OpsProofs.v - the algebraic laws of Equals / Compare / HashKey / Contains / Sort (C15). *)
From Coq Require Import List Bool ZArith Lia Permutation Sorted.
Require Import RV.model.Ops.
Import ListNotations.
Open Scope Z_scope.

(* ================================================================ induction over values *)

Section value_ind2.
  Variable P : value -> Prop.
  Hypothesis HNil : P VNil.
  Hypothesis HBool : forall b, P (VBool b).
  Hypothesis HInt : forall z, P (VInt z).
  Hypothesis HFloat : forall n m, P (VFloat n m).
  Hypothesis HByte : forall z, P (VByte z).
  Hypothesis HStr : forall s, P (VStr s).
  Hypothesis HBytes : forall s, P (VBytes s).
  Hypothesis HErr : forall m r, P (VErr m r).
  Hypothesis HList : forall l, Forall P l -> P (VList l).
  Hypothesis HMap : forall m, Forall (fun kv => P (snd kv)) m -> P (VMap m).
  Hypothesis HSet : forall s, Forall P s -> P (VSet s).

  Fixpoint value_ind2 (v : value) : P v :=
    match v with
    | VNil => HNil
    | VBool b => HBool b
    | VInt z => HInt z
    | VFloat n m => HFloat n m
    | VByte z => HByte z
    | VStr s => HStr s
    | VBytes s => HBytes s
    | VErr m r => HErr m r
    | VList l =>
        HList l ((fix go (xs : list value) : Forall P xs :=
                    match xs with
                    | [] => Forall_nil P
                    | x :: xs' => Forall_cons x (value_ind2 x) (go xs')
                    end) l)
    | VMap m =>
        HMap m ((fix go (xs : list (bytes * value)) : Forall (fun kv => P (snd kv)) xs :=
                   match xs with
                   | [] => Forall_nil _
                   | kv :: xs' => Forall_cons kv (value_ind2 (snd kv)) (go xs')
                   end) m)
    | VSet s =>
        HSet s ((fix go (xs : list value) : Forall P xs :=
                   match xs with
                   | [] => Forall_nil P
                   | x :: xs' => Forall_cons x (value_ind2 x) (go xs')
                   end) s)
    end.
End value_ind2.

(* ================================================================ byte strings *)

Lemma bytes_eqb_eq : forall a b, bytes_eqb a b = true <-> a = b.
Proof.
  induction a as [|x a IH]; destruct b as [|y b]; simpl; split; intro H; try discriminate; auto.
  - apply andb_true_iff in H. destruct H as [H1 H2]. apply Z.eqb_eq in H1. apply IH in H2. congruence.
  - inversion H; subst. rewrite Z.eqb_refl. simpl. apply IH. reflexivity.
Qed.

Lemma bytes_eqb_refl : forall a, bytes_eqb a a = true.
Proof. intro a. apply bytes_eqb_eq. reflexivity. Qed.

Lemma bytes_eqb_sym : forall a b, bytes_eqb a b = bytes_eqb b a.
Proof.
  intros a b. destruct (bytes_eqb a b) eqn:E.
  - apply bytes_eqb_eq in E. subst. symmetry. apply bytes_eqb_refl.
  - destruct (bytes_eqb b a) eqn:E2; auto. apply bytes_eqb_eq in E2. subst. rewrite bytes_eqb_refl in E. discriminate.
Qed.

Lemma bytes_eqb_neq : forall a b, bytes_eqb a b = false <-> a <> b.
Proof.
  intros a b. split; intro H.
  - intro E. apply bytes_eqb_eq in E. congruence.
  - destruct (bytes_eqb a b) eqn:E; auto. apply bytes_eqb_eq in E. contradiction.
Qed.

Lemma bytes_cmp_eq : forall a b, bytes_cmp a b = Eq <-> a = b.
Proof.
  induction a as [|x a IH]; destruct b as [|y b]; simpl; split; intro H; try discriminate; auto.
  - destruct (x ?= y) eqn:E; try discriminate. apply Z.compare_eq in E. apply IH in H. congruence.
  - inversion H; subst. rewrite Z.compare_refl. apply IH. reflexivity.
Qed.

Lemma bytes_cmp_antisym : forall a b, bytes_cmp b a = CompOpp (bytes_cmp a b).
Proof.
  induction a as [|x a IH]; destruct b as [|y b]; simpl; auto.
  rewrite (Z.compare_antisym x y). destruct (x ?= y); simpl; auto.
Qed.

(* composition table of three-way comparisons in a total preorder *)
Definition ccomp (x y : comparison) : option comparison :=
  match x, y with
  | Eq, r => Some r
  | r, Eq => Some r
  | Lt, Lt => Some Lt
  | Gt, Gt => Some Gt
  | _, _ => None
  end.

Lemma Zcompare_trans : forall a b c r, ccomp (a ?= b) (b ?= c) = Some r -> (a ?= c) = r.
Proof.
  intros a b c r Hc.
  pose proof (Z.compare_spec a b) as S1. pose proof (Z.compare_spec b c) as S2. pose proof (Z.compare_spec a c) as S3.
  destruct S1; destruct S2; simpl in Hc; inversion Hc; subst; clear Hc; destruct S3; auto; lia.
Qed.

Lemma ccomp_lt_l : forall y r, ccomp Lt y = Some r -> r = Lt.
Proof. destruct y; simpl; intros r H; inversion H; auto. Qed.
Lemma ccomp_gt_l : forall y r, ccomp Gt y = Some r -> r = Gt.
Proof. destruct y; simpl; intros r H; inversion H; auto. Qed.
Lemma ccomp_lt_r : forall x r, ccomp x Lt = Some r -> r = Lt.
Proof. destruct x; simpl; intros r H; inversion H; auto. Qed.
Lemma ccomp_gt_r : forall x r, ccomp x Gt = Some r -> r = Gt.
Proof. destruct x; simpl; intros r H; inversion H; auto. Qed.
Lemma ccomp_eq_l : forall y r, ccomp Eq y = Some r -> r = y.
Proof. simpl; intros y r H; inversion H; auto. Qed.
Lemma ccomp_eq_r : forall x r, ccomp x Eq = Some r -> r = x.
Proof. destruct x; simpl; intros r H; inversion H; auto. Qed.

Lemma bytes_cmp_trans : forall a b c r, ccomp (bytes_cmp a b) (bytes_cmp b c) = Some r -> bytes_cmp a c = r.
Proof.
  induction a as [|x a IH]; intros [|y b] [|z c] r H; simpl in *.
  - inversion H; auto.
  - inversion H; auto.
  - discriminate.
  - apply ccomp_lt_l in H. auto.
  - inversion H; auto.
  - discriminate.
  - apply ccomp_gt_r in H. auto.
  - destruct (x ?= y) eqn:E1.
    + apply Z.compare_eq in E1. subst y. destruct (x ?= z) eqn:E2.
      * apply IH with b. exact H.
      * apply ccomp_lt_r in H. auto.
      * apply ccomp_gt_r in H. auto.
    + destruct (y ?= z) eqn:E2.
      * apply Z.compare_eq in E2. subst z. rewrite E1. apply ccomp_lt_l in H. auto.
      * apply ccomp_lt_l in H. subst r.
        assert (Hc : (x ?= z) = Lt) by (apply (Zcompare_trans x y z); rewrite E1, E2; reflexivity).
        rewrite Hc. reflexivity.
      * discriminate.
    + destruct (y ?= z) eqn:E2.
      * apply Z.compare_eq in E2. subst z. rewrite E1. apply ccomp_gt_l in H. auto.
      * discriminate.
      * apply ccomp_gt_l in H. subst r.
        assert (Hc : (x ?= z) = Gt) by (apply (Zcompare_trans x y z); rewrite E1, E2; reflexivity).
        rewrite Hc. reflexivity.
Qed.

(* ================================================================ floats *)

Lemma feq_spec : forall n1 m1 n2 m2, is_nan m1 = false -> is_nan m2 = false ->
  feq n1 m1 n2 m2 = (fkey n1 m1 =? fkey n2 m2).
Proof. intros. unfold feq. rewrite H, H0. reflexivity. Qed.

Lemma go_fcmp_spec : forall n1 m1 n2 m2, is_nan m1 = false -> is_nan m2 = false ->
  go_fcmp n1 m1 n2 m2 = (fkey n1 m1 ?= fkey n2 m2).
Proof.
  intros n1 m1 n2 m2 H1 H2. unfold go_fcmp, feq, fgt. rewrite H1, H2. simpl.
  destruct (Z.compare_spec (fkey n1 m1) (fkey n2 m2)) as [E|E|E].
  - rewrite E, Z.eqb_refl. reflexivity.
  - assert (fkey n1 m1 =? fkey n2 m2 = false) as -> by (apply Z.eqb_neq; lia).
    assert (fkey n2 m2 <? fkey n1 m1 = false) as -> by (apply Z.ltb_ge; lia). reflexivity.
  - assert (fkey n1 m1 =? fkey n2 m2 = false) as -> by (apply Z.eqb_neq; lia).
    assert (fkey n2 m2 <? fkey n1 m1 = true) as -> by (apply Z.ltb_lt; lia). reflexivity.
Qed.

Lemma feq_sym : forall n1 m1 n2 m2, feq n1 m1 n2 m2 = feq n2 m2 n1 m1.
Proof.
  intros. unfold feq. rewrite (Z.eqb_sym (fkey n1 m1)).
  destruct (is_nan m1), (is_nan m2); reflexivity.
Qed.

Lemma feq_true : forall n1 m1 n2 m2, feq n1 m1 n2 m2 = true ->
  is_nan m1 = false /\ is_nan m2 = false /\ fkey n1 m1 = fkey n2 m2.
Proof.
  intros n1 m1 n2 m2 H. unfold feq in H.
  destruct (is_nan m1); [discriminate|]. destruct (is_nan m2); [discriminate|].
  simpl in H. apply Z.eqb_eq in H. auto.
Qed.

Lemma feq_trans : forall n1 m1 n2 m2 n3 m3, feq n1 m1 n2 m2 = true -> feq n2 m2 n3 m3 = true -> feq n1 m1 n3 m3 = true.
Proof.
  intros. apply feq_true in H. apply feq_true in H0. destruct H as (A & B & C). destruct H0 as (D & E & F).
  rewrite feq_spec by assumption. apply Z.eqb_eq. congruence.
Qed.

(* ================================================================ unfolding the nested loops *)

Fixpoint leq (xs ys : list value) : bool :=
  match xs, ys with
  | x :: xs', y :: ys' => equals x y && leq xs' ys'
  | _, _ => true
  end.

Definition meq_entry (mb : list (bytes * value)) (kv : bytes * value) : bool :=
  match assoc (fst kv) mb with Some v' => equals (snd kv) v' | None => false end.

Definition seq_entry (sb : list value) (v : value) : bool :=
  match hashkey v with
  | Some k => match set_find k sb with Some v' => equals v v' | None => false end
  | None => false
  end.

Lemma equals_list : forall la lb,
  equals (VList la) (VList lb) = Nat.eqb (length la) (length lb) && leq la lb.
Proof.
  intros. reflexivity.
Qed.

Lemma equals_map : forall ma mb,
  equals (VMap ma) (VMap mb) = Nat.eqb (length ma) (length mb) && forallb (meq_entry mb) ma.
Proof.
  intros ma mb. simpl. f_equal. induction ma as [|[k v] ma IH]; [reflexivity|].
  cbn [forallb]. rewrite <- IH. reflexivity.
Qed.

Lemma equals_set : forall sa sb,
  equals (VSet sa) (VSet sb) = Nat.eqb (length sa) (length sb) && forallb (seq_entry sb) sa.
Proof.
  intros. reflexivity.
Qed.

Fixpoint lcmp (xs ys : list value) : option comparison :=
  match xs, ys with
  | x :: xs', y :: ys' =>
      match vcompare x y with
      | Some Eq => lcmp xs' ys'
      | r => r
      end
  | _, _ => Some Eq
  end.

Lemma vcompare_list : forall la lb,
  vcompare (VList la) (VList lb) =
  match Nat.compare (length la) (length lb) with
  | Gt => Some Gt
  | Lt => Some Lt
  | Eq => lcmp la lb
  end.
Proof.
  intros. reflexivity.
Qed.

Lemma no_nan_list : forall l, no_nan (VList l) = forallb no_nan l.
Proof. intros. reflexivity. Qed.
Lemma no_nan_set : forall l, no_nan (VSet l) = forallb no_nan l.
Proof. intros. reflexivity. Qed.
Lemma no_nan_map : forall m, no_nan (VMap m) = forallb (fun kv => no_nan (snd kv)) m.
Proof. intro m. simpl. induction m as [|[k x] m IH]; [reflexivity|]. cbn [forallb existsb snd]. rewrite <- IH. reflexivity. Qed.

Lemma wf_list : forall l, wf (VList l) = forallb wf l.
Proof. intros. reflexivity. Qed.
Lemma wf_map : forall m, wf (VMap m) = keys_nodup (map fst m) && forallb (fun kv => wf (snd kv)) m.
Proof. intro m. simpl. f_equal. induction m as [|[k x] m IH]; [reflexivity|]. cbn [forallb snd]. rewrite <- IH. reflexivity. Qed.

Definition anyl (f : value -> bool) (l : list value) : bool := existsb f l.

Lemma has_float_list : forall l, has_float (VList l) = existsb has_float l.
Proof. intros. reflexivity. Qed.
Lemma has_float_set : forall l, has_float (VSet l) = existsb has_float l.
Proof. intros. reflexivity. Qed.
Lemma has_float_map : forall m, has_float (VMap m) = existsb (fun kv => has_float (snd kv)) m.
Proof. intro m. simpl. induction m as [|[k x] m IH]; [reflexivity|]. cbn [forallb existsb snd]. rewrite <- IH. reflexivity. Qed.
Lemma has_int_list : forall l, has_int (VList l) = existsb has_int l.
Proof. intros. reflexivity. Qed.
Lemma has_int_set : forall l, has_int (VSet l) = existsb has_int l.
Proof. intros. reflexivity. Qed.
Lemma has_int_map : forall m, has_int (VMap m) = existsb (fun kv => has_int (snd kv)) m.
Proof. intro m. simpl. induction m as [|[k x] m IH]; [reflexivity|]. cbn [forallb existsb snd]. rewrite <- IH. reflexivity. Qed.

Lemma equals_unfold : forall a b,
  equals a b =
  match a with
  | VNil => match b with VNil => true | _ => false end
  | VBool x => match b with VBool y => Bool.eqb x y | _ => false end
  | VInt x =>
      match b with
      | VInt y => x =? y
      | VFloat n m => feq_if x n m
      | VByte y => x =? y
      | _ => false
      end
  | VFloat n m =>
      match b with
      | VInt y => feq_fi n m y
      | VFloat n2 m2 => feq n m n2 m2
      | VByte y => feq_fi n m y
      | _ => false
      end
  | VByte x =>
      match b with
      | VByte y => x =? y
      | VInt y => x =? y
      | VFloat n m => feq_if x n m
      | _ => false
      end
  | VStr s => match b with VStr t => bytes_eqb s t | VBytes t => bytes_eqb s t | _ => false end
  | VBytes s =>
      match b with
      | VBytes t => match bytes_cmp s t with Eq => true | _ => false end
      | VStr t => match bytes_cmp s t with Eq => true | _ => false end
      | _ => false
      end
  | VErr m r => match b with VErr m2 r2 => bytes_eqb m m2 && Bool.eqb r r2 | _ => false end
  | VList la => match b with VList lb => Nat.eqb (length la) (length lb) && leq la lb | _ => false end
  | VMap ma => match b with VMap mb => Nat.eqb (length ma) (length mb) && forallb (meq_entry mb) ma | _ => false end
  | VSet sa => match b with VSet sb => Nat.eqb (length sa) (length sb) && forallb (seq_entry sb) sa | _ => false end
  end.
Proof.
  intros a b. destruct a; try reflexivity; destruct b; try reflexivity. apply equals_map.
Qed.

Lemma vcompare_unfold : forall a b,
  vcompare a b =
  match a with
  | VNil => match b with VNil => Some Eq | _ => None end
  | VBool x => match b with VBool y => Some (bool_cmp x y) | _ => None end
  | VInt x =>
      match b with
      | VFloat n m => Some (fcmp_if x n m)
      | VInt y => Some (x ?= y)
      | VByte y => Some (x ?= y)
      | _ => None
      end
  | VFloat n m =>
      match b with
      | VFloat n2 m2 => Some (go_fcmp n m n2 m2)
      | VInt y => Some (fcmp_fi n m y)
      | VByte y => Some (fcmp_fi n m y)
      | _ => None
      end
  | VByte x =>
      match b with
      | VFloat n m => Some (fcmp_if x n m)
      | VInt y => Some (x ?= y)
      | VByte y => Some (x ?= y)
      | _ => None
      end
  | VStr s => match b with VStr t => Some (bytes_cmp s t) | VBytes t => Some (bytes_cmp s t) | _ => None end
  | VBytes s =>
      match b with
      | VBytes t => Some (bytes_cmp s t)
      | VStr t => Some (bytes_cmp s t)
      | _ => None
      end
  | VErr m r => match b with VErr m2 r2 => Some (err_cmp m r m2 r2) | _ => None end
  | VList la =>
      match b with
      | VList lb =>
          match Nat.compare (length la) (length lb) with
          | Gt => Some Gt
          | Lt => Some Lt
          | Eq => lcmp la lb
          end
      | _ => None
      end
  | VMap _ => None
  | VSet _ => None
  end.
Proof. intros a b. destruct a; try reflexivity; destruct b; reflexivity. Qed.

Global Opaque equals vcompare.

(* ================================================================ the laws of a total preorder, bundled *)

Definition cmp_laws (a b c : value) : Prop :=
  (exists x, vcompare a b = Some x) /\
  vcompare b a = option_map CompOpp (vcompare a b) /\
  (forall x y r, vcompare a b = Some x -> vcompare b c = Some y -> ccomp x y = Some r -> vcompare a c = Some r) /\
  (vcompare a b = Some Eq <-> equals a b = true).

Definition lcmp_laws (la lb lc : list value) : Prop :=
  (exists x, lcmp la lb = Some x) /\
  lcmp lb la = option_map CompOpp (lcmp la lb) /\
  (forall x y r, lcmp la lb = Some x -> lcmp lb lc = Some y -> ccomp x y = Some r -> lcmp la lc = Some r) /\
  (lcmp la lb = Some Eq <-> leq la lb = true).

Lemma ccomp_neq : forall x y r, ccomp x y = Some r -> x <> Eq -> y <> Eq -> r = x /\ r = y.
Proof. intros [] [] r H; simpl in H; inversion H; intros; try contradiction; auto; try discriminate. Qed.

Lemma lcmp_laws_of : forall (P : value -> Prop),
  (forall a b c, P a -> P b -> P c -> cmp_laws a b c) ->
  forall la lb lc, Forall P la -> Forall P lb -> Forall P lc ->
  length la = length lb -> length lb = length lc -> lcmp_laws la lb lc.
Proof.
  intros P HP. induction la as [|x la IH]; intros [|y lb] [|z lc] Fa Fb Fc L1 L2; simpl in L1, L2; try discriminate.
  - unfold lcmp_laws. simpl. repeat split; eauto.
    intros x y r H1 H2 H3. inversion H1; inversion H2; subst. simpl in H3. inversion H3. reflexivity.
  - inversion Fa as [|? ? Px Fa']; inversion Fb as [|? ? Py Fb']; inversion Fc as [|? ? Pz Fc']; subst.
    injection L1 as L1. injection L2 as L2.
    destruct (IH lb lc Fa' Fb' Fc' L1 L2) as (T1 & T2 & T3 & T4).
    destruct (HP x y z Px Py Pz) as ([cx Hx] & A2 & A3 & A4).
    destruct (HP y z z Py Pz Pz) as ([cy Hy] & _).
    unfold lcmp_laws. simpl. rewrite A2, Hx. simpl.
    repeat split.
    + destruct cx; eauto.
    + destruct cx; simpl; auto.
    + intros x0 y0 r H1 H2 H3. rewrite Hy in H2.
      destruct cx, cy.
      * rewrite (A3 Eq Eq Eq Hx Hy eq_refl). eapply T3; eauto.
      * inversion H2; subst. apply ccomp_lt_r in H3. subst. rewrite (A3 Eq Lt Lt Hx Hy eq_refl). reflexivity.
      * inversion H2; subst. apply ccomp_gt_r in H3. subst. rewrite (A3 Eq Gt Gt Hx Hy eq_refl). reflexivity.
      * inversion H1; subst. apply ccomp_lt_l in H3. subst. rewrite (A3 Lt Eq Lt Hx Hy eq_refl). reflexivity.
      * inversion H1; inversion H2; subst. simpl in H3. inversion H3; subst. rewrite (A3 Lt Lt Lt Hx Hy eq_refl). reflexivity.
      * inversion H1; inversion H2; subst. simpl in H3. discriminate.
      * inversion H1; subst. apply ccomp_gt_l in H3. subst. rewrite (A3 Gt Eq Gt Hx Hy eq_refl). reflexivity.
      * inversion H1; inversion H2; subst. simpl in H3. discriminate.
      * inversion H1; inversion H2; subst. simpl in H3. inversion H3; subst. rewrite (A3 Gt Gt Gt Hx Hy eq_refl). reflexivity.
    + intro H. destruct cx; try discriminate. apply andb_true_iff. split; [apply A4; auto | apply T4; auto].
    + intro H. apply andb_true_iff in H. destruct H as [H1 H2]. apply A4 in H1. rewrite Hx in H1. inversion H1; subst.
      apply T4. exact H2.
Qed.

Lemma list_laws_of : forall (P : value -> Prop),
  (forall a b c, P a -> P b -> P c -> cmp_laws a b c) ->
  forall la lb lc, Forall P la -> Forall P lb -> Forall P lc -> cmp_laws (VList la) (VList lb) (VList lc).
Proof.
  intros P HP la lb lc Fa Fb Fc.
  pose proof (lcmp_laws_of P HP) as LL.
  unfold cmp_laws. rewrite !vcompare_list. rewrite (equals_unfold (VList la)).
  destruct (Nat.compare_spec (length la) (length lb)) as [E1|E1|E1].
  - (* equal lengths *)
    assert (Hbb : length lb = length lb) by reflexivity.
    destruct (LL la lb lb Fa Fb Fb E1 Hbb) as (T1 & T2 & _ & T4).
    repeat split.
    + exact T1.
    + rewrite <- E1, Nat.compare_refl. exact T2.
    + intros x y r H1 H2 H3.
      destruct (Nat.compare_spec (length lb) (length lc)) as [E2|E2|E2].
      * destruct (LL la lb lc Fa Fb Fc E1 E2) as (_ & _ & T3 & _).
        rewrite E1, E2, Nat.compare_refl. eapply T3; eauto.
      * inversion H2; subst. apply ccomp_lt_r in H3. subst.
        assert (Hlt : Nat.compare (length la) (length lc) = Lt) by (apply Nat.compare_lt_iff; lia). rewrite Hlt. reflexivity.
      * inversion H2; subst. apply ccomp_gt_r in H3. subst.
        assert (Hgt : Nat.compare (length la) (length lc) = Gt) by (apply Nat.compare_gt_iff; lia). rewrite Hgt. reflexivity.
    + intro H. apply andb_true_iff. split; [apply Nat.eqb_eq; exact E1 | apply T4; exact H].
    + intro H. apply andb_true_iff in H. apply T4. apply H.
  - assert (Hgt : Nat.compare (length lb) (length la) = Gt) by (apply Nat.compare_gt_iff; lia).
    repeat split; eauto.
    + rewrite Hgt. reflexivity.
    + intros x y r H1 H2 H3. inversion H1; subst. apply ccomp_lt_l in H3 as Hr. subst r.
      destruct (Nat.compare_spec (length lb) (length lc)) as [E2|E2|E2].
      * assert (Hlt : Nat.compare (length la) (length lc) = Lt) by (apply Nat.compare_lt_iff; lia). rewrite Hlt. reflexivity.
      * assert (Hlt : Nat.compare (length la) (length lc) = Lt) by (apply Nat.compare_lt_iff; lia). rewrite Hlt. reflexivity.
      * inversion H2; subst. simpl in H3. discriminate.
    + discriminate.
    + intro H. apply andb_true_iff in H. destruct H as [H _]. apply Nat.eqb_eq in H. lia.
  - assert (Hlt : Nat.compare (length lb) (length la) = Lt) by (apply Nat.compare_lt_iff; lia).
    repeat split; eauto.
    + rewrite Hlt. reflexivity.
    + intros x y r H1 H2 H3. inversion H1; subst. apply ccomp_gt_l in H3 as Hr. subst r.
      destruct (Nat.compare_spec (length lb) (length lc)) as [E2|E2|E2].
      * assert (Hgt : Nat.compare (length la) (length lc) = Gt) by (apply Nat.compare_gt_iff; lia). rewrite Hgt. reflexivity.
      * inversion H2; subst. simpl in H3. discriminate.
      * assert (Hgt : Nat.compare (length la) (length lc) = Gt) by (apply Nat.compare_gt_iff; lia). rewrite Hgt. reflexivity.
    + discriminate.
    + intro H. apply andb_true_iff in H. destruct H as [H _]. apply Nat.eqb_eq in H. lia.
Qed.

(* ================================================================ homogeneous orderable types *)

Lemma bool_cmp_laws : forall x y z : bool,
  bool_cmp y x = CompOpp (bool_cmp x y) /\
  (forall r, ccomp (bool_cmp x y) (bool_cmp y z) = Some r -> bool_cmp x z = r) /\
  (bool_cmp x y = Eq <-> Bool.eqb x y = true).
Proof.
  intros [] [] []; unfold bool_cmp; simpl; repeat split; intros; try discriminate; auto;
    try (inversion H; reflexivity).
Qed.

Lemma oty_laws : forall t a b c,
  has_oty t a = true -> has_oty t b = true -> has_oty t c = true -> cmp_laws a b c.
Proof.
  induction t as [| | | | |t IH]; intros a b c Ha Hb Hc.
  - destruct a; try discriminate; destruct b; try discriminate; destruct c; try discriminate.
    unfold cmp_laws. rewrite !vcompare_unfold, equals_unfold. repeat split; eauto.
    + simpl. rewrite Z.compare_antisym. reflexivity.
    + intros x y r H1 H2 H3. inversion H1; inversion H2; subst. f_equal. apply Zcompare_trans with z0. exact H3.
    + intro H. inversion H as [H1]. apply Z.compare_eq in H1. subst. apply Z.eqb_refl.
    + intro H. apply Z.eqb_eq in H. subst. rewrite Z.compare_refl. reflexivity.
  - destruct a as [| | |n1 m1| | | | | | |]; try discriminate;
    destruct b as [| | |n2 m2| | | | | | |]; try discriminate;
    destruct c as [| | |n3 m3| | | | | | |]; try discriminate.
    simpl in Ha, Hb, Hc. apply negb_true_iff in Ha, Hb, Hc.
    unfold cmp_laws. rewrite !vcompare_unfold, equals_unfold.
    rewrite !go_fcmp_spec by assumption. rewrite feq_spec by assumption. repeat split; eauto.
    + simpl. rewrite Z.compare_antisym. reflexivity.
    + intros x y r H1 H2 H3. inversion H1; inversion H2; subst. f_equal. eapply Zcompare_trans. exact H3.
    + intro H. inversion H as [H1]. apply Z.compare_eq in H1. rewrite H1. apply Z.eqb_refl.
    + intro H. apply Z.eqb_eq in H. rewrite H. rewrite Z.compare_refl. reflexivity.
  - destruct a; try discriminate; destruct b; try discriminate; destruct c; try discriminate.
    unfold cmp_laws. rewrite !vcompare_unfold, equals_unfold. repeat split; eauto.
    + simpl. rewrite Z.compare_antisym. reflexivity.
    + intros x y r H1 H2 H3. inversion H1; inversion H2; subst. f_equal. apply Zcompare_trans with z0. exact H3.
    + intro H. inversion H as [H1]. apply Z.compare_eq in H1. subst. apply Z.eqb_refl.
    + intro H. apply Z.eqb_eq in H. subst. rewrite Z.compare_refl. reflexivity.
  - destruct a; try discriminate; destruct b; try discriminate; destruct c; try discriminate.
    unfold cmp_laws. rewrite !vcompare_unfold, equals_unfold. repeat split; eauto.
    + simpl. rewrite bytes_cmp_antisym. reflexivity.
    + intros x y r H1 H2 H3. inversion H1; inversion H2; subst. f_equal. apply bytes_cmp_trans with s0. exact H3.
    + intro H. inversion H as [H1]. apply bytes_cmp_eq in H1. subst. apply bytes_eqb_refl.
    + intro H. apply bytes_eqb_eq in H. subst. f_equal. apply bytes_cmp_eq. reflexivity.
  - destruct a as [|x| | | | | | | | |]; try discriminate;
    destruct b as [|y| | | | | | | | |]; try discriminate;
    destruct c as [|z| | | | | | | | |]; try discriminate.
    unfold cmp_laws. rewrite !vcompare_unfold, equals_unfold.
    destruct (bool_cmp_laws x y z) as (B1 & B2 & B3). repeat split; eauto.
    + simpl. rewrite B1. reflexivity.
    + intros x0 y0 r H1 H2 H3. inversion H1; inversion H2; subst. f_equal. apply B2. exact H3.
    + intro H. inversion H as [H1]. apply B3. exact H1.
    + intro H. f_equal. apply B3. exact H.
  - destruct a as [| | | | | | | |la| |]; try discriminate;
    destruct b as [| | | | | | | |lb| |]; try discriminate;
    destruct c as [| | | | | | | |lc| |]; try discriminate.
    simpl in Ha, Hb, Hc. rewrite forallb_forall in Ha, Hb, Hc.
    apply (list_laws_of (fun v => has_oty t v = true)); auto; apply Forall_forall; assumption.
Qed.

(* the individual laws, in the operators' terms *)
Definition le_v (a b : value) : Prop := vcompare a b = Some Lt \/ vcompare a b = Some Eq.

Lemma oty_comparable : forall t a b, has_oty t a = true -> has_oty t b = true -> exists x, vcompare a b = Some x.
Proof. intros t a b Ha Hb. destruct (oty_laws t a b b Ha Hb Hb) as (H & _). exact H. Qed.

Lemma oty_antisym : forall t a b, has_oty t a = true -> has_oty t b = true ->
  vcompare b a = option_map CompOpp (vcompare a b).
Proof. intros t a b Ha Hb. destruct (oty_laws t a b b Ha Hb Hb) as (_ & H & _). exact H. Qed.

Lemma oty_refl : forall t a, has_oty t a = true -> vcompare a a = Some Eq.
Proof.
  intros t a Ha. destruct (oty_laws t a a a Ha Ha Ha) as ([x Hx] & H2 & _).
  rewrite Hx in H2. simpl in H2. inversion H2 as [H3]. destruct x; try discriminate. exact Hx.
Qed.

Lemma oty_trans : forall t a b c, has_oty t a = true -> has_oty t b = true -> has_oty t c = true ->
  le_v a b -> le_v b c -> le_v a c.
Proof.
  intros t a b c Ha Hb Hc H1 H2. destruct (oty_laws t a b c Ha Hb Hc) as (_ & _ & T & _).
  destruct H1 as [H1|H1]; destruct H2 as [H2|H2].
  - left. apply (T Lt Lt Lt H1 H2 eq_refl).
  - left. apply (T Lt Eq Lt H1 H2 eq_refl).
  - left. apply (T Eq Lt Lt H1 H2 eq_refl).
  - right. apply (T Eq Eq Eq H1 H2 eq_refl).
Qed.

Lemma oty_total : forall t a b, has_oty t a = true -> has_oty t b = true -> le_v a b \/ le_v b a.
Proof.
  intros t a b Ha Hb. destruct (oty_comparable t a b Ha Hb) as [x Hx].
  pose proof (oty_antisym t a b Ha Hb) as A. rewrite Hx in A. simpl in A.
  destruct x; [left; right | left; left | right; left]; auto.
Qed.

Lemma oty_eq_agrees : forall t a b, has_oty t a = true -> has_oty t b = true ->
  (vcompare a b = Some Eq <-> equals a b = true).
Proof. intros t a b Ha Hb. destruct (oty_laws t a b b Ha Hb Hb) as (_ & _ & _ & H). exact H. Qed.

(* <, <=, >, >= are the strict part, the preorder and their converses *)
Lemma cmp_op_le : forall a b, cmp_op OLe a b = Some true <-> le_v a b.
Proof.
  intros a b. unfold cmp_op, le_v. destruct (vcompare a b) as [[]|]; split; intro H; auto;
    try discriminate; try (destruct H; discriminate).
Qed.

Lemma cmp_op_lt : forall a b, cmp_op OLt a b = Some true <-> vcompare a b = Some Lt.
Proof. intros a b. unfold cmp_op. destruct (vcompare a b) as [[]|]; split; intro H; auto; discriminate. Qed.

Lemma cmp_op_gt_lt : forall t a b, has_oty t a = true -> has_oty t b = true -> cmp_op OGt a b = cmp_op OLt b a.
Proof.
  intros t a b Ha Hb. unfold cmp_op. rewrite (oty_antisym t a b Ha Hb).
  destruct (vcompare a b) as [[]|]; reflexivity.
Qed.

Lemma cmp_op_ge_le : forall t a b, has_oty t a = true -> has_oty t b = true -> cmp_op OGe a b = cmp_op OLe b a.
Proof.
  intros t a b Ha Hb. unfold cmp_op. rewrite (oty_antisym t a b Ha Hb).
  destruct (vcompare a b) as [[]|]; reflexivity.
Qed.

Lemma cmp_op_lt_strict : forall t a b, has_oty t a = true -> has_oty t b = true ->
  (cmp_op OLt a b = Some true <-> (cmp_op OLe a b = Some true /\ cmp_op OLe b a <> Some true)).
Proof.
  intros t a b Ha Hb. unfold cmp_op. rewrite (oty_antisym t a b Ha Hb).
  destruct (vcompare a b) as [[]|]; simpl; split; intro H; try discriminate; auto; try (destruct H as [H1 H2]; try discriminate; try (exfalso; apply H2; reflexivity)).
  split; [reflexivity | discriminate].
Qed.

(* ================================================================ hash keys *)

Lemma tag_eqb_eq : forall a b, tag_eqb a b = true <-> a = b.
Proof. intros [] []; simpl; split; intro H; try discriminate; auto. Qed.

Lemma hkey_eqb_eq : forall a b, hkey_eqb a b = true -> a = b.
Proof.
  intros [t1 f1 i1 s1] [t2 f2 i2 s2]. unfold hkey_eqb. simpl. intro H.
  apply andb_true_iff in H. destruct H as [H H4]. apply andb_true_iff in H. destruct H as [H H3].
  apply andb_true_iff in H. destruct H as [H1 H2].
  apply tag_eqb_eq in H1. apply Z.eqb_eq in H3. apply bytes_eqb_eq in H4.
  destruct f1 as [x|]; destruct f2 as [y|]; try discriminate. apply Z.eqb_eq in H2. subst. reflexivity.
Qed.

Lemma hkey_eqb_refl : forall a, hk_flt a <> None -> hkey_eqb a a = true.
Proof.
  intros [t f i s] H. unfold hkey_eqb. simpl in *. destruct f as [x|]; [|contradiction].
  rewrite Z.eqb_refl, Z.eqb_refl, bytes_eqb_refl. destruct t; reflexivity.
Qed.

Lemma hkey_eqb_sym : forall a b, hkey_eqb a b = hkey_eqb b a.
Proof.
  intros a b. destruct (hkey_eqb a b) eqn:E.
  - pose proof E as E'. apply hkey_eqb_eq in E'. subst. symmetry. exact E.
  - destruct (hkey_eqb b a) eqn:E2; auto. pose proof E2 as E'. apply hkey_eqb_eq in E'. subst. congruence.
Qed.

Lemma hashkey_no_nan : forall v k, hashkey v = Some k -> no_nan v = true -> hk_flt k <> None.
Proof.
  intros v k H N. destruct v; simpl in H; inversion H; subst; simpl; discriminate.
Qed.

Lemma bytes_cmp_refl : forall s, bytes_cmp s s = Eq.
Proof. intro s. apply bytes_cmp_eq. reflexivity. Qed.

Ltac bsplit := repeat match goal with H : _ && _ = true |- _ => apply andb_true_iff in H; destruct H end.

(* a hashable value that is == to something is not a NaN *)
Lemma equals_hashable_no_nan_l : forall a b k, hashkey a = Some k -> equals a b = true -> no_nan a = true.
Proof.
  intros a b k Hk E. destruct a; simpl in Hk; try discriminate; try reflexivity.
  rewrite equals_unfold in E. simpl.
  destruct b; try discriminate; unfold feq_fi, feq in E;
    try (destruct (of_int _) as [ni mi]); apply andb_true_iff in E; destruct E as [E _];
    apply andb_true_iff in E; destruct E as [E _]; exact E.
Qed.
Lemma equals_hashable_no_nan_r : forall a b k, hashkey b = Some k -> equals a b = true -> no_nan b = true.
Proof.
  intros a b k Hk E. destruct b; simpl in Hk; try discriminate; try reflexivity.
  rewrite equals_unfold in E. simpl.
  destruct a; try discriminate; unfold feq_if, feq in E;
    try (destruct (of_int _) as [ni mi]); apply andb_true_iff in E; destruct E as [E _];
    apply andb_true_iff in E; destruct E as [_ E]; exact E.
Qed.

(* members with the same hash key are == *)
Lemma hkey_equals : forall a b ka kb,
  no_nan a = true -> no_nan b = true ->
  hashkey a = Some ka -> hashkey b = Some kb -> hkey_eqb ka kb = true -> equals a b = true.
Proof.
  intros a b ka kb Na Nb Ha Hb E.
  destruct a; simpl in Ha; inversion Ha; subst; clear Ha;
  destruct b; simpl in Hb; inversion Hb; subst; clear Hb;
    unfold hkey_eqb in E; simpl in E; try discriminate; rewrite equals_unfold; simpl; auto; bsplit.
  - destruct b, b0; simpl in *; try discriminate; reflexivity.
  - assumption.
  - simpl in Na, Nb. apply negb_true_iff in Na, Nb. rewrite Na, Nb in *.
    rewrite feq_spec by assumption. simpl in *. assumption.
  - assumption.
  - match goal with H : bytes_eqb _ _ = true |- _ => apply bytes_eqb_eq in H; subst end.
    rewrite bytes_cmp_refl. reflexivity.
Qed.

(* values of one hashable type that are == have the same hash key, and conversely *)
Lemma set_slot : forall a b ka kb,
  tag_of a = tag_of b -> hashkey a = Some ka -> hashkey b = Some kb ->
  no_nan a = true -> no_nan b = true ->
  (equals a b = true <-> hkey_eqb ka kb = true).
Proof.
  intros a b ka kb T Ha Hb Na Nb. split.
  - intro E.
    destruct a; simpl in Ha; inversion Ha; subst; clear Ha;
    destruct b; simpl in T; try discriminate; simpl in Hb; inversion Hb; subst; clear Hb;
      rewrite equals_unfold in E; simpl in E; unfold hkey_eqb; simpl;
      try solve [ auto
                | destruct b, b0; simpl in *; auto
                | rewrite E; reflexivity
                | simpl in Na, Nb; apply negb_true_iff in Na, Nb; rewrite Na, Nb;
                  rewrite feq_spec in E by assumption; rewrite E; reflexivity
                | destruct (bytes_cmp s s0) eqn:C; try discriminate; apply bytes_cmp_eq in C; subst; apply bytes_eqb_refl ].
  - intro E. eapply hkey_equals; eauto.
Qed.

(* ================================================================ association lists and member lists *)

Lemma assoc_in : forall m k v, keys_nodup (map fst m) = true -> In (k, v) m -> assoc k m = Some v.
Proof.
  induction m as [|[k' v'] m IH]; intros k v N I; [contradiction|].
  simpl in N. apply andb_true_iff in N. destruct N as [N1 N2]. apply negb_true_iff in N1.
  simpl. destruct I as [I|I].
  - inversion I; subst. rewrite bytes_eqb_refl. reflexivity.
  - destruct (bytes_eqb k' k) eqn:E.
    + apply bytes_eqb_eq in E. subst k'. exfalso.
      assert (existsb (bytes_eqb k) (map fst m) = true).
      { apply existsb_exists. exists k. split; [|apply bytes_eqb_refl]. apply in_map_iff. exists (k, v). auto. }
      congruence.
    + apply IH; auto.
Qed.

Lemma assoc_some : forall m k v, assoc k m = Some v -> In (k, v) m.
Proof.
  induction m as [|[k' v'] m IH]; intros k v H; simpl in H; [discriminate|].
  destruct (bytes_eqb k' k) eqn:E.
  - apply bytes_eqb_eq in E. inversion H; subst. left. reflexivity.
  - right. apply IH. exact H.
Qed.

Lemma assoc_none : forall m k, assoc k m = None -> ~ In k (map fst m).
Proof.
  induction m as [|[k' v'] m IH]; intros k H; simpl in *; [tauto|].
  destruct (bytes_eqb k' k) eqn:E; [discriminate|].
  intros [I|I]; [subst; rewrite bytes_eqb_refl in E; discriminate | eapply IH; eauto].
Qed.

Lemma set_find_prop : forall s k v', set_find k s = Some v' -> In v' s /\ ohkey_eqb (hashkey v') (Some k) = true.
Proof.
  induction s as [|w s IH]; intros k v' H; simpl in H; [discriminate|].
  destruct (ohkey_eqb (hashkey w) (Some k)) eqn:E.
  - inversion H; subst. split; [left; reflexivity | exact E].
  - destruct (IH _ _ H). split; [right|]; auto.
Qed.

Lemma set_find_some : forall s v k, In v s -> hashkey v = Some k -> hkey_eqb k k = true ->
  exists v', set_find k s = Some v'.
Proof.
  induction s as [|w s IH]; intros v k I Hk R; [contradiction|].
  simpl. destruct (ohkey_eqb (hashkey w) (Some k)) eqn:E; [eauto|].
  destruct I as [I|I].
  - subst w. rewrite Hk in E. simpl in E. congruence.
  - eapply IH; eauto.
Qed.

Lemma hkeys_nodup_hashable : forall s v, hkeys_nodup s = true -> In v s -> exists k, hashkey v = Some k.
Proof.
  induction s as [|w s IH]; intros v N I; [contradiction|].
  simpl in N. destruct (hashkey w) as [k|] eqn:Hw; [|discriminate].
  apply andb_true_iff in N. destruct N as [_ N]. destruct I as [I|I]; [subst; eauto | eapply IH; eauto].
Qed.

(* ================================================================ == is reflexive *)

Lemma leq_refl_of : forall l, Forall (fun v => equals v v = true) l -> leq l l = true.
Proof. induction 1; simpl; auto. rewrite H, IHForall. reflexivity. Qed.

Lemma equals_refl : forall v, no_nan v = true -> wf v = true -> equals v v = true.
Proof.
  induction v using value_ind2; intros N W; rewrite equals_unfold; simpl; auto.
  - destruct b; reflexivity.
  - apply Z.eqb_refl.
  - simpl in N. apply negb_true_iff in N. rewrite feq_spec by assumption. apply Z.eqb_refl.
  - apply Z.eqb_refl.
  - apply bytes_eqb_refl.
  - rewrite bytes_cmp_refl. reflexivity.
  - rewrite bytes_eqb_refl. destruct r; reflexivity.
  - rewrite Nat.eqb_refl. simpl. apply leq_refl_of.
    rewrite no_nan_list in N. rewrite wf_list in W. rewrite forallb_forall in N, W.
    rewrite Forall_forall in *. intros x I. apply H; auto.
  - rewrite Nat.eqb_refl. simpl. apply forallb_forall. intros [k v] I.
    rewrite no_nan_map in N. rewrite wf_map in W. apply andb_true_iff in W. destruct W as [W1 W2].
    rewrite forallb_forall in N, W2. rewrite Forall_forall in H.
    unfold meq_entry. simpl. rewrite (assoc_in m k v W1 I).
    apply (H (k, v) I); [apply (N (k, v) I) | apply (W2 (k, v) I)].
  - rewrite Nat.eqb_refl. simpl. apply forallb_forall. intros v I.
    rewrite no_nan_set in N. rewrite forallb_forall in N. simpl in W.
    destruct (hkeys_nodup_hashable s v W I) as [k Hk].
    assert (R : hkey_eqb k k = true) by (apply hkey_eqb_refl; eapply hashkey_no_nan; eauto).
    destruct (set_find_some s v k I Hk R) as [v' F].
    unfold seq_entry. rewrite Hk, F.
    destruct (set_find_prop _ _ _ F) as [I' E'].
    destruct (hashkey v') as [k'|] eqn:Hk'; [|discriminate]. simpl in E'.
    rewrite hkey_eqb_sym in E'. eapply hkey_equals; eauto.
Qed.

(* ================================================================ == is symmetric *)

Lemma keys_nodup_NoDup : forall ks, keys_nodup ks = true -> NoDup ks.
Proof.
  induction ks as [|k ks IH]; intro H; [constructor|].
  simpl in H. apply andb_true_iff in H. destruct H as [H1 H2]. apply negb_true_iff in H1.
  constructor; [|auto]. intro I.
  assert (existsb (bytes_eqb k) ks = true) by (apply existsb_exists; exists k; split; [auto|apply bytes_eqb_refl]).
  congruence.
Qed.

Lemma in_keys : forall (m : list (bytes * value)) k, In k (map fst m) -> exists v, In (k, v) m.
Proof. intros m k I. apply in_map_iff in I. destruct I as [[k' v] [E I]]. simpl in E. subst. eauto. Qed.

Lemma map_incl_sym : forall ma mb,
  keys_nodup (map fst ma) = true -> keys_nodup (map fst mb) = true -> length ma = length mb ->
  forallb (meq_entry mb) ma = true ->
  (forall k v v', In (k, v) ma -> In (k, v') mb -> equals v v' = equals v' v) ->
  forallb (meq_entry ma) mb = true.
Proof.
  intros ma mb Na Nb L F S. rewrite forallb_forall in F. apply forallb_forall. intros [k v'] I.
  assert (Inc : incl (map fst ma) (map fst mb)).
  { intros k0 I0. destruct (in_keys _ _ I0) as [v0 I1]. specialize (F _ I1). unfold meq_entry in F. simpl in F.
    destruct (assoc k0 mb) eqn:A; [|discriminate]. apply assoc_some in A. apply in_map_iff. exists (k0, v). auto. }
  assert (Inc' : incl (map fst mb) (map fst ma)).
  { apply NoDup_length_incl; auto. apply keys_nodup_NoDup; auto. rewrite !map_length. lia. }
  assert (Ik : In k (map fst ma)) by (apply Inc'; apply in_map_iff; exists (k, v'); auto).
  destruct (in_keys _ _ Ik) as [v Iv].
  unfold meq_entry. simpl. rewrite (assoc_in ma k v Na Iv).
  specialize (F _ Iv). unfold meq_entry in F. simpl in F. rewrite (assoc_in mb k v' Nb I) in F.
  rewrite <- (S k v v' Iv I). exact F.
Qed.

Lemma ohkey_eqb_eq : forall a b, ohkey_eqb a b = true -> a = b.
Proof. intros [a|] [b|] H; simpl in H; try discriminate. apply hkey_eqb_eq in H. subst. reflexivity. Qed.

Lemma hkeys_nodup_NoDup : forall s, hkeys_nodup s = true -> forallb no_nan s = true -> NoDup (map hashkey s).
Proof.
  induction s as [|v s IH]; intros H N; [constructor|].
  simpl in H. destruct (hashkey v) as [k|] eqn:Hk; [|discriminate].
  apply andb_true_iff in H. destruct H as [H1 H2]. apply negb_true_iff in H1.
  simpl in N. apply andb_true_iff in N. destruct N as [N1 N2].
  simpl. rewrite Hk. constructor; [|auto].
  intro I. apply in_map_iff in I. destruct I as [w [E I]].
  assert (existsb (fun w => ohkey_eqb (hashkey w) (Some k)) s = true).
  { apply existsb_exists. exists w. split; auto. rewrite E. simpl. apply hkey_eqb_refl. apply (hashkey_no_nan v k Hk N1). }
  congruence.
Qed.

Lemma set_incl_sym : forall sa sb,
  hkeys_nodup sa = true -> hkeys_nodup sb = true -> forallb no_nan sa = true -> forallb no_nan sb = true ->
  length sa = length sb -> forallb (seq_entry sb) sa = true -> forallb (seq_entry sa) sb = true.
Proof.
  intros sa sb Na Nb Ma Mb L F. rewrite forallb_forall in F. apply forallb_forall. intros w I.
  assert (Inc : incl (map hashkey sa) (map hashkey sb)).
  { intros k0 I0. apply in_map_iff in I0. destruct I0 as [v [E Iv]]. specialize (F _ Iv). unfold seq_entry in F.
    destruct (hashkey v) as [k|] eqn:Hk; [|discriminate].
    destruct (set_find k sb) as [v'|] eqn:Fd; [|discriminate].
    destruct (set_find_prop _ _ _ Fd) as [I' E']. apply ohkey_eqb_eq in E'. subst k0. rewrite <- E'.
    apply in_map. exact I'. }
  assert (Inc' : incl (map hashkey sb) (map hashkey sa)).
  { apply NoDup_length_incl; auto. apply hkeys_nodup_NoDup; auto. rewrite !map_length. lia. }
  destruct (hkeys_nodup_hashable sb w Nb I) as [k Hk].
  assert (Ik : In (hashkey w) (map hashkey sa)) by (apply Inc'; apply in_map; auto).
  apply in_map_iff in Ik. destruct Ik as [v [E Iv]].
  rewrite forallb_forall in Mb.
  assert (R : hkey_eqb k k = true) by (apply hkey_eqb_refl; eapply hashkey_no_nan; eauto).
  rewrite Hk in E.
  destruct (set_find_some sa v k Iv E R) as [v2 F2].
  unfold seq_entry. rewrite Hk, F2.
  destruct (set_find_prop _ _ _ F2) as [I2 E2].
  destruct (hashkey v2) as [k2|] eqn:Hk2; [|discriminate]. simpl in E2. rewrite hkey_eqb_sym in E2.
  rewrite forallb_forall in Ma.
  eapply hkey_equals; eauto.
Qed.

Lemma bool_eq_of_imp : forall a b : bool, (a = true -> b = true) -> (b = true -> a = true) -> a = b.
Proof.
  intros [] [] H1 H2; auto; symmetry; auto.
Qed.

Lemma leq_sym_of : forall la lb,
  (forall x y, In x la -> In y lb -> equals x y = equals y x) -> leq la lb = leq lb la.
Proof.
  induction la as [|x la IH]; intros [|y lb] H; simpl; auto.
  rewrite (H x y) by (left; reflexivity). rewrite IH; auto.
  intros. apply H; right; assumption.
Qed.

Lemma existsb_in : forall (f : value -> bool) l x, In x l -> f x = true -> existsb f l = true.
Proof. intros. apply existsb_exists. eauto. Qed.

Lemma existsb_false_in : forall (A : Type) (f : A -> bool) l x, existsb f l = false -> In x l -> f x = false.
Proof.
  intros A f l x H I. destruct (f x) eqn:E; auto.
  assert (existsb f l = true) by (apply existsb_exists; eauto). congruence.
Qed.

Lemma bytes_eqb_cmp : forall s t, bytes_eqb s t = match bytes_cmp t s with Eq => true | _ => false end.
Proof.
  intros s t. destruct (bytes_cmp t s) eqn:C.
  - apply bytes_cmp_eq in C. subst. apply bytes_eqb_refl.
  - apply bytes_eqb_neq. intro E. subst. rewrite bytes_cmp_refl in C. discriminate.
  - apply bytes_eqb_neq. intro E. subst. rewrite bytes_cmp_refl in C. discriminate.
Qed.

Lemma equals_sym : forall a b,
  no_nan a = true -> no_nan b = true -> wf a = true -> wf b = true ->
  equals a b = equals b a.
Proof.
  induction a using value_ind2; intros b' Na Nb Wa Wb; destruct b';
    rewrite !equals_unfold; simpl;
    try solve [ reflexivity | discriminate
              | destruct b, b0; reflexivity
              | apply Z.eqb_sym
              | apply feq_sym
              | unfold feq_if, feq_fi; match goal with |- context[of_int ?z] => destruct (of_int z) end; apply feq_sym
              | apply bytes_eqb_sym
              | apply bytes_eqb_cmp
              | symmetry; apply bytes_eqb_cmp
              | match goal with |- context[bytes_cmp ?x ?y] =>
                  rewrite (bytes_cmp_antisym x y); destruct (bytes_cmp x y); reflexivity end
              | rewrite bytes_eqb_sym; destruct r, raised; reflexivity ].
  - (* lists *)
    rewrite Nat.eqb_sym. f_equal. apply leq_sym_of. intros x y Ix Iy.
    rewrite Forall_forall in H.
    rewrite no_nan_list in Na, Nb. rewrite wf_list in Wa, Wb. rewrite forallb_forall in Na, Nb, Wa, Wb.
    apply H; auto.
  - (* maps *)
    rewrite Nat.eqb_sym. destruct (Nat.eqb (length m0) (length m)) eqn:L; [|reflexivity]. simpl.
    apply Nat.eqb_eq in L.
    rewrite wf_map in Wa, Wb. apply andb_true_iff in Wa, Wb. destruct Wa as [Wa1 Wa2]. destruct Wb as [Wb1 Wb2].
    rewrite no_nan_map in Na, Nb. rewrite forallb_forall in Na, Nb, Wa2, Wb2.
    rewrite Forall_forall in H.
    assert (S : forall k v v', In (k, v) m -> In (k, v') m0 -> equals v v' = equals v' v).
    { intros k v v' I I'. apply (H (k, v) I).
      - apply (Na _ I). - apply (Nb _ I'). - apply (Wa2 _ I). - apply (Wb2 _ I'). }
    apply bool_eq_of_imp; intro F.
    + apply (map_incl_sym m m0); auto.
    + apply (map_incl_sym m0 m); auto. intros k v v' I I'. symmetry. apply (S k v' v); auto.
  - (* sets *)
    rewrite Nat.eqb_sym. destruct (Nat.eqb (length s0) (length s)) eqn:L; [|reflexivity]. simpl.
    apply Nat.eqb_eq in L. simpl in Wa, Wb. rewrite no_nan_set in Na, Nb.
    apply bool_eq_of_imp; intro F.
    + apply (set_incl_sym s s0); auto.
    + apply (set_incl_sym s0 s); auto.
Qed.

(* ================================================================ == is transitive outside the int/float/int class *)

Definition intlike (v : value) : bool := match v with VInt _ | VByte _ => true | _ => false end.
Definition is_float (v : value) : bool := match v with VFloat _ _ => true | _ => false end.

Lemma leq_trans_of : forall la lb lc,
  (forall x y z, In x la -> In y lb -> In z lc -> equals x y = true -> equals y z = true -> equals x z = true) ->
  length la = length lb -> length lb = length lc ->
  leq la lb = true -> leq lb lc = true -> leq la lc = true.
Proof.
  induction la as [|x la IH]; intros [|y lb] [|z lc] H L1 L2 E1 E2; simpl in *; try discriminate; auto.
  apply andb_true_iff in E1, E2. destruct E1 as [E1 E1']. destruct E2 as [E2 E2'].
  apply andb_true_iff. split.
  - apply (H x y z); auto.
  - apply (IH lb lc); auto. intros. apply (H x0 y0 z0); auto.
Qed.

Lemma equals_trans_gen : forall (R : value -> value -> value -> Prop),
  (forall a b c, R a b c -> intlike a = true -> is_float b = true -> intlike c = true -> False) ->
  (forall la lb lc x y z, R (VList la) (VList lb) (VList lc) -> In x la -> In y lb -> In z lc -> R x y z) ->
  (forall ma mb mc k1 x k2 y k3 z, R (VMap ma) (VMap mb) (VMap mc) ->
     In (k1, x) ma -> In (k2, y) mb -> In (k3, z) mc -> R x y z) ->
  forall a b c, R a b c -> equals a b = true -> equals b c = true -> equals a c = true.
Proof.
  intros R Rbad Rlist Rmap.
  induction a using value_ind2; intros b' c' HR E1 E2; destruct b'; rewrite equals_unfold in E1; simpl in E1; try discriminate;
    destruct c'; rewrite equals_unfold in E2; simpl in E2; try discriminate; rewrite equals_unfold; simpl;
    try solve [ reflexivity
              | exfalso; eapply Rbad; [exact HR | reflexivity | reflexivity | reflexivity]
              | destruct b, b0, b1; simpl in *; auto; discriminate
              | apply Z.eqb_eq in E1; apply Z.eqb_eq in E2; subst; apply Z.eqb_refl
              | apply Z.eqb_eq in E1; subst; exact E2
              | apply Z.eqb_eq in E2; subst; exact E1
              | unfold feq_if, feq_fi in *; repeat match goal with H : context[of_int ?z] |- _ => destruct (of_int z) end;
                eauto using feq_trans
              | unfold feq_if, feq_fi in *; repeat match goal with |- context[of_int ?z] => destruct (of_int z) end;
                eauto using feq_trans
              | eapply feq_trans; eauto
              | apply bytes_eqb_eq in E1; apply bytes_eqb_eq in E2; subst; apply bytes_eqb_refl ].
  all: try solve [
    repeat match goal with
           | H : context[bytes_cmp ?x ?y] |- _ =>
               match type of H with bytes_cmp _ _ = _ => fail 1 | _ => idtac end;
               destruct (bytes_cmp x y) eqn:?; try discriminate; clear H
           end;
    repeat match goal with H : bytes_cmp _ _ = Eq |- _ => apply bytes_cmp_eq in H end;
    repeat match goal with H : bytes_eqb _ _ = true |- _ => apply bytes_eqb_eq in H end;
    subst; first [ apply bytes_eqb_refl | rewrite bytes_cmp_refl; reflexivity ] ].
  - (* errors *)
    apply andb_true_iff in E1, E2. destruct E1 as [A1 B1]. destruct E2 as [A2 B2].
    apply bytes_eqb_eq in A1. apply bytes_eqb_eq in A2. apply Bool.eqb_prop in B1. apply Bool.eqb_prop in B2.
    subst. rewrite bytes_eqb_refl. destruct raised0; reflexivity.
  - (* lists *)
    apply andb_true_iff in E1, E2. destruct E1 as [L1 E1]. destruct E2 as [L2 E2].
    apply Nat.eqb_eq in L1, L2. apply andb_true_iff. split; [apply Nat.eqb_eq; lia|].
    apply (leq_trans_of l l0 l1); auto.
    rewrite Forall_forall in H. intros x y z Ix Iy Iz. apply (H x Ix). eapply Rlist; eauto.
  - (* maps *)
    apply andb_true_iff in E1, E2. destruct E1 as [L1 E1]. destruct E2 as [L2 E2].
    apply Nat.eqb_eq in L1, L2. apply andb_true_iff. split; [apply Nat.eqb_eq; lia|].
    rewrite forallb_forall in E1, E2. apply forallb_forall. intros [k v] I.
    rewrite Forall_forall in H.
    pose proof (E1 _ I) as F1. unfold meq_entry in F1. simpl in F1.
    destruct (assoc k m0) as [v'|] eqn:A1; [|discriminate]. apply assoc_some in A1.
    pose proof (E2 _ A1) as F2. unfold meq_entry in F2. simpl in F2.
    destruct (assoc k m1) as [v''|] eqn:A2; [|discriminate].
    unfold meq_entry. simpl. rewrite A2. apply assoc_some in A2.
    apply (H (k, v) I v' v''); auto. eapply Rmap; eauto.
  - (* sets *)
    apply andb_true_iff in E1, E2. destruct E1 as [L1 E1]. destruct E2 as [L2 E2].
    apply Nat.eqb_eq in L1, L2. apply andb_true_iff. split; [apply Nat.eqb_eq; lia|].
    rewrite forallb_forall in E1, E2. apply forallb_forall. intros v I.
    pose proof (E1 _ I) as F1. unfold seq_entry in F1.
    destruct (hashkey v) as [k|] eqn:Hk; [|discriminate].
    destruct (set_find k s0) as [v'|] eqn:S1; [|discriminate].
    destruct (set_find_prop _ _ _ S1) as [I' K']. apply ohkey_eqb_eq in K'.
    pose proof (E2 _ I') as F2. unfold seq_entry in F2. rewrite K' in F2.
    destruct (set_find k s1) as [v''|] eqn:S2; [|discriminate].
    unfold seq_entry. rewrite Hk, S2.
    destruct (set_find_prop _ _ _ S2) as [I'' K''].
    destruct (hashkey v'') as [k''|] eqn:Hk''; [|discriminate]. simpl in K''. rewrite hkey_eqb_sym in K''.
    eapply hkey_equals; eauto;
      [exact (equals_hashable_no_nan_l v v' k Hk F1)|exact (equals_hashable_no_nan_r v' v'' k'' Hk'' F2)].
Qed.

Lemma equals_trans : forall a b c,
  trans_guard a b c = true -> equals a b = true -> equals b c = true -> equals a c = true.
Proof.
  intros a b c G. unfold trans_guard in G.
  apply orb_true_iff in G. destruct G as [G|G]; [apply orb_true_iff in G; destruct G as [G|G]|];
    apply negb_true_iff in G.
  - apply (equals_trans_gen (fun _ b _ => has_float b = false)); auto.
    + intros a0 b0 c0 H _ Fb _. destruct b0; simpl in *; discriminate.
    + intros la lb lc x y z H _ Iy _. rewrite has_float_list in H. eapply existsb_false_in; eauto.
    + intros ma mb mc k1 x k2 y k3 z H _ Iy _. rewrite has_float_map in H.
      apply (existsb_false_in _ _ _ (k2, y) H Iy).
  - apply (equals_trans_gen (fun a _ _ => has_int a = false)); auto.
    + intros a0 b0 c0 H Fa _ _. destruct a0; simpl in *; discriminate.
    + intros la lb lc x y z H Ix _ _. rewrite has_int_list in H. eapply existsb_false_in; eauto.
    + intros ma mb mc k1 x k2 y k3 z H Ix _ _. rewrite has_int_map in H.
      apply (existsb_false_in _ _ _ (k1, x) H Ix).
  - apply (equals_trans_gen (fun _ _ c => has_int c = false)); auto.
    + intros a0 b0 c0 H _ _ Fc. destruct c0; simpl in *; discriminate.
    + intros la lb lc x y z H _ _ Iz. rewrite has_int_list in H. eapply existsb_false_in; eauto.
    + intros ma mb mc k1 x k2 y k3 z H _ _ Iz. rewrite has_int_map in H.
      apply (existsb_false_in _ _ _ (k3, z) H Iz).
Qed.

(* ================================================================ float64(int64) is never NaN; numeric comparisons are antisymmetric *)

Lemma of_int_not_nan : forall z, int64_ok z = true -> is_nan (snd (of_int z)) = false.
Proof.
  intros z R. unfold int64_ok in R. apply andb_true_iff in R. destruct R as [R1 R2].
  apply Z.leb_le in R1, R2.
  unfold of_int. destruct (z =? 0) eqn:Z0; [reflexivity|]. apply Z.eqb_neq in Z0.
  cbv zeta. cbn [snd]. unfold is_nan. apply Z.ltb_ge.
  set (a := Z.abs z). assert (Ha : 1 <= a <= 9223372036854775808) by (unfold a; lia).
  assert (Hpos : 0 < a) by lia.
  destruct (Z.log2_spec a Hpos) as [Lo Hi].
  set (n := Z.log2 a + 1) in *.
  assert (Hn0 : 1 <= n) by (unfold n; pose proof (Z.log2_nonneg a); lia).
  assert (Hn : n <= 64).
  { assert (Z.log2 a < 64); [|unfold n; lia]. apply Z.log2_lt_pow2; [lia|]. change (2 ^ 64) with 18446744073709551616. lia. }
  replace (Z.succ (Z.log2 a)) with n in Hi by (unfold n; lia).
  unfold two52, inf_mag.
  destruct (n <=? 53) eqn:C.
  - apply Z.leb_le in C.
    assert (Hp : a * 2 ^ (53 - n) < 2 ^ 53).
    { replace (2 ^ 53) with (2 ^ n * 2 ^ (53 - n)) by (rewrite <- Z.pow_add_r by lia; f_equal; lia).
      apply Z.mul_lt_mono_pos_r; [apply Z.pow_pos_nonneg; lia | exact Hi]. }
    change (2 ^ 53) with 9007199254740992 in Hp. generalize dependent (a * 2 ^ (53 - n)). intros p Hp. lia.
  - apply Z.leb_gt in C.
    set (sh := n - 53). assert (Hsh : 1 <= sh <= 11) by (unfold sh; lia).
    assert (Hq : a / 2 ^ sh < 2 ^ 53).
    { apply Z.div_lt_upper_bound; [apply Z.pow_pos_nonneg; lia|].
      replace (2 ^ sh * 2 ^ 53) with (2 ^ n) by (rewrite <- Z.pow_add_r by lia; f_equal; unfold sh; lia). exact Hi. }
    change (2 ^ 53) with 9007199254740992 in Hq.
    destruct ((2 ^ (sh - 1) <? a mod 2 ^ sh) || (a mod 2 ^ sh =? 2 ^ (sh - 1)) && Z.odd (a / 2 ^ sh));
      generalize dependent (a / 2 ^ sh); intros q Hq; lia.
Qed.

Lemma num_ok_cases : forall v, num_ok v = true ->
  (exists z, v = VInt z /\ int64_ok z = true) \/ (exists z, v = VByte z /\ int64_ok z = true) \/
  (exists n m, v = VFloat n m /\ is_nan m = false).
Proof.
  intros v H. destruct v; simpl in H; try discriminate.
  - left. eauto.
  - right. right. apply negb_true_iff in H. eauto.
  - right. left. exists z. split; auto. apply andb_true_iff in H. destruct H as [H1 H2].
    apply Z.leb_le in H1, H2. unfold int64_ok. apply andb_true_iff. split; apply Z.leb_le; lia.
Qed.

Lemma go_fcmp_antisym : forall n1 m1 n2 m2, is_nan m1 = false -> is_nan m2 = false ->
  go_fcmp n2 m2 n1 m1 = CompOpp (go_fcmp n1 m1 n2 m2).
Proof. intros. rewrite !go_fcmp_spec by assumption. apply Z.compare_antisym. Qed.

Lemma numeric_antisym : forall a b, num_ok a = true -> num_ok b = true ->
  vcompare b a = option_map CompOpp (vcompare a b).
Proof.
  intros a b Ha Hb.
  destruct (num_ok_cases a Ha) as [[x [-> Rx]]|[[x [-> Rx]]|[n1 [m1 [-> N1]]]]];
  destruct (num_ok_cases b Hb) as [[y [-> Ry]]|[[y [-> Ry]]|[n2 [m2 [-> N2]]]]];
    rewrite !vcompare_unfold; simpl; try (rewrite (Z.compare_antisym x y); reflexivity).
  - unfold fcmp_fi, fcmp_if. pose proof (of_int_not_nan x Rx). destruct (of_int x). simpl in *.
    rewrite go_fcmp_antisym; auto.
  - unfold fcmp_fi, fcmp_if. pose proof (of_int_not_nan x Rx). destruct (of_int x). simpl in *.
    rewrite go_fcmp_antisym; auto.
  - unfold fcmp_fi, fcmp_if. pose proof (of_int_not_nan y Ry). destruct (of_int y). simpl in *.
    rewrite go_fcmp_antisym; auto.
  - unfold fcmp_fi, fcmp_if. pose proof (of_int_not_nan y Ry). destruct (of_int y). simpl in *.
    rewrite go_fcmp_antisym; auto.
  - rewrite go_fcmp_antisym; auto.
Qed.

Lemma numeric_comparable : forall a b, num_ok a = true -> num_ok b = true -> exists c, vcompare a b = Some c.
Proof.
  intros a b Ha Hb.
  destruct (num_ok_cases a Ha) as [[x [-> Rx]]|[[x [-> Rx]]|[n1 [m1 [-> N1]]]]];
  destruct (num_ok_cases b Hb) as [[y [-> Ry]]|[[y [-> Ry]]|[n2 [m2 [-> N2]]]]];
    rewrite vcompare_unfold; simpl; eauto.
Qed.

Lemma numeric_not_both_lt : forall a b, num_ok a = true -> num_ok b = true ->
  ~ (cmp_op OLt a b = Some true /\ cmp_op OLt b a = Some true).
Proof.
  intros a b Ha Hb [H1 H2]. apply cmp_op_lt in H1. apply cmp_op_lt in H2.
  rewrite (numeric_antisym a b Ha Hb), H1 in H2. discriminate.
Qed.

(* ================================================================ membership agrees with iterating and comparing *)

Lemma contains_list : forall l x, contains (VList l) x = Some (existsb (fun v => equals v x) l).
Proof. reflexivity. Qed.

Lemma contains_map : forall m x, is_bytes x = false ->
  contains (VMap m) x = Some (existsb (fun kv => equals (VStr (fst kv)) x) m).
Proof.
  intros m x Hb. simpl. f_equal. destruct x; try discriminate;
    try (symmetry; induction m as [|[k v] m IH]; simpl; auto; rewrite equals_unfold; simpl; exact IH).
  induction m as [|[k v] m IH]; simpl; auto.
  rewrite equals_unfold. simpl. destruct (bytes_eqb k s); simpl; auto.
Qed.

Lemma set_find_in : forall s v k, In v s -> ohkey_eqb (hashkey v) (Some k) = true -> set_find k s <> None.
Proof.
  induction s as [|w s IH]; intros v k I E; [contradiction|]. simpl.
  destruct (ohkey_eqb (hashkey w) (Some k)) eqn:Ew; [discriminate|].
  destruct I as [I|I]; [subst; congruence | eapply IH; eauto].
Qed.

Lemma equals_other_type : forall v x k,
  hashkey v = Some k -> tag_eqb (tag_of v) (tag_of x) = false ->
  (numeric v && numeric x) || (is_bytes v && is_str x) || (is_str v && is_bytes x) = false -> equals v x = false.
Proof.
  intros v x k Hk T G. destruct v; simpl in Hk; try discriminate; destruct x; simpl in T, G; try discriminate;
    rewrite equals_unfold; reflexivity.
Qed.

Lemma equals_unhashable : forall v x k, hashkey v = Some k -> hashkey x = None -> equals v x = false.
Proof.
  intros v x k Hk Hx. destruct v; simpl in Hk; try discriminate; destruct x; simpl in Hx; try discriminate;
    rewrite equals_unfold; reflexivity.
Qed.

Lemma contains_set : forall s x,
  hkeys_nodup s = true -> forallb no_nan s = true -> no_nan x = true -> set_in_guard s x = true ->
  contains (VSet s) x = Some (existsb (fun v => equals v x) s).
Proof.
  intros s x W N Nx G. simpl. f_equal. rewrite forallb_forall in N. unfold set_in_guard in G. rewrite forallb_forall in G.
  destruct (hashkey x) as [k|] eqn:Hx.
  - destruct (set_find k s) as [v'|] eqn:F.
    + destruct (set_find_prop _ _ _ F) as [I E].
      destruct (hashkey v') as [k'|] eqn:Hk'; [|discriminate]. simpl in E.
      symmetry. apply existsb_exists. exists v'. split; auto. eapply hkey_equals; eauto.
    + symmetry. apply not_true_iff_false. intro Ex. apply existsb_exists in Ex. destruct Ex as [v [I E]].
      destruct (hkeys_nodup_hashable s v W I) as [kv Hkv].
      specialize (G v I). apply orb_true_iff in G. destruct G as [G|G].
      * apply tag_eqb_eq in G.
        assert (K : hkey_eqb kv k = true) by (apply (set_slot v x kv k G Hkv Hx (N v I) Nx); exact E).
        apply (set_find_in s v k I); [rewrite Hkv; exact K | exact F].
      * apply negb_true_iff in G. destruct (tag_eqb (tag_of v) (tag_of x)) eqn:T.
        -- apply tag_eqb_eq in T.
           assert (K : hkey_eqb kv k = true) by (apply (set_slot v x kv k T Hkv Hx (N v I) Nx); exact E).
           apply (set_find_in s v k I); [rewrite Hkv; exact K | exact F].
        -- rewrite (equals_other_type v x kv Hkv T G) in E. discriminate.
  - symmetry. apply not_true_iff_false. intro Ex. apply existsb_exists in Ex. destruct Ex as [v [I E]].
    destruct (hkeys_nodup_hashable s v W I) as [kv Hkv].
    rewrite (equals_unhashable v x kv Hkv Hx) in E. discriminate.
Qed.

(* adding a value that is == to a member of its own type does not create a second slot *)
Lemma set_add_length_same_key : forall s a b,
  ohkey_eqb (hashkey a) (hashkey b) = true -> length (set_add b (set_add a s)) = length (set_add a s).
Proof.
  induction s as [|w s IH]; intros a b E; simpl.
  - rewrite E. reflexivity.
  - destruct (ohkey_eqb (hashkey w) (hashkey a)) eqn:Ew; simpl.
    + rewrite E. reflexivity.
    + assert (Eb : ohkey_eqb (hashkey w) (hashkey b) = false).
      { destruct (ohkey_eqb (hashkey w) (hashkey b)) eqn:Eb; auto.
        apply ohkey_eqb_eq in E. rewrite <- E in Eb. congruence. }
      rewrite Eb. simpl. f_equal. apply IH. exact E.
Qed.

(* ================================================================ truthiness of containers *)

Lemma utf8_decode_cons : forall f b0 r, exists x xs, utf8_decode (S f) (b0 :: r) = x :: xs.
Proof.
  intros f b0 r. simpl.
  repeat match goal with
         | |- context[if ?c then _ else _] => destruct c
         | |- context[match ?l with [] => _ | _ :: _ => _ end] => destruct l
         end; eauto.
Qed.

Lemma truthy_len : forall v n, vlen v = Some n -> truthy v = negb (Nat.eqb n 0).
Proof.
  intros v n H. destruct v; simpl in H; try discriminate; inversion H; subst; clear H; simpl.
  - destruct s as [|b0 r]; [reflexivity|]. unfold runes_of.
    destruct (utf8_decode_cons (length (b0 :: r)) b0 r) as [x [xs E]]. rewrite E. reflexivity.
  - destruct s; reflexivity.
  - destruct l; reflexivity.
  - destruct m; reflexivity.
  - destruct s; reflexivity.
Qed.

(* ================================================================ sorting *)

Lemma vcompare_some_comparable : forall a b c, vcompare a b = Some c -> comparable a = true.
Proof. intros a b c H. rewrite vcompare_unfold in H. destruct a; try reflexivity; discriminate. Qed.

Lemma StronglySorted_app : forall (A : Type) (R : A -> A -> Prop) l1 l2,
  StronglySorted R l1 -> StronglySorted R l2 -> (forall a b, In a l1 -> In b l2 -> R a b) ->
  StronglySorted R (l1 ++ l2).
Proof.
  induction l1 as [|x l1 IH]; intros l2 S1 S2 H; simpl; auto.
  inversion S1; subst. constructor.
  - apply IH; auto. intros. apply H; auto. right; auto.
  - apply Forall_app. split; auto. apply Forall_forall. intros b Ib. apply H; auto. left; auto.
Qed.

Lemma StronglySorted_rev_flip : forall (A : Type) (R : A -> A -> Prop) l,
  StronglySorted (fun x y => R y x) l -> StronglySorted R (rev l).
Proof.
  induction l as [|x l IH]; intro S; simpl; [constructor|].
  inversion S; subst. apply StronglySorted_app; auto.
  - repeat constructor.
  - intros a b Ia Ib. destruct Ib as [Ib|[]]. subst b. apply in_rev in Ia.
    rewrite Forall_forall in H2. apply H2. exact Ia.
Qed.

Section SortProofs.
  Context {A : Type} (proj : A -> value).

  Fixpoint ins_pure (e : A) (rp : list A) : list A :=
    match rp with
    | [] => [e]
    | x :: rp' =>
        match vcompare (proj e) (proj x) with
        | Some Lt => x :: ins_pure e rp'
        | _ => e :: rp
        end
    end.

  Lemma ins_rev_ok : forall e rp,
    (forall x, In x rp -> vcompare (proj e) (proj x) <> None) ->
    ins_rev proj e rp = (ins_pure e rp, false, false).
  Proof.
    induction rp as [|x rp IH]; intro H; simpl; auto.
    destruct (vcompare (proj e) (proj x)) as [c|] eqn:C; [|exfalso; apply (H x); [left; auto|exact C]].
    rewrite (vcompare_some_comparable _ _ _ C). simpl.
    destruct c; auto. rewrite IH; auto. intros. apply H. right; auto.
  Qed.

  Lemma ins_pure_perm : forall e rp, Permutation (ins_pure e rp) (e :: rp).
  Proof.
    induction rp as [|x rp IH]; simpl; auto.
    destruct (vcompare (proj e) (proj x)) as [[]|]; auto.
    eapply perm_trans; [apply perm_skip; exact IH | apply perm_swap].
  Qed.

  Lemma ins_rev_perm : forall e rp, Permutation (fst (fst (ins_rev proj e rp))) (e :: rp).
  Proof.
    induction rp as [|x rp IH]; simpl; auto.
    destruct (negb (comparable (proj e))); simpl; auto.
    destruct (vcompare (proj e) (proj x)) as [[]|]; simpl; auto.
    destruct (ins_rev proj e rp) as [[r er] pn]. simpl in *.
    eapply perm_trans; [apply perm_skip; exact IH | apply perm_swap].
  Qed.

  Lemma isort_rev_panic : forall l rp er, snd (isort_rev proj l rp er true) = true.
  Proof. destruct l; reflexivity. Qed.

  Lemma isort_rev_perm : forall l rp er r er',
    isort_rev proj l rp er false = (r, er', false) -> Permutation r (l ++ rp).
  Proof.
    induction l as [|e l IH]; intros rp er r er' H; simpl in H.
    - inversion H; subst. simpl. auto.
    - pose proof (ins_rev_perm e rp) as P.
      destruct (ins_rev proj e rp) as [[rp' er1] pn1]. simpl in P.
      destruct pn1.
      + pose proof (isort_rev_panic l rp' (er || er1)) as Q. rewrite H in Q. discriminate.
      + apply IH in H. eapply perm_trans; [exact H|].
        simpl. eapply perm_trans; [apply Permutation_app_head; exact P|].
        apply Permutation_sym. apply Permutation_cons_app. reflexivity.
  Qed.

  Lemma sort_by_perm : forall l r, sort_by proj l = SOk r -> Permutation l r.
  Proof.
    intros l r H. unfold sort_by in H.
    destruct (isort_rev proj l [] false false) as [[rp er] pn] eqn:E.
    destruct pn; [discriminate|]. destruct er; [discriminate|]. inversion H; subst.
    apply isort_rev_perm in E. rewrite app_nil_r in E.
    eapply perm_trans; [apply Permutation_sym; exact E | apply Permutation_rev].
  Qed.

  Definition insert_all (l rp : list A) : list A := fold_left (fun rp e => ins_pure e rp) l rp.

  Lemma insert_all_perm : forall l rp, Permutation (insert_all l rp) (l ++ rp).
  Proof.
    induction l as [|e l IH]; intro rp; simpl; auto.
    eapply perm_trans; [apply IH|].
    eapply perm_trans; [apply Permutation_app_head; apply ins_pure_perm|].
    apply Permutation_sym. apply Permutation_cons_app. reflexivity.
  Qed.

  Lemma isort_rev_ok : forall l rp,
    (forall x y, In x (l ++ rp) -> In y (l ++ rp) -> vcompare (proj x) (proj y) <> None) ->
    isort_rev proj l rp false false = (insert_all l rp, false, false).
  Proof.
    induction l as [|e l IH]; intros rp H; simpl; auto.
    rewrite ins_rev_ok.
    - simpl. apply IH. intros x y Ix Iy.
      assert (Px : Permutation (l ++ ins_pure e rp) ((e :: l) ++ rp)).
      { simpl. eapply perm_trans; [apply Permutation_app_head; apply ins_pure_perm|].
        apply Permutation_sym. apply Permutation_cons_app. reflexivity. }
      apply H; eapply Permutation_in; eauto.
    - intros x Ix. apply H; [left; auto | right; apply in_or_app; right; auto].
  Qed.

  Lemma sort_by_ok : forall l,
    (forall x y, In x l -> In y l -> vcompare (proj x) (proj y) <> None) ->
    sort_by proj l = SOk (rev (insert_all l [])).
  Proof.
    intros l H. unfold sort_by. rewrite isort_rev_ok; auto. rewrite app_nil_r. exact H.
  Qed.

  (* ordering with the original position as tie-break: what "stable" means *)
  Variable idx : A -> nat.
  Variable P : value -> Prop.
  Hypothesis laws : forall a b c, P a -> P b -> P c -> cmp_laws a b c.

  Definition ord (x y : A) : Prop :=
    vcompare (proj x) (proj y) = Some Lt \/ (vcompare (proj x) (proj y) = Some Eq /\ idx x < idx y)%nat.

  Lemma ord_trans : forall x y z, P (proj x) -> P (proj y) -> P (proj z) -> ord x y -> ord y z -> ord x z.
  Proof.
    intros x y z Px Py Pz H1 H2. destruct (laws _ _ _ Px Py Pz) as (_ & _ & T & _).
    destruct H1 as [H1|[H1 I1]]; destruct H2 as [H2|[H2 I2]].
    - left. apply (T Lt Lt Lt H1 H2 eq_refl).
    - left. apply (T Lt Eq Lt H1 H2 eq_refl).
    - left. apply (T Eq Lt Lt H1 H2 eq_refl).
    - right. split; [apply (T Eq Eq Eq H1 H2 eq_refl) | lia].
  Qed.

  Lemma ins_pure_sorted : forall e rp,
    P (proj e) -> Forall (fun x => P (proj x)) rp ->
    Forall (fun x => idx x < idx e)%nat rp ->
    StronglySorted (fun x y => ord y x) rp ->
    StronglySorted (fun x y => ord y x) (ins_pure e rp).
  Proof.
    induction rp as [|x rp IH]; intros Pe Pr Ie S; simpl.
    - repeat constructor.
    - inversion Pr as [|? ? Px Pr']; inversion Ie as [|? ? Ix Ie']; inversion S as [|? ? S' Fx]; subst.
      destruct (laws _ _ _ Pe Px Px) as ([c C] & Anti & _ & _). rewrite C in Anti. simpl in Anti.
      rewrite C. destruct c.
      + constructor; auto. constructor.
        * right. split; auto.
        * rewrite Forall_forall in *. intros y Iy. apply (ord_trans y x e); auto.
          right. split; auto.
      + constructor.
        * apply IH; auto.
        * eapply Permutation_Forall; [apply Permutation_sym; apply ins_pure_perm|].
          constructor; auto. left. exact C.
      + constructor; auto. constructor.
        * left. exact Anti.
        * rewrite Forall_forall in *. intros y Iy. apply (ord_trans y x e); auto. left. exact Anti.
  Qed.

  Lemma insert_all_sorted : forall l rp,
    Forall (fun x => P (proj x)) l -> Forall (fun x => P (proj x)) rp ->
    StronglySorted (fun x y => idx x < idx y)%nat l ->
    (forall x y, In x rp -> In y l -> idx x < idx y)%nat ->
    StronglySorted (fun x y => ord y x) rp ->
    StronglySorted (fun x y => ord y x) (insert_all l rp).
  Proof.
    induction l as [|e l IH]; intros rp Pl Pr Sl Il S; simpl; auto.
    inversion Pl as [|? ? Pe Pl']; inversion Sl as [|? ? Sl' Fe]; subst.
    apply IH; auto.
    - eapply Permutation_Forall; [apply Permutation_sym; apply ins_pure_perm|]. constructor; auto.
    - intros x y Ix Iy. apply (Permutation_in _ (ins_pure_perm e rp)) in Ix. destruct Ix as [Ix|Ix].
      + subst x. rewrite Forall_forall in Fe. apply Fe; auto.
      + apply Il; auto. right; auto.
    - apply ins_pure_sorted; auto. apply Forall_forall. intros x Ix. apply Il; auto. left; auto.
  Qed.

  Lemma P_comparable : forall l, Forall (fun x => P (proj x)) l ->
    forall x y, In x l -> In y l -> vcompare (proj x) (proj y) <> None.
  Proof.
    intros l F x y Ix Iy. rewrite Forall_forall in F.
    destruct (laws _ _ _ (F x Ix) (F y Iy) (F y Iy)) as ([c C] & _). congruence.
  Qed.

  Theorem sort_by_stable : forall l,
    Forall (fun x => P (proj x)) l -> StronglySorted (fun x y => idx x < idx y)%nat l ->
    exists r, sort_by proj l = SOk r /\ Permutation l r /\ StronglySorted ord r.
  Proof.
    intros l Pl Sl. exists (rev (insert_all l [])). split; [|split].
    - apply sort_by_ok. apply P_comparable. exact Pl.
    - eapply perm_trans; [|apply Permutation_rev]. apply Permutation_sym.
      pose proof (insert_all_perm l []) as Q. rewrite app_nil_r in Q. exact Q.
    - apply StronglySorted_rev_flip. apply insert_all_sorted; auto.
      + intros x y [].
      + constructor.
  Qed.

  (* a list that is already ordered is left alone *)
  Lemma insert_all_sorted_id : forall l rp,
    Forall (fun x => P (proj x)) l -> Forall (fun x => P (proj x)) rp ->
    StronglySorted (fun x y => le_v (proj x) (proj y)) (rev rp ++ l) ->
    insert_all l rp = rev l ++ rp.
  Proof.
    induction l as [|e l IH]; intros rp Pl Pr S; simpl; auto.
    inversion Pl as [|? ? Pe Pl']; subst.
    assert (E : ins_pure e rp = e :: rp).
    { destruct rp as [|x rp']; simpl; auto.
      inversion Pr as [|? ? Px Pr']; subst.
      assert (L : le_v (proj x) (proj e)).
      { assert (Sx : StronglySorted (fun x y => le_v (proj x) (proj y)) (rev (x :: rp') ++ e :: l)) by exact S.
        simpl in Sx. rewrite <- app_assoc in Sx. simpl in Sx.
        clear - Sx. induction (rev rp') as [|z zs IHz]; simpl in Sx.
        - inversion Sx; subst. inversion H2; subst. exact H3.
        - inversion Sx; subst. apply IHz. exact H1. }
      destruct (laws _ _ _ Px Pe Pe) as (_ & Anti & _ & _).
      destruct L as [L|L]; rewrite L in Anti; simpl in Anti; rewrite Anti; reflexivity. }
    rewrite E. rewrite IH; auto.
    - rewrite <- app_assoc. reflexivity.
    - simpl. rewrite <- app_assoc. exact S.
  Qed.

  Theorem sort_by_sorted_id : forall r,
    Forall (fun x => P (proj x)) r ->
    StronglySorted (fun x y => le_v (proj x) (proj y)) r ->
    sort_by proj r = SOk r.
  Proof.
    intros r Pr S. rewrite sort_by_ok by (apply P_comparable; exact Pr).
    rewrite insert_all_sorted_id; auto. rewrite app_nil_r, rev_involutive. reflexivity.
  Qed.
End SortProofs.

(* ---------------------------------------------------------------- sorted(), and the permutation it performs *)

Definition sres_map {A B : Type} (f : list A -> list B) (r : @sres A) : @sres B :=
  match r with SOk l => SOk (f l) | SErr => SErr | SPanic => SPanic end.

Lemma ins_rev_map : forall (A : Type) (proj : A -> value) e rp,
  ins_rev (fun v => v) (proj e) (map proj rp) =
  let '(r, er, pn) := ins_rev proj e rp in (map proj r, er, pn).
Proof.
  induction rp as [|x rp IH]; simpl; auto.
  destruct (negb (comparable (proj e))); auto.
  destruct (vcompare (proj e) (proj x)) as [[]|]; auto.
  rewrite IH. destruct (ins_rev proj e rp) as [[r er] pn]. reflexivity.
Qed.

Lemma isort_rev_map : forall (A : Type) (proj : A -> value) l rp er pn,
  isort_rev (fun v => v) (map proj l) (map proj rp) er pn =
  let '(r, er', pn') := isort_rev proj l rp er pn in (map proj r, er', pn').
Proof.
  induction l as [|e l IH]; intros rp er pn; simpl; auto.
  destruct pn; auto.
  rewrite ins_rev_map. destruct (ins_rev proj e rp) as [[rp' er1] pn1]. apply IH.
Qed.

Lemma sort_by_map : forall (A : Type) (proj : A -> value) l,
  sort_by (fun v => v) (map proj l) = sres_map (map proj) (sort_by proj l).
Proof.
  intros A proj l. unfold sort_by.
  pose proof (isort_rev_map A proj l [] false false) as H. simpl in H. rewrite H.
  destruct (isort_rev proj l [] false false) as [[r er] pn].
  destruct pn; auto. destruct er; auto. simpl. rewrite map_rev. reflexivity.
Qed.

Lemma map_fst_tag_from : forall l i, map fst (tag_from i l) = l.
Proof. induction l as [|x l IH]; intro i; simpl; auto. rewrite IH. reflexivity. Qed.

Lemma tag_from_ge : forall l i p, In p (tag_from i l) -> (i <= snd p)%nat.
Proof.
  induction l as [|x l IH]; intros i p I; simpl in I; [contradiction|].
  destruct I as [I|I]; [subst; simpl; lia | apply IH in I; lia].
Qed.

Lemma tag_from_sorted : forall l i, StronglySorted (fun x y : value * nat => snd x < snd y)%nat (tag_from i l).
Proof.
  induction l as [|x l IH]; intro i; simpl; constructor; auto.
  apply Forall_forall. intros p I. apply tag_from_ge in I. simpl. lia.
Qed.

Lemma sorted_of_idx : forall l, sorted l = sres_map (map fst) (sorted_idx l).
Proof.
  intro l. unfold sorted, sorted_idx. rewrite <- sort_by_map. rewrite map_fst_tag_from. reflexivity.
Qed.

Definition stable_ord (p q : value * nat) : Prop :=
  vcompare (fst p) (fst q) = Some Lt \/ (vcompare (fst p) (fst q) = Some Eq /\ snd p < snd q)%nat.

Definition total_preorder_on (P : value -> Prop) : Prop :=
  forall a b c, P a -> P b -> P c -> cmp_laws a b c.

Lemma sorted_perm : forall l r, sorted l = SOk r -> Permutation l r.
Proof. intros l r. apply sort_by_perm. Qed.

Lemma sorted_idx_perm : forall l r, sorted_idx l = SOk r -> Permutation (tag_from 0 l) r.
Proof. intros l r. apply sort_by_perm. Qed.

Lemma sorted_idx_stable : forall (P : value -> Prop) l,
  total_preorder_on P -> Forall P l ->
  exists r, sorted_idx l = SOk r /\ Permutation (tag_from 0 l) r /\ StronglySorted stable_ord r.
Proof.
  intros P l laws F.
  apply (sort_by_stable fst snd P laws).
  - apply Forall_forall. intros p I. rewrite Forall_forall in F. apply F.
    rewrite <- (map_fst_tag_from l 0). apply in_map. exact I.
  - apply tag_from_sorted.
Qed.

Lemma StronglySorted_map_fst : forall r,
  StronglySorted stable_ord r -> StronglySorted le_v (map fst r).
Proof.
  induction 1; simpl; constructor; auto.
  rewrite Forall_forall in *. intros y Iy. apply in_map_iff in Iy. destruct Iy as [q [E Iq]]. subst y.
  destruct (H0 q Iq) as [L|[L _]]; [left|right]; exact L.
Qed.

Lemma sorted_ordered : forall (P : value -> Prop) l r,
  total_preorder_on P -> Forall P l -> sorted l = SOk r -> StronglySorted le_v r.
Proof.
  intros P l r laws F H. destruct (sorted_idx_stable P l laws F) as [r' [E [_ S]]].
  rewrite sorted_of_idx, E in H. simpl in H. inversion H; subst. apply StronglySorted_map_fst. exact S.
Qed.

Lemma sorted_total : forall (P : value -> Prop) l,
  total_preorder_on P -> Forall P l -> exists r, sorted l = SOk r.
Proof.
  intros P l laws F. destruct (sorted_idx_stable P l laws F) as [r' [E _]].
  exists (map fst r'). rewrite sorted_of_idx, E. reflexivity.
Qed.

Lemma sorted_idem : forall (P : value -> Prop) l r,
  total_preorder_on P -> Forall P l -> sorted l = SOk r -> sorted r = SOk r.
Proof.
  intros P l r laws F H.
  apply (sort_by_sorted_id (fun v => v) P laws).
  - eapply Permutation_Forall; [apply sorted_perm; exact H | exact F].
  - eapply sorted_ordered; eauto.
Qed.

Lemma oty_total_preorder : forall t, total_preorder_on (fun v => has_oty t v = true).
Proof. intros t a b c. apply oty_laws. Qed.

(* ---------------------------------------------------------------- corollaries in the property's own terms *)

Definition scalar (v : value) : bool := match v with VList _ | VMap _ | VSet _ => false | _ => true end.

Lemma equals_trans_same_type : forall a b c,
  scalar a = true -> tag_of a = tag_of b -> tag_of b = tag_of c ->
  equals a b = true -> equals b c = true -> equals a c = true.
Proof.
  intros a b c S T1 T2. apply equals_trans.
  destruct a; try discriminate; destruct b; try discriminate; destruct c; try discriminate; reflexivity.
Qed.

Lemma neq_negation : forall a b, cmp_op ONe a b = option_map negb (cmp_op OEq a b).
Proof. reflexivity. Qed.

Lemma set_single_slot : forall s a b ka kb,
  tag_of a = tag_of b -> hashkey a = Some ka -> hashkey b = Some kb -> no_nan a = true -> no_nan b = true ->
  equals a b = true -> length (set_add b (set_add a s)) = length (set_add a s).
Proof.
  intros s a b ka kb T Ha Hb Na Nb E. apply set_add_length_same_key. rewrite Ha, Hb. simpl.
  apply (set_slot a b ka kb T Ha Hb Na Nb). exact E.
Qed.

(* ================================================================ strings and byte_slices order together *)

Definition is_text (v : value) : bool := is_str v || is_bytes v.

Lemma text_laws : forall a b c, is_text a = true -> is_text b = true -> is_text c = true -> cmp_laws a b c.
Proof.
  intros a b c Ha Hb Hc.
  destruct a; try discriminate; destruct b; try discriminate; destruct c; try discriminate;
    unfold cmp_laws; rewrite !vcompare_unfold, equals_unfold; simpl; (repeat split; eauto);
    try (rewrite bytes_cmp_antisym; reflexivity);
    try (intros x y r H1 H2 H3; inversion H1; inversion H2; subst; f_equal; eapply bytes_cmp_trans; exact H3);
    try (intro H; inversion H as [H1]; apply bytes_cmp_eq in H1; subst; apply bytes_eqb_refl);
    try (intro H; apply bytes_eqb_eq in H; subst; rewrite bytes_cmp_refl; reflexivity);
    try (intro H; inversion H as [H1]; rewrite H1; reflexivity);
    try (intro H; match goal with |- Some (bytes_cmp ?x ?y) = _ => destruct (bytes_cmp x y); try discriminate; reflexivity end).
Qed.

Lemma text_total_preorder : total_preorder_on (fun v => is_text v = true).
Proof. intros a b c. apply text_laws. Qed.
