(* Re-linking marshalled code: unique function ids make every function constant find its own code
   again, unique code ids every child its parent, and the repaired rule recomputes the named flag. *)
From Coq Require Import List NArith Bool Arith Lia.
Require Import RV.model.Marshal.
Import ListNotations.

Lemma beq_true a b : beq a b = true <-> a = b.
Proof. unfold beq. destruct (list_eq_dec N.eq_dec a b); split; congruence. Qed.
Lemma beq_refl a : beq a a = true.
Proof. apply beq_true. reflexivity. Qed.

Lemma find_code_shift fid defs i j : find_code fid defs i = Some j -> i <= j.
Proof.
  revert i; induction defs as [|d r IH]; intros i; cbn; [discriminate|].
  destruct (beq (cd_funcid d) fid); [intros H; injection H as <-; lia|].
  intros H. apply IH in H. lia.
Qed.

(* a generic statement for both lookups *)
Section Lookup.
  Variable key : cdef -> list N.
  Fixpoint find_key (k : list N) (defs : list cdef) (i : nat) : option nat :=
    match defs with
    | [] => None
    | d :: r => if beq (key d) k then Some i else find_key k r (S i)
    end.
  Lemma find_key_unique defs : forall base i d,
    nodup_b (map key defs) = true -> nth_error defs i = Some d ->
    find_key (key d) defs base = Some (base + i).
  Proof.
    induction defs as [|d0 r IH]; intros base i d Hn Hi; [destruct i; discriminate|].
    cbn in Hn. apply andb_true_iff in Hn. destruct Hn as (Hnot & Hn).
    destruct i as [|i]; cbn in Hi.
    - injection Hi as ->. cbn. rewrite beq_refl. f_equal. lia.
    - cbn. destruct (beq (key d0) (key d)) eqn:E.
      + exfalso. apply beq_true in E. apply negb_true_iff in Hnot.
        assert (existsb (beq (key d0)) (map key r) = true).
        { apply existsb_exists. exists (key d). split; [apply in_map; eapply nth_error_In; eauto|apply beq_true; exact E]. }
        congruence.
      + rewrite (IH (S base) i d Hn Hi). f_equal. lia.
  Qed.
End Lookup.

Lemma find_code_is_find_key fid defs i : find_code fid defs i = find_key cd_funcid fid defs i.
Proof. revert i; induction defs as [|d r IH]; intros i; cbn; [reflexivity|]. destruct (beq (cd_funcid d) fid); [reflexivity|apply IH]. Qed.
Lemma find_id_is_find_key id defs i : find_id id defs i = find_key cd_id id defs i.
Proof. revert i; induction defs as [|d r IH]; intros i; cbn; [reflexivity|]. destruct (beq (cd_id d) id); [reflexivity|apply IH]. Qed.

(* code ids are unique: every definition is found again under its own id, hence every child finds
   its parent *)
Theorem find_id_own defs i d :
  nodup_b (map cd_id defs) = true -> nth_error defs i = Some d -> find_id (cd_id d) defs 0 = Some i.
Proof. intros Hn Hi. rewrite find_id_is_find_key. exact (find_key_unique cd_id defs 0 i d Hn Hi). Qed.

(* function ids: the entrypoint has none, all others have distinct non-empty ones *)
Theorem find_code_own defs i d :
  nodup_b (map cd_funcid (filter (fun d => negb (is_empty (cd_funcid d))) defs)) = true ->
  nth_error defs i = Some d -> is_empty (cd_funcid d) = false ->
  find_code (cd_funcid d) defs 0 = Some i.
Proof.
  intros Hn Hi Hne.
  (* direct induction: an earlier definition with the same function id would contradict NoDup *)
  assert (G : forall defs base i, 
             nodup_b (map cd_funcid (filter (fun d => negb (is_empty (cd_funcid d))) defs)) = true ->
             nth_error defs i = Some d -> find_code (cd_funcid d) defs base = Some (base + i)).
  { clear defs i Hn Hi. induction defs as [|d0 r IH]; intros base i Hn Hi; [destruct i; discriminate|].
    destruct i as [|i]; cbn in Hi.
    - injection Hi as ->. cbn. rewrite beq_refl. f_equal. lia.
    - cbn. destruct (beq (cd_funcid d0) (cd_funcid d)) eqn:E.
      + exfalso. apply beq_true in E. cbn in Hn. rewrite E, Hne in Hn. cbn in Hn.
        apply andb_true_iff in Hn. destruct Hn as (Hnot & _). apply negb_true_iff in Hnot.
        assert (existsb (beq (cd_funcid d)) (map cd_funcid (filter (fun d => negb (is_empty (cd_funcid d))) r)) = true).
        { apply existsb_exists. exists (cd_funcid d). split; [|apply beq_refl].
          apply in_map. apply filter_In. split; [eapply nth_error_In; eauto|rewrite Hne; reflexivity]. }
        congruence.
      + assert (Hn' : nodup_b (map cd_funcid (filter (fun d => negb (is_empty (cd_funcid d))) r)) = true).
        { cbn in Hn. destruct (negb (is_empty (cd_funcid d0))); [cbn in Hn; apply andb_true_iff in Hn; tauto|exact Hn]. }
        rewrite (IH (S base) i Hn' Hi). f_equal. lia. }
  exact (G defs 0 i Hn Hi).
Qed.

Theorem named_preserved d : def_ok d = true -> named_of d = cd_named d.
Proof. unfold def_ok, named_of. intros H. apply eqb_prop in H. symmetry. exact H. Qed.
