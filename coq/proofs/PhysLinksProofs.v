(* Proofs about kernel path resolution over symbolic links (model/PhysLinks.v): when every stored link text is an
   absolute path under the base without ".." - which is what localfs.Symlink stores: the RESOLVED first argument -
   every path under the base leads to a place under the base, through any chain of links. *)
From Coq Require Import List Bool.
Require Import RV.model.PhysLinks.
Import ListNotations.

Section PhysProofs.
  Variable seg : Type.
  Variable seg_eqb : seg -> seg -> bool.
  Hypothesis seg_eqb_eq : forall a b, seg_eqb a b = true <-> a = b.
  Variable dotdot : seg.

  Notation walk_to_link := (walk_to_link seg seg_eqb dotdot).
  Notation phys := (phys seg seg_eqb dotdot).
  Notation link_at := (link_at seg seg_eqb).
  Notation under := (under seg).
  Notation links := (links seg).

  Definition plain (s : seg) : Prop := s <> dotdot.

  Lemma plain_eqb s : plain s -> seg_eqb s dotdot = false.
  Proof.
    intros H. destruct (seg_eqb s dotdot) eqn:E; [|reflexivity].
    apply seg_eqb_eq in E. contradiction.
  Qed.

  Lemma link_at_in (L : links) p t : link_at L p = Some t -> exists loc, In (loc, t) L.
  Proof.
    unfold PhysLinks.link_at. destruct (find _ L) as [[loc t']|] eqn:E; [|discriminate].
    intros H. inversion H. subst. apply find_some in E. destruct E as [E _]. exists loc. exact E.
  Qed.

  Lemma walk_done (L : links) todo : Forall plain todo -> forall cur p,
    walk_to_link L cur todo = Done p -> p = cur ++ todo.
  Proof.
    induction todo as [|s r IH]; intros Hp cur p H; simpl in H.
    - inversion H. rewrite app_nil_r. reflexivity.
    - inversion Hp as [|? ? Hs Hr]. subst. rewrite (plain_eqb s Hs) in H.
      destruct (link_at L (cur ++ [s])); [discriminate|].
      rewrite (IH Hr _ _ H). rewrite <- app_assoc. reflexivity.
  Qed.

  Lemma walk_link (L : links) todo : Forall plain todo -> forall cur dir t r,
    walk_to_link L cur todo = Link dir t r -> (exists loc, In (loc, t) L) /\ Forall plain r.
  Proof.
    induction todo as [|s r0 IH]; intros Hp cur dir t r H; simpl in H; [discriminate|].
    inversion Hp as [|? ? Hs Hr]. subst. rewrite (plain_eqb s Hs) in H.
    destruct (link_at L (cur ++ [s])) as [t'|] eqn:E.
    - inversion H. subst. split; [exact (link_at_in L _ _ E)|exact Hr].
    - exact (IH Hr _ _ _ _ H).
  Qed.

  (* every stored text is absolute, lies under the base and has no ".." *)
  Definition table_ok (base : list seg) (L : links) : Prop :=
    forall loc t, In (loc, t) L -> t_abs t = true /\ under base (t_comps t) /\ Forall plain (t_comps t).

  Theorem phys_confined (base : list seg) (L : links) : table_ok base L ->
    forall fuel cur todo p,
      Forall plain todo -> under base (cur ++ todo) -> phys fuel L cur todo = Some p -> under base p.
  Proof.
    intros HL. induction fuel as [|f IH]; intros cur todo p Hp Hu H; simpl in H.
    - destruct (walk_to_link L cur todo) as [q|dir t r] eqn:E; [|discriminate].
      inversion H. subst. rewrite (walk_done L todo Hp _ _ E). exact Hu.
    - destruct (walk_to_link L cur todo) as [q|dir t r] eqn:E.
      + inversion H. subst. rewrite (walk_done L todo Hp _ _ E). exact Hu.
      + destruct (walk_link L todo Hp _ _ _ _ E) as [[loc Hin] Hr].
        destruct (HL loc t Hin) as [Ha [[rest Hb] Hpl]]. rewrite Ha in H.
        apply (IH [] (t_comps t ++ r) p).
        * apply Forall_app. split; assumption.
        * exists (rest ++ r). simpl. rewrite Hb. rewrite <- app_assoc. reflexivity.
        * exact H.
  Qed.

  Corollary leads_confined (base : list seg) (L : links) : table_ok base L ->
    forall fuel p q, Forall plain p -> under base p -> leads seg seg_eqb dotdot fuel L p = Some q -> under base q.
  Proof. intros HL fuel p q Hp Hu H. exact (phys_confined base L HL fuel [] p q Hp Hu H). Qed.
End PhysProofs.
