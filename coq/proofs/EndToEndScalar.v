(* Stage A assembled: for whole programs that consist of one scalar expression, compiling with the compiler model and
   running the result on the VM model gives what the reference semantics gives. *)
From Coq Require Import List ZArith NArith Bool Arith Lia.
Require Import RV.model.Syntax RV.model.Compiler RV.model.VM RV.model.ScalarFrag.
Require Import RV.proofs.VMScalarProofs RV.proofs.ScalarProgramProofs.
Require RV.model.Sem RV.proofs.SemScalarProofs RV.proofs.SemProgramProofs.
Import ListNotations.
Local Open Scope nat_scope.

(* the outcome of the reference semantics and the result of the VM denote the same scalar / the same error class *)
Definition agree (o : Sem.outcome) (r : res) : Prop :=
  exists x : sval + serr,
    o = SemScalarProofs.lift x /\
    match x with
    | inl v => exists s, r = RVal (VMScalarProofs.inj v) s
    | inr er => exists s, r = RErr (cls er) s
    end.

Theorem scalar_programs_end_to_end : forall e, need e <= MAXSTACK ->
  exists c tabs, compile_program (height e) [] [embed e] = inr (c, tabs) /\
  forall ng bs, exists k, forall f fs, height e <= fs ->
    agree (fst (Sem.run fs [embed e])) (VM.run (k + S f) c tabs ng bs).
Proof.
  intros e Hn. eexists. eexists. split; [apply compile_program_scalar|].
  intros ng bs. destruct (run_scalar_program e [root_table] ng bs Hn) as [k Hk].
  exists k. intros f fs Hfs. exists (sev e). split.
  - rewrite (SemProgramProofs.sem_scalar_program e fs Hfs). reflexivity.
  - rewrite Hk. destruct (sev e); eexists; reflexivity.
Qed.
