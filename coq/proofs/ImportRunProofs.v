(* Proofs about the import model, part B: the VM's module cache, body starts and their accounting,
   module object identity, globals arrays.  One invariant, preserved by every evaluation. *)
From Coq Require Import List Bool Arith NArith ZArith Lia.
Require Import RV.model.Paths RV.model.Lexer RV.model.Parser RV.model.Importer RV.proofs.ImporterProofs.
Import ListNotations.
Local Open Scope nat_scope.

(* ---------- association lists ---------- *)

Lemma name_eqb_eq a b : name_eqb a b = true <-> a = b.
Proof. unfold name_eqb. destruct (list_eq_dec N.eq_dec a b); split; congruence. Qed.
Lemma name_eqb_refl a : name_eqb a a = true.
Proof. apply name_eqb_eq. reflexivity. Qed.
Lemma name_eqb_neq a b : a <> b -> name_eqb a b = false.
Proof. intros H. destruct (name_eqb a b) eqn:E; [apply name_eqb_eq in E; contradiction|reflexivity]. Qed.

Lemma lookup_update_same {V} k (v : V) l : lookup k (update k v l) = Some v.
Proof. cbn. rewrite name_eqb_refl. reflexivity. Qed.
Lemma lookup_update_other {V} k k' (v : V) l : k <> k' -> lookup k' (update k v l) = lookup k' l.
Proof. intros H. cbn. rewrite name_eqb_neq by congruence. reflexivity. Qed.
Lemma get_bump_same k l : get k (bump k l) = S (get k l).
Proof. unfold get, bump. cbn. rewrite name_eqb_refl. reflexivity. Qed.
Lemma get_bump_other k k' l : k <> k' -> get k' (bump k l) = get k' l.
Proof. intros H. unfold get, bump. cbn. rewrite name_eqb_neq by congruence. reflexivity. Qed.
Lemma mem_In k l : mem k l = true <-> In k l.
Proof.
  unfold mem. rewrite existsb_exists. split.
  - intros (x & Hx & E). apply name_eqb_eq in E. subst. exact Hx.
  - intros H. exists k. split; [exact H|apply name_eqb_refl].
Qed.
Lemma mem_false k l : mem k l = false <-> ~ In k l.
Proof. rewrite <- mem_In. destruct (mem k l); split; congruence. Qed.

Definition name_dec := list_eq_dec N.eq_dec.
Definition cnt (n : name) (l : list name) : nat := count_occ name_dec l n.
Lemma cnt_cons_same n l : cnt n (n :: l) = S (cnt n l).
Proof. unfold cnt. cbn. destruct (name_dec n n); [reflexivity|contradiction]. Qed.
Lemma cnt_cons_other n m l : m <> n -> cnt n (m :: l) = cnt n l.
Proof. intros H. unfold cnt. cbn. destruct (name_dec m n); [contradiction|reflexivity]. Qed.
Lemma cnt_zero n l : ~ In n l -> cnt n l = 0.
Proof. intros H. unfold cnt. apply count_occ_not_In. exact H. Qed.
Lemma cnt_pos n l : In n l -> 1 <= cnt n l.
Proof. intros H. unfold cnt. apply (count_occ_In name_dec) in H. lia. Qed.

(* ---------- what the trace shows ---------- *)
Fixpoint tr_starts (n : name) (t : list event) : nat :=
  match t with
  | [] => 0
  | EvStart m _ _ :: r => (if name_eqb n m then 1 else 0) + tr_starts n r
  | _ :: r => tr_starts n r
  end.
Fixpoint tr_dones (n : name) (t : list event) : nat :=
  match t with
  | [] => 0
  | EvDone m _ :: r => (if name_eqb n m then 1 else 0) + tr_dones n r
  | _ :: r => tr_dones n r
  end.

(* ---------- the invariant ---------- *)
Definition completed (n : name) (s : st) : nat := get n (dones s).

Record Inv (inprog : list name) (s : st) : Prop := {
  inv_acct : forall n, get n (starts s) = get n (dones s) + get n (fails s) + cnt n inprog;
  inv_once : forall n, get n (dones s) <= 1;
  inv_cached : forall n, get n (dones s) = 1 -> lookup n (cache s) <> None;
  inv_inprog : forall n, In n inprog -> get n (dones s) = 0;
  inv_res0 : forall n, completed n s = 0 -> lookup n (cache s) = None /\ forall id, ~ In (n, id) (results s);
  inv_res1 : forall n id, In (n, id) (results s) -> completed n s <= 1 -> exists a, lookup n (cache s) = Some (id, a);
  inv_linj : forall n1 n2 a, lookup n1 (loaded s) = Some a -> lookup n2 (loaded s) = Some a -> n1 = n2;
  inv_lrange : forall n a, lookup n (loaded s) = Some a -> 1 <= a < next_arr s;
  inv_next : 1 <= next_arr s;
  inv_cache_arr : forall n id a, lookup n (cache s) = Some (id, a) -> lookup n (loaded s) = Some a;
  inv_tr_starts : forall n, get n (starts s) = tr_starts n (trace s);
  inv_tr_dones : forall n, completed n s = tr_dones n (trace s)
}.

Definition ext (s s' : st) : Prop := forall n a, lookup n (loaded s) = Some a -> lookup n (loaded s') = Some a.
Lemma ext_refl s : ext s s.
Proof. intros n a H. exact H. Qed.
Lemma ext_trans s1 s2 s3 : ext s1 s2 -> ext s2 s3 -> ext s1 s3.
Proof. intros H1 H2 n a H. apply H2, H1, H. Qed.

Lemma init_inv : Inv [] init.
Proof.
  constructor; cbn; intros; try discriminate; try lia; try reflexivity; try contradiction.
  split; [reflexivity|intros id []].
Qed.

(* ---------- field updates that do not touch what the invariant talks about ---------- *)

Lemma log_req_inv l n r s : Inv l s -> Inv l (log (EvReq n r) s).
Proof. intros [Hacct Honce Hcached Hinprog Hres0 Hres1 Hlinj Hlrange Hnext Hcarr Htrs Htrd]. constructor; cbn; auto. Qed.
Lemma log_obs_inv l v d s : Inv l s -> Inv l (log (EvObs v d) s).
Proof. intros [Hacct Honce Hcached Hinprog Hres0 Hres1 Hlinj Hlrange Hnext Hcarr Htrs Htrd]. constructor; cbn; auto. Qed.
Lemma set_array_inv l a e s : Inv l s -> Inv l (set_array a e s).
Proof. intros [Hacct Honce Hcached Hinprog Hres0 Hres1 Hlinj Hlrange Hnext Hcarr Htrs Htrd]. constructor; cbn; auto. Qed.
Lemma note_write_inv l a w s : Inv l s -> Inv l (note_write a w s).
Proof. intros [Hacct Honce Hcached Hinprog Hres0 Hres1 Hlinj Hlrange Hnext Hcarr Htrs Htrd]. constructor; cbn; auto. Qed.
Lemma note_cycle_inv l n s : Inv l s -> Inv l (note_cycle n s).
Proof. intros [Hacct Honce Hcached Hinprog Hres0 Hres1 Hlinj Hlrange Hnext Hcarr Htrs Htrd]. constructor; cbn; auto. Qed.
Lemma note_compiled_inv l n s : Inv l s -> Inv l (note_compiled n s).
Proof. intros [Hacct Honce Hcached Hinprog Hres0 Hres1 Hlinj Hlrange Hnext Hcarr Htrs Htrd]. constructor; cbn; auto. Qed.

Lemma bind_inv l c loc x v s loc' s' : Inv l s -> bind c loc x v s = (loc', s') -> Inv l s' /\ ext s s'.
Proof.
  intros H E. unfold bind in E. destruct loc; injection E as <- <-.
  - split; [exact H|apply ext_refl].
  - split; [apply set_array_inv; exact H|intros n a Hn; exact Hn].
Qed.

Lemma bind_all_inv l c xs : forall loc vs s loc' s',
  Inv l s -> bind_all c loc xs vs s = (loc', s') -> Inv l s' /\ ext s s'.
Proof.
  induction xs as [|x xr IH]; intros loc vs s loc' s' H E; cbn in E.
  - injection E as <- <-. split; [exact H|apply ext_refl].
  - destruct vs as [|v vr]; [injection E as <- <-; split; [exact H|apply ext_refl]|].
    destruct (bind c loc x v s) as [loc1 s1] eqn:Eb.
    destruct (bind_inv l c loc x v s loc1 s1 H Eb) as (H1 & X1).
    destruct (IH loc1 vr s1 loc' s' H1 E) as (H2 & X2).
    split; [exact H2|eapply ext_trans; eassumption].
Qed.

Lemma add_result_inv l n id a s : Inv l s -> lookup n (cache s) = Some (id, a) -> Inv l (add_result n id s).
Proof.
  intros [Hacct Honce Hcached Hinprog Hres0 Hres1 Hlinj Hlrange Hnext Hcarr Htrs Htrd] Hc. constructor; cbn; auto.
  - intros m Hm. destruct (Hres0 m Hm) as (Hnone & Hno). split; [exact Hnone|].
    intros id' [E|Hin]; [|exact (Hno id' Hin)].
    injection E as -> ->. congruence.
  - intros m id' [E|Hin] Hle; [|exact (Hres1 m id' Hin Hle)].
    injection E as <- <-. exists a. exact Hc.
Qed.

Lemma load_fresh_inv l n s : Inv l s -> lookup n (loaded s) = None ->
  Inv l (load_fresh n s) /\ lookup n (loaded (load_fresh n s)) = Some (next_arr s) /\ ext s (load_fresh n s).
Proof.
  intros [Hacct Honce Hcached Hinprog Hres0 Hres1 Hlinj Hlrange Hnext Hcarr Htrs Htrd] Hn. split; [|split].
  - constructor; cbn [load_fresh cache compiled loaded arrays next_arr next_mod trace starts dones fails cycles results completed]; auto.
    + intros n1 n2 a. cbn [lookup].
      destruct (name_eqb n1 n) eqn:E1; destruct (name_eqb n2 n) eqn:E2.
      * apply name_eqb_eq in E1, E2. congruence.
      * intros Ha H2. injection Ha as <-. apply Hlrange in H2. lia.
      * intros H1 Ha. injection Ha as <-. apply Hlrange in H1. lia.
      * apply Hlinj.
    + intros m a. cbn [lookup]. destruct (name_eqb m n).
      * intros Ha. injection Ha as <-. lia.
      * intros Ha. apply Hlrange in Ha. lia.
    + intros m id a Hc. cbn [lookup]. destruct (name_eqb m n) eqn:E.
      * apply name_eqb_eq in E. subst m. apply Hcarr in Hc. congruence.
      * eapply Hcarr; eassumption.
  - cbn. rewrite name_eqb_refl. reflexivity.
  - intros m a Hm. cbn. destruct (name_eqb m n) eqn:E; [|exact Hm].
    apply name_eqb_eq in E. subst m. congruence.
Qed.

Lemma begin_run_inv l n d s : Inv l s -> lookup n (cache s) = None -> Inv (n :: l) (begin_run n d s).
Proof.
  intros [Hacct Honce Hcached Hinprog Hres0 Hres1 Hlinj Hlrange Hnext Hcarr Htrs Htrd] Hc.
  assert (Hz : get n (dones s) = 0).
  { pose proof (Honce n) as H1. destruct (Nat.eq_dec (get n (dones s)) 1) as [E|E]; [|lia].
    exfalso. exact (Hcached n E Hc). }
  constructor; cbn [begin_run cache compiled loaded arrays next_arr next_mod trace starts dones fails cycles results completed]; auto.
  - intros m. destruct (name_dec n m) as [<-|N].
    + rewrite get_bump_same, cnt_cons_same, Hacct. lia.
    + rewrite get_bump_other, cnt_cons_other by assumption. apply Hacct.
  - intros m [<-|Hin]; [exact Hz|apply Hinprog; exact Hin].
  - intros m. cbn [tr_starts]. destruct (name_dec n m) as [<-|N].
    + rewrite get_bump_same, name_eqb_refl, Htrs. reflexivity.
    + rewrite get_bump_other by assumption. rewrite name_eqb_neq by congruence. apply Htrs.
Qed.

Lemma finish_fail_inv l n s : Inv (n :: l) s -> Inv l (finish_fail n s).
Proof.
  intros [Hacct Honce Hcached Hinprog Hres0 Hres1 Hlinj Hlrange Hnext Hcarr Htrs Htrd].
  constructor; cbn [finish_fail cache compiled loaded arrays next_arr next_mod trace starts dones fails cycles results completed]; auto.
  - intros m. specialize (Hacct m). destruct (name_dec n m) as [<-|N].
    + rewrite cnt_cons_same in Hacct. rewrite get_bump_same. lia.
    + rewrite cnt_cons_other in Hacct by assumption. rewrite get_bump_other by assumption. lia.
  - intros m Hin. apply Hinprog. right. exact Hin.
Qed.

Lemma finish_ok_inv l n id arr d s :
  Inv (n :: l) s -> ~ In n l -> lookup n (loaded s) = Some arr -> Inv l (finish_ok n id arr d s).
Proof.
  intros [Hacct Honce Hcached Hinprog Hres0 Hres1 Hlinj Hlrange Hnext Hcarr Htrs Htrd] Hnl Harr.
  assert (Hz : get n (dones s) = 0) by (apply Hinprog; left; reflexivity).
  unfold completed in *.
  constructor; unfold completed;
    cbn [finish_ok cache compiled loaded arrays next_arr next_mod trace starts dones fails cycles results]; auto.
  - (* accounting *)
    intros m. specialize (Hacct m). destruct (name_dec n m) as [<-|N].
    + rewrite cnt_cons_same in Hacct. rewrite get_bump_same. lia.
    + rewrite cnt_cons_other in Hacct by assumption. rewrite get_bump_other by assumption. lia.
  - (* at most one completion *)
    intros m. destruct (name_dec n m) as [<-|N]; [rewrite get_bump_same; lia|rewrite get_bump_other by assumption; apply Honce].
  - (* completed => cached *)
    intros m Hm. destruct (name_dec n m) as [<-|N].
    + rewrite lookup_update_same. discriminate.
    + rewrite lookup_update_other by assumption. apply Hcached. rewrite get_bump_other in Hm by assumption. exact Hm.
  - (* bodies in progress have not completed *)
    intros m Hin. destruct (name_dec n m) as [<-|N]; [contradiction|].
    rewrite get_bump_other by assumption. apply Hinprog. right. exact Hin.
  - (* no completion => not cached, no result *)
    intros m Hm. destruct (name_dec n m) as [<-|N].
    + exfalso. rewrite get_bump_same in Hm. lia.
    + rewrite get_bump_other in Hm by assumption.
      destruct (Hres0 m Hm) as (Hnone & Hno). rewrite lookup_update_other by assumption.
      split; [exact Hnone|]. intros id' [E|Hin]; [congruence|exact (Hno id' Hin)].
  - (* every result is the cached object *)
    intros m id' Hin Hle. destruct (name_dec n m) as [<-|N].
    + rewrite lookup_update_same. destruct Hin as [E|Hin]; [injection E as <-; exists arr; reflexivity|].
      exfalso. destruct (Hres0 n Hz) as (_ & Hno). exact (Hno id' Hin).
    + rewrite lookup_update_other by assumption.
      destruct Hin as [E|Hin]; [congruence|]. apply Hres1; [exact Hin|].
      rewrite get_bump_other in Hle by assumption. exact Hle.
  - (* cached objects use the loaded array of their module *)
    intros m id' a Hc. destruct (name_dec n m) as [<-|N].
    + rewrite lookup_update_same in Hc. injection Hc as <- <-. exact Harr.
    + rewrite lookup_update_other in Hc by assumption. eapply Hcarr; eassumption.
  - (* trace *)
    intros m. cbn [tr_dones]. specialize (Htrd m). destruct (name_dec n m) as [<-|N].
    + rewrite name_eqb_refl. rewrite get_bump_same. lia.
    + rewrite name_eqb_neq by congruence. rewrite get_bump_other by assumption. lia.
Qed.

(* ---------- evaluation preserves the invariant ---------- *)

Section Run.
  Variable T : tree.
  Variable exts : list bstr.

  Definition run_ok (run : ctx -> option env -> list action -> st -> outcome * option env * st) : Prop :=
    forall c loc acts s o loc' s',
      Inv (c_inprog c) s -> run c loc acts s = (o, loc', s') -> Inv (c_inprog c) s' /\ ext s s'.

  Lemma import_with_ok run : run_ok run -> forall c n s r s',
    Inv (c_inprog c) s -> import_with run T exts c n s = (r, s') -> Inv (c_inprog c) s' /\ ext s s'.
  Proof.
    intros Hrun c n s r s' H E. unfold import_with in E.
    destruct (lookup n (cache s)) as [[id a]|] eqn:Ec.
    { injection E as <- <-. split; [eapply add_result_inv; eassumption|intros m b Hm; exact Hm]. }
    destruct (mem n (c_inprog c)) eqn:Ecy.
    { injection E as <- <-. split; [apply note_cycle_inv; exact H|intros m b Hm; exact Hm]. }
    apply mem_false in Ecy.
    destruct (find_source T exts n) as [[e [|body]]|].
    2:{ (* found and compiled *)
      set (s1 := note_compiled n (log (EvReq n (RFound e (negb (mem n (compiled s))))) s)) in *.
      assert (H1 : Inv (c_inprog c) s1) by (apply note_compiled_inv, log_req_inv; exact H).
      assert (X1 : ext s s1) by (intros m b Hm; exact Hm).
      assert (C1 : lookup n (cache s1) = None) by exact Ec.
      set (s2 := match lookup n (loaded s1) with Some _ => s1 | None => load_fresh n s1 end) in *.
      assert (H2 : Inv (c_inprog c) s2 /\ ext s1 s2 /\ lookup n (cache s2) = None /\
                   exists arr, lookup n (loaded s2) = Some arr).
      { unfold s2. destruct (lookup n (loaded s1)) as [a0|] eqn:El.
        - split; [exact H1|]. split; [apply ext_refl|]. split; [exact C1|]. exists a0. exact El.
        - destruct (load_fresh_inv _ n s1 H1 El) as (Ha & Hb & Hc).
          split; [exact Ha|]. split; [exact Hc|]. split; [exact C1|]. eexists. exact Hb. }
      destruct H2 as (H2 & X2 & C2 & arr & L2). rewrite L2 in E.
      destruct (Nat.leb (pred max_frame) (c_depth c)).
      { injection E as <- <-. split; [exact H2|exact (ext_trans _ _ _ X1 X2)]. }
      set (d := S (length (c_inprog c))) in *.
      set (s3 := begin_run n d s2) in *.
      assert (H3 : Inv (n :: c_inprog c) s3) by (apply begin_run_inv; assumption).
      match type of E with context [run ?cc None body s3] => set (c' := cc) in * end.
      destruct (run c' None body s3) as [[o loc4] s4] eqn:Er.
      destruct (Hrun c' None body s3 o loc4 s4 H3 Er) as (H4 & X4).
      assert (X3 : ext s2 s3) by (intros m b Hm; exact Hm).
      assert (L4 : lookup n (loaded s4) = Some arr) by (apply X4, X3, L2).
      assert (X : ext s s4) by (eapply ext_trans; [exact X1|]; eapply ext_trans; [exact X2|]; eapply ext_trans; eassumption).
      cbn [c_inprog c'] in H4.
      destruct o; injection E as <- <-.
      - split; [eapply finish_ok_inv; [exact H4|exact Ecy|exact L4]|intros m b Hm; apply X; exact Hm].
      - split; [eapply finish_fail_inv; exact H4|intros m b Hm; apply X; exact Hm].
      - split; [eapply finish_fail_inv; exact H4|intros m b Hm; apply X; exact Hm].
      - split; [eapply finish_fail_inv; exact H4|intros m b Hm; apply X; exact Hm]. }
    - injection E as <- <-. split; [apply log_req_inv; exact H|intros m b Hm; exact Hm].
    - injection E as <- <-. split; [apply log_req_inv; exact H|intros m b Hm; exact Hm].
  Qed.

  Lemma from_one_ok run : run_ok run -> forall c ps nm s r s',
    Inv (c_inprog c) s -> from_one run T exts c ps nm s = (r, s') -> Inv (c_inprog c) s' /\ ext s s'.
  Proof.
    intros Hrun c ps nm s r s' H E. unfold from_one in E.
    destruct (import_with run T exts c (from_name ps nm) s) as [r1 s1] eqn:E1.
    destruct (import_with_ok run Hrun c _ s r1 s1 H E1) as (H1 & X1).
    destruct r1 as [id a|e| |]; try (injection E as <- <-; split; assumption).
    destruct (import_with run T exts c (from_parent ps) s1) as [r2 s2] eqn:E2.
    destruct (import_with_ok run Hrun c _ s1 r2 s2 H1 E2) as (H2 & X2).
    assert (X : ext s s2) by (eapply ext_trans; eassumption).
    destruct r2 as [id a|e2| |]; try (injection E as <- <-; split; assumption).
    destruct (walk (VMod id (from_parent ps) a) [nm] s2); injection E as <- <-; split; assumption.
  Qed.

  Lemma from_all_ok run : run_ok run -> forall c ps names s vs o s',
    Inv (c_inprog c) s -> from_all run T exts c ps names s = (vs, o, s') -> Inv (c_inprog c) s' /\ ext s s'.
  Proof.
    intros Hrun c ps names. induction names as [|nm r IH]; intros s vs o s' H E; cbn [from_all] in E.
    - injection E as <- <- <-. split; [exact H|apply ext_refl].
    - destruct (from_one run T exts c ps nm s) as [r1 s1] eqn:E1.
      destruct (from_one_ok run Hrun c ps nm s r1 s1 H E1) as (H1 & X1).
      destruct r1 as [[v|e]|o1]; try (injection E as <- <- <-; split; assumption).
      destruct (from_all run T exts c ps r s1) as [[vs2 o2] s2] eqn:E2.
      destruct (IH s1 vs2 o2 s2 H1 E2) as (H2 & X2).
      destruct vs2; injection E as <- <- <-; (split; [exact H2|eapply ext_trans; eassumption]).
  Qed.

  Lemma step_with_ok run : run_ok run -> forall c loc a s o loc' s',
    Inv (c_inprog c) s -> step_with run T exts c loc a s = (o, loc', s') -> Inv (c_inprog c) s' /\ ext s s'.
  Proof.
    intros Hrun c loc a s o loc' s' H E. destruct a as [path alias|ps imps|x v|dx|p x v|e| |body|k body]; cbn [step_with] in E.
    - (* import *)
      destruct (import_with run T exts c path s) as [r1 s1] eqn:E1.
      destruct (import_with_ok run Hrun c _ s r1 s1 H E1) as (H1 & X1).
      destruct r1 as [id a|e| |]; try (injection E as <- <- <-; split; assumption).
      destruct (bind c loc _ (VMod id path a) s1) as [loc2 s2] eqn:Eb.
      destruct (bind_inv _ c loc _ _ s1 loc2 s2 H1 Eb) as (H2 & X2).
      injection E as <- <- <-. split; [exact H2|eapply ext_trans; eassumption].
    - (* from import *)
      destruct (from_all run T exts c ps (rev (map fst imps)) s) as [[vs o1] s1] eqn:E1.
      destruct (from_all_ok run Hrun c ps _ s vs o1 s1 H E1) as (H1 & X1).
      destruct vs as [vs|]; [|injection E as <- <- <-; split; assumption].
      destruct (bind_all c loc (map (from_alias imps) (map fst imps)) (rev vs) s1) as [loc2 s2] eqn:Eb.
      destruct (bind_all_inv _ c _ loc (rev vs) s1 loc2 s2 H1 Eb) as (H2 & X2).
      injection E as <- <- <-. split; [exact H2|eapply ext_trans; eassumption].
    - injection E as <- <- <-. split; [apply note_write_inv, set_array_inv; exact H|intros m b Hm; exact Hm].
    - injection E as <- <- <-. split; [apply set_array_inv; exact H|intros m b Hm; exact Hm].
    - destruct (eval_path c loc p s) as [[z|id n0 a|b| |]|e]; try (injection E as <- <- <-; split; [exact H|apply ext_refl]).
      destruct (lookup (setter x) (arr_env a s)) as [[| | | |]|]; injection E as <- <- <-;
        first [split; [exact H|apply ext_refl]|split; [apply set_array_inv; exact H|intros m b Hm; exact Hm]].
    - destruct e as [p|p q].
      + destruct (eval_path c loc p s); injection E as <- <- <-.
        * split; [apply log_obs_inv; exact H|intros m b Hm; exact Hm].
        * split; [exact H|apply ext_refl].
      + destruct (eval_path c loc p s); destruct (eval_path c loc q s); injection E as <- <- <-;
          (split; [try apply log_obs_inv; exact H|intros m b Hm; exact Hm]).
    - injection E as <- <- <-. split; [exact H|apply ext_refl].
    - (* try *)
      destruct (Nat.leb (pred max_frame) (c_depth c)); [injection E as <- <- <-; split; [exact H|apply ext_refl]|].
      match type of E with context [run ?cc (Some []) body s] => set (c' := cc) in * end.
      destruct (run c' (Some []) body s) as [[o1 loc1] s1] eqn:Er.
      destruct (Hrun c' (Some []) body s o1 loc1 s1 H Er) as (H1 & X1).
      destruct o1; injection E as <- <- <-; split; assumption.
    - (* if run *)
      destruct (Nat.eqb (c_run c) k); [|injection E as <- <- <-; split; [exact H|apply ext_refl]].
      destruct (run c loc body s) as [[o1 loc1] s1] eqn:Er.
      destruct (Hrun c loc body s o1 loc1 s1 H Er) as (H1 & X1).
      injection E as <- <- <-. split; assumption.
  Qed.

  Theorem exec_ok fuel : run_ok (exec fuel T exts).
  Proof.
    induction fuel as [|f IH]; intros c loc acts s o loc' s' H E; cbn [exec] in E.
    - injection E as <- <- <-. split; [exact H|apply ext_refl].
    - destruct acts as [|a rest]; [injection E as <- <- <-; split; [exact H|apply ext_refl]|].
      destruct (step_with (exec f T exts) T exts c loc a s) as [[o1 loc1] s1] eqn:Es.
      destruct (step_with_ok _ IH c loc a s o1 loc1 s1 H Es) as (H1 & X1).
      destruct o1; try (injection E as <- <- <-; split; assumption).
      destruct (IH c loc1 rest s1 o loc' s' H1 E) as (H2 & X2).
      split; [exact H2|eapply ext_trans; eassumption].
  Qed.

  Theorem run_main_inv fuel main o s : run_main fuel T exts main = (o, s) -> Inv [] s.
  Proof.
    unfold run_main. destruct (exec fuel T exts main_ctx None main init) as [[o1 loc1] s1] eqn:E.
    intros X. injection X as <- <-.
    exact (proj1 (exec_ok fuel main_ctx None main init o1 loc1 s1 init_inv E)).
  Qed.
End Run.

(* ---------- every name handed to the importer is well-formed ---------- *)

Definition reqs_ok (s : st) : Prop := forall n r, In (EvReq n r) (trace s) -> name_ok n.

Lemma find_file_in T n e src : find_file T n e = Some src -> In (n, e, src) T.
Proof.
  induction T as [|[[n' e'] src'] r IH]; cbn; [discriminate|].
  destruct (name_eqb n n' && name_eqb e e') eqn:E.
  - apply andb_true_iff in E. destruct E as (E1 & E2). apply name_eqb_eq in E1, E2. subst.
    intros X. injection X as ->. left. reflexivity.
  - intros X. right. apply IH. exact X.
Qed.
Lemma find_source_in T exts n e src : find_source T exts n = Some (e, src) -> In (n, e, src) T.
Proof.
  induction exts as [|x r IH]; cbn; [discriminate|].
  destruct (find_file T n x) eqn:E.
  - intros X. injection X as <- <-. apply find_file_in. exact E.
  - exact IH.
Qed.

Lemma from_accepted ps imps :
  action_accepted (AFrom ps imps) = true ->
  ps <> [] /\ Forall name_ok ps /\ Forall (fun i => name_ok (fst i)) imps.
Proof.
  cbn [action_accepted]. rewrite andb_true_iff, orb_true_iff. intros (Hps & Himps).
  assert (Hi : Forall (fun i => name_ok (fst i)) imps).
  { rewrite forallb_forall in Himps. apply Forall_forall. intros i Hin.
    apply plain_name_ok, lex_ident_plain. auto. }
  destruct Hps as [Hq|Hd].
  - destruct ps as [|p [|q r]]; try discriminate.
    split; [discriminate|]. split; [|exact Hi]. constructor; [apply valid_path_name_ok; exact Hq|constructor].
  - apply andb_true_iff in Hd. destruct Hd as (Hne & Hid).
    split; [destruct ps; [discriminate|discriminate]|]. split; [apply idents_name_ok; exact Hid|exact Hi].
Qed.

Section Reqs.
  Variable T : tree.
  Variable exts : list bstr.
  Hypothesis HT : tree_accepted T = true.

  Definition run_ok2 (run : ctx -> option env -> list action -> st -> outcome * option env * st) : Prop :=
    forall c loc acts s o loc' s',
      forallb action_accepted acts = true -> reqs_ok s -> run c loc acts s = (o, loc', s') -> reqs_ok s'.

  Lemma reqs_ok_same s s' : trace s' = trace s -> reqs_ok s -> reqs_ok s'.
  Proof. intros E H n r Hin. rewrite E in Hin. exact (H n r Hin). Qed.

  Lemma bind_trace c loc x v s loc' s' : bind c loc x v s = (loc', s') -> trace s' = trace s.
  Proof. unfold bind. destruct loc; intros E; injection E as <- <-; reflexivity. Qed.
  Lemma bind_all_trace c xs : forall loc vs s loc' s', bind_all c loc xs vs s = (loc', s') -> trace s' = trace s.
  Proof.
    induction xs as [|x xr IH]; intros loc vs s loc' s' E; cbn in E; [injection E as <- <-; reflexivity|].
    destruct vs as [|v vr]; [injection E as <- <-; reflexivity|].
    destruct (bind c loc x v s) as [l1 s1] eqn:Eb. rewrite (IH _ _ _ _ _ E). eapply bind_trace; eassumption.
  Qed.

  Lemma import_with_reqs run : run_ok2 run -> forall c n s r s',
    name_ok n -> reqs_ok s -> import_with run T exts c n s = (r, s') -> reqs_ok s'.
  Proof.
    intros Hrun c n s r s' Hn H E. unfold import_with in E.
    destruct (lookup n (cache s)) as [[id a]|].
    { injection E as <- <-. exact H. }
    destruct (mem n (c_inprog c)); [injection E as <- <-; exact H|].
    destruct (find_source T exts n) as [[e [|body]]|] eqn:Ef.
    - injection E as <- <-. intros m r0 [X|Hin]; [injection X as <- <-; exact Hn|exact (H m r0 Hin)].
    - assert (Hb : forallb action_accepted body = true).
      { apply find_source_in in Ef. unfold tree_accepted in HT. rewrite forallb_forall in HT.
        exact (HT _ Ef). }
      match type of E with context [note_compiled n ?x] => set (s1 := note_compiled n x) in * end.
      assert (H1 : reqs_ok s1).
      { intros m r0 [X|Hin]; [injection X as <- <-; exact Hn|exact (H m r0 Hin)]. }
      match type of E with context [match lookup n (loaded s1) with Some _ => s1 | None => load_fresh n s1 end] =>
        set (s2 := match lookup n (loaded s1) with Some _ => s1 | None => load_fresh n s1 end) in * end.
      assert (H2 : reqs_ok s2) by (unfold s2; destruct (lookup n (loaded s1)); exact H1).
      destruct (Nat.leb (pred max_frame) (c_depth c)); [injection E as <- <-; exact H2|].
      match type of E with context [run ?cc None body ?s3] => set (c' := cc) in *; set (s3' := s3) in * end.
      assert (H3 : reqs_ok s3').
      { intros m r0 [X|Hin]; [discriminate|exact (H2 m r0 Hin)]. }
      destruct (run c' None body s3') as [[o loc4] s4] eqn:Er.
      pose proof (Hrun c' None body s3' o loc4 s4 Hb H3 Er) as H4.
      destruct o; injection E as <- <-.
      + intros m r0 [X|Hin]; [discriminate|exact (H4 m r0 Hin)].
      + exact H4.
      + exact H4.
      + exact H4.
    - injection E as <- <-. intros m r0 [X|Hin]; [injection X as <- <-; exact Hn|exact (H m r0 Hin)].
  Qed.

  Lemma from_one_reqs run : run_ok2 run -> forall c ps nm s r s',
    ps <> [] -> Forall name_ok ps -> name_ok nm ->
    reqs_ok s -> from_one run T exts c ps nm s = (r, s') -> reqs_ok s'.
  Proof.
    intros Hrun c ps nm s r s' NE Hps Hnm H E. unfold from_one in E.
    destruct (import_with run T exts c (from_name ps nm) s) as [r1 s1] eqn:E1.
    pose proof (import_with_reqs run Hrun c _ s r1 s1 (from_name_ok ps nm NE Hps Hnm) H E1) as H1.
    destruct r1 as [id a|e| |]; try (injection E as <- <-; exact H1).
    destruct (import_with run T exts c (from_parent ps) s1) as [r2 s2] eqn:E2.
    pose proof (import_with_reqs run Hrun c _ s1 r2 s2 (from_parent_ok ps NE Hps) H1 E2) as H2.
    destruct r2 as [id a|e2| |]; try (injection E as <- <-; exact H2).
    destruct (walk (VMod id (from_parent ps) a) [nm] s2); injection E as <- <-; exact H2.
  Qed.

  Lemma from_all_reqs run : run_ok2 run -> forall c ps names s vs o s',
    ps <> [] -> Forall name_ok ps -> Forall name_ok names ->
    reqs_ok s -> from_all run T exts c ps names s = (vs, o, s') -> reqs_ok s'.
  Proof.
    intros Hrun c ps names. induction names as [|nm r IH]; intros s vs o s' NE Hps Hn H E; cbn [from_all] in E.
    - injection E as <- <- <-. exact H.
    - inversion Hn as [|? ? Hnm Hr]; subst.
      destruct (from_one run T exts c ps nm s) as [r1 s1] eqn:E1.
      pose proof (from_one_reqs run Hrun c ps nm s r1 s1 NE Hps Hnm H E1) as H1.
      destruct r1 as [[v|e]|o1]; try (injection E as <- <- <-; exact H1).
      destruct (from_all run T exts c ps r s1) as [[vs2 o2] s2] eqn:E2.
      pose proof (IH s1 vs2 o2 s2 NE Hps Hr H1 E2) as H2.
      destruct vs2; injection E as <- <- <-; exact H2.
  Qed.

  Lemma step_with_reqs run : run_ok2 run -> forall c loc a s o loc' s',
    action_accepted a = true -> reqs_ok s -> step_with run T exts c loc a s = (o, loc', s') -> reqs_ok s'.
  Proof.
    intros Hrun c loc a s o loc' s' Ha H E.
    destruct a as [path alias|ps imps|x v|dx|p x v|e| |body|k body]; cbn [step_with] in E.
    - destruct (import_with run T exts c path s) as [r1 s1] eqn:E1.
      pose proof (import_with_reqs run Hrun c _ s r1 s1 (valid_path_name_ok path Ha) H E1) as H1.
      destruct r1 as [id a|e| |]; try (injection E as <- <- <-; exact H1).
      destruct (bind c loc _ (VMod id path a) s1) as [loc2 s2] eqn:Eb.
      injection E as <- <- <-. eapply reqs_ok_same; [eapply bind_trace; eassumption|exact H1].
    - destruct (from_accepted ps imps Ha) as (NE & Hps & Hi).
      destruct (from_all run T exts c ps (rev (map fst imps)) s) as [[vs o1] s1] eqn:E1.
      assert (Hn : Forall name_ok (rev (map fst imps))).
      { apply Forall_rev. apply Forall_map. exact Hi. }
      pose proof (from_all_reqs run Hrun c ps _ s vs o1 s1 NE Hps Hn H E1) as H1.
      destruct vs as [vs|]; [|injection E as <- <- <-; exact H1].
      destruct (bind_all c loc (map (from_alias imps) (map fst imps)) (rev vs) s1) as [loc2 s2] eqn:Eb.
      injection E as <- <- <-. eapply reqs_ok_same; [eapply bind_all_trace; eassumption|exact H1].
    - injection E as <- <- <-. exact H.
    - injection E as <- <- <-. exact H.
    - destruct (eval_path c loc p s) as [[z|id n0 a|b| |]|e]; try (injection E as <- <- <-; exact H).
      destruct (lookup (setter x) (arr_env a s)) as [[| | | |]|]; injection E as <- <- <-; exact H.
    - destruct e as [p|p q].
      + destruct (eval_path c loc p s); injection E as <- <- <-; [|exact H].
        intros m r0 [X|Hin]; [discriminate|exact (H m r0 Hin)].
      + destruct (eval_path c loc p s); destruct (eval_path c loc q s); injection E as <- <- <-; try exact H.
        intros m r0 [X|Hin]; [discriminate|exact (H m r0 Hin)].
    - injection E as <- <- <-. exact H.
    - destruct (Nat.leb (pred max_frame) (c_depth c)); [injection E as <- <- <-; exact H|].
      match type of E with context [run ?cc (Some []) body s] => set (c' := cc) in * end.
      destruct (run c' (Some []) body s) as [[o1 loc1] s1] eqn:Er.
      pose proof (Hrun c' (Some []) body s o1 loc1 s1 Ha H Er) as H1.
      destruct o1; injection E as <- <- <-; exact H1.
    - destruct (Nat.eqb (c_run c) k); [|injection E as <- <- <-; exact H].
      destruct (run c loc body s) as [[o1 loc1] s1] eqn:Er.
      pose proof (Hrun c loc body s o1 loc1 s1 Ha H Er) as H1.
      injection E as <- <- <-. exact H1.
  Qed.

  Theorem exec_reqs fuel : run_ok2 (exec fuel T exts).
  Proof.
    induction fuel as [|f IH]; intros c loc acts s o loc' s' Ha H E; cbn [exec] in E.
    - injection E as <- <- <-. exact H.
    - destruct acts as [|a rest]; [injection E as <- <- <-; exact H|].
      cbn [forallb] in Ha. apply andb_true_iff in Ha. destruct Ha as (Ha & Hr).
      destruct (step_with (exec f T exts) T exts c loc a s) as [[o1 loc1] s1] eqn:Es.
      pose proof (step_with_reqs _ IH c loc a s o1 loc1 s1 Ha H Es) as H1.
      destruct o1; try (injection E as <- <- <-; exact H1).
      exact (IH c loc1 rest s1 o loc' s' Hr H1 E).
  Qed.

  Theorem run_main_reqs fuel main o s :
    forallb action_accepted main = true -> run_main fuel T exts main = (o, s) -> reqs_ok s.
  Proof.
    unfold run_main. destruct (exec fuel T exts main_ctx None main init) as [[o1 loc1] s1] eqn:E.
    intros Ha X. injection X as <- <-.
    apply (exec_reqs fuel main_ctx None main init o1 loc1 s1 Ha); [|exact E].
    intros n r [].
  Qed.
End Reqs.

(* ---------- in an acyclic module graph no import is ever rejected as a cycle ---------- *)

Definition noreent (s s' : st) : Prop :=
  forall n, get n (cycles s') = get n (cycles s).
Lemma noreent_refl s : noreent s s.
Proof. intros n. reflexivity. Qed.
Lemma noreent_trans a b c : noreent a b -> noreent b c -> noreent a c.
Proof. intros H1 H2 n. rewrite (H2 n). apply H1. Qed.
Lemma noreent_same s s' : cycles s' = cycles s -> noreent s s'.
Proof. intros E1 n. rewrite E1. reflexivity. Qed.

Ltac nr := first [apply noreent_refl | apply noreent_same; reflexivity].

Section Ranked.
  Variable T : tree.
  Variable exts : list bstr.
  Variable rank : name -> nat.
  Hypothesis HT : tree_ranked rank T = true.

  Definition below (c : ctx) (names : list name) : Prop :=
    forall n, In n names -> forall m, In m (c_inprog c) -> rank n < rank m.

  Definition run_ok3 (run : ctx -> option env -> list action -> st -> outcome * option env * st) : Prop :=
    forall c loc acts s o loc' s', below c (requests acts) -> run c loc acts s = (o, loc', s') -> noreent s s'.

  Lemma bind_noreent c loc x v s loc' s' : bind c loc x v s = (loc', s') -> noreent s s'.
  Proof. unfold bind. destruct loc; intros E; injection E as <- <-; apply noreent_same; reflexivity. Qed.
  Lemma bind_all_noreent c xs : forall loc vs s loc' s', bind_all c loc xs vs s = (loc', s') -> noreent s s'.
  Proof.
    induction xs as [|x xr IH]; intros loc vs s loc' s' E; cbn in E; [injection E as <- <-; nr|].
    destruct vs as [|v vr]; [injection E as <- <-; nr|].
    destruct (bind c loc x v s) as [l1 s1] eqn:Eb.
    eapply noreent_trans; [eapply bind_noreent; eassumption|eapply IH; eassumption].
  Qed.

  Lemma import_with_noreent run : run_ok3 run -> forall c n s r s',
    (forall m, In m (c_inprog c) -> rank n < rank m) ->
    import_with run T exts c n s = (r, s') -> noreent s s'.
  Proof.
    intros Hrun c n s r s' Hn E. unfold import_with in E.
    destruct (lookup n (cache s)) as [[id a]|].
    { injection E as <- <-. nr. }
    assert (Hre : mem n (c_inprog c) = false).
    { apply mem_false. intros Hin. specialize (Hn n Hin). lia. }
    rewrite Hre in E.
    destruct (find_source T exts n) as [[e [|body]]|] eqn:Ef.
    - injection E as <- <-. nr.
    - assert (Hb : ranked_below rank (rank n) body = true).
      { apply find_source_in in Ef. unfold tree_ranked in HT. rewrite forallb_forall in HT.
        exact (HT _ Ef). }
      match type of E with context [note_compiled n ?x] => set (s1 := note_compiled n x) in * end.
      match type of E with context [match lookup n (loaded s1) with Some _ => s1 | None => load_fresh n s1 end] =>
        set (s2 := match lookup n (loaded s1) with Some _ => s1 | None => load_fresh n s1 end) in * end.
      assert (N2 : noreent s s2) by (unfold s2; destruct (lookup n (loaded s1)); nr).
      destruct (Nat.leb (pred max_frame) (c_depth c)); [injection E as <- <-; exact N2|].
      match type of E with context [run ?cc None body ?s3] => set (c' := cc) in *; set (s3' := s3) in * end.
      assert (N3 : noreent s s3') by exact N2.
      assert (Hbelow : below c' (requests body)).
      { intros n' Hin m [<-|Hm].
        - unfold ranked_below in Hb. rewrite forallb_forall in Hb. apply Nat.ltb_lt. apply Hb. exact Hin.
        - unfold ranked_below in Hb. rewrite forallb_forall in Hb.
          pose proof (Hb n' Hin) as L. apply Nat.ltb_lt in L. specialize (Hn m Hm). lia. }
      destruct (run c' None body s3') as [[o loc4] s4] eqn:Er.
      pose proof (Hrun c' None body s3' o loc4 s4 Hbelow Er) as N4.
      destruct o; injection E as <- <-; (eapply noreent_trans; [exact N3|]); (eapply noreent_trans; [exact N4|]);
        nr.
    - injection E as <- <-. nr.
  Qed.

  Lemma from_one_noreent run : run_ok3 run -> forall c ps nm s r s',
    below c [from_name ps nm; from_parent ps] ->
    from_one run T exts c ps nm s = (r, s') -> noreent s s'.
  Proof.
    intros Hrun c ps nm s r s' Hb E. unfold from_one in E.
    destruct (import_with run T exts c (from_name ps nm) s) as [r1 s1] eqn:E1.
    assert (N1 : noreent s s1).
    { eapply import_with_noreent; [exact Hrun| |exact E1]. intros m Hm. apply (Hb (from_name ps nm)); [left; reflexivity|exact Hm]. }
    destruct r1 as [id a|e| |]; try (injection E as <- <-; exact N1).
    destruct (import_with run T exts c (from_parent ps) s1) as [r2 s2] eqn:E2.
    assert (N2 : noreent s1 s2).
    { eapply import_with_noreent; [exact Hrun| |exact E2]. intros m Hm. apply (Hb (from_parent ps)); [right; left; reflexivity|exact Hm]. }
    pose proof (noreent_trans _ _ _ N1 N2) as N.
    destruct r2 as [id a|e2| |]; try (injection E as <- <-; exact N).
    destruct (walk (VMod id (from_parent ps) a) [nm] s2); injection E as <- <-; exact N.
  Qed.

  Lemma from_all_noreent run : run_ok3 run -> forall c ps names s vs o s',
    below c (from_parent ps :: map (from_name ps) names) ->
    from_all run T exts c ps names s = (vs, o, s') -> noreent s s'.
  Proof.
    intros Hrun c ps names. induction names as [|nm r IH]; intros s vs o s' Hb E; cbn [from_all] in E.
    - injection E as <- <- <-. nr.
    - destruct (from_one run T exts c ps nm s) as [r1 s1] eqn:E1.
      assert (N1 : noreent s s1).
      { eapply from_one_noreent; [exact Hrun| |exact E1].
        intros n' [<-|[<-|[]]] m Hm; apply (Hb _); [right; left; reflexivity|exact Hm|left; reflexivity|exact Hm]. }
      destruct r1 as [[v|e]|o1]; try (injection E as <- <- <-; exact N1).
      destruct (from_all run T exts c ps r s1) as [[vs2 o2] s2] eqn:E2.
      assert (N2 : noreent s1 s2).
      { eapply IH; [|exact E2]. intros n' [<-|Hin] m Hm; apply (Hb _); [left; reflexivity|exact Hm|right; right; exact Hin|exact Hm]. }
      destruct vs2; injection E as <- <- <-; eapply noreent_trans; eassumption.
  Qed.

  Lemma step_with_noreent run : run_ok3 run -> forall c loc a s o loc' s',
    below c (action_requests a) -> step_with run T exts c loc a s = (o, loc', s') -> noreent s s'.
  Proof.
    intros Hrun c loc a s o loc' s' Hb E.
    destruct a as [path alias|ps imps|x v|dx|p x v|e| |body|k body]; cbn [step_with] in E.
    - destruct (import_with run T exts c path s) as [r1 s1] eqn:E1.
      assert (N1 : noreent s s1).
      { eapply import_with_noreent; [exact Hrun| |exact E1]. intros m Hm. apply (Hb path); [left; reflexivity|exact Hm]. }
      destruct r1 as [id a|e| |]; try (injection E as <- <- <-; exact N1).
      destruct (bind c loc _ (VMod id path a) s1) as [loc2 s2] eqn:Eb.
      injection E as <- <- <-. eapply noreent_trans; [exact N1|eapply bind_noreent; eassumption].
    - destruct (from_all run T exts c ps (rev (map fst imps)) s) as [[vs o1] s1] eqn:E1.
      assert (N1 : noreent s s1).
      { eapply from_all_noreent; [exact Hrun| |exact E1].
        intros n' Hin m Hm. apply (Hb n'); [|exact Hm]. cbn [action_requests].
        destruct Hin as [<-|Hin]; [left; reflexivity|right].
        rewrite <- map_rev in Hin. rewrite map_map in Hin. apply in_map_iff in Hin. destruct Hin as (i & <- & Hi).
        apply in_map_iff. exists i. split; [reflexivity|]. apply in_rev. exact Hi. }
      destruct vs as [vs|]; [|injection E as <- <- <-; exact N1].
      destruct (bind_all c loc (map (from_alias imps) (map fst imps)) (rev vs) s1) as [loc2 s2] eqn:Eb.
      injection E as <- <- <-. eapply noreent_trans; [exact N1|eapply bind_all_noreent; eassumption].
    - injection E as <- <- <-. nr.
    - injection E as <- <- <-. nr.
    - destruct (eval_path c loc p s) as [[z|id n0 a|b| |]|e]; try (injection E as <- <- <-; nr).
      destruct (lookup (setter x) (arr_env a s)) as [[| | | |]|]; injection E as <- <- <-; nr.
    - destruct e as [p|p q].
      + destruct (eval_path c loc p s); injection E as <- <- <-; nr.
      + destruct (eval_path c loc p s); destruct (eval_path c loc q s); injection E as <- <- <-; nr.
    - injection E as <- <- <-. nr.
    - destruct (Nat.leb (pred max_frame) (c_depth c)); [injection E as <- <- <-; nr|].
      match type of E with context [run ?cc (Some []) body s] => set (c' := cc) in * end.
      destruct (run c' (Some []) body s) as [[o1 loc1] s1] eqn:Er.
      assert (N1 : noreent s s1) by (eapply (Hrun c'); [exact Hb|exact Er]).
      destruct o1; injection E as <- <- <-; exact N1.
    - destruct (Nat.eqb (c_run c) k); [|injection E as <- <- <-; nr].
      destruct (run c loc body s) as [[o1 loc1] s1] eqn:Er.
      assert (N1 : noreent s s1) by (eapply (Hrun c); [exact Hb|exact Er]).
      injection E as <- <- <-. exact N1.
  Qed.

  Theorem exec_noreent fuel : run_ok3 (exec fuel T exts).
  Proof.
    induction fuel as [|f IH]; intros c loc acts s o loc' s' Hb E; cbn [exec] in E.
    - injection E as <- <- <-. nr.
    - destruct acts as [|a rest]; [injection E as <- <- <-; nr|].
      destruct (step_with (exec f T exts) T exts c loc a s) as [[o1 loc1] s1] eqn:Es.
      assert (N1 : noreent s s1).
      { eapply step_with_noreent; [exact IH| |exact Es].
        intros n' Hin m Hm. apply (Hb n'); [|exact Hm]. unfold requests. cbn [flat_map]. apply in_or_app. left. exact Hin. }
      destruct o1; try (injection E as <- <- <-; exact N1).
      eapply noreent_trans; [exact N1|]. eapply IH; [|exact E].
      intros n' Hin m Hm. apply (Hb n'); [|exact Hm]. unfold requests. cbn [flat_map]. apply in_or_app. right. exact Hin.
  Qed.

  Theorem run_main_noreent fuel main o s :
    run_main fuel T exts main = (o, s) -> forall n, get n (cycles s) = 0.
  Proof.
    unfold run_main. destruct (exec fuel T exts main_ctx None main init) as [[o1 loc1] s1] eqn:E.
    intros X. injection X as <- <-. intros n.
    assert (Hb : below main_ctx (requests main)) by (intros n' _ m []).
    exact (exec_noreent fuel main_ctx None main init o1 loc1 s1 Hb E n).
  Qed.
End Ranked.

(* ---------- every code object writes its own globals array ---------- *)

Definition ctx_wf (c : ctx) (s : st) : Prop :=
  match c_self c with None => c_arr c = 0 | Some m => lookup m (loaded s) = Some (c_arr c) end.
Definition wlog_ok (s : st) : Prop :=
  forall a who, In (a, who) (wlog s) ->
                match who with None => a = 0 | Some m => lookup m (loaded s) = Some a end.

Lemma ctx_wf_ext c s s' : ext s s' -> ctx_wf c s -> ctx_wf c s'.
Proof. unfold ctx_wf. intros X. destruct (c_self c); [apply X|auto]. Qed.
Lemma wlog_ok_ext s s' : wlog s' = wlog s -> ext s s' -> wlog_ok s -> wlog_ok s'.
Proof.
  intros E X H a who Hin. rewrite E in Hin. specialize (H a who Hin). destruct who; [apply X; exact H|exact H].
Qed.

Section Writes.
  Variable T : tree.
  Variable exts : list bstr.

  Definition run_ok4 (run : ctx -> option env -> list action -> st -> outcome * option env * st) : Prop :=
    forall c loc acts s o loc' s',
      Inv (c_inprog c) s -> ctx_wf c s -> wlog_ok s -> run c loc acts s = (o, loc', s') -> wlog_ok s'.

  Lemma bind_wlog c loc x v s loc' s' : bind c loc x v s = (loc', s') -> wlog_ok s -> wlog_ok s'.
  Proof. unfold bind. destruct loc; intros E; injection E as <- <-; auto. Qed.
  Lemma bind_all_wlog c xs : forall loc vs s loc' s', bind_all c loc xs vs s = (loc', s') -> wlog_ok s -> wlog_ok s'.
  Proof.
    induction xs as [|x xr IH]; intros loc vs s loc' s' E; cbn in E; [injection E as <- <-; auto|].
    destruct vs as [|v vr]; [injection E as <- <-; auto|].
    destruct (bind c loc x v s) as [l1 s1] eqn:Eb. intros H.
    eapply IH; [exact E|]. eapply bind_wlog; eassumption.
  Qed.

  Lemma import_with_wlog run : run_ok run -> run_ok4 run -> forall c n s r s',
    Inv (c_inprog c) s -> wlog_ok s -> import_with run T exts c n s = (r, s') -> wlog_ok s'.
  Proof.
    intros Hrun Hrun4 c n s r s' H W E. unfold import_with in E.
    destruct (lookup n (cache s)) as [[id a]|] eqn:Ec.
    { injection E as <- <-. exact W. }
    destruct (mem n (c_inprog c)); [injection E as <- <-; exact W|].
    destruct (find_source T exts n) as [[e [|body]]|].
    2:{ set (s1 := note_compiled n (log (EvReq n (RFound e (negb (mem n (compiled s))))) s)) in *.
      assert (H1 : Inv (c_inprog c) s1) by (apply note_compiled_inv, log_req_inv; exact H).
      assert (W1 : wlog_ok s1) by exact W.
      assert (C1 : lookup n (cache s1) = None) by exact Ec.
      set (s2 := match lookup n (loaded s1) with Some _ => s1 | None => load_fresh n s1 end) in *.
      assert (H2 : Inv (c_inprog c) s2 /\ wlog_ok s2 /\ lookup n (cache s2) = None /\
                   exists arr, lookup n (loaded s2) = Some arr).
      { unfold s2. destruct (lookup n (loaded s1)) as [a0|] eqn:El.
        - split; [exact H1|]. split; [exact W1|]. split; [exact C1|]. exists a0. exact El.
        - destruct (load_fresh_inv _ n s1 H1 El) as (Ha & Hb & Hc).
          split; [exact Ha|]. split; [exact (wlog_ok_ext s1 (load_fresh n s1) eq_refl Hc W1)|].
          split; [exact C1|]. eexists. exact Hb. }
      destruct H2 as (H2 & W2 & C2 & arr & L2). rewrite L2 in E.
      destruct (Nat.leb (pred max_frame) (c_depth c)); [injection E as <- <-; exact W2|].
      set (d := S (length (c_inprog c))) in *.
      set (s3 := begin_run n d s2) in *.
      assert (H3 : Inv (n :: c_inprog c) s3) by (apply begin_run_inv; assumption).
      match type of E with context [run ?cc None body s3] => set (c' := cc) in * end.
      assert (F3 : ctx_wf c' s3) by exact L2.
      assert (W3 : wlog_ok s3) by exact W2.
      destruct (run c' None body s3) as [[o loc4] s4] eqn:Er.
      pose proof (Hrun4 c' None body s3 o loc4 s4 H3 F3 W3 Er) as W4.
      destruct o; injection E as <- <-; exact W4. }
    - injection E as <- <-. exact W.
    - injection E as <- <-. exact W.
  Qed.

  Lemma from_one_wlog run : run_ok run -> run_ok4 run -> forall c ps nm s r s',
    Inv (c_inprog c) s -> wlog_ok s -> from_one run T exts c ps nm s = (r, s') -> wlog_ok s'.
  Proof.
    intros Hrun Hrun4 c ps nm s r s' H W E. unfold from_one in E.
    destruct (import_with run T exts c (from_name ps nm) s) as [r1 s1] eqn:E1.
    destruct (import_with_ok T exts run Hrun c _ s r1 s1 H E1) as (H1 & X1).
    pose proof (import_with_wlog run Hrun Hrun4 c _ s r1 s1 H W E1) as W1.
    destruct r1 as [id a|e| |]; try (injection E as <- <-; exact W1).
    destruct (import_with run T exts c (from_parent ps) s1) as [r2 s2] eqn:E2.
    pose proof (import_with_wlog run Hrun Hrun4 c _ s1 r2 s2 H1 W1 E2) as W2.
    destruct r2 as [id a|e2| |]; try (injection E as <- <-; exact W2).
    destruct (walk (VMod id (from_parent ps) a) [nm] s2); injection E as <- <-; exact W2.
  Qed.

  Lemma from_all_wlog run : run_ok run -> run_ok4 run -> forall c ps names s vs o s',
    Inv (c_inprog c) s -> wlog_ok s -> from_all run T exts c ps names s = (vs, o, s') -> wlog_ok s'.
  Proof.
    intros Hrun Hrun4 c ps names. induction names as [|nm r IH]; intros s vs o s' H W E; cbn [from_all] in E.
    - injection E as <- <- <-. exact W.
    - destruct (from_one run T exts c ps nm s) as [r1 s1] eqn:E1.
      destruct (from_one_ok T exts run Hrun c ps nm s r1 s1 H E1) as (H1 & X1).
      pose proof (from_one_wlog run Hrun Hrun4 c ps nm s r1 s1 H W E1) as W1.
      destruct r1 as [[v|e]|o1]; try (injection E as <- <- <-; exact W1).
      destruct (from_all run T exts c ps r s1) as [[vs2 o2] s2] eqn:E2.
      pose proof (IH s1 vs2 o2 s2 H1 W1 E2) as W2.
      destruct vs2; injection E as <- <- <-; exact W2.
  Qed.

  Lemma step_with_wlog run : run_ok run -> run_ok4 run -> forall c loc a s o loc' s',
    Inv (c_inprog c) s -> ctx_wf c s -> wlog_ok s -> step_with run T exts c loc a s = (o, loc', s') -> wlog_ok s'.
  Proof.
    intros Hrun Hrun4 c loc a s o loc' s' H F W E.
    destruct a as [path alias|ps imps|x v|dx|p x v|e| |body|k body]; cbn [step_with] in E.
    - destruct (import_with run T exts c path s) as [r1 s1] eqn:E1.
      pose proof (import_with_wlog run Hrun Hrun4 c _ s r1 s1 H W E1) as W1.
      destruct r1 as [id a|e| |]; try (injection E as <- <- <-; exact W1).
      destruct (bind c loc _ (VMod id path a) s1) as [loc2 s2] eqn:Eb.
      injection E as <- <- <-. eapply bind_wlog; eassumption.
    - destruct (from_all run T exts c ps (rev (map fst imps)) s) as [[vs o1] s1] eqn:E1.
      pose proof (from_all_wlog run Hrun Hrun4 c ps _ s vs o1 s1 H W E1) as W1.
      destruct vs as [vs|]; [|injection E as <- <- <-; exact W1].
      destruct (bind_all c loc (map (from_alias imps) (map fst imps)) (rev vs) s1) as [loc2 s2] eqn:Eb.
      injection E as <- <- <-. eapply bind_all_wlog; eassumption.
    - (* x = v: the write goes to the executing code's own array *)
      injection E as <- <- <-. intros a who [X|Hin]; [|exact (W a who Hin)].
      injection X as <- <-. exact F.
    - injection E as <- <- <-. exact W.
    - destruct (eval_path c loc p s) as [[z|id n0 a|b| |]|e]; try (injection E as <- <- <-; exact W).
      destruct (lookup (setter x) (arr_env a s)) as [[| | | |]|]; injection E as <- <- <-; exact W.
    - destruct e as [p|p q].
      + destruct (eval_path c loc p s); injection E as <- <- <-; exact W.
      + destruct (eval_path c loc p s); destruct (eval_path c loc q s); injection E as <- <- <-; exact W.
    - injection E as <- <- <-. exact W.
    - destruct (Nat.leb (pred max_frame) (c_depth c)); [injection E as <- <- <-; exact W|].
      match type of E with context [run ?cc (Some []) body s] => set (c' := cc) in * end.
      destruct (run c' (Some []) body s) as [[o1 loc1] s1] eqn:Er.
      pose proof (Hrun4 c' (Some []) body s o1 loc1 s1 H F W Er) as W1.
      destruct o1; injection E as <- <- <-; exact W1.
    - destruct (Nat.eqb (c_run c) k); [|injection E as <- <- <-; exact W].
      destruct (run c loc body s) as [[o1 loc1] s1] eqn:Er.
      pose proof (Hrun4 c loc body s o1 loc1 s1 H F W Er) as W1.
      injection E as <- <- <-. exact W1.
  Qed.

  Theorem exec_wlog fuel : run_ok4 (exec fuel T exts).
  Proof.
    induction fuel as [|f IH]; intros c loc acts s o loc' s' H F W E; cbn [exec] in E.
    - injection E as <- <- <-. exact W.
    - destruct acts as [|a rest]; [injection E as <- <- <-; exact W|].
      destruct (step_with (exec f T exts) T exts c loc a s) as [[o1 loc1] s1] eqn:Es.
      destruct (step_with_ok T exts _ (exec_ok T exts f) c loc a s o1 loc1 s1 H Es) as (H1 & X1).
      pose proof (step_with_wlog _ (exec_ok T exts f) IH c loc a s o1 loc1 s1 H F W Es) as W1.
      destruct o1; try (injection E as <- <- <-; exact W1).
      exact (IH c loc1 rest s1 o loc' s' H1 (ctx_wf_ext c s s1 X1 F) W1 E).
  Qed.

  Theorem run_main_wlog fuel main o s : run_main fuel T exts main = (o, s) -> wlog_ok s.
  Proof.
    unfold run_main. destruct (exec fuel T exts main_ctx None main init) as [[o1 loc1] s1] eqn:E.
    intros X. injection X as <- <-.
    apply (exec_wlog fuel main_ctx None main init o1 loc1 s1 init_inv); [reflexivity| |exact E].
    intros a who [].
  Qed.
End Writes.

(* ---------- the statements used by props/C14.v ---------- *)

Theorem once_accounting fuel T exts main o s n : run_main fuel T exts main = (o, s) ->
  tr_starts n (trace s) = get n (dones s) + get n (fails s)
  /\ tr_dones n (trace s) = get n (dones s)
  /\ get n (dones s) <= 1.
Proof.
  intros E. destruct (run_main_inv T exts fuel main o s E) as [Hacct Honce _ _ _ _ _ _ _ _ Htrs Htrd].
  split; [|split].
  - rewrite <- Htrs, Hacct. unfold cnt. cbn. lia.
  - rewrite <- Htrd. reflexivity.
  - apply Honce.
Qed.

(* no hypothesis on the module graph: an import cycle is an error, so a body is never re-entered *)
Theorem once fuel T exts main o s n : run_main fuel T exts main = (o, s) ->
  tr_starts n (trace s) <= 1 + get n (fails s) /\ tr_dones n (trace s) <= 1
  /\ (get n (fails s) = 0 -> tr_starts n (trace s) <= 1).
Proof.
  intros E. destruct (once_accounting fuel T exts main o s n E) as (H1 & H2 & H3). lia.
Qed.

Theorem same_object fuel T exts main o s n id1 id2 : run_main fuel T exts main = (o, s) ->
  In (n, id1) (results s) -> In (n, id2) (results s) -> id1 = id2.
Proof.
  intros E H1 H2. destruct (run_main_inv T exts fuel main o s E) as [_ Honce _ _ _ Hres1 _ _ _ _ _ _].
  destruct (Hres1 n id1 H1 (Honce n)) as (a1 & E1). destruct (Hres1 n id2 H2 (Honce n)) as (a2 & E2). congruence.
Qed.

(* a successful importModule(n) returns the object that is cached under n *)
Lemma import_with_cached run T exts c n s id a s' :
  import_with run T exts c n s = (IOk id a, s') -> lookup n (cache s') = Some (id, a).
Proof.
  unfold import_with. destruct (lookup n (cache s)) as [[id0 a0]|] eqn:Ec.
  - intros E. injection E as <- <- <-. exact Ec.
  - destruct (mem n (c_inprog c)); [discriminate|].
    destruct (find_source T exts n) as [[e [|body]]|]; try discriminate.
    destruct (Nat.leb (pred max_frame) (c_depth c)); [discriminate|].
    match goal with |- context [run ?cc None body ?s3] => destruct (run cc None body s3) as [[o loc4] s4] end.
    destruct o; try discriminate. intros E. injection E as <- <- <-. cbn. rewrite name_eqb_refl. reflexivity.
Qed.

(* what a from-import binds for a name: the module parents/name as cached, or the attribute `name` of the cached
   parent module - nothing else *)
Theorem from_one_value run T exts c ps nm s v s' :
  from_one run T exts c ps nm s = (inl (ROk v), s') ->
  (exists id a, v = VMod id (from_name ps nm) a /\ lookup (from_name ps nm) (cache s') = Some (id, a))
  \/ (exists id a, lookup (from_parent ps) (cache s') = Some (id, a) /\
                   walk (VMod id (from_parent ps) a) [nm] s' = ROk v).
Proof.
  unfold from_one. destruct (import_with run T exts c (from_name ps nm) s) as [[id a|e| |] s1] eqn:E1; try discriminate.
  - intros E. injection E as <- <-. left. exists id, a. split; [reflexivity|]. eapply import_with_cached; exact E1.
  - destruct (import_with run T exts c (from_parent ps) s1) as [[id a|e2| |] s2] eqn:E2; try discriminate.
    destruct (walk (VMod id (from_parent ps) a) [nm] s2) as [v0|] eqn:Ew; try discriminate.
    intros E. injection E as <- <-. right. exists id, a. split; [eapply import_with_cached; exact E2|exact Ew].
Qed.

Theorem globals_distinct fuel T exts main o s : run_main fuel T exts main = (o, s) ->
  (forall n1 n2 a1 a2, lookup n1 (loaded s) = Some a1 -> lookup n2 (loaded s) = Some a2 -> n1 <> n2 -> a1 <> a2)
  /\ (forall n a, lookup n (loaded s) = Some a -> a <> 0)
  /\ (forall n id a, lookup n (cache s) = Some (id, a) -> lookup n (loaded s) = Some a).
Proof.
  intros E. destruct (run_main_inv T exts fuel main o s E) as [_ _ _ _ _ _ Hlinj Hlrange _ Hcarr _ _].
  split; [|split].
  - intros n1 n2 a1 a2 H1 H2 N Ea. subst a2. exact (N (Hlinj n1 n2 a1 H1 H2)).
  - intros n a H. apply Hlrange in H. lia.
  - exact Hcarr.
Qed.

(* every `x = v` is written to the array of the code that executed it: array 0 for the main program, the
   module's own loaded array (the one its module object exposes) for a module *)
Theorem writes_own_array fuel T exts main o s a who : run_main fuel T exts main = (o, s) ->
  In (a, who) (wlog s) ->
  match who with None => a = 0 | Some m => lookup m (loaded s) = Some a end.
Proof. intros E. exact (run_main_wlog T exts fuel main o s E a who). Qed.

(* ... hence a write by one code object never lands in the array of another *)
Corollary write_not_foreign fuel T exts main o s a who m b : run_main fuel T exts main = (o, s) ->
  In (a, who) (wlog s) -> lookup m (loaded s) = Some b -> who <> Some m -> a <> b.
Proof.
  intros E Hin Hm Hw. pose proof (writes_own_array fuel T exts main o s a who E Hin) as H.
  destruct (globals_distinct fuel T exts main o s E) as (D1 & D2 & _).
  destruct who as [m'|].
  - intros ->. assert (N : m' <> m) by congruence. exact (D1 m' m b b H Hm N eq_refl).
  - subst a. intros <-. exact (D2 m 0 Hm eq_refl).
Qed.
