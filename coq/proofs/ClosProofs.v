(* Closure simulation (Appendix A.8): source evaluation with environment-capturing closures is
   simulated by the target with cells passed down through every intermediate function (LoadCell),
   for capture at any depth and any call path. *)
From Coq Require Import List ZArith Arith Lia Bool.
Import ListNotations.
Require Import RV.model.Clos.

(* ---------- simulation ---------- *)
Inductive V : sval -> tval -> Prop :=
| VI z : V (VInt z) (TInt z)
| VC x b rho code frs cells :
    cb [(x, 0)] frs 1 b = Some code ->
    Forall2 (fun n l => lookup n rho = Some l) frs cells ->
    V (VClos x b rho) (TClos code cells).

Definition orel (o1 : option sval) (o2 : option tval) : Prop :=
  match o1, o2 with Some v, Some w => V v w | None, None => True | _, _ => False end.
Definition R (s : sstate) (t : tstate) : Prop := sna s = tna t /\ forall l, orel (sst s l) (thp t l).

Definition agree (rho : list (name * loc)) (sl : list (name * nat)) (fr : list name) (a : nat)
           (cells : list loc) : Prop :=
  (forall n i, lookup n sl = Some i -> lookup n rho = Some (a, i)) /\
  (forall n j, lookup n sl = None -> index_of n fr = Some j ->
               exists l, nth_error cells j = Some l /\ lookup n rho = Some l).

Lemma R_upd s t l v w : R s t -> V v w ->
  R {| sst := upd (sst s) l v; sna := sna s |} {| thp := upd (thp t) l w; tna := tna t |}.
Proof.
  intros [Hn Hh] Hv. split; [exact Hn|]. intros l'. cbn. unfold upd.
  destruct (loc_eqb l' l); [exact Hv | apply Hh].
Qed.

Lemma R_upd_call s t l v w : R s t -> V v w ->
  R {| sst := upd (sst s) l v; sna := S (sna s) |} {| thp := upd (thp t) l w; tna := S (tna t) |}.
Proof.
  intros [Hn Hh] Hv. split; [cbn; congruence|]. intros l'. cbn. unfold upd.
  destruct (loc_eqb l' l); [exact Hv | apply Hh].
Qed.

Lemma index_of_F2 {B} (P : name -> B -> Prop) frs (cells : list B) n j :
  Forall2 P frs cells -> index_of n frs = Some j -> exists l, nth_error cells j = Some l /\ P n l.
Proof.
  intros HF. revert j. induction HF as [|m l frs' cells' Hml HF IH]; intros j; cbn; [discriminate|].
  destruct (Nat.eqb_spec m n) as [->|Hne].
  - intros H; injection H as <-. exists l. auto.
  - destruct (index_of n frs') as [j'|]; cbn; [|discriminate].
    intros H; injection H as <-. cbn. apply IH. reflexivity.
Qed.

Lemma agree_call x a' rc frs cells :
  Forall2 (fun n l => lookup n rc = Some l) frs cells ->
  agree ((x, (a', 0)) :: rc) [(x, 0)] frs a' cells.
Proof.
  intros HF. split.
  - intros n i. cbn. destruct (Nat.eqb x n); [|discriminate]. intros H; injection H as <-. reflexivity.
  - intros n j. cbn. destruct (Nat.eqb x n); [discriminate|]. intros _ Hi.
    exact (index_of_F2 _ _ _ _ _ HF Hi).
Qed.

Lemma agree_decl rho sl fr a cells n k :
  agree rho sl fr a cells -> agree ((n, (a, k)) :: rho) ((n, k) :: sl) fr a cells.
Proof.
  intros [H1 H2]. split.
  - intros m i. cbn. destruct (Nat.eqb n m); [intros H; injection H as <-; reflexivity | apply H1].
  - intros m j. cbn. destruct (Nat.eqb n m); [discriminate | apply H2].
Qed.

Lemma TxCons a cs i c s1 s2 s3 : tx a cs [i] s1 s2 -> tx a cs c s2 s3 -> tx a cs (i :: c) s1 s3.
Proof. intros H1 H2. change (i :: c) with ([i] ++ c). eapply TxSeq; eauto. Qed.

(* pushing the cells of a new closure: each one denotes the location the source environment has *)
Lemma tx_cells rho sl fr a cs frs stk s :
  agree rho sl fr a cs ->
  Forall (fun n => resolvable sl fr n = true) frs ->
  exists ls, tx a cs (map (cellinstr sl fr) frs) (stk, s) (map TCell (rev ls) ++ stk, s) /\
             Forall2 (fun n l => lookup n rho = Some l) frs ls.
Proof.
  intros [H1 H2] HF. revert stk. induction HF as [|n frs Hn HF IH]; intros stk.
  - exists []. split; constructor.
  - assert (exists l, tx a cs [cellinstr sl fr n] (stk, s) (TCell l :: stk, s) /\ lookup n rho = Some l)
      as (l & Tl & Hl).
    { unfold cellinstr, resolvable in *. destruct (lookup n sl) as [i|] eqn:Es.
      - exists (a, i). split; [apply TxMakeCell | now apply H1].
      - destruct (index_of n fr) as [j|] eqn:Ei; [|discriminate].
        destruct (H2 _ _ Es Ei) as (l & Hnth & Hl). exists l. split; [now apply TxLoadCell | exact Hl]. }
    destruct (IH (TCell l :: stk)) as (ls & T & F2).
    exists (l :: ls). split; [|constructor; assumption].
    cbn [map]. eapply TxCons; [exact Tl|].
    cbn [rev]. rewrite map_app, <- app_assoc. exact T.
Qed.

Lemma F2_length {A B} (P : A -> B -> Prop) l1 l2 : Forall2 P l1 l2 -> length l1 = length l2.
Proof. induction 1; cbn; congruence. Qed.

Lemma filter_Forall {A} (p : A -> bool) l : Forall (fun x => p x = true) (filter p l).
Proof. induction l as [|x l IH]; cbn; [constructor|]. destruct (p x) eqn:E; [constructor; auto|auto]. Qed.

Definition sim_e_stmt (f : nat) : Prop :=
  forall rho s e v s', ee f rho s e = Some (v, s') ->
  forall sl fr a cells c t stk, ce sl fr e = Some c -> agree rho sl fr a cells -> R s t ->
  exists w t', tx a cells c (stk, t) (w :: stk, t') /\ V v w /\ R s' t'.
Definition sim_b_stmt (f : nat) : Prop :=
  forall rho a k s b v s', eb f rho a k s b = Some (v, s') ->
  forall sl fr cells c t stk, cb sl fr k b = Some c -> agree rho sl fr a cells -> R s t ->
  exists w t', tx a cells c (stk, t) (w :: stk, t') /\ V v w /\ R s' t'.

Lemma V_int_inv z w : V (VInt z) w -> w = TInt z.
Proof. inversion 1; reflexivity. Qed.

Theorem sim : forall f, sim_e_stmt f /\ sim_b_stmt f.
Proof.
  induction f as [|f [IHe IHb]]; [split; intros ? ? ?; intros; discriminate|].
  split.
  - (* expressions *)
    intros rho s e v s' He sl fr a cells c t stk Hc Hag HR.
    destruct e as [z|n|e1 e2|x b|g e2]; cbn in He, Hc.
    + injection He as <- <-. injection Hc as <-. exists (TInt z), t. repeat split; try apply HR; constructor.
    + destruct (lookup n rho) as [l|] eqn:El; [|discriminate].
      destruct (sst s l) as [v0|] eqn:Ev; [|discriminate]. injection He as <- <-.
      pose proof (proj2 HR l) as Hl. rewrite Ev in Hl. unfold orel in Hl.
      destruct (thp t l) as [w|] eqn:Ew; [|contradiction].
      exists w, t. split; [|split; [exact Hl|exact HR]].
      unfold load in Hc. destruct Hag as [H1 H2].
      destruct (lookup n sl) as [i|] eqn:Es.
      * injection Hc as <-. apply H1 in Es. rewrite Es in El. injection El as <-.
        now apply TxLoadFast.
      * destruct (index_of n fr) as [j|] eqn:Ei; [|discriminate]. injection Hc as <-.
        destruct (H2 _ _ Es Ei) as (l' & Hn & Hl'). rewrite Hl' in El. injection El as <-.
        eapply TxLoadFree; eauto.
    + destruct (ee f rho s e1) as [[[x|? ? ?] s1]|] eqn:E1; try discriminate.
      destruct (ee f rho s1 e2) as [[[y|? ? ?] s2]|] eqn:E2; try discriminate.
      injection He as <- <-.
      destruct (ce sl fr e1) as [c1|] eqn:C1; [|discriminate].
      destruct (ce sl fr e2) as [c2|] eqn:C2; [|discriminate]. injection Hc as <-.
      destruct (IHe _ _ _ _ _ E1 _ _ _ _ _ t stk C1 Hag HR) as (w1 & t1 & T1 & V1 & R1).
      apply V_int_inv in V1. subst w1.
      destruct (IHe _ _ _ _ _ E2 _ _ _ _ _ t1 (TInt x :: stk) C2 Hag R1) as (w2 & t2 & T2 & V2 & R2).
      apply V_int_inv in V2. subst w2.
      exists (TInt (wrap64 (x + y))), t2. split; [|split; [constructor|exact R2]].
      eapply TxSeq; [exact T1|]. eapply TxSeq; [exact T2|]. apply TxAdd.
    + injection He as <- <-.
      set (frs := filter (resolvable sl fr) (uses_b b)) in *.
      destruct (cb [(x, 0)] frs 1 b) as [code|] eqn:Cb; [|discriminate]. injection Hc as <-.
      destruct (tx_cells rho sl fr a cells frs stk t Hag (filter_Forall _ _)) as (ls & Tc & F2).
      exists (TClos code ls), t.
      split; [|split; [|exact HR]].
      * eapply TxSeq; [exact Tc|]. apply TxClosure. symmetry. exact (F2_length _ _ _ F2).
      * econstructor; [exact Cb|exact F2].
    + destruct (ee f rho s g) as [[[?|x b rc] s1]|] eqn:E1; try discriminate.
      destruct (ee f rho s1 e2) as [[v2 s2]|] eqn:E2; [|discriminate].
      destruct (ce sl fr g) as [c1|] eqn:C1; [|discriminate].
      destruct (ce sl fr e2) as [c2|] eqn:C2; [|discriminate]. injection Hc as <-.
      destruct (IHe _ _ _ _ _ E1 _ _ _ _ _ t stk C1 Hag HR) as (w1 & t1 & T1 & V1 & R1).
      inversion V1 as [|x0 b0 rho0 code frs cls Hcode HF]; subst.
      destruct (IHe _ _ _ _ _ E2 _ _ _ _ _ t1 (TClos code cls :: stk) C2 Hag R1) as (w2 & t2 & T2 & V2 & R2).
      pose proof (proj1 R2) as Hna.
      assert (HR' : R {| sst := upd (sst s2) (sna s2, 0) v2; sna := S (sna s2) |}
                      {| thp := upd (thp t2) (tna t2, 0) w2; tna := S (tna t2) |}).
      { split; [cbn; congruence|]. intros l'. cbn. unfold upd. rewrite Hna.
        destruct (loc_eqb l' (tna t2, 0)); [exact V2 | apply R2]. }
      destruct (IHb _ _ _ _ _ _ _ He _ _ _ _ _ (@nil tval) Hcode (agree_call x (sna s2) rc frs cls HF) HR')
        as (w & t' & T & Vw & Rw).
      exists w, t'. split; [|split; assumption].
      eapply TxSeq; [exact T1|]. eapply TxSeq; [exact T2|].
      apply TxCall. rewrite Hna in T. exact T.
  - (* bodies *)
    intros rho a k s b v s' He sl fr cells c t stk Hc Hag HR.
    destruct b as [e|n e b'|n e b']; cbn in He, Hc.
    + eapply IHe; eauto.
    + destruct (ee f rho s e) as [[v1 s1]|] eqn:E1; [|discriminate].
      destruct (ce sl fr e) as [c1|] eqn:C1; [|discriminate].
      destruct (cb ((n, k) :: sl) fr (S k) b') as [c2|] eqn:C2; [|discriminate]. injection Hc as <-.
      destruct (IHe _ _ _ _ _ E1 _ _ _ _ _ t stk C1 Hag HR) as (w1 & t1 & T1 & V1 & R1).
      destruct (IHb _ _ _ _ _ _ _ He _ _ _ _ _ stk C2 (agree_decl _ _ _ _ _ n k Hag) (R_upd _ _ (a, k) _ _ R1 V1))
        as (w & t' & T & Vw & Rw).
      exists w, t'. split; [|split; assumption].
      eapply TxSeq; [exact T1|]. eapply TxCons; [apply TxStoreFast|exact T].
    + destruct (ee f rho s e) as [[v1 s1]|] eqn:E1; [|discriminate].
      destruct (lookup n rho) as [l|] eqn:El; [|discriminate].
      destruct (ce sl fr e) as [c1|] eqn:C1; [|discriminate].
      destruct (store sl fr n) as [cs|] eqn:Cs; [|discriminate].
      destruct (cb sl fr k b') as [c2|] eqn:C2; [|discriminate]. injection Hc as <-.
      destruct (IHe _ _ _ _ _ E1 _ _ _ _ _ t stk C1 Hag HR) as (w1 & t1 & T1 & V1 & R1).
      destruct (IHb _ _ _ _ _ _ _ He _ _ _ _ _ stk C2 Hag (R_upd _ _ l _ _ R1 V1)) as (w & t' & T & Vw & Rw).
      exists w, t'. split; [|split; assumption].
      eapply TxSeq; [exact T1|]. eapply TxSeq; [|exact T].
      unfold store in Cs. destruct Hag as [H1 H2].
      destruct (lookup n sl) as [i|] eqn:Es.
      * injection Cs as <-. apply H1 in Es. rewrite Es in El. injection El as <-. apply TxStoreFast.
      * destruct (index_of n fr) as [j|] eqn:Ei; [|discriminate]. injection Cs as <-.
        destruct (H2 _ _ Es Ei) as (l' & Hn & Hl'). rewrite Hl' in El. injection El as <-.
        now apply TxStoreFree.
Qed.

(* whole programs: a body run as activation 0 with no cells *)
Theorem closures_lexical f b v s' c :
  eb f [] 0 0 s0 b = Some (v, s') -> cb [] [] 0 b = Some c ->
  exists w t', tx 0 [] c ([], t0) ([w], t') /\ V v w.
Proof.
  intros He Hc.
  destruct (proj2 (sim f) _ _ _ _ _ _ _ He [] [] [] c t0 [] Hc) as (w & t' & T & Vw & _).
  - split; intros n i; cbn; discriminate.
  - split; [reflexivity|]. intros l. exact I.
  - eauto.
Qed.
