(* Proofs about model/VmConc.v: every thread of an evaluation is governed by the evaluation's halt flag, and
   once the flag is set every thread stops within a bounded number of its own steps, under every schedule. *)
From Coq Require Import List Bool Arith Lia.
Require Import RV.model.VmConc.
Import ListNotations.

Ltac inv H := inversion H; subst; clear H.

(* ------------------------------------------------------------------ the invariant of reachable states *)
(* what holds after the watcher's step in the code as it is: context cancelled, flag set, every thread polls it *)
Definition halted (c : cstate) : Prop :=
  cancelled c = true /\ flag c = true /\ Forall (fun t => tshare t = true) (threads c).

Definition inv_ok (kf : ccfg) (c : cstate) : Prop :=
  (flag c = true -> cancelled c = true) /\
  (shares kf = true -> Forall (fun t => tshare t = true) (threads c)).

Lemma set_nth_Forall {A} (P : A -> Prop) n x l : Forall P l -> P x -> Forall P (set_nth n x l).
Proof.
  revert n. induction l as [|y l IH]; intros n F Px; [destruct n; cbn; auto|].
  inv F. destruct n; cbn; constructor; auto.
Qed.

Lemma set_nth_length {A} n (x : A) l : length (set_nth n x l) = length l.
Proof. revert n. induction l as [|y l IH]; intros [|n]; cbn; auto. Qed.

Ltac break_match :=
  repeat match goal with
         | |- context [match ?x with _ => _ end] => destruct x eqn:?
         | |- context [if ?x then _ else _] => destruct x eqn:?
         end.

Lemma step_share kf c t :
  tshare (o_thread (step_thread kf c t)) = tshare t /\
  (forall n, o_spawn (step_thread kf c t) = Some n -> tshare n = (if shares kf then tshare t else false)).
Proof.
  unfold step_thread, wake. break_match; cbn; (split; [reflexivity|]); intros nn X; try discriminate;
    inv X; cbn; try reflexivity; try congruence.
Qed.

Lemma act_inv kf a c : inv_ok kf c -> inv_ok kf (act kf a c).
Proof.
  intros [A B]. destruct a as [| |i]; cbn.
  - split; cbn; auto.
  - destruct (cancelled c) eqn:E; [split; cbn; auto|split; auto]. intros X. apply A in X. discriminate.
  - destruct (nth_error (threads c) i) as [t|] eqn:N; [|split; auto].
    destruct (enabled c t); [|split; auto].
    split; cbn; auto. intros S. specialize (B S).
    assert (Ht : tshare t = true).
    { rewrite Forall_forall in B. apply B. eapply nth_error_In; eauto. }
    destruct (step_share kf c t) as [S1 S2].
    apply Forall_app. split.
    + apply set_nth_Forall; auto. congruence.
    + destruct (o_spawn (step_thread kf c t)) as [n|] eqn:SP; constructor; auto.
      rewrite (S2 n eq_refl). rewrite S. auto.
Qed.

Lemma run_inv kf sched : forall c, inv_ok kf c -> inv_ok kf (run kf sched c).
Proof. induction sched as [|a r IH]; intros c I; cbn; auto. apply IH. apply act_inv; auto. Qed.

Lemma init_inv kf s : inv_ok kf (init s).
Proof. split; cbn; [discriminate|]. intros _. repeat constructor. Qed.

(* every script thread of every reachable state polls the run's flag, and the flag is set only after the
   context was cancelled *)
Theorem governed_reachable s sched :
  let c := run k_current sched (init s) in
  Forall (fun t => tshare t = true) (threads c) /\ (flag c = true -> cancelled c = true).
Proof.
  destruct (run_inv k_current sched (init s) (init_inv k_current s)) as [A B]. split; auto.
Qed.

(* ------------------------------------------------------------------ one step after the watcher's step *)
Lemma stack_weight_pos st : 1 <= stack_weight st.
Proof. induction st; cbn [stack_weight]; lia. Qed.

Lemma step_progress kf c t :
  cancelled c = true -> flag c = true -> tshare t = true -> tdone t = None ->
  let o := step_thread kf c t in
  steps_left (o_thread o) < steps_left t /\ o_tick o = false /\ o_spawn o = None /\ o_mark o = false /\
  enabled c t = true.
Proof.
  intros C F S D. cbn zeta.
  assert (P : polled c t = true) by (unfold polled; rewrite S, F; reflexivity).
  assert (EN : enabled c t = true).
  { unfold enabled, blocked_now. rewrite D. destruct (tmode t); auto. destruct (tcur t) as [[]|]; auto.
    rewrite C. cbn. rewrite andb_false_r. reflexivity. }
  pose proof (stack_weight_pos (tstack t)) as WP.
  unfold step_thread, wake. rewrite D.
  destruct (tmode t) as [|e] eqn:EM; [destruct (tcur t) as [s|] eqn:ECUR|]; break_match; subst;
    try (rewrite P in *; discriminate); try (rewrite C in *; discriminate);
    unfold steps_left;
    cbn [o_thread o_tick o_spawn o_mark upd unwind fin_piece pop_to finish push set_cur park
         tdone tmode tcur tstack tparked];
    rewrite ?D, ?EM, ?ECUR;
    repeat match goal with H : tstack t = _ |- _ => rewrite H in * end;
    repeat match goal with H : tparked t = _ |- _ => rewrite H in * end;
    cbn [stack_weight frame_weight] in *;
    repeat split; auto; try lia; try congruence;
    try (match goal with |- context [match ?b with _ => _ end] => destruct b end; lia).
Qed.

(* ------------------------------------------------------------------ halted states stay halted; measures never grow *)
Definition total (c : cstate) : nat := fold_right (fun t acc => steps_left t + acc) 0 (threads c).

Definition le_threads (l l' : list thread) : Prop :=
  Forall2 (fun t t' => steps_left t' <= steps_left t) l l'.

Lemma le_threads_refl l : le_threads l l.
Proof. induction l; constructor; auto. Qed.

Lemma le_threads_trans l1 l2 l3 : le_threads l1 l2 -> le_threads l2 l3 -> le_threads l1 l3.
Proof.
  intros A. revert l3. induction A; intros l3 B; inv B; constructor; auto. lia.
  apply IHA; auto.
Qed.

Lemma le_threads_set_nth l i t t' :
  nth_error l i = Some t -> steps_left t' <= steps_left t -> le_threads l (set_nth i t' l).
Proof.
  revert i. induction l as [|x l IH]; intros [|i] N L; cbn in *; try discriminate.
  - inv N. constructor; auto. apply le_threads_refl.
  - constructor; auto. apply IH; auto.
Qed.

Lemma le_threads_total l l' : le_threads l l' ->
  fold_right (fun t acc => steps_left t + acc) 0 l' <= fold_right (fun t acc => steps_left t + acc) 0 l.
Proof. induction 1; cbn; lia. Qed.

Lemma le_threads_nth l l' i t t' :
  le_threads l l' -> nth_error l i = Some t -> nth_error l' i = Some t' -> steps_left t' <= steps_left t.
Proof.
  intros A. revert i. induction A; intros [|i] N N'; cbn in *; try discriminate.
  - inv N. inv N'. auto. - eapply IHA; eauto.
Qed.

Lemma le_threads_strict l l' i t t' :
  le_threads l l' -> nth_error l i = Some t -> nth_error l' i = Some t' -> steps_left t' < steps_left t ->
  fold_right (fun t acc => steps_left t + acc) 0 l' < fold_right (fun t acc => steps_left t + acc) 0 l.
Proof.
  intros A. revert i. induction A; intros [|i] N N' L; cbn in *; try discriminate.
  - inv N. inv N'. pose proof (le_threads_total _ _ A). lia.
  - pose proof (IHA _ N N' L). lia.
Qed.

Lemma nth_error_set_nth {A} (l : list A) i x t : nth_error l i = Some t -> nth_error (set_nth i x l) i = Some x.
Proof. revert i. induction l as [|y l IH]; intros [|i] N; cbn in *; try discriminate; auto. Qed.

Lemma le_threads_length l l' : le_threads l l' -> length l = length l'.
Proof. induction 1; cbn; auto. Qed.

(* one action in a halted state *)
Lemma act_halted kf a c :
  halted c ->
  halted (act kf a c) /\ ticks (act kf a c) = ticks c /\ le_threads (threads c) (threads (act kf a c)) /\
  (forall i t, a = AStep i -> nth_error (threads c) i = Some t -> tdone t = None ->
     exists t', nth_error (threads (act kf a c)) i = Some t' /\ steps_left t' < steps_left t).
Proof.
  intros (C & F & G). destruct a as [| |i]; cbn.
  - repeat split; auto. apply le_threads_refl. intros; discriminate.
  - rewrite C. cbn. repeat split; auto. apply le_threads_refl. intros; discriminate.
  - destruct (nth_error (threads c) i) as [t|] eqn:N.
    2:{ repeat split; auto. apply le_threads_refl. intros j tt X Y. inv X. congruence. }
    assert (S : tshare t = true) by (rewrite Forall_forall in G; apply G; eapply nth_error_In; eauto).
    destruct (tdone t) eqn:D.
    + unfold enabled. rewrite D. repeat split; auto. apply le_threads_refl.
      intros j tt X Y Z. inv X. rewrite N in Y. inv Y. congruence.
    + destruct (step_progress kf c t C F S D) as (P1 & P2 & P3 & P4 & P5). rewrite P5, P2, P3, P4. cbn.
      rewrite app_nil_r. rewrite orb_false_r.
      repeat split; auto.
      * apply set_nth_Forall; auto. destruct (step_share kf c t) as [X _]. congruence.
      * apply le_threads_set_nth with (t := t); auto. lia.
      * intros j tt X Y Z. inv X. rewrite N in Y. inv Y.
        eexists. split; [eapply nth_error_set_nth; eauto|auto].
Qed.

(* ------------------------------------------------------------------ bounded response, every schedule *)
Fixpoint count_steps (i : nat) (sched : list action) : nat :=
  match sched with
  | [] => 0
  | AStep j :: r => (if Nat.eqb i j then 1 else 0) + count_steps i r
  | _ :: r => count_steps i r
  end.

Lemma steps_left_done t : steps_left t = 0 <-> tdone t <> None.
Proof.
  unfold steps_left. destruct (tdone t); [split; [discriminate|reflexivity]|].
  pose proof (stack_weight_pos (tstack t)).
  destruct (tmode t); [destruct (tcur t) as [[]|]; try destruct (tparked t)|]; split; try lia; congruence.
Qed.

(* after the watcher's step: whatever the schedule does, no tick is added, no thread appears, and thread i is
   finished as soon as it has been given steps_left of its own steps *)
Lemma bounded_response kf sched : forall c i t,
  halted c -> nth_error (threads c) i = Some t ->
  let c' := run kf sched c in
  halted c' /\ ticks c' = ticks c /\ length (threads c') = length (threads c) /\
  (steps_left t <= count_steps i sched ->
   exists t', nth_error (threads c') i = Some t' /\ tdone t' <> None).
Proof.
  induction sched as [|a r IH]; intros c i t Hc N; cbn [run].
  - cbn. split; [exact Hc|split; [reflexivity|split; [reflexivity|]]].
    intros L. exists t. split; auto. apply steps_left_done. lia.
  - destruct (act_halted kf a c Hc) as (H1 & H2 & H3 & H4).
    assert (exists t1, nth_error (threads (act kf a c)) i = Some t1) as [t1 N1].
    { assert (X : i < length (threads (act kf a c))).
      { rewrite <- (le_threads_length _ _ H3). apply nth_error_Some. congruence. }
      destruct (nth_error (threads (act kf a c)) i) eqn:E; eauto. apply nth_error_None in E. lia. }
    pose proof (le_threads_nth _ _ _ _ _ H3 N N1) as LE.
    destruct (IH (act kf a c) i t1 H1 N1) as (I1 & I2 & I3 & I4).
    split; [exact I1|split; [congruence|split]].
    + rewrite I3. symmetry. apply le_threads_length; auto.
    + intros L. apply I4.
      destruct a as [| |j]; cbn [count_steps] in L; try lia.
      destruct (Nat.eqb_spec i j) as [->|NE]; [|lia].
      destruct (tdone t) eqn:D.
      * assert (steps_left t = 0) by (apply steps_left_done; congruence). lia.
      * destruct (H4 j t eq_refl N D) as (t' & X1 & X2). rewrite N1 in X1. inv X1. lia.
Qed.

(* ------------------------------------------------------------------ fair infinite schedules: everything stops *)
Fixpoint prefix (f : nat -> action) (n : nat) : list action :=
  match n with 0 => [] | S k => prefix f k ++ [f k] end.

Lemma run_app kf a b c : run kf (a ++ b) c = run kf b (run kf a c).
Proof. revert c. induction a; intros c; cbn; auto. Qed.

(* every thread gets steps again and again, and so does the watcher goroutine *)
Definition fair (f : nat -> action) : Prop :=
  (forall i n, exists m, n <= m /\ f m = AStep i) /\ (forall n, exists m, n <= m /\ f m = AFire).

Lemma count_steps_app i a b : count_steps i (a ++ b) = count_steps i a + count_steps i b.
Proof. induction a as [|x a IH]; cbn; auto. destruct x; auto. rewrite IH. lia. Qed.

Lemma fair_many f i : (forall n, exists m, n <= m /\ f m = AStep i) ->
  forall k n, exists m, n <= m /\ k <= count_steps i (prefix f m) - count_steps i (prefix f n) /\
                  count_steps i (prefix f n) <= count_steps i (prefix f m).
Proof.
  intros F. induction k as [|k IH]; intros n.
  - exists n. repeat split; lia.
  - destruct (IH n) as (m & M1 & M2 & M3). destruct (F m) as (m' & M4 & M5).
    exists (S m').
    assert (Mono : forall a b, a <= b -> count_steps i (prefix f a) <= count_steps i (prefix f b)).
    { intros a b L. induction L; auto. cbn [prefix]. rewrite count_steps_app. lia. }
    pose proof (Mono m m' M4).
    cbn [prefix]. rewrite count_steps_app. rewrite M5. cbn. rewrite Nat.eqb_refl. repeat split; lia.
Qed.

Lemma prefix_split f n m : n <= m -> exists r, prefix f m = prefix f n ++ r.
Proof.
  intros L. induction L.
  - exists []. rewrite app_nil_r. reflexivity.
  - destruct IHL as (r & R1). exists (r ++ [f m]). cbn [prefix]. rewrite R1, app_assoc. reflexivity.
Qed.

Lemma all_done_spec c : all_done c = true <-> forall i t, nth_error (threads c) i = Some t -> tdone t <> None.
Proof.
  unfold all_done. rewrite forallb_forall. split.
  - intros A i t N. apply nth_error_In in N. specialize (A t N). destruct (tdone t); congruence.
  - intros A t I. apply In_nth_error in I. destruct I as [i N]. specialize (A i t N). destruct (tdone t); congruence.
Qed.

(* in a halted state a finished thread stays finished *)
Lemma done_stays kf sched : forall c i t,
  halted c -> nth_error (threads c) i = Some t -> tdone t <> None ->
  exists t', nth_error (threads (run kf sched c)) i = Some t' /\ tdone t' <> None.
Proof.
  intros c i t Hc N D. destruct (bounded_response kf sched c i t Hc N) as (_ & _ & _ & X).
  apply X. assert (steps_left t = 0) by (apply steps_left_done; auto). lia.
Qed.

Lemma thread_stops kf f c i t :
  halted c -> (forall n, exists m, n <= m /\ f m = AStep i) -> nth_error (threads c) i = Some t ->
  exists n, forall m, n <= m ->
    exists t', nth_error (threads (run kf (prefix f m) c)) i = Some t' /\ tdone t' <> None.
Proof.
  intros Hc F N.
  destruct (fair_many f i F (steps_left t) 0) as (n & _ & L & _). cbn in L.
  exists n. intros m M.
  destruct (prefix_split f n m M) as (r & R1). rewrite R1, run_app.
  destruct (bounded_response kf (prefix f n) c i t Hc N) as (H1 & _ & _ & X).
  destruct (X ltac:(lia)) as (t1 & N1 & D1).
  apply (done_stays kf r _ i t1 H1 N1 D1).
Qed.

Lemma threads_stop kf f c :
  halted c -> (forall i n, exists m, n <= m /\ f m = AStep i) ->
  forall k, k <= length (threads c) ->
  exists n, forall m, n <= m -> forall i, i < k ->
    exists t', nth_error (threads (run kf (prefix f m) c)) i = Some t' /\ tdone t' <> None.
Proof.
  intros Hc F. induction k as [|k IH]; intros K.
  - exists 0. intros m _ i L. lia.
  - destruct (IH ltac:(lia)) as (n1 & P1).
    destruct (nth_error (threads c) k) as [t|] eqn:N; [|apply nth_error_None in N; lia].
    destruct (thread_stops kf f c k t Hc (F k) N) as (n2 & P2).
    exists (Nat.max n1 n2). intros m M i L.
    destruct (Nat.eq_dec i k) as [->|NE]; [apply P2; lia|apply P1; lia].
Qed.

(* after the watcher's step, under every fair schedule: a point is reached from which on every thread of the
   evaluation is finished, and no tick is ever added *)
Theorem halted_all_stop kf f c :
  halted c -> fair f ->
  (exists n, forall m, n <= m -> all_done (run kf (prefix f m) c) = true) /\
  (forall m, ticks (run kf (prefix f m) c) = ticks c).
Proof.
  intros Hc [Fs _]. split.
  - destruct (threads_stop kf f c Hc Fs (length (threads c)) (le_n _)) as (n & P).
    exists n. intros m M. apply all_done_spec. intros i t N.
    destruct (nth_error (threads c) 0) as [t0|] eqn:N0.
    + destruct (bounded_response kf (prefix f m) c 0 t0 Hc N0) as (_ & _ & LEN & _).
      assert (L : i < length (threads c)) by (rewrite <- LEN; apply nth_error_Some; congruence).
      destruct (P m M i L) as (t' & X1 & X2). congruence.
    + (* no thread at all *)
      apply nth_error_None in N0. destruct (threads c) eqn:ET; [|cbn in N0; lia].
      assert (LEN : forall sched c0, threads c0 = [] -> halted c0 -> threads (run kf sched c0) = []).
      { clear. induction sched as [|a r IH]; intros c0 E Hc0; cbn; auto.
        destruct (act_halted kf a c0 Hc0) as (H1 & _ & H3 & _). apply IH; auto.
        rewrite E in H3. inv H3. reflexivity. }
      rewrite (LEN (prefix f m) c ET Hc) in N. destruct i; discriminate.
  - intros m. destruct (threads c) as [|t0 r] eqn:ET.
    + clear Fs. revert c Hc ET. induction (prefix f m) as [|a l IH]; intros c Hc ET; cbn; auto.
      destruct (act_halted kf a c Hc) as (H1 & H2 & H3 & _). rewrite IH; auto.
      rewrite ET in H3. inv H3. reflexivity.
    + destruct (bounded_response kf (prefix f m) c 0 t0 Hc ltac:(rewrite ET; reflexivity)) as (_ & T & _). exact T.
Qed.

Lemma cancelled_stays kf l : forall c, cancelled c = true -> cancelled (run kf l c) = true.
Proof.
  induction l as [|a l IH]; intros c C; cbn; auto.
  apply IH. destruct a as [| |i]; cbn; auto. rewrite C. reflexivity.
  destruct (nth_error (threads c) i); auto. destruct (enabled c t); auto.
Qed.

(* from cancellation to quiescence: once the context is cancelled in a reachable state, a fair schedule lets
   the watcher run, after which the theorem above applies *)
Theorem cancelled_all_stop s sched f :
  let c := run k_current sched (init s) in
  cancelled c = true -> fair f ->
  exists n0, (exists n, forall m, n <= m -> all_done (run k_current (prefix f (n0 + m)) c) = true) /\
             (forall m, ticks (run k_current (prefix f (n0 + m)) c) = ticks (run k_current (prefix f n0) c)).
Proof.
  intros c C F. pose proof F as [Fs Ff].
  destruct (Ff 0) as (k & _ & K).
  exists (S k).
  set (c1 := run k_current (prefix f (S k)) c).
  assert (I1 : inv_ok k_current c1).
  { unfold c1, c. rewrite <- run_app. apply run_inv. apply init_inv. }
  assert (C1 : cancelled c1 = true /\ flag c1 = true).
  { unfold c1. cbn [prefix]. rewrite run_app. rewrite K. cbn [run].
    assert (X : cancelled (run k_current (prefix f k) c) = true) by (apply cancelled_stays; auto).
    cbn. rewrite X. cbn. auto. }
  assert (H1 : halted c1) by (destruct C1, I1 as [_ G]; repeat split; auto).
  set (g := fun n => f (S k + n)).
  assert (Fg : fair g).
  { split.
    - intros i n. destruct (Fs i (S k + n)) as (m & M1 & M2). exists (m - S k). split; [lia|].
      unfold g. replace (S k + (m - S k)) with m by lia. auto.
    - intros n. destruct (Ff (S k + n)) as (m & M1 & M2). exists (m - S k). split; [lia|].
      unfold g. replace (S k + (m - S k)) with m by lia. auto. }
  assert (PG : forall m, prefix f (S k + m) = prefix f (S k) ++ prefix g m).
  { induction m as [|m IH]; [rewrite Nat.add_0_r, app_nil_r; reflexivity|].
    rewrite Nat.add_succ_r. cbn [prefix]. rewrite IH, app_assoc. reflexivity. }
  destruct (halted_all_stop k_current g c1 H1 Fg) as ((n & A) & B).
  split.
  - exists n. intros m M. rewrite PG, run_app. apply A; auto.
  - intros m. rewrite PG, run_app. rewrite B. reflexivity.
Qed.

(* ------------------------------------------------------------------ which error the evaluation returns *)
(* programs without the constructs that replace the context's error by a copy of its text *)
Fixpoint idclean (s : shape) : bool :=
  match s with
  | Block BWait => false
  | Callback cb _ b => (match cb with CbTry => true | _ => false end) && idclean b
  | Seq a b => idclean a && idclean b
  | Forever b | Spawn b | Deep _ b => idclean b
  | _ => true
  end.
Definition err_ctx (e : ecls) : bool := match e with ECtx => true | _ => false end.
Definition frame_clean (f : frame) : bool :=
  match f with
  | FSeq r => idclean r
  | FLoop b => idclean b
  | FCall => true
  | FCb cb _ b e => (match cb with CbTry => true | _ => false end) && idclean b &&
                    match e with None => true | Some x => err_ctx x end
  end.
Definition thread_clean (t : thread) : bool :=
  match tcur t with Some s => idclean s | None => true end &&
  forallb frame_clean (tstack t) &&
  match tmode t with Unwind e => err_ctx e | Normal => true end &&
  match tdone t with Some (TErr e) => err_ctx e | _ => true end.

Lemma step_clean kf c t :
  (flag c = true -> cancelled c = true) -> thread_clean t = true ->
  thread_clean (o_thread (step_thread kf c t)) = true /\
  (forall n, o_spawn (step_thread kf c t) = Some n -> thread_clean n = true).
Proof.
  intros FC CL. unfold thread_clean in CL.
  repeat (apply andb_true_iff in CL; destruct CL as [CL ?]).
  assert (HE : polled c t = true -> halt_err c = ECtx).
  { unfold polled, halt_err. intros X. apply andb_true_iff in X. destruct X as [_ X]. rewrite (FC X). reflexivity. }
  unfold step_thread, wake. break_match; subst; unfold thread_clean;
    cbn [o_thread o_spawn upd unwind fin_piece pop_to finish push set_cur park
         tdone tmode tcur tstack tparked forallb frame_clean idclean err_ctx] in *;
    try (rewrite HE by auto); cbn [err_ctx];
    repeat match goal with
           | H : _ && _ = true |- _ => apply andb_true_iff in H; destruct H
           | H : tstack t = _ |- _ => rewrite H in *; cbn [forallb frame_clean] in *
           end;
    try discriminate;
    (split; [|intros nn X; try discriminate; inv X; cbn; rewrite ?andb_true_r; auto]);
    repeat (apply andb_true_iff; split); auto; try reflexivity; try congruence;
    try (repeat match goal with H : ?x = _ |- context [?x] => rewrite H end; auto; fail);
    try (cbn in *; congruence);
    try (match goal with e : ecls |- _ => destruct e; cbn in *; congruence end);
    try (match goal with k : cbk |- _ => destruct k; cbn in *; congruence end).
Qed.

Definition state_clean (c : cstate) : Prop :=
  (flag c = true -> cancelled c = true) /\ forallb thread_clean (threads c) = true.

Lemma forallb_set_nth {A} (p : A -> bool) n x l : forallb p l = true -> p x = true -> forallb p (set_nth n x l) = true.
Proof.
  revert n. induction l as [|y l IH]; intros n F Px; [destruct n; cbn; auto|].
  cbn in F. apply andb_true_iff in F. destruct F. destruct n; cbn; apply andb_true_iff; auto.
Qed.

Lemma act_clean kf a c : state_clean c -> state_clean (act kf a c).
Proof.
  intros [A B]. destruct a as [| |i]; cbn.
  - split; cbn; auto.
  - destruct (cancelled c) eqn:E; [split; cbn; auto|split; auto]. intros X. apply A in X. discriminate.
  - destruct (nth_error (threads c) i) as [t|] eqn:N; [|split; auto].
    destruct (enabled c t); [|split; auto].
    split; cbn; auto.
    assert (Ht : thread_clean t = true).
    { rewrite forallb_forall in B. apply B. eapply nth_error_In; eauto. }
    destruct (step_clean kf c t A Ht) as [S1 S2].
    rewrite forallb_app. apply andb_true_iff. split.
    + apply forallb_set_nth; auto.
    + destruct (o_spawn (step_thread kf c t)) as [n|] eqn:SP; cbn; auto. rewrite (S2 n eq_refl). reflexivity.
Qed.

(* a program without wait and without stringifying callback builtins: in every reachable state, under every
   schedule, every error a thread is unwinding with or has ended with is the context's own error *)
Theorem clean_error_identity kf s sched :
  idclean s = true ->
  let c := run kf sched (init s) in
  forall t, In t (threads c) ->
    (forall e, tmode t = Unwind e -> e = ECtx) /\ (forall e, tdone t = Some (TErr e) -> e = ECtx).
Proof.
  intros CL c.
  assert (SC : state_clean c).
  { assert (S0 : state_clean (init s)).
    { split; cbn; [discriminate|]. unfold thread_clean. cbn. rewrite CL. reflexivity. }
    unfold c. revert S0. generalize (init s).
    induction sched as [|a r IH]; intros c0 S0; cbn; auto. apply IH. apply act_clean; auto. }
  destruct SC as [_ B]. intros t I. rewrite forallb_forall in B. specialize (B t I).
  unfold thread_clean in B. repeat (apply andb_true_iff in B; destruct B as [B ?]).
  split; intros e X; rewrite X in *; destruct e; cbn in *; congruence.
Qed.

(* ------------------------------------------------------------------ regression: clones with a flag of their own *)
(* go func() { for { tick() } }() ; for { } *)
Definition prog_spawn_loop : shape := Seq (Spawn (Forever Tick)) (Forever Skip).
(* main: Seq, Spawn ; clone: enters its loop ; cancel ; watcher ; main: polls the flag, unwinds, returns *)
Definition sched_spawn_loop : list action :=
  [AStep 0; AStep 0; AStep 1; AStep 1; ACancel; AFire; AStep 0; AStep 0; AStep 0; AStep 0].

Definition cyc (k : nat) : cstate :=
  mkC true true false k
      [mkT true None [] (Unwind ECtx) (Some (TErr ECtx)) false;
       mkT false None [FLoop Tick; FCall] Normal None false].

Lemma spawn_loop_reaches : exists k, run k_noclone sched_spawn_loop (init prog_spawn_loop) = cyc k.
Proof. eexists. vm_compute. reflexivity. Qed.

Lemma cyc_step k : run k_noclone [AStep 1; AStep 1] (cyc k) = cyc (S k).
Proof. reflexivity. Qed.

Lemma cyc_forever n : forall k, run k_noclone (concat (repeat [AStep 1; AStep 1] n)) (cyc k) = cyc (n + k).
Proof.
  induction n as [|n IH]; intros k; [reflexivity|].
  cbn [repeat concat]. rewrite run_app, cyc_step, IH. f_equal. lia.
Qed.

(* before b731f6b: the evaluation has returned the context's error, the flag is set, and the clone's loop goes on
   ticking for ever *)
Theorem noclone_spawned_loop_survives :
  exists s sched, let c := run k_noclone sched (init s) in
    cancelled c = true /\ flag c = true /\ main_result c = Some (TErr ECtx) /\
    forall n, let c' := run k_noclone (concat (repeat [AStep 1; AStep 1] n)) c in
              ticks c' = n + ticks c /\ all_done c' = false.
Proof.
  exists prog_spawn_loop, sched_spawn_loop. cbn zeta.
  destruct spawn_loop_reaches as [k E]. rewrite E.
  repeat split; try reflexivity. rewrite cyc_forever. reflexivity. rewrite cyc_forever. reflexivity.
Qed.

(* the same program and schedule on the code as it is: the clone stops *)
Lemma spawn_loop_now_stops :
  all_done (run k_current (sched_spawn_loop ++ [AStep 1; AStep 1; AStep 1; AStep 1]) (init prog_spawn_loop)) = true.
Proof. vm_compute. reflexivity. Qed.

(* ------------------------------------------------------------------ the repaired builtins: every error is the context's *)
Definition frame_errs (f : frame) : bool :=
  match f with FCb _ _ _ (Some x) => err_ctx x | _ => true end.
Definition thread_errs (t : thread) : bool :=
  forallb frame_errs (tstack t) &&
  match tmode t with Unwind e => err_ctx e | Normal => true end &&
  match tdone t with Some (TErr e) => err_ctx e | _ => true end.

Lemma step_errs kf c t :
  keeps_err kf = true -> (flag c = true -> cancelled c = true) -> thread_errs t = true ->
  thread_errs (o_thread (step_thread kf c t)) = true /\
  (forall n, o_spawn (step_thread kf c t) = Some n -> thread_errs n = true).
Proof.
  intros KE FC CL. unfold thread_errs in CL.
  repeat (apply andb_true_iff in CL; destruct CL as [CL ?]).
  assert (HE : polled c t = true -> halt_err c = ECtx).
  { unfold polled, halt_err. intros X. apply andb_true_iff in X. destruct X as [_ X]. rewrite (FC X). reflexivity. }
  unfold step_thread, wake, stringify. rewrite KE. break_match; subst; unfold thread_errs;
    cbn [o_thread o_spawn upd unwind fin_piece pop_to finish push set_cur park
         tdone tmode tcur tstack tparked forallb frame_errs err_ctx] in *;
    try (rewrite HE by auto); cbn [err_ctx];
    repeat match goal with
           | H : _ && _ = true |- _ => apply andb_true_iff in H; destruct H
           | H : tstack t = _ |- _ => rewrite H in *; cbn [forallb frame_errs] in *
           end;
    try discriminate;
    (split; [|intros nn X; try discriminate; inv X; cbn; rewrite ?andb_true_r; auto]);
    repeat (apply andb_true_iff; split); auto; try reflexivity; try congruence;
    try (repeat match goal with H : ?x = _ |- context [?x] => rewrite H end; auto; fail);
    try (cbn in *; congruence).
Qed.

Definition state_errs (c : cstate) : Prop :=
  (flag c = true -> cancelled c = true) /\ forallb thread_errs (threads c) = true.

Lemma act_errs kf a c : keeps_err kf = true -> state_errs c -> state_errs (act kf a c).
Proof.
  intros KE [A B]. destruct a as [| |i]; cbn.
  - split; cbn; auto.
  - destruct (cancelled c) eqn:E; [split; cbn; auto|split; auto]. intros X. apply A in X. discriminate.
  - destruct (nth_error (threads c) i) as [t|] eqn:N; [|split; auto].
    destruct (enabled c t); [|split; auto].
    split; cbn; auto.
    assert (Ht : thread_errs t = true).
    { rewrite forallb_forall in B. apply B. eapply nth_error_In; eauto. }
    destruct (step_errs kf c t KE A Ht) as [S1 S2].
    rewrite forallb_app. apply andb_true_iff. split.
    + apply forallb_set_nth; auto.
    + destruct (o_spawn (step_thread kf c t)) as [n|] eqn:SP; cbn; auto. rewrite (S2 n eq_refl). reflexivity.
Qed.

(* every program: in every reachable state, under every schedule, every error a thread is unwinding with or has
   ended with is the context's own error *)
Theorem error_identity kf s sched :
  keeps_err kf = true ->
  let c := run kf sched (init s) in
  forall t, In t (threads c) ->
    (forall e, tmode t = Unwind e -> e = ECtx) /\ (forall e, tdone t = Some (TErr e) -> e = ECtx).
Proof.
  intros KE c.
  assert (SC : state_errs c).
  { assert (S0 : state_errs (init s)) by (split; cbn; [discriminate|reflexivity]).
    unfold c. revert S0. generalize (init s).
    induction sched as [|a r IH]; intros c0 S0; cbn; auto. apply IH. apply act_errs; auto. }
  destruct SC as [_ B]. intros t I. rewrite forallb_forall in B. specialize (B t I).
  unfold thread_errs in B. repeat (apply andb_true_iff in B; destruct B as [B ?]).
  split; intros e X; rewrite X in *; destruct e; cbn in *; congruence.
Qed.

(* a cancellation that reached a thread is not swallowed: a thread that is unwinding, or whose sorted() keeps an
   error for the end, stays so until it ends with an error *)
Definition keeps_failure (f : frame) : bool :=
  match f with FCb CbSorted _ _ (Some _) => true | _ => false end.
Definition failing (t : thread) : bool :=
  match tmode t with Unwind _ => true | Normal => false end || existsb keeps_failure (tstack t).

Lemma step_failing kf c t :
  try_fatal kf = true -> cancelled c = true -> tdone t = None -> failing t = true ->
  let t' := o_thread (step_thread kf c t) in
  failing t' = true \/ exists e, tdone t' = Some (TErr e).
Proof.
  intros TF C D FL. cbn zeta. unfold failing in FL.
  unfold step_thread, wake. rewrite D, TF, C. cbn [andb].
  destruct (tmode t) as [|e] eqn:EM; cbn [orb] in FL.
  - (* normal mode above a sorted() that has an error in store *)
    destruct (tcur t) as [s|] eqn:EC.
    + break_match; subst; unfold failing;
        cbn [o_thread upd unwind fin_piece pop_to finish push set_cur park tmode tstack existsb keeps_failure orb];
        try (left; reflexivity); left; rewrite ?FL, ?orb_true_r; auto.
    + destruct (tstack t) as [|f r] eqn:ES; [cbn in FL; discriminate|].
      cbn [existsb] in FL.
      break_match; subst; unfold failing;
        cbn [o_thread upd unwind fin_piece pop_to finish push set_cur park tmode tstack existsb keeps_failure orb] in *;
        try (left; reflexivity); try (left; rewrite ?FL, ?orb_true_r; auto; fail);
        left; rewrite ?orb_true_r; auto;
        try (match goal with k0 : cbk |- _ => destruct k0 end; cbn in *; auto; congruence).
  - destruct (tstack t) as [|f r] eqn:ES; [right; eexists; reflexivity|].
    break_match; subst; unfold failing;
      cbn [o_thread upd unwind fin_piece pop_to finish push set_cur park tmode tstack existsb keeps_failure orb];
      left; reflexivity.
Qed.

(* with the repaired primitives a parked thread that the cancellation wakes reports it *)
Lemma wake_reports_ctx kf t b :
  keeps_err kf = true -> wake_reports kf = true -> wake kf t b = unwind t ECtx.
Proof. intros A B. unfold wake. rewrite A, B. destruct b; reflexivity. Qed.
