From Coq Require Import List Bool String Permutation.
Require Import RV.model.SortChain RV.model.MapOrder RV.proofs.MapOrderProofs.
Import ListNotations.

Section ChainProofs.
  Variable D : Type.
  Variable deqb dltb : D -> D -> bool.
  Hypothesis deqb_spec : forall a b, deqb a b = true <-> a = b.
  Hypothesis dlt_irrefl : forall a, dltb a a = false.
  Hypothesis dlt_trans : forall a b c, dltb a b = true -> dltb b c = true -> dltb a c = true.
  Hypothesis dlt_total : forall a b, a <> b -> dltb a b = true \/ dltb b a = true.

  Notation hkey := (hkey D).
  Notation lt := (chain_lt D deqb dltb).
  Notation le := (chain_le D deqb dltb).

  Lemma deqb_refl a : deqb a a = true.
  Proof. apply deqb_spec. reflexivity. Qed.

  Lemma deqb_sym a b : deqb a b = deqb b a.
  Proof.
    destruct (deqb a b) eqn:E1, (deqb b a) eqn:E2; try reflexivity.
    - apply deqb_spec in E1. subst. rewrite deqb_refl in E2. discriminate.
    - apply deqb_spec in E2. subst. rewrite deqb_refl in E1. discriminate.
  Qed.

  Lemma dlt_asym a b : dltb a b = true -> dltb b a = false.
  Proof.
    intros H. destruct (dltb b a) eqn:E; [|reflexivity].
    rewrite <- (dlt_irrefl a). symmetry. eapply dlt_trans; eassumption.
  Qed.

  Lemma lt_asym c : forall a b, lt c a b = true -> lt c b a = false.
  Proof.
    induction c as [|f r IH]; intros a b H; cbn [chain_lt] in *; [reflexivity|].
    rewrite (deqb_sym (get D f b) (get D f a)).
    destruct (deqb (get D f a) (get D f b)) eqn:E.
    - apply IH. exact H.
    - apply dlt_asym. exact H.
  Qed.

  Lemma le_total c a b : le c a b = true \/ le c b a = true.
  Proof.
    unfold chain_le. destruct (lt c b a) eqn:E.
    - right. rewrite (lt_asym c b a E). reflexivity.
    - left. reflexivity.
  Qed.

  (* negative transitivity of the strict part *)
  Lemma lt_neg_trans c : forall x y z, lt c x z = true -> lt c x y = true \/ lt c y z = true.
  Proof.
    induction c as [|f r IH]; intros x y z H; cbn [chain_lt] in *; [discriminate|].
    destruct (deqb (get D f x) (get D f z)) eqn:Exz.
    - apply deqb_spec in Exz.
      destruct (deqb (get D f x) (get D f y)) eqn:Exy.
      + apply deqb_spec in Exy.
        assert (Eyz : deqb (get D f y) (get D f z) = true) by (apply deqb_spec; congruence).
        rewrite Eyz. apply IH. exact H.
      + assert (Eyz : deqb (get D f y) (get D f z) = false).
        { rewrite <- Exz. rewrite deqb_sym. exact Exy. }
        rewrite Eyz.
        assert (Hne : get D f x <> get D f y).
        { intros Heq. apply deqb_spec in Heq. rewrite Heq in Exy. discriminate. }
        destruct (dlt_total _ _ Hne) as [Hl|Hl]; [left; exact Hl|right; rewrite <- Exz; exact Hl].
    - destruct (deqb (get D f x) (get D f y)) eqn:Exy.
      + apply deqb_spec in Exy. right.
        rewrite <- Exy. rewrite Exz. exact H.
      + destruct (dltb (get D f x) (get D f y)) eqn:Lxy; [left; reflexivity|]. right.
        assert (Hne : get D f x <> get D f y).
        { intros Heq. apply deqb_spec in Heq. rewrite Heq in Exy. discriminate. }
        destruct (dlt_total _ _ Hne) as [Hl|Hl]; [rewrite Hl in Lxy; discriminate|].
        destruct (deqb (get D f y) (get D f z)) eqn:Eyz.
        * apply deqb_spec in Eyz. rewrite <- Eyz in H. rewrite (dlt_asym _ _ Hl) in H. discriminate.
        * eapply dlt_trans; eassumption.
  Qed.

  Lemma le_trans c a b d : le c a b = true -> le c b d = true -> le c a d = true.
  Proof.
    unfold chain_le. intros H1 H2.
    destruct (lt c d a) eqn:E; [|reflexivity].
    destruct (lt_neg_trans c d b a E) as [H|H]; rewrite H in *; discriminate.
  Qed.

  Lemma lt_false_eq c : forall a b, lt c a b = false -> lt c b a = false ->
    forall f, In f c -> get D f a = get D f b.
  Proof.
    induction c as [|g r IH]; intros a b H1 H2 f Hin; [destruct Hin|].
    cbn [chain_lt] in *. rewrite (deqb_sym (get D g b)) in H2.
    destruct (deqb (get D g a) (get D g b)) eqn:E.
    - destruct Hin as [->|Hin]; [apply deqb_spec; exact E|]. apply IH; assumption.
    - exfalso. assert (Hne : get D g a <> get D g b).
      { intros Heq. apply deqb_spec in Heq. rewrite Heq in E. discriminate. }
      destruct (dlt_total _ _ Hne) as [Hl|Hl]; congruence.
  Qed.

  Lemma covers_in c : covers c = true -> forall f, In f c.
  Proof.
    unfold covers. intros H f. rewrite forallb_forall in H.
    assert (Hf : In f all_fields) by (destruct f; cbn; tauto).
    specialize (H f Hf). apply existsb_exists in H. destruct H as [g [Hg Heq]].
    destruct f, g; cbn in Heq; try discriminate; exact Hg.
  Qed.

  Lemma le_antisym c : covers c = true -> forall a b, le c a b = true -> le c b a = true -> a = b.
  Proof.
    intros Hc a b H1 H2. unfold chain_le in *.
    apply negb_true_iff in H1. apply negb_true_iff in H2.
    pose proof (lt_false_eq c a b H2 H1) as Heq.
    pose proof (covers_in c Hc) as Hin.
    destruct a as [a1 a2 a3 a4], b as [b1 b2 b3 b4].
    pose proof (Heq FType (Hin FType)) as E1. pose proof (Heq FFlt (Hin FFlt)) as E2.
    pose proof (Heq FInt (Hin FInt)) as E3. pose proof (Heq FStr (Hin FStr)) as E4.
    cbn in E1, E2, E3, E4. congruence.
  Qed.

  (* the items of a set come out of SortedItems in the same order whatever order the Go map
     delivered them in, provided the comparator chain mentions every HashKey field *)
  Theorem set_sorted_items_order_irrelevant (V : Type) c :
    covers c = true ->
    forall entries entries' : list (hkey * V),
    Permutation entries entries' ->
    collect_sorted hkey V (le c) entries = collect_sorted hkey V (le c) entries'.
  Proof.
    intros Hc entries entries' Hp.
    apply collect_sorted_order_irrelevant; auto.
    - intros a b. apply le_total.
    - intros a b d. apply le_trans.
    - intros a b. apply le_antisym. exact Hc.
  Qed.

  (* and a chain that leaves a field out does not determine the order: two distinct keys it cannot tell apart *)
  Theorem incomplete_chain_ambiguous c f (d1 d2 : D) :
    ~ In f c -> d1 <> d2 ->
    exists a b : hkey, a <> b /\ lt c a b = false /\ lt c b a = false.
  Proof.
    intros Hnin Hne.
    set (mk := fun d => match f with
                        | FType => HK D d d1 d1 d1 | FFlt => HK D d1 d d1 d1
                        | FInt => HK D d1 d1 d d1 | FStr => HK D d1 d1 d1 d end).
    exists (mk d1), (mk d2).
    assert (Hsame : forall g, g <> f -> get D g (mk d1) = get D g (mk d2)).
    { intros g Hg. unfold mk. destruct f, g; cbn; congruence. }
    split; [unfold mk; destruct f; intros Heq; injection Heq; congruence|].
    assert (Hl : forall a b, (forall g, In g c -> get D g a = get D g b) -> lt c a b = false).
    { clear - deqb_spec. induction c as [|g r IH]; intros a b H; cbn [chain_lt]; [reflexivity|].
      rewrite (proj2 (deqb_spec _ _) (H g (or_introl eq_refl))). apply IH. intros g' Hg'. apply H. right. exact Hg'. }
    split; apply Hl; intros g Hg; [|symmetry]; apply Hsame; intros ->; contradiction.
  Qed.
End ChainProofs.

Lemma chain_complete_covers sf ch ok : chain_complete sf ch ok = true ->
  exists c, fields_of_names ch = Some c /\ covers c = true.
Proof.
  unfold chain_complete. intros H. apply andb_true_iff in H. destruct H as [_ H].
  destruct (fields_of_names sf); [|discriminate]. destruct (fields_of_names ch) as [c|]; [|discriminate].
  exists c. split; [reflexivity|]. apply andb_true_iff in H. tauto.
Qed.

Theorem complete_chain_order_irrelevant sf ch ok :
  chain_complete sf ch ok = true ->
  forall (D : Type) (deqb dltb : D -> D -> bool),
  (forall a b, deqb a b = true <-> a = b) -> (forall a, dltb a a = false) ->
  (forall a b c, dltb a b = true -> dltb b c = true -> dltb a c = true) ->
  (forall a b, a <> b -> dltb a b = true \/ dltb b a = true) ->
  exists c, fields_of_names ch = Some c /\
  forall (V : Type) (entries entries' : list (hkey D * V)),
  Permutation entries entries' ->
  collect_sorted (hkey D) V (chain_le D deqb dltb c) entries = collect_sorted (hkey D) V (chain_le D deqb dltb c) entries'.
Proof.
  intros Hcc D deqb dltb H1 H2 H3 H4.
  destruct (chain_complete_covers _ _ _ Hcc) as [c [Hc Hcov]].
  exists c. split; [exact Hc|]. intros V. exact (set_sorted_items_order_irrelevant D deqb dltb H1 H2 H3 H4 V c Hcov).
Qed.
