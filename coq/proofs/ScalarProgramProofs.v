From Coq Require Import List ZArith NArith Bool Arith Lia.
Require Import RV.model.Syntax RV.model.Compiler RV.model.VM RV.model.ScalarFrag.
Require Import RV.proofs.BackendProofs RV.proofs.VMScalarProofs.
Import ListNotations.
Local Open Scope nat_scope.

Lemma embed_is_expression e : is_expression (embed e) = true.
Proof. destruct e; reflexivity. Qed.

Lemma strip_I l : map (fun s => match s with SI n => n | _ => PLACEHOLDER end) (I l) = l.
Proof. unfold I. rewrite map_map. induction l; cbn; congruence. Qed.

Definition root_table : table :=
  {| tb_id := root_id; tb_parent := None; tb_nchildren := 0; tb_byname := []; tb_freebyname := [];
     tb_syms := []; tb_free := []; tb_block := false |}.

Lemma compile_program_scalar e :
  compile_program (height e) [] [embed e] =
  inr (Code main_id main_id false 0 (fst (cexp 0 e)) (snd (cexp 0 e)) [] [] [], [root_table]).
Proof.
  unfold compile_program.
  set (st0 := init_state []).
  assert (Hst : st_stack st0 = [ {| w_id := main_id; w_name := main_id; w_named := false; w_functab := 0%nat; w_tab := 0%nat;
              w_consts := []; w_names := []; w_children := []; w_pipe := false; w_funcid := [];
              w_loops := []; w_root := true |} ]) by reflexivity.
  pose proof (compile_scalar e (height e) st0 _ _ Hst (le_n _)) as Hc. cbn [w_consts length] in Hc.
  unfold bind, ret, collect_decls.
  replace (match embed e with
           | NFunc (Some nm) _ _ _ => _
           | _ => fun s => inr (tt, s) end st0) with (@inr err (unit * cstate) (tt, st0)) by (destruct e; reflexivity).
  rewrite Hc. unfold nil_after. rewrite embed_is_expression, app_nil_r.
  unfold cur, add_consts. rewrite Hst. cbn. rewrite strip_I. reflexivity.
Qed.

(* the machine state a program starts in *)
Definition start_state (nglobals : nat) (builtins : list value) : mstate :=
  {| lists := []; maps := []; arrays := [repeat VGoNil nglobals]; iters := [];
     globals := builtins ++ repeat VGoNil (nglobals - length builtins); trace := [] |}.

Lemma nth_of_nth_error (A : Type) (l : list A) i k d : nth_error l i = Some k -> nth i l d = k.
Proof. revert i; induction l as [|x l IH]; intros [|i] H; cbn in *; try discriminate; [congruence|auto]. Qed.

(* VM.run on the compiled single-expression program *)
Theorem run_scalar_program e tabs ng bs :
  need e <= MAXSTACK ->
  exists k, forall f,
    VM.run (k + S f) (Code main_id main_id false 0 (fst (cexp 0 e)) (snd (cexp 0 e)) [] [] []) tabs ng bs =
    match sev e with
    | inl v => RVal (VMScalarProofs.inj v) (start_state ng bs)
    | inr x => RErr (cls x) (start_state ng bs)
    end.
Proof.
  intros Hn. set (c := Code main_id main_id false 0 (fst (cexp 0 e)) (snd (cexp 0 e)) [] [] []).
  destruct (vm_scalar tabs c 0 [0] [] [] true (start_state ng bs) e 0 [] [] []) as [k Hk].
  - cbn [code_instr c app]. rewrite app_nil_r. reflexivity.
  - intros i kk Hi. cbn [code_consts c Nat.add]. apply nth_of_nth_error. exact Hi.
  - cbn [length Nat.add]. exact Hn.
  - exists k. intros f. unfold VM.run. fold (start_state ng bs). fold c. rewrite Hk. unfold outcome_of.
    destruct (sev e) as [v|x]; [|reflexivity].
    cbn [length Nat.add]. cbn [exec].
    replace (nth_error (code_instr c) (length (fst (cexp 0 e)))) with (@None N).
    + reflexivity.
    + symmetry. apply nth_error_None. cbn [code_instr c]. lia.
Qed.
