(* Traversals of acyclic data terminate within a bound given by the rank; on cyclic data they
   exhaust any amount of stack. *)
From Coq Require Import List Arith ZArith Bool Lia.
Require Import RV.model.Cyclic.
Import ListNotations.

Lemma visit_acyclic h rank : ranked h rank ->
  forall n a, vrank rank a < n -> visit n h a <> None.
Proof.
  intros Hr. induction n as [|n IH]; intros a Hlt; [lia|].
  destruct a as [z|l]; cbn [visit]; [discriminate|].
  assert (Hall : forall x, In x (items h l) -> visit n h x <> None).
  { intros x Hin. apply IH. specialize (Hr l x Hin). cbn in Hlt. destruct x as [z|l']; cbn; lia. }
  induction (items h l) as [|x r IHr]; [discriminate|].
  assert (Hx : visit n h x <> None) by (apply Hall; left; reflexivity).
  assert (Hrest : (fix go (xs : list val) : option nat :=
                     match xs with
                     | [] => Some 0
                     | x0 :: r0 => match visit n h x0, go r0 with Some n0, Some m => Some (n0 + m) | _, _ => None end
                     end) r <> None) by (apply IHr; intros y Hy; apply Hall; right; exact Hy).
  destruct (visit n h x); [|contradiction].
  match goal with |- match ?g with _ => _ end <> None => destruct g; [discriminate|contradiction] end.
Qed.

Lemma equals_acyclic h rank : ranked h rank ->
  forall n a b, vrank rank a < n -> equals n h a b <> None.
Proof.
  intros Hr. induction n as [|n IH]; intros a b Hlt; [lia|].
  destruct a as [x|la], b as [y|lb]; cbn [equals]; try discriminate.
  destruct (negb (Nat.eqb (length (items h la)) (length (items h lb)))); [discriminate|].
  assert (Hall : forall p, In p (combine (items h la) (items h lb)) -> equals n h (fst p) (snd p) <> None).
  { intros [x y] Hin. cbn. apply IH. apply in_combine_l in Hin. specialize (Hr la x Hin).
    cbn in Hlt. destruct x as [z|l']; cbn; lia. }
  induction (combine (items h la) (items h lb)) as [|[x y] r IHr]; [discriminate|].
  pose proof (Hall (x, y) (or_introl eq_refl)) as Hx. cbn in Hx.
  destruct (equals n h x y) as [[|]|]; [|discriminate|contradiction].
  apply IHr. intros p Hp. apply Hall. right. exact Hp.
Qed.

(* the cyclic witness: no amount of stack is enough *)
Lemma visit_cyclic_diverges : forall n, visit n cyclic_heap (VRef 0) = None.
Proof.
  induction n as [|n IH]; [reflexivity|].
  cbn [visit]. unfold items, cyclic_heap. cbn [nth].
  destruct n as [|n']; [reflexivity|].
  change (visit (S n') [[VInt 1; VRef 0]] (VInt 1)) with (Some 1).
  fold cyclic_heap. rewrite IH. reflexivity.
Qed.

Lemma equals_cyclic_diverges : forall n, equals n cyclic_heap (VRef 0) (VRef 0) = None.
Proof.
  induction n as [|n IH]; [reflexivity|].
  cbn [equals]. unfold items, cyclic_heap. cbn [nth length Nat.eqb negb combine].
  destruct n as [|n']; [reflexivity|].
  change (equals (S n') [[VInt 1; VRef 0]] (VInt 1) (VInt 1)) with (Some true).
  fold cyclic_heap. rewrite IH. reflexivity.
Qed.
