(* Model of Unix path/filepath.Clean, filepath.Join, os.ResolvePath (os/os.go) and
   VirtualOS.findMount (os/virtual.go).  Definitions only; proofs live in proofs/PathsProofs.v.
   Strings are lists over an abstract alphabet with two distinguished characters, instantiated
   with byte values (N) for extraction and vm_compute. *)
From Coq Require Import List Bool Arith NArith.
Import ListNotations.

Class Alphabet := {
  char : Type;
  ceq : forall a b : char, {a = b} + {a <> b};
  slash : char;
  dot : char
}.

Section Paths.
  Context {A : Alphabet}.
  Notation str := (list char).

  Definition is_slash (c : char) : bool := if ceq c slash then true else false.

  (* strings.Split(s, "/"): keeps empty segments *)
  Fixpoint split_aux (cur : str) (s : str) : list str :=
    match s with
    | [] => [rev cur]
    | c :: r => if is_slash c then rev cur :: split_aux [] r else split_aux (c :: cur) r
    end.
  Definition split (s : str) : list str := split_aux [] s.

  Fixpoint str_eqb (a b : str) : bool :=
    match a, b with
    | [], [] => true
    | x :: a', y :: b' => if ceq x y then str_eqb a' b' else false
    | _, _ => false
    end.

  Definition dotdot : str := [dot; dot].
  Definition is_dot (s : str) := str_eqb s [dot].
  Definition is_dotdot (s : str) := str_eqb s dotdot.
  Definition is_empty (s : str) := match s with [] => true | _ => false end.

  (* the element stack of filepath.Clean, top of stack = head of the list *)
  Fixpoint clean_stack (rooted : bool) (st : list str) (segs : list str) : list str :=
    match segs with
    | [] => st
    | s :: r =>
        if is_empty s || is_dot s then clean_stack rooted st r
        else if is_dotdot s then
          match st with
          | top :: st' => if is_dotdot top then clean_stack rooted (s :: st) r
                          else clean_stack rooted st' r
          | [] => if rooted then clean_stack rooted [] r else clean_stack rooted [s] r
          end
        else clean_stack rooted (s :: st) r
    end.

  Definition is_rooted (s : str) : bool := match s with c :: _ => is_slash c | [] => false end.

  Definition clean_segs (s : str) : list str := rev (clean_stack (is_rooted s) [] (split s)).

  Fixpoint join_segs (segs : list str) : str :=
    match segs with
    | [] => []
    | [s] => s
    | s :: r => s ++ slash :: join_segs r
    end.

  (* filepath.Clean *)
  Definition clean (s : str) : str :=
    let segs := clean_segs s in
    if is_rooted s then slash :: join_segs segs
    else match segs with [] => [dot] | _ => join_segs segs end.

  Definition nonempty (s : str) := negb (is_empty s).
  (* the components of a path: what the property calls "component-wise" *)
  Definition comps (s : str) : list str := filter nonempty (split s).

  (* strings.HasPrefix s p *)
  Fixpoint has_prefix (s p : str) {struct p} : bool :=
    match p, s with
    | [], _ => true
    | x :: p', y :: s' => if ceq x y then has_prefix s' p' else false
    | _ :: _, [] => false
    end.

  Fixpoint has_suffix_slash (s : str) : bool :=
    match s with
    | [] => false
    | [c] => is_slash c
    | _ :: r => has_suffix_slash r
    end.

  (* strings.TrimPrefix s p *)
  Fixpoint drop_prefix (s p : str) {struct p} : str :=
    match p, s with
    | [], _ => s
    | x :: p', y :: s' => if ceq x y then drop_prefix s' p' else s
    | _ :: _, [] => s
    end.
  Definition trim_prefix (s p : str) : str := if has_prefix s p then drop_prefix s p else s.

  (* strings.TrimSuffix k "/" *)
  Fixpoint trim_suffix_slash (s : str) : str :=
    match s with
    | [] => []
    | [c] => if is_slash c then [] else [c]
    | c :: r => c :: trim_suffix_slash r
    end.

  Inductive res := Ok (p : str) | Invalid.

  (* filepath.Join(base, p) for non-empty base and p: Clean(base + "/" + p) *)
  Definition join2 (base p : str) : str := clean (base ++ slash :: p).

  (* filepath.Join(a, b) in general: empty elements are ignored *)
  Definition join (a b : str) : str :=
    match a, b with
    | [], [] => []
    | [], _ => clean b
    | _, [] => clean a
    | _, _ => clean (a ++ slash :: b)
    end.

  (* os.ResolvePath *)
  Definition resolve_path (base path : str) : res :=
    let p := clean path in
    if has_prefix p dotdot then Invalid
    else if is_empty base || str_eqb base [slash] then Ok p
    else Ok (join2 base p).

  (* two-path operations of localfs (Rename, Symlink): both arguments are resolved before the
     host operation is issued; the effect happens only when both are Ok *)
  Definition resolve_two (base p1 p2 : str) : option (str * str) :=
    match resolve_path base p1 with
    | Invalid => None
    | Ok q1 => match resolve_path base p2 with
               | Invalid => None
               | Ok q2 => Some (q1, q2)
               end
    end.

  (* VirtualOS.findMount: the path normalisation *)
  Definition mount_path (cwd path : str) : str :=
    let ends := has_suffix_slash path in
    let p1 := if is_rooted path then path else join cwd path in
    let p2 := clean p1 in
    if ends && negb (str_eqb p2 [slash]) then p2 ++ [slash] else p2.

  (* the per-key test of the (repaired) loop body: 0 = no match, 1 = exact, 2 = prefix at a separator *)
  Definition mount_key_match (path k : str) : nat :=
    if str_eqb k path then 1
    else if str_eqb k [slash] || has_prefix path (trim_suffix_slash k ++ [slash]) then 2
    else 0.

  (* the loop over the map in an arbitrary iteration order [keys]; the accumulator is the best
     prefix match so far.  Result: (mount target, path handed to the mount's filesystem). *)
  Fixpoint mount_loop (path : str) (keys : list str) (best : option str) : option (str * str) :=
    match keys with
    | [] => match best with
            | None => None
            | Some k => let rel := trim_prefix path k in
                        Some (k, if is_empty rel then [slash] else rel)
            end
    | k :: r =>
        match mount_key_match path k with
        | 1 => Some (k, [slash])
        | 2 => match best with
               | None => mount_loop path r (Some k)
               | Some b => if Nat.ltb (length b) (length k) then mount_loop path r (Some k)
                           else mount_loop path r best
               end
        | _ => mount_loop path r best
        end
    end.

  Definition find_mount (cwd : str) (keys : list str) (path : str) : option (str * str) :=
    mount_loop (mount_path cwd path) keys None.

  (* two-path operations of VirtualOS (Rename, Symlink): EACH argument is looked up on its own, by the same findMount;
     the operation is handed to a mount only when both lookups succeed and choose the same mount point.
     Result: (mount target, first path, second path as handed to that mount's filesystem). *)
  Definition mount_two (cwd : str) (keys : list str) (p1 p2 : str) : option (str * str * str) :=
    match find_mount cwd keys p1, find_mount cwd keys p2 with
    | Some (k1, r1), Some (k2, r2) => if str_eqb k1 k2 then Some (k1, r1, r2) else None
    | _, _ => None
    end.

  (* component-wise prefix *)
  Fixpoint seg_prefix (p l : list str) : bool :=
    match p, l with
    | [], _ => true
    | x :: p', y :: l' => str_eqb x y && seg_prefix p' l'
    | _ :: _, [] => false
    end.
  (* A VirtualOS over its lifetime: Chdir replaces the working directory (virtual.go performs no validation),
     every other call looks its path up.  The observation of a history: one lookup result per use. *)
  Inductive vop := VChdir (d : str) | VUse (p : str).
  Fixpoint vrun (keys : list str) (cwd : str) (ops : list vop) : list (option (str * str)) :=
    match ops with
    | [] => []
    | VChdir d :: r => vrun keys d r
    | VUse p :: r => find_mount cwd keys p :: vrun keys cwd r
    end.
  Definition is_use (o : vop) : bool := match o with VUse _ => true | VChdir _ => false end.
End Paths.

(* byte instance used by extraction and by the in-kernel witnesses *)
Definition byte_eq_dec (a b : N) : {a = b} + {a <> b} := N.eq_dec a b.
#[export] Instance ByteAlphabet : Alphabet :=
  {| char := N; ceq := byte_eq_dec; slash := 47%N; dot := 46%N |}.
