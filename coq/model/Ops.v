(* Ops.v - value model of risor's object package for C15 (and the element type of C16):
   Equals / Compare / HashKey / IsTruthy / Contains / Sort, transcribed from
   object/{nil,bool,int,float,byte,string,byte_slice,error,list,map,set}.go, object/operations.go,
   object/sort.go and builtins.Sorted.  Definitions only.

   Representation choices (stated in the evidence as assumptions, validated differentially on every run):
   * int       : Z (the driver only feeds int64 values; no arithmetic happens in these operations);
   * float     : sign bit + magnitude = the low 63 bits of the IEEE-754 binary64 pattern.  Every binary64
                 value is representable (including +-0, subnormals, +-Inf, NaN).  For non-NaN values the
                 IEEE order is the integer order of the sign-magnitude key [fkey]; Go's ==, > on float64
                 are false when an operand is NaN, and [go_fcmp] reproduces what the Go code then returns;
   * float64(i): round-to-nearest-even of an integer to 53 significant bits, computed on the bit pattern;
   * byte      : Z in [0,255]; string / byte_slice: list of byte values (Go compares strings bytewise);
   * map       : association list with pairwise distinct keys (Go map[string]Object);
   * set       : list of members with pairwise distinct hash keys (Go map[HashKey]Object);
   * values are finite trees: a cyclic list (l.append(l)) is outside the model. *)
From Coq Require Import List Bool ZArith Lia.
Import ListNotations.
Open Scope Z_scope.

Notation bytes := (list Z).

Inductive value : Type :=
| VNil
| VBool (b : bool)
| VInt (z : Z)
| VFloat (neg : bool) (mag : Z)
| VByte (z : Z)
| VStr (s : bytes)
| VBytes (s : bytes)
| VErr (msg : bytes) (raised : bool)
| VList (l : list value)
| VMap (m : list (bytes * value))
| VSet (s : list value).

Inductive tag := TNil | TBool | TInt | TFloat | TByte | TStr | TBytes | TErr | TList | TMap | TSet.

Definition tag_of (v : value) : tag :=
  match v with
  | VNil => TNil | VBool _ => TBool | VInt _ => TInt | VFloat _ _ => TFloat | VByte _ => TByte
  | VStr _ => TStr | VBytes _ => TBytes | VErr _ _ => TErr | VList _ => TList | VMap _ => TMap | VSet _ => TSet
  end.

Definition tag_eqb (a b : tag) : bool :=
  match a, b with
  | TNil, TNil | TBool, TBool | TInt, TInt | TFloat, TFloat | TByte, TByte | TStr, TStr
  | TBytes, TBytes | TErr, TErr | TList, TList | TMap, TMap | TSet, TSet => true
  | _, _ => false
  end.

(* ---------------------------------------------------------------- floats *)

Definition inf_mag : Z := 9218868437227405312.   (* 0x7FF0000000000000 *)
Definition is_nan (mag : Z) : bool := inf_mag <? mag.
Definition fkey (neg : bool) (mag : Z) : Z := if neg then - mag else mag.

(* Go: x == y and x > y on float64 *)
Definition feq (n1 : bool) (m1 : Z) (n2 : bool) (m2 : Z) : bool :=
  negb (is_nan m1) && negb (is_nan m2) && (fkey n1 m1 =? fkey n2 m2).
Definition fgt (n1 : bool) (m1 : Z) (n2 : bool) (m2 : Z) : bool :=
  negb (is_nan m1) && negb (is_nan m2) && (fkey n2 m2 <? fkey n1 m1).

(* the three-way result every numeric Compare method computes: ==, then >, else -1 *)
Definition go_fcmp (n1 : bool) (m1 : Z) (n2 : bool) (m2 : Z) : comparison :=
  if feq n1 m1 n2 m2 then Eq else if fgt n1 m1 n2 m2 then Gt else Lt.

Definition two52 : Z := 4503599627370496.

(* float64(int64): sign and magnitude bits of the nearest binary64 (ties to even) *)
Definition of_int (z : Z) : bool * Z :=
  if z =? 0 then (false, 0) else
  let a := Z.abs z in
  let n := Z.log2 a + 1 in
  let mag :=
    if n <=? 53 then (1022 + n) * two52 + (a * 2 ^ (53 - n) - two52)
    else
      let sh := n - 53 in
      let q := a / 2 ^ sh in
      let r := a mod 2 ^ sh in
      let half := 2 ^ (sh - 1) in
      let q' := if (half <? r) || ((r =? half) && Z.odd q) then q + 1 else q in
      (1022 + n) * two52 + (q' - two52) in
  (z <? 0, mag).

Definition fcmp_if (i : Z) (n : bool) (m : Z) : comparison :=
  let '(ni, mi) := of_int i in go_fcmp ni mi n m.
Definition fcmp_fi (n : bool) (m : Z) (i : Z) : comparison :=
  let '(ni, mi) := of_int i in go_fcmp n m ni mi.
Definition feq_if (i : Z) (n : bool) (m : Z) : bool :=
  let '(ni, mi) := of_int i in feq ni mi n m.
Definition feq_fi (n : bool) (m : Z) (i : Z) : bool :=
  let '(ni, mi) := of_int i in feq n m ni mi.

(* ---------------------------------------------------------------- byte strings *)

Fixpoint bytes_eqb (a b : bytes) : bool :=
  match a, b with
  | [], [] => true
  | x :: a', y :: b' => (x =? y) && bytes_eqb a' b'
  | _, _ => false
  end.

(* Go string comparison / bytes.Compare: lexicographic on bytes, a proper prefix is smaller *)
Fixpoint bytes_cmp (a b : bytes) : comparison :=
  match a, b with
  | [], [] => Eq
  | [], _ :: _ => Lt
  | _ :: _, [] => Gt
  | x :: a', y :: b' => match x ?= y with Eq => bytes_cmp a' b' | c => c end
  end.

Fixpoint is_prefix (p s : bytes) : bool :=
  match p, s with
  | [], _ => true
  | x :: p', y :: s' => (x =? y) && is_prefix p' s'
  | _ :: _, [] => false
  end.

Fixpoint is_infix (p s : bytes) : bool :=
  is_prefix p s || match s with [] => false | _ :: s' => is_infix p s' end.

(* []rune(s): Go's UTF-8 decoding; every byte that does not start a valid sequence is one U+FFFD *)
Fixpoint utf8_decode (fuel : nat) (l : bytes) : list Z :=
  match fuel with
  | O => []
  | S f =>
    match l with
    | [] => []
    | b0 :: r =>
        let cont (b : Z) := (128 <=? b) && (b <=? 191) in
        let bad (_ : unit) := 65533 :: utf8_decode f r in
        if b0 <? 128 then b0 :: utf8_decode f r
        else if (194 <=? b0) && (b0 <=? 223) then
          match r with
          | b1 :: r1 => if cont b1 then ((b0 - 192) * 64 + (b1 - 128)) :: utf8_decode f r1 else bad tt
          | _ => bad tt
          end
        else if (224 <=? b0) && (b0 <=? 239) then
          match r with
          | b1 :: b2 :: r2 =>
              let lo := if b0 =? 224 then 160 else 128 in
              let hi := if b0 =? 237 then 159 else 191 in
              if (lo <=? b1) && (b1 <=? hi) && cont b2
              then ((b0 - 224) * 4096 + (b1 - 128) * 64 + (b2 - 128)) :: utf8_decode f r2 else bad tt
          | _ => bad tt
          end
        else if (240 <=? b0) && (b0 <=? 244) then
          match r with
          | b1 :: b2 :: b3 :: r3 =>
              let lo := if b0 =? 240 then 144 else 128 in
              let hi := if b0 =? 244 then 143 else 191 in
              if (lo <=? b1) && (b1 <=? hi) && cont b2 && cont b3
              then ((b0 - 240) * 262144 + (b1 - 128) * 4096 + (b2 - 128) * 64 + (b3 - 128)) :: utf8_decode f r3 else bad tt
          | _ => bad tt
          end
        else bad tt
    end
  end.
Definition runes_of (s : bytes) : list Z := utf8_decode (S (length s)) s.

(* string(rune) / string([]rune) *)
Definition utf8_encode (r : Z) : bytes :=
  let bad := [239; 191; 189] in
  if r <? 0 then bad
  else if r <? 128 then [r]
  else if r <? 2048 then [192 + r / 64; 128 + r mod 64]
  else if (55296 <=? r) && (r <=? 57343) then bad
  else if r <? 65536 then [224 + r / 4096; 128 + (r / 64) mod 64; 128 + r mod 64]
  else if r <=? 1114111 then [240 + r / 262144; 128 + (r / 4096) mod 64; 128 + (r / 64) mod 64; 128 + r mod 64]
  else bad.
Definition utf8_string (l : list Z) : bytes := flat_map utf8_encode l.

(* ---------------------------------------------------------------- hash keys *)

(* object.HashKey{Type, FltValue, IntValue, StrValue}; a NaN has the key {float, StrValue "NaN"} (Go's NaN is never
   equal to itself as a map key, so Float.HashKey does not put it into FltValue; FltValue = None is kept in the record
   for a NaN field and does not occur); +0 and -0 are the same key (Go == on the float field). *)
Record hkey := HK { hk_tag : tag; hk_flt : option Z; hk_int : Z; hk_str : bytes }.

Definition hashkey (v : value) : option hkey :=
  match v with
  | VNil => Some (HK TNil (Some 0) 0 [])
  | VBool b => Some (HK TBool (Some 0) (if b then 1 else 0) [])
  | VInt z => Some (HK TInt (Some 0) z [])
  | VFloat n m => Some (HK TFloat (Some (if is_nan m then 0 else fkey n m)) 0 (if is_nan m then [78; 97; 78] else []))
  | VByte z => Some (HK TByte (Some 0) z [])
  | VStr s => Some (HK TStr (Some 0) 0 s)
  | VBytes s => Some (HK TBytes (Some 0) 0 s)
  | _ => None
  end.

Definition hkey_eqb (a b : hkey) : bool :=
  tag_eqb (hk_tag a) (hk_tag b)
  && match hk_flt a, hk_flt b with Some x, Some y => x =? y | _, _ => false end
  && (hk_int a =? hk_int b)
  && bytes_eqb (hk_str a) (hk_str b).

Definition ohkey_eqb (a b : option hkey) : bool :=
  match a, b with Some x, Some y => hkey_eqb x y | _, _ => false end.

(* lookup of a member by hash key *)
Fixpoint set_find (k : hkey) (s : list value) : option value :=
  match s with
  | [] => None
  | v :: s' => if ohkey_eqb (hashkey v) (Some k) then Some v else set_find k s'
  end.

Fixpoint assoc (k : bytes) (m : list (bytes * value)) : option value :=
  match m with
  | [] => None
  | (k', v) :: m' => if bytes_eqb k' k then Some v else assoc k m'
  end.

(* ---------------------------------------------------------------- Equals *)

Fixpoint equals (a b : value) {struct a} : bool :=
  match a with
  | VNil => match b with VNil => true | _ => false end
  | VBool x => match b with VBool y => Bool.eqb x y | _ => false end
  | VInt x =>
      match b with
      | VInt y => x =? y
      | VFloat n m => feq_if x n m
      | VByte y => x =? y
      | _ => false
      end
  | VFloat n m =>
      match b with
      | VInt y => feq_fi n m y
      | VFloat n2 m2 => feq n m n2 m2
      | VByte y => feq_fi n m y
      | _ => false
      end
  | VByte x =>
      match b with
      | VByte y => x =? y
      | VInt y => x =? y
      | VFloat n m => feq_if x n m
      | _ => false
      end
  | VStr s => match b with VStr t => bytes_eqb s t | VBytes t => bytes_eqb s t | _ => false end
  | VBytes s =>
      match b with
      | VBytes t => match bytes_cmp s t with Eq => true | _ => false end
      | VStr t => match bytes_cmp s t with Eq => true | _ => false end
      | _ => false
      end
  | VErr m r => match b with VErr m2 r2 => bytes_eqb m m2 && Bool.eqb r r2 | _ => false end
  | VList la =>
      match b with
      | VList lb =>
          Nat.eqb (length la) (length lb) &&
          (fix go (xs ys : list value) {struct xs} : bool :=
             match xs, ys with
             | x :: xs', y :: ys' => equals x y && go xs' ys'
             | _, _ => true
             end) la lb
      | _ => false
      end
  | VMap ma =>
      match b with
      | VMap mb =>
          Nat.eqb (length ma) (length mb) &&
          (fix go (xs : list (bytes * value)) {struct xs} : bool :=
             match xs with
             | [] => true
             | (k, v) :: xs' =>
                 match assoc k mb with Some v' => equals v v' | None => false end && go xs'
             end) ma
      | _ => false
      end
  | VSet sa =>
      match b with
      | VSet sb =>
          Nat.eqb (length sa) (length sb) &&
          (fix go (xs : list value) {struct xs} : bool :=
             match xs with
             | [] => true
             | v :: xs' =>
                 match hashkey v with
                 | Some k => match set_find k sb with Some v' => equals v v' | None => false end
                 | None => false
                 end && go xs'
             end) sa
      | _ => false
      end
  end.

(* ---------------------------------------------------------------- Compare (None = the Go error) *)

Definition bool_cmp (x y : bool) : comparison :=
  if Bool.eqb x y then Eq else if x then Gt else Lt.

Definition err_cmp (m1 : bytes) (r1 : bool) (m2 : bytes) (r2 : bool) : comparison :=
  if bytes_eqb m1 m2 && Bool.eqb r1 r2 then Eq
  else match bytes_cmp m1 m2 with
       | Gt => Gt
       | Lt => Lt
       | Eq => if r1 && negb r2 then Gt else if negb r1 && r2 then Lt else Eq
       end.

Fixpoint vcompare (a b : value) {struct a} : option comparison :=
  match a with
  | VNil => match b with VNil => Some Eq | _ => None end
  | VBool x => match b with VBool y => Some (bool_cmp x y) | _ => None end
  | VInt x =>
      match b with
      | VFloat n m => Some (fcmp_if x n m)
      | VInt y => Some (x ?= y)
      | VByte y => Some (x ?= y)
      | _ => None
      end
  | VFloat n m =>
      match b with
      | VFloat n2 m2 => Some (go_fcmp n m n2 m2)
      | VInt y => Some (fcmp_fi n m y)
      | VByte y => Some (fcmp_fi n m y)
      | _ => None
      end
  | VByte x =>
      match b with
      | VFloat n m => Some (fcmp_if x n m)
      | VInt y => Some (x ?= y)
      | VByte y => Some (x ?= y)
      | _ => None
      end
  | VStr s => match b with VStr t => Some (bytes_cmp s t) | VBytes t => Some (bytes_cmp s t) | _ => None end
  | VBytes s =>
      match b with
      | VBytes t => Some (bytes_cmp s t)
      | VStr t => Some (bytes_cmp s t)
      | _ => None
      end
  | VErr m r => match b with VErr m2 r2 => Some (err_cmp m r m2 r2) | _ => None end
  | VList la =>
      match b with
      | VList lb =>
          match Nat.compare (length la) (length lb) with
          | Gt => Some Gt
          | Lt => Some Lt
          | Eq =>
              (fix go (xs ys : list value) {struct xs} : option comparison :=
                 match xs, ys with
                 | x :: xs', y :: ys' =>
                     match vcompare x y with
                     | Some Eq => go xs' ys'
                     | r => r
                     end
                 | _, _ => Some Eq
                 end) la lb
          end
      | _ => None
      end
  | VMap _ => None
  | VSet _ => None
  end.

(* object.Compare(opType, a, b) *)
Inductive cop := OEq | ONe | OLt | OLe | OGt | OGe.

Definition cmp_op (o : cop) (a b : value) : option bool :=
  match o with
  | OEq => Some (equals a b)
  | ONe => Some (negb (equals a b))
  | _ =>
      match vcompare a b with
      | None => None
      | Some c =>
          Some match o, c with
               | OLt, Lt => true
               | OLe, Lt | OLe, Eq => true
               | OGt, Gt => true
               | OGe, Gt | OGe, Eq => true
               | _, _ => false
               end
      end
  end.

(* ---------------------------------------------------------------- IsTruthy, Len, Contains *)

Definition truthy (v : value) : bool :=
  match v with
  | VNil => false
  | VBool b => b
  | VInt z => negb (z =? 0)
  | VFloat n m => negb (feq n m false 0)
  | VByte z => 0 <? z
  | VStr s => negb (bytes_eqb s [])
  | VBytes s => match s with [] => false | _ => true end
  | VErr _ _ => true
  | VList l => match l with [] => false | _ => true end
  | VMap m => match m with [] => false | _ => true end
  | VSet s => match s with [] => false | _ => true end
  end.

(* Len() of the containers; a string's length is its number of runes *)
Definition vlen (v : value) : option nat :=
  match v with
  | VStr s => Some (length (runes_of s))
  | VBytes s => Some (length s)
  | VList l => Some (length l)
  | VMap m => Some (length m)
  | VSet s => Some (length s)
  | _ => None
  end.

(* the `in` operator: container.Contains(x); None = "object is not a container" *)
Definition contains (c x : value) : option bool :=
  match c with
  | VList l => Some (existsb (fun v => equals v x) l)
  | VSet s => Some match hashkey x with
                   | Some k => match set_find k s with Some _ => true | None => false end
                   | None => false
                   end
  | VMap m => Some match x with
                   | VStr k => match assoc k m with Some _ => true | None => false end
                   | _ => false
                   end
  | VStr s => Some match x with VStr t | VBytes t => is_infix t s | _ => false end
  | VBytes s => Some match x with VStr t | VBytes t => is_infix t s | _ => false end
  | _ => None
  end.

(* ---------------------------------------------------------------- sets and maps as built by the code *)

(* s.items[hk] = item : an existing slot keeps its position, the member is replaced *)
Fixpoint set_add (x : value) (s : list value) : list value :=
  match s with
  | [] => [x]
  | v :: s' => if ohkey_eqb (hashkey v) (hashkey x) then x :: s' else v :: set_add x s'
  end.

(* NewSet(items): None when an item is unhashable *)
Fixpoint set_of_list (l : list value) (acc : list value) : option (list value) :=
  match l with
  | [] => Some acc
  | x :: l' => match hashkey x with
               | Some _ => set_of_list l' (set_add x acc)
               | None => None
               end
  end.

Fixpoint map_set (k : bytes) (x : value) (m : list (bytes * value)) : list (bytes * value) :=
  match m with
  | [] => [(k, x)]
  | (k', v) :: m' => if bytes_eqb k' k then (k', x) :: m' else (k', v) :: map_set k x m'
  end.

(* ---------------------------------------------------------------- Sort *)

(* Go's sort.SliceStable is an insertion sort for n <= 20 (blocks of 20, then merges), driven by
   less(a, b) := Compare(items[a], items[b]) == -1, remembering whether a comparison failed.
   A comparison whose left operand is not Comparable dereferences a nil interface (panic).
   [ins_rev e rp] moves [e] left through the reversed sorted prefix [rp] exactly as
   `for j := i; j > a && less(j, j-1); j-- { swap }` does. *)
Section Sort.
  Context {A : Type} (proj : A -> value).

  Inductive sres := SOk (l : list A) | SErr | SPanic.

  Definition comparable (v : value) : bool :=
    match v with VMap _ | VSet _ => false | _ => true end.

  (* result, error flag, panic flag *)
  Fixpoint ins_rev (e : A) (rp : list A) : list A * bool * bool :=
    match rp with
    | [] => ([e], false, false)
    | x :: rp' =>
        if negb (comparable (proj e)) then (e :: rp, true, true)
        else match vcompare (proj e) (proj x) with
             | None => (e :: rp, true, false)
             | Some Lt => let '(r, er, pn) := ins_rev e rp' in (x :: r, er, pn)
             | Some _ => (e :: rp, false, false)
             end
    end.

  Fixpoint isort_rev (l : list A) (rp : list A) (er pn : bool) : list A * bool * bool :=
    match l with
    | [] => (rp, er, pn)
    | e :: l' =>
        if pn then (rp, er, pn)
        else let '(rp', er', pn') := ins_rev e rp in isort_rev l' rp' (er || er') pn'
    end.

  Definition sort_by (l : list A) : sres :=
    let '(rp, er, pn) := isort_rev l [] false false in
    if pn then SPanic else if er then SErr else SOk (rev rp).
End Sort.

Arguments SOk {A} l.
Arguments SErr {A}.
Arguments SPanic {A}.

(* sorted(list) / list.sort() on the values themselves *)
Definition sorted (l : list value) : sres := sort_by (fun v => v) l.

(* the same sort on (value, original index) pairs: the permutation it performs *)
Fixpoint tag_from (i : nat) (l : list value) : list (value * nat) :=
  match l with [] => [] | x :: l' => (x, i) :: tag_from (S i) l' end.

Definition sorted_idx (l : list value) : @sres (value * nat) := sort_by fst (tag_from 0 l).

(* ---------------------------------------------------------------- predicates used by the theorems *)

Fixpoint no_nan (v : value) : bool :=
  match v with
  | VFloat _ m => negb (is_nan m)
  | VList l => (fix go (xs : list value) : bool := match xs with [] => true | x :: xs' => no_nan x && go xs' end) l
  | VMap m => (fix go (xs : list (bytes * value)) : bool :=
                 match xs with [] => true | (_, x) :: xs' => no_nan x && go xs' end) m
  | VSet s => (fix go (xs : list value) : bool := match xs with [] => true | x :: xs' => no_nan x && go xs' end) s
  | _ => true
  end.

(* keys of a map pairwise distinct, hash keys of a set's members pairwise distinct and defined *)
Fixpoint keys_nodup (ks : list bytes) : bool :=
  match ks with
  | [] => true
  | k :: ks' => negb (existsb (bytes_eqb k) ks') && keys_nodup ks'
  end.

Fixpoint hkeys_nodup (s : list value) : bool :=
  match s with
  | [] => true
  | v :: s' =>
      match hashkey v with
      | Some k => negb (existsb (fun w => ohkey_eqb (hashkey w) (Some k)) s') && hkeys_nodup s'
      | None => false
      end
  end.

Fixpoint wf (v : value) : bool :=
  match v with
  | VList l => (fix go (xs : list value) : bool := match xs with [] => true | x :: xs' => wf x && go xs' end) l
  | VMap m => keys_nodup (map fst m) &&
              (fix go (xs : list (bytes * value)) : bool :=
                 match xs with [] => true | (_, x) :: xs' => wf x && go xs' end) m
  | VSet s => hkeys_nodup s
  | _ => true
  end.

(* guards of the known defect classes *)
Fixpoint has_float (v : value) : bool :=
  match v with
  | VFloat _ _ => true
  | VList l => (fix go (xs : list value) : bool := match xs with [] => false | x :: xs' => has_float x || go xs' end) l
  | VMap m => (fix go (xs : list (bytes * value)) : bool :=
                 match xs with [] => false | (_, x) :: xs' => has_float x || go xs' end) m
  | VSet s => (fix go (xs : list value) : bool := match xs with [] => false | x :: xs' => has_float x || go xs' end) s
  | _ => false
  end.

(* an int or a byte (both compare with a float through float64(...)) *)
Fixpoint has_int (v : value) : bool :=
  match v with
  | VInt _ => true
  | VByte _ => true
  | VList l => (fix go (xs : list value) : bool := match xs with [] => false | x :: xs' => has_int x || go xs' end) l
  | VMap m => (fix go (xs : list (bytes * value)) : bool :=
                 match xs with [] => false | (_, x) :: xs' => has_int x || go xs' end) m
  | VSet s => (fix go (xs : list value) : bool := match xs with [] => false | x :: xs' => has_int x || go xs' end) s
  | _ => false
  end.

(* == is transitive outside this class: int/byte == float == int/byte *)
Definition trans_guard (a b c : value) : bool :=
  negb (has_float b) || negb (has_int a) || negb (has_int c).

(* homogeneous orderable types *)
Inductive oty := OInt | OFloat | OByte | OStr | OBool | OList (t : oty).

Fixpoint has_oty (t : oty) (v : value) : bool :=
  match t, v with
  | OInt, VInt _ => true
  | OFloat, VFloat _ m => negb (is_nan m)
  | OByte, VByte _ => true
  | OStr, VStr _ => true
  | OBool, VBool _ => true
  | OList t', VList l => forallb (has_oty t') l
  | _, _ => false
  end.

Definition numeric (v : value) : bool :=
  match v with VInt _ | VFloat _ _ | VByte _ => true | _ => false end.

(* numeric values the implementation can hold: int64, byte, non-NaN float64 *)
Definition int64_ok (z : Z) : bool := (-9223372036854775808 <=? z) && (z <=? 9223372036854775807).
Definition num_ok (v : value) : bool :=
  match v with
  | VInt z => int64_ok z
  | VByte z => (0 <=? z) && (z <=? 255)
  | VFloat _ m => negb (is_nan m)
  | _ => false
  end.

Definition is_bytes (v : value) : bool := match v with VBytes _ => true | _ => false end.
Definition is_str (v : value) : bool := match v with VStr _ => true | _ => false end.

(* `x in set` agrees with iterating and comparing outside this class: a member of another type that is
   numeric like x, or a byte_slice member against a string x or the other way round (== holds across
   these types, the hash key carries the type) *)
Definition set_in_guard (s : list value) (x : value) : bool :=
  forallb (fun v => tag_eqb (tag_of v) (tag_of x)
                    || negb ((numeric v && numeric x) || (is_bytes v && is_str x) || (is_str v && is_bytes x))) s.
