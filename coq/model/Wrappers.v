(* C19, part 1: the regular shape of a standard-library wrapper.

   Every module function / string method / byte_slice method that wraps a Go standard-library
   function has the shape (modules/strings/strings_gen.go is generated that way, the hand-written
   modules follow it):

       arity check;  one object.AsX(args[i]) per parameter, in order, each returning its error;
       one call of the Go function;  one result constructor (or object.NewError(err)).

   A wrapper is described by a RECORD (regenerated from the source on every run, gen/GenWrappers.v)
   and executed by the generic interpreter [run_wrapper]; the Go function itself is a parameter [F]
   of the interpreter (a Section variable in the proofs, the direct Go call delivered by the harness
   in the extracted model).  Definitions only; proofs live in proofs/WrappersProofs.v. *)
From Coq Require Import List Bool ZArith NArith String Ascii.
Import ListNotations.

Notation bytes := (list N).

(* ------------------------------------------------------------------ float64 values
   (-1)^neg * m * 2^e in normal form (m odd, or m = 0 and e = 0), infinities, NaN.  The model never
   computes with floats except for the conversion int64 -> float64 of object.AsFloat and JSON. *)
Inductive f64 :=
| FFin (neg : bool) (m : N) (e : Z)
| FInf (neg : bool)
| FNaN.

Fixpoint strip_pos (p : positive) (e : Z) : positive * Z :=
  match p with
  | xO p' => strip_pos p' (e + 1)%Z
  | _ => (p, e)
  end.

Definition mk_fin (neg : bool) (m : N) (e : Z) : f64 :=
  match m with
  | N0 => FFin neg 0 0
  | Npos p => let (p', e') := strip_pos p e in FFin neg (Npos p') e'
  end.

(* float64(n) for a natural number: round to nearest, ties to even, 53 significant bits *)
Definition round53 (n : N) : N * Z :=
  if (n <? 2 ^ 53)%N then (n, 0%Z)
  else
    let sh := (N.size n - 53)%N in
    let q := N.shiftr n sh in
    let r := (n - N.shiftl q sh)%N in
    let half := N.shiftl 1 (sh - 1) in
    let q' := if (half <? r)%N || ((r =? half)%N && N.odd q) then (q + 1)%N else q in
    (q', Z.of_N sh).

Definition z_to_f64 (z : Z) : f64 :=
  let (m, e) := round53 (Z.abs_N z) in mk_fin (z <? 0)%Z m e.

(* the exact value of a finite float when it is an integer *)
Definition f64_to_z (f : f64) : option Z :=
  match f with
  | FFin neg m e =>
      if (0 <=? e)%Z then
        let v := (Z.of_N m * 2 ^ e)%Z in Some (if neg then (- v)%Z else v)
      else None
  | _ => None
  end.

(* int(x) of a float64 as compiled for amd64 (CVTTSD2SQ): truncation toward zero, and the
   "integer indefinite" value -2^63 when the result does not fit or x is NaN *)
Definition f64_trunc_int64 (f : f64) : Z :=
  match f with
  | FFin neg m e =>
      let v := if (0 <=? e)%Z then (Z.of_N m * 2 ^ e)%Z else Z.shiftr (Z.of_N m) (- e) in
      let sv := if neg then (- v)%Z else v in
      if ((- 2 ^ 63 <=? sv) && (sv <? 2 ^ 63))%Z then sv else (- 2 ^ 63)%Z
  | _ => (- 2 ^ 63)%Z
  end.

(* equality of floats as numbers: exact rationals (normal form makes this syntactic), the two
   zeros are the same number *)
Definition f64_eqb (a b : f64) : bool :=
  match a, b with
  | FFin n1 m1 e1, FFin n2 m2 e2 =>
      (m1 =? m2)%N && (e1 =? e2)%Z && (Bool.eqb n1 n2 || (m1 =? 0)%N)
  | FInf n1, FInf n2 => Bool.eqb n1 n2
  | FNaN, FNaN => true
  | _, _ => false
  end.

(* ------------------------------------------------------------------ script objects (projection) *)
Inductive errk :=
| EArgs                  (* wrong number of arguments *)
| EType                  (* an argument of the wrong type *)
| EValue                 (* the wrapper's own value check failed (single byte / single character) *)
| EGo (tok : bytes).     (* the error returned by the Go function, as an opaque token *)

Inductive obj :=
| ONil
| OBool (b : bool)
| OInt (z : Z)
| OByte (n : N)
| OFloat (f : f64)
| OString (s : bytes)
| OBytes (s : bytes)       (* byte_slice *)
| OBuffer (s : bytes)      (* buffer *)
| ORegexp (pat : bytes)    (* compiled regular expression, identified by its source *)
| OList (l : list obj)
| OMap (kv : list (bytes * obj))
| OErr (k : errk)
| OOther (ty : N).         (* any other type (set, time, builtin, ...) *)

(* ------------------------------------------------------------------ Go values *)
Inductive gval :=
| GStr (s : bytes)
| GBytes (s : bytes)
| GInt (z : Z)
| GFloat (f : f64)
| GBool (b : bool)
| GStrs (l : list bytes)
| GRegexp (pat : bytes).

(* outcome of calling the Go function *)
Inductive gret :=
| GOk (v : gval)
| GFail (tok : bytes)      (* returned a non-nil error *)
| GPanic (tok : bytes).    (* panicked: the function is not defined on these arguments *)

Inductive res (A : Type) :=
| Ok (a : A)
| Err (e : errk).
Arguments Ok {A} a.
Arguments Err {A} e.

(* object/typeconv.go *)
Definition as_string (o : obj) : res gval :=
  match o with
  | OString s | OBytes s | OBuffer s => Ok (GStr s)
  | _ => Err EType
  end.

Definition as_int (o : obj) : res gval :=
  match o with
  | OInt z => Ok (GInt z)
  | OByte n => Ok (GInt (Z.of_N n))
  | _ => Err EType
  end.

Definition as_float (o : obj) : res gval :=
  match o with
  | OInt z => Ok (GFloat (z_to_f64 z))
  | OByte n => Ok (GFloat (z_to_f64 (Z.of_N n)))
  | OFloat f => Ok (GFloat f)
  | _ => Err EType
  end.

Definition as_bytes (o : obj) : res gval :=
  match o with
  | OBytes s | OBuffer s | OString s => Ok (GBytes s)
  | _ => Err EType
  end.

Definition as_bool (o : obj) : res gval :=
  match o with
  | OBool b => Ok (GBool b)
  | _ => Err EType
  end.

Fixpoint strings_of (l : list obj) : res (list bytes) :=
  match l with
  | [] => Ok []
  | o :: r =>
      match as_string o with
      | Ok (GStr s) => match strings_of r with Ok t => Ok (s :: t) | Err e => Err e end
      | Ok _ => Err EType
      | Err e => Err e
      end
  end.

Definition as_strings (o : obj) : res gval :=
  match o with
  | OList l => match strings_of l with Ok t => Ok (GStrs t) | Err e => Err e end
  | _ => Err EType
  end.

(* the conversion applied to one script argument *)
Inductive conv :=
| CString        (* object.AsString: string, byte_slice, buffer *)
| CInt           (* object.AsInt: int, byte *)
| CFloat         (* object.AsFloat: int, byte, float *)
| CBytes         (* object.AsBytes: byte_slice, buffer, string *)
| CBool          (* object.AsBool *)
| CStrings       (* object.AsStringSlice / AsList + AsString per item *)
| CNumSwitch     (* type switch: *object.Int -> float64(v), *object.Float -> v *)
| CBytesOnly     (* modules/bytes asBytes: *object.ByteSlice only *)
| CRecvString    (* receiver of a string method: s.value *)
| CRecvBytes     (* receiver of a byte_slice method: b.value *)
| CRecvRegexp.   (* receiver of a regexp method: r.value *)

Definition convert (c : conv) (o : obj) : res gval :=
  match c with
  | CString => as_string o
  | CInt => as_int o
  | CFloat => as_float o
  | CBytes => as_bytes o
  | CBool => as_bool o
  | CStrings => as_strings o
  | CNumSwitch => match o with
                  | OInt z => Ok (GFloat (z_to_f64 z))
                  | OFloat f => Ok (GFloat f)
                  | _ => Err EType
                  end
  | CBytesOnly => match o with OBytes s => Ok (GBytes s) | _ => Err EType end
  | CRecvString => match o with OString s => Ok (GStr s) | _ => Err EType end
  | CRecvBytes => match o with OBytes s => Ok (GBytes s) | _ => Err EType end
  | CRecvRegexp => match o with ORegexp p => Ok (GRegexp p) | _ => Err EType end
  end.

(* what happens to the converted value before it is passed on *)
Inductive cast :=
| KNone
| KInt           (* int(x) of an int64: the identity on 64-bit platforms *)
| KFloatToInt    (* int(x) of a float64 *)
| KRune1         (* if len(s) != 1 { error }; rune(s[0]) *)
| KByte1.        (* if len(data) != 1 { error }; data[0] *)

Definition apply_cast (k : cast) (g : gval) : res gval :=
  match k, g with
  | KNone, _ => Ok g
  | KInt, GInt z => Ok (GInt z)
  | KFloatToInt, GFloat f => Ok (GInt (f64_trunc_int64 f))
  | KRune1, GStr [c] => Ok (GInt (Z.of_N c))
  | KRune1, GStr _ => Err EValue
  | KByte1, GBytes [c] => Ok (GInt (Z.of_N c))
  | KByte1, GBytes _ => Err EValue
  | _, _ => Err EType
  end.

Record param := {
  p_arg : nat;             (* index into args (index 0 is the receiver of a method) *)
  p_conv : conv;
  p_cast : cast;
  p_pos : nat;             (* position in the argument list of the Go function *)
  p_opt : option gval      (* the default when the script argument is absent *)
}.

(* a check the wrapper makes on the converted parameters before it calls the Go function; when it
   fires the wrapper returns a value error and the Go function is not called.  Positions are
   positions in the argument list of the Go function. *)
Inductive guard :=
| GNeg (pos : nat)                          (* if x < 0 { error } *)
| GTooLong (spos npos : nat) (bound : Z).   (* if len(s) > 0 && n > bound/len(s) { error } *)

Definition glen (g : gval) : option Z :=
  match g with
  | GStr s | GBytes s => Some (Z.of_nat (List.length s))
  | _ => None
  end.

Definition guard_fires (g : guard) (l : list gval) : bool :=
  match g with
  | GNeg i => match nth_error l i with Some (GInt n) => (n <? 0)%Z | _ => false end
  | GTooLong i j b =>
      match nth_error l i, nth_error l j with
      | Some s, Some (GInt n) =>
          match glen s with Some k => (0 <? k)%Z && (b / k <? n)%Z | None => false end
      | _, _ => false
      end
  end.

Inductive retk := RBool | RInt | RFloat | RString | RBytes | RStrList | RRegexp.

Record wrapper := {
  w_name : string;         (* "strings.has_prefix", "string.has_prefix", "byte_slice.index" ... *)
  w_min : nat;             (* accepted numbers of arguments, the receiver included *)
  w_max : nat;
  w_params : list param;   (* in the order in which the wrapper converts them *)
  w_consts : list (nat * gval);   (* constant arguments of the Go function, by position *)
  w_guards : list guard;   (* checks made after the conversions, in order *)
  w_callee : string;       (* the Go function called, e.g. "strings.HasPrefix" *)
  w_ret : retk;            (* result constructor *)
  w_regular : bool         (* false: the source did not have the regular shape (differential run only) *)
}.

(* ------------------------------------------------------------------ the interpreter *)
Fixpoint unpack_params (ps : list param) (args : list obj) : res (list (nat * gval)) :=
  match ps with
  | [] => Ok []
  | p :: ps' =>
      let this :=
        match nth_error args (p_arg p) with
        | Some o => match convert (p_conv p) o with
                    | Ok g => apply_cast (p_cast p) g
                    | Err e => Err e
                    end
        | None => match p_opt p with Some d => Ok d | None => Err EArgs end
        end in
      match this with
      | Err e => Err e
      | Ok g => match unpack_params ps' args with
                | Ok r => Ok ((p_pos p, g) :: r)
                | Err e => Err e
                end
      end
  end.

Definition arity_ok (w : wrapper) (args : list obj) : bool :=
  (w_min w <=? List.length args)%nat && (List.length args <=? w_max w)%nat.

(* the converted parameters, in declaration order, tagged with their callee position *)
Definition unpack (w : wrapper) (args : list obj) : res (list (nat * gval)) :=
  if arity_ok w args then unpack_params (w_params w) args else Err EArgs.

Fixpoint lookup_pos (i : nat) (l : list (nat * gval)) : option gval :=
  match l with
  | [] => None
  | (j, g) :: r => if Nat.eqb i j then Some g else lookup_pos i r
  end.

Fixpoint place_from (i n : nat) (l : list (nat * gval)) : list gval :=
  match n with
  | O => []
  | S n' => match lookup_pos i l with
            | Some g => g :: place_from (S i) n' l
            | None => place_from (S i) n' l
            end
  end.

(* the argument list handed to the Go function *)
Definition place (w : wrapper) (a : list (nat * gval)) : list gval :=
  let all := a ++ w_consts w in place_from 0 (List.length all) all.

Definition mk_ret (k : retk) (v : gval) : obj :=
  match k, v with
  | RBool, GBool b => OBool b
  | RInt, GInt z => OInt z
  | RFloat, GFloat f => OFloat f
  | RString, GStr s => OString s
  | RBytes, GBytes s => OBytes s
  | RStrList, GStrs l => OList (map OString l)
  | RRegexp, GRegexp p => ORegexp p
  | _, _ => OOther 0       (* ill-typed table entry: no Go program of this shape compiles *)
  end.

Inductive outcome :=
| Ret (o : obj)
| Panic (tok : bytes).

Definition lift (k : retk) (r : gret) : outcome :=
  match r with
  | GOk v => Ret (mk_ret k v)
  | GFail tok => Ret (OErr (EGo tok))
  | GPanic tok => Panic tok
  end.

Definition guards_pass (w : wrapper) (l : list gval) : bool :=
  negb (existsb (fun g => guard_fires g l) (w_guards w)).

Definition run_wrapper (F : string -> list gval -> gret) (w : wrapper) (args : list obj) : outcome :=
  match unpack w args with
  | Err e => Ret (OErr e)
  | Ok a =>
      let l := place w a in
      if guards_pass w l then lift (w_ret w) (F (w_callee w) l) else Ret (OErr EValue)
  end.

(* ------------------------------------------------------------------ well-formedness of a record *)

(* the Go function each wrapper is specified to wrap: CamelCase of the exported name in the Go
   package of the same name as the module, with the exceptions listed here *)
Definition upcase (a : ascii) : ascii :=
  let n := nat_of_ascii a in
  if (97 <=? n)%nat && (n <=? 122)%nat then ascii_of_nat (n - 32) else a.

Fixpoint camel (up : bool) (s : string) : string :=
  match s with
  | EmptyString => EmptyString
  | String c r =>
      if Ascii.eqb c "_"%char then camel true r
      else String (if up then upcase c else c) (camel false r)
  end.

Fixpoint split_dot (acc : string) (s : string) : string * string :=
  match s with
  | EmptyString => (acc, EmptyString)
  | String c r => if Ascii.eqb c "."%char then (acc, r) else split_dot (acc ++ String c EmptyString) r
  end.

Open Scope string_scope.

Definition go_package (m : string) : string :=
  if String.eqb m "string" then "strings"
  else if String.eqb m "byte_slice" then "bytes"
  else if String.eqb m "regexp_object" then "(*regexp.Regexp)"
  else m.

Definition callee_exceptions : list (string * string) :=
  [ ("strconv.parse_float", "strconv.ParseFloat");
    ("regexp.match", "regexp.MatchString");
    ("regexp_object.match", "(*regexp.Regexp).MatchString");
    ("regexp_object.find", "(*regexp.Regexp).FindString");
    ("regexp_object.find_all", "(*regexp.Regexp).FindAllString");
    ("regexp_object.find_submatch", "(*regexp.Regexp).FindStringSubmatch");
    ("regexp_object.replace_all", "(*regexp.Regexp).ReplaceAllString") ].

Fixpoint assoc_s {A} (k : string) (l : list (string * A)) : option A :=
  match l with
  | [] => None
  | (k', v) :: r => if String.eqb k k' then Some v else assoc_s k r
  end.

Definition expected_callee (name : string) : string :=
  match assoc_s name callee_exceptions with
  | Some c => c
  | None => let (m, f) := split_dot "" name in go_package m ++ "." ++ camel true f
  end.

(* the constant arguments each wrapper is specified to pass *)
Definition expected_consts : list (string * list (nat * gval)) :=
  [ ("strconv.parse_float", [(1%nat, GInt 64)]);
    ("math.is_inf", [(1%nat, GInt 0)]) ].

Definition gval_eqb (a b : gval) : bool :=
  match a, b with
  | GInt x, GInt y => (x =? y)%Z
  | GBool x, GBool y => Bool.eqb x y
  | _, _ => false
  end.

Fixpoint consts_eqb (a b : list (nat * gval)) : bool :=
  match a, b with
  | [], [] => true
  | (i, x) :: a', (j, y) :: b' => Nat.eqb i j && gval_eqb x y && consts_eqb a' b'
  | _, _ => false
  end.

Fixpoint increasing_from (i : nat) (l : list nat) : bool :=
  match l with
  | [] => true
  | j :: r => (i <=? j)%nat && increasing_from (S j) r
  end.

Fixpoint covers (n : nat) (i : nat) (l : list nat) : bool :=
  match n with
  | O => true
  | S n' => existsb (Nat.eqb i) l && covers n' (S i) l
  end.

Fixpoint nodup_nat (l : list nat) : bool :=
  match l with
  | [] => true
  | x :: r => negb (existsb (Nat.eqb x) r) && nodup_nat r
  end.

Definition is_recv (c : conv) : bool :=
  match c with CRecvString | CRecvBytes | CRecvRegexp => true | _ => false end.

(* the receiver of a method goes to the first position of the Go function, except for
   sep.join(list) = strings.Join(list, sep) *)
Definition expected_recv_pos (name : string) : nat :=
  if String.eqb name "string.join" then 1%nat else 0%nat.

Definition plain_params (w : wrapper) : list param :=
  filter (fun p => negb (is_recv (p_conv p))) (w_params w).
Definition recv_params (w : wrapper) : list param :=
  filter (fun p => is_recv (p_conv p)) (w_params w).

(* parameters are converted in the order of the script arguments ... *)
Definition args_in_order (w : wrapper) : bool := increasing_from 0 (map p_arg (w_params w)).
(* ... and are handed to the Go function in that same order (the receiver at its specified
   position), every position filled exactly once *)
Definition positions_ok (w : wrapper) : bool :=
  let ps := (map p_pos (w_params w) ++ map fst (w_consts w))%list in
  increasing_from 0 (map p_pos (plain_params w))
  && forallb (fun p => Nat.eqb (p_arg p) 0 && Nat.eqb (p_pos p) (expected_recv_pos (w_name w))) (recv_params w)
  && nodup_nat ps && covers (List.length ps) 0 ps
  && forallb (fun j => Nat.ltb j (List.length ps)) ps.

Definition guard_ok (n : nat) (g : guard) : bool :=
  match g with
  | GNeg i => Nat.ltb i n
  | GTooLong i j b => Nat.ltb i n && Nat.ltb j n && negb (Nat.eqb i j) && (0 <=? b)%Z
  end.

Definition wrapper_wf (w : wrapper) : bool :=
  if w_regular w then
    args_in_order w && positions_ok w
    && forallb (guard_ok (List.length (w_params w) + List.length (w_consts w))) (w_guards w)
    && String.eqb (w_callee w) (expected_callee (w_name w))
    && consts_eqb (w_consts w) (match assoc_s (w_name w) expected_consts with Some c => c | None => [] end)
    && (List.length (w_params w) <=? w_max w)%nat && (w_min w <=? w_max w)%nat
  else true.

(* ------------------------------------------------------------------ glue for the driver *)
Fixpoint string_of_bytes (l : bytes) : string :=
  match l with
  | [] => EmptyString
  | c :: r => String (ascii_of_N c) (string_of_bytes r)
  end.

Fixpoint bytes_of_string (s : string) : bytes :=
  match s with
  | EmptyString => []
  | String c r => N_of_ascii c :: bytes_of_string r
  end.

Fixpoint find_wrapper (name : string) (l : list wrapper) : option wrapper :=
  match l with
  | [] => None
  | w :: r => if String.eqb name (w_name w) then Some w else find_wrapper name r
  end.

(* a model of strings.Repeat, used for the refutation witness: it panics on a negative count *)
Fixpoint repeat_bytes (s : bytes) (n : nat) : bytes :=
  match n with O => [] | S n' => s ++ repeat_bytes s n' end.

(* strings.Repeat / bytes.Repeat as far as panics go: a negative count, and a result the runtime
   cannot allocate (taken generously: 2^40 bytes and more) *)
Definition repeat_panics (s : bytes) (n : Z) : bool :=
  ((n <? 0) || (2 ^ 40 <=? Z.of_nat (List.length s) * n))%Z.

Definition go_repeat (callee : string) (a : list gval) : gret :=
  match a with
  | [GStr s; GInt n] =>
      if repeat_panics s n then GPanic (bytes_of_string "strings: negative Repeat count or output too large")
      else GOk (GStr (repeat_bytes s (Z.to_nat n)))
  | [GBytes s; GInt n] =>
      if repeat_panics s n then GPanic (bytes_of_string "bytes: negative Repeat count or output too large")
      else GOk (GBytes (repeat_bytes s (Z.to_nat n)))
  | _ => GPanic []
  end.

(* the shape of a guarded repeat wrapper *)
Definition text_conv (c : conv) : bool :=
  match c with CString | CBytes | CBytesOnly | CRecvString | CRecvBytes => true | _ => false end.

Definition mk_repeat (name callee : string) (c0 : conv) (ret : retk) (bound : Z) : wrapper :=
  {| w_name := name; w_min := 2; w_max := 2;
     w_params := [ {| p_arg := 0; p_conv := c0; p_cast := KNone; p_pos := 0; p_opt := None |};
                   {| p_arg := 1; p_conv := CInt; p_cast := KInt; p_pos := 1; p_opt := None |} ];
     w_consts := [];
     w_guards := [GNeg 1; GTooLong 0 1 bound];
     w_callee := callee; w_ret := ret; w_regular := true |}.
