(* Prototype model of risor's VM (vm/vm.go, frame.go) over the model compiler's output.
   Subset of the object model: nil, bool, int64, ASCII strings, lists, string-keyed maps, functions,
   closures/cells, partials, iterators, builtins len/print/list.append.  Go nil (an unset local
   slot) is explicit: touching it is the recovered Go panic XPanic. *)
From Coq Require Import List ZArith NArith Bool Arith Lia.
Require Import RV.model.Syntax RV.model.Compiler.
Import ListNotations.
Open Scope Z_scope.

Inductive value :=
| VGoNil | VNil | VBool (b : bool) | VInt (z : Z) | VStr (s : list N)
| VList (l : nat) | VMap (l : nat)
| VFunc (name : list N) (params : list (list N)) (defaults : list dflt) (c : code) (free : list (nat * nat))
| VCell (arr idx : nat)
| VBuiltin (name : list N)
| VMethod (recv : nat) (name : list N)          (* method of list [recv] *)
| VPartial (fn : value) (args : list value)
| VIter (it : nat).

Inductive iterk := ItList (l : nat) | ItMap (m : nat) (keys : list (list N)) | ItInt (target : Z) | ItStr (rs : list N).
Record iter := { it_kind : iterk; it_pos : Z; it_cur : option value; it_done : bool }.

Inductive errk :=
| XType | XIndex | XKey | XArgs | XDiv0 | XSlice | XUnpack | XNotCallable | XAttr | XEval
| XPanic | XUnsupported | XFuel.

Record mstate := {
  lists : list (list value);
  maps : list (list (list N * value));
  arrays : list (list value);            (* locals of activations (and the root frame) *)
  iters : list iter;
  globals : list value;
  trace : list (list value);
}.

Inductive res := RVal (v : value) (s : mstate) | RErr (e : errk) (s : mstate).

Definition wrap64 (z : Z) : Z := (z + 9223372036854775808) mod 18446744073709551616 - 9223372036854775808.
Definition beq (a b : list N) : bool := if list_eq_dec N.eq_dec a b then true else false.
Fixpoint assoc {A} (k : list N) (l : list (list N * A)) : option A :=
  match l with [] => None | (k', v) :: r => if beq k k' then Some v else assoc k r end.
Fixpoint lset {A} (l : list A) (i : nat) (v : A) : list A :=
  match l, i with [], _ => [] | _ :: r, O => v :: r | x :: r, S j => x :: lset r j v end.
Fixpoint str_cmp (a b : list N) : comparison :=
  match a, b with
  | [], [] => Eq | [], _ => Lt | _, [] => Gt
  | x :: a', y :: b' => match N.compare x y with Eq => str_cmp a' b' | c => c end
  end.
Fixpoint map_insert (k : list N) (v : value) (m : list (list N * value)) : list (list N * value) :=
  match m with
  | [] => [(k, v)]
  | (k', v') :: r => match str_cmp k k' with
                     | Eq => (k, v) :: r | Lt => (k, v) :: (k', v') :: r | Gt => (k', v') :: map_insert k v r end
  end.

Definition upd_lists (s : mstate) (l : list (list value)) : mstate :=
  {| lists := l; maps := maps s; arrays := arrays s; iters := iters s; globals := globals s; trace := trace s |}.
Definition upd_maps (s : mstate) (m : list (list (list N * value))) : mstate :=
  {| lists := lists s; maps := m; arrays := arrays s; iters := iters s; globals := globals s; trace := trace s |}.
Definition upd_arrays (s : mstate) (a : list (list value)) : mstate :=
  {| lists := lists s; maps := maps s; arrays := a; iters := iters s; globals := globals s; trace := trace s |}.
Definition upd_iters (s : mstate) (i : list iter) : mstate :=
  {| lists := lists s; maps := maps s; arrays := arrays s; iters := i; globals := globals s; trace := trace s |}.
Definition upd_globals (s : mstate) (g : list value) : mstate :=
  {| lists := lists s; maps := maps s; arrays := arrays s; iters := iters s; globals := g; trace := trace s |}.
Definition upd_trace (s : mstate) (t : list (list value)) : mstate :=
  {| lists := lists s; maps := maps s; arrays := arrays s; iters := iters s; globals := globals s; trace := t |}.

Definition new_list (s : mstate) (vs : list value) : value * mstate := (VList (length (lists s)), upd_lists s (lists s ++ [vs])).
Definition new_map (s : mstate) (m : list (list N * value)) : value * mstate := (VMap (length (maps s)), upd_maps s (maps s ++ [m])).
Definition new_array (s : mstate) (vs : list value) : nat * mstate := (length (arrays s), upd_arrays s (arrays s ++ [vs])).
Definition new_iter (s : mstate) (k : iterk) : value * mstate :=
  (VIter (length (iters s)), upd_iters s (iters s ++ [{| it_kind := k; it_pos := -1; it_cur := None; it_done := false |}])).

Definition all_ascii (t : list N) : bool := forallb (fun c => (c <? 128)%N) t.

(* Some b, or None when the receiver is Go nil (a nil-pointer panic) *)
Definition truthy (s : mstate) (v : value) : option bool :=
  match v with
  | VGoNil => None
  | VNil => Some false | VBool b => Some b | VInt z => Some (negb (z =? 0))
  | VStr t => Some (match t with [] => false | _ => true end)
  | VList l => Some (match nth l (lists s) [] with [] => false | _ => true end)
  | VMap l => Some (match nth l (maps s) [] with [] => false | _ => true end)
  | _ => Some true
  end.

Fixpoint veq (fuel : nat) (s : mstate) (a b : value) : bool :=
  match fuel with
  | O => false
  | S f =>
    match a, b with
    | VNil, VNil => true
    | VBool x, VBool y => Bool.eqb x y
    | VInt x, VInt y => x =? y
    | VStr x, VStr y => beq x y
    | VList x, VList y =>
        let lx := nth x (lists s) [] in let ly := nth y (lists s) [] in
        Nat.eqb (length lx) (length ly) && forallb (fun p => veq f s (fst p) (snd p)) (combine lx ly)
    | VMap x, VMap y =>
        let mx := nth x (maps s) [] in let my := nth y (maps s) [] in
        Nat.eqb (length mx) (length my)
        && forallb (fun p => beq (fst (fst p)) (fst (snd p)) && veq f s (snd (fst p)) (snd (snd p))) (combine mx my)
    | _, _ => false
    end
  end.

Definition is_gonil (v : value) : bool := match v with VGoNil => true | _ => false end.

Definition resolve_index (i n : Z) : option Z :=
  if i >? n - 1 then None else if i >=? 0 then Some i
  else let r := i + n in if (r <? 0) || (r >? n - 1) then None else Some r.
Definition resolve_slice (start stop size : Z) : option (Z * Z) :=
  let start' := if start <? 0 then size + start else start in
  if start' <? 0 then None else
  let stop' := if stop <? 0 then size + stop else stop in
  if stop' <? 0 then None else
  if start' >? stop' then None else
  if start' >? size - 1 then None else
  if stop' >? size then None else Some (start', stop').

Definition simple_kind (v : value) : nat :=   (* for "unsupported in this prototype" decisions *)
  match v with VGoNil => 0 | VNil => 1 | VBool _ => 2 | VInt _ => 3 | VStr _ => 4 | VList _ => 5 | VMap _ => 6 | _ => 7 end%nat.

Definition binary_op (s : mstate) (op : N) (a b : value) : res :=
  if is_gonil a then RErr XPanic s else
  if (op =? 6)%N then     (* And *)
    match truthy s a, truthy s b with
    | Some ta, Some _ => RVal (if ta then b else a) s
    | _, _ => RErr XPanic s
    end
  else if (op =? 7)%N then (* Or *)
    match truthy s a with Some true => RVal a s | Some false => RVal b s | None => RErr XPanic s end
  else
  match a, b with
  | VInt x, VInt y =>
      if (op =? 1)%N then RVal (VInt (wrap64 (x + y))) s
      else if (op =? 2)%N then RVal (VInt (wrap64 (x - y))) s
      else if (op =? 3)%N then RVal (VInt (wrap64 (x * y))) s
      else if (op =? 4)%N then (if y =? 0 then RErr XDiv0 s else RVal (VInt (wrap64 (Z.quot x y))) s)
      else if (op =? 5)%N then (if y =? 0 then RErr XDiv0 s else RVal (VInt (Z.rem x y)) s)
      else if (op =? 12)%N then RVal (VInt (Z.land x y)) s
      else RErr XUnsupported s
  | VInt _, VGoNil => RErr XPanic s
  | VInt _, _ => RErr XType s
  | VStr x, VStr y => if (op =? 1)%N then RVal (VStr (x ++ y)) s else RErr XType s
  | VStr _, VGoNil => RErr XPanic s
  | VStr _, _ => RErr XType s
  | VList x, VList y =>
      if (op =? 1)%N then let '(v, s') := new_list s (nth x (lists s) [] ++ nth y (lists s) []) in RVal v s'
      else RErr XType s
  | VList _, VGoNil => RErr XPanic s
  | VList _, _ => RErr XType s
  | (VNil | VBool _ | VMap _ | VFunc _ _ _ _ _ | VBuiltin _ | VMethod _ _ | VPartial _ _ | VCell _ _ | VIter _), _ => RErr XType s
  | VGoNil, _ => RErr XPanic s
  end.

Definition compare_op (s : mstate) (op : N) (a b : value) : res :=
  if is_gonil a then RErr XPanic s else
  if (op =? 3)%N || (op =? 4)%N then
    (* Equals: the receiver's method; a Go-nil argument is dereferenced by other.Type() in most types *)
    match a, b with
    | (VNil | VBool _ | VStr _ | VList _ | VMap _), VGoNil => RErr XPanic s
    | VInt _, VGoNil => RVal (VBool (op =? 4)%N) s        (* type switch on a nil interface: no case matches *)
    | (VFunc _ _ _ _ _ | VBuiltin _ | VMethod _ _ | VPartial _ _ | VCell _ _ | VIter _), _ => RErr XUnsupported s
    | _, (VFunc _ _ _ _ _ | VBuiltin _ | VMethod _ _ | VPartial _ _ | VCell _ _ | VIter _) => RVal (VBool (op =? 4)%N) s
    | _, _ => let e := veq 200 s a b in RVal (VBool (if (op =? 3)%N then e else negb e)) s
    end
  else
    let r (c : comparison) :=
        RVal (VBool (if (op =? 1)%N then match c with Lt => true | _ => false end
                     else if (op =? 2)%N then match c with Gt => false | _ => true end
                     else if (op =? 5)%N then match c with Gt => true | _ => false end
                     else match c with Lt => false | _ => true end)) s in
    match a, b with
    | _, VGoNil => RErr XPanic s
    | VInt x, VInt y => r (x ?= y)
    | VStr x, VStr y => r (str_cmp x y)
    | VBool x, VBool y => r (match x, y with true, false => Gt | false, true => Lt | _, _ => Eq end)
    | VNil, VNil => r Eq
    | VList _, VList _ => RErr XUnsupported s
    | (VInt _ | VStr _ | VBool _ | VNil | VList _), _ => RErr XType s
    | _, _ => RErr XType s     (* not Comparable *)
    end.

Definition len_of (s : mstate) (v : value) : option Z :=
  match v with
  | VList l => Some (Z.of_nat (length (nth l (lists s) [])))
  | VMap l => Some (Z.of_nat (length (nth l (maps s) [])))
  | VStr t => if all_ascii t then Some (Z.of_nat (length t)) else None
  | _ => None
  end.

Definition is_container (v : value) : bool := match v with VList _ | VMap _ | VStr _ => true | _ => false end.

Definition get_item (s : mstate) (c k : value) : res :=
  match c with
  | VList l =>
      match k with
      | VInt i => let items := nth l (lists s) [] in
                  match resolve_index i (Z.of_nat (length items)) with
                  | Some j => RVal (nth (Z.to_nat j) items VNil) s | None => RErr XIndex s end
      | VGoNil => RErr XPanic s
      | _ => RErr XType s
      end
  | VMap l =>
      match k with
      | VStr k' => match assoc k' (nth l (maps s) []) with Some v => RVal v s | None => RErr XKey s end
      | VGoNil => RErr XPanic s
      | _ => RErr XType s
      end
  | VStr t =>
      match k with
      | VInt i => if negb (all_ascii t) then RErr XUnsupported s else
                  match resolve_index i (Z.of_nat (length t)) with
                  | Some j => RVal (VStr [nth (Z.to_nat j) t 0%N]) s | None => RErr XIndex s end
      | VGoNil => RErr XPanic s
      | _ => RErr XType s
      end
  | VGoNil => RErr XPanic s
  | _ => RErr XType s
  end.

(* iterator Next: (advanced?, state) ; then the entry (key, value) *)
Definition iter_next (s : mstate) (i : nat) : option (option (value * value) * mstate) :=
  match nth_error (iters s) i with
  | None => None
  | Some it =>
      let put (it' : iter) := upd_iters s (lset (iters s) i it') in
      match it_kind it with
      | ItList l =>
          let items := nth l (lists s) [] in
          if it_pos it >=? Z.of_nat (length items) - 1 then Some (None, put {| it_kind := it_kind it; it_pos := it_pos it; it_cur := None; it_done := it_done it |})
          else let p := it_pos it + 1 in
               let v := nth (Z.to_nat p) items VNil in
               Some (Some (VInt p, v), put {| it_kind := it_kind it; it_pos := p; it_cur := Some v; it_done := false |})
      | ItMap m keys =>
          if it_pos it >=? Z.of_nat (length keys) - 1 then Some (None, put {| it_kind := it_kind it; it_pos := it_pos it; it_cur := None; it_done := it_done it |})
          else let p := it_pos it + 1 in
               let k := nth (Z.to_nat p) keys [] in
               match assoc k (nth m (maps s) []) with
               | Some v => Some (Some (VStr k, v), put {| it_kind := it_kind it; it_pos := p; it_cur := Some (VStr k); it_done := false |})
               | None => None       (* Entry() returns nil: dereferenced by ForIter *)
               end
      | ItInt target =>
          if it_done it then Some (None, s) else
          let abs := Z.abs target in
          if it_pos it >=? abs - 1 then Some (None, put {| it_kind := it_kind it; it_pos := it_pos it; it_cur := it_cur it; it_done := true |})
          else let p := it_pos it + 1 in
               let v := VInt (if target <? 0 then - p else p) in
               Some (Some (VInt p, v), put {| it_kind := it_kind it; it_pos := p; it_cur := Some v; it_done := false |})
      | ItStr rs =>
          if it_pos it >=? Z.of_nat (length rs) - 1 then Some (None, put {| it_kind := it_kind it; it_pos := it_pos it; it_cur := None; it_done := it_done it |})
          else let p := it_pos it + 1 in
               let v := VStr [nth (Z.to_nat p) rs 0%N] in
               Some (Some (VInt p, v), put {| it_kind := it_kind it; it_pos := p; it_cur := Some v; it_done := false |})
      end
  end.

Definition make_iter (s : mstate) (v : value) : option (value * mstate) :=
  match v with
  | VList l => Some (new_iter s (ItList l))
  | VMap m => Some (new_iter s (ItMap m (map fst (nth m (maps s) []))))
  | VInt n => Some (new_iter s (ItInt n))
  | VStr t => if all_ascii t then Some (new_iter s (ItStr t)) else None
  | _ => None
  end.

Definition names_len := [108;101;110]%N.
Definition names_print := [112;114;105;110;116]%N.
Definition names_append := [97;112;112;101;110;100]%N.

Definition code_instr (c : code) : list N := match c with Code _ _ _ _ i _ _ _ _ => i end.
Definition code_consts (c : code) : list konst := match c with Code _ _ _ _ _ k _ _ _ => k end.
Definition code_names (c : code) : list (list N) := match c with Code _ _ _ _ _ _ n _ _ => n end.
Definition code_named (c : code) : bool := match c with Code _ _ nm _ _ _ _ _ _ => nm end.
Definition code_table (c : code) : nat := match c with Code _ _ _ t _ _ _ _ _ => t end.

Definition const_value (k : konst) : value :=
  match k with
  | KInt z => VInt z | KFloat _ => VGoNil | KStr s => VStr s
  | KFn _ name params defaults c => VFunc name params defaults c []
  end.
Definition dflt_value (d : dflt) : value :=
  match d with DNil => VGoNil | DInt z => VInt z | DFloat _ => VGoNil | DStr s => VStr s | DBool b => VBool b end.

Definition MAXSTACK := 1024%nat.
Definition MAXFRAMES := 1024%nat.

Close Scope Z_scope.
Open Scope nat_scope.

Section Exec.
  Variable tabs : list table.

  Definition locals_count (c : code) : nat := length (tb_syms (nth (code_table c) tabs dummy_table)).

  (* exec: run the code of one frame.  [stack] is this frame's part of the operand stack (top first),
     [below] the number of slots under it, [frames] the locals arrays of the dynamic frame stack
     (current first), [free] the closure's cells, [defers] the frame's deferred partials. *)
  Fixpoint exec (fuel : nat) (c : code) (ip : nat) (stack : list value) (below : nat)
           (frames : list nat) (free : list (nat * nat)) (defers : list value) (is_main : bool) (s : mstate)
           {struct fuel} : res * list value :=
    match fuel with
    | O => (RErr XFuel s, defers)
    | S f =>
      let exec := exec f in
      (* callObject *)
      let call_value := fix cv (pf : nat) (fv : value) (args : list value) (below' : nat) (s : mstate) : res :=
          match pf with
          | O => RErr XFuel s
          | S pf' =>
            match fv with
            | VFunc name params defaults fc cells =>
                let np := length params in
                let ndef := length (filter (fun d => match d with DNil => false | _ => true end) defaults) in
                let argc := length args in
                if (np <? argc)%nat || (argc <? np - ndef)%nat then RErr XArgs s else
                if (MAXFRAMES <=? S (length frames))%nat then RErr XPanic s else
                let filled := args ++ skipn argc (map dflt_value defaults) in
                let filled := firstn np (filled ++ repeat VGoNil np) in
                let withself := if code_named fc then filled ++ [fv] else filled in
                let lc := locals_count fc in
                let locals := firstn (Nat.max lc (length withself)) (withself ++ repeat VGoNil lc) in
                let '(arr, s1) := new_array s locals in
                match exec fc 0%nat [] below' (arr :: frames) cells [] false s1 with
                | (r, dfs) =>
                    (* deferred partials, most recent first *)
                    (fix rd (l : list value) (r : res) : res :=
                       match l with
                       | [] => r
                       | VPartial pfn pargs :: rest =>
                           let s' := match r with RVal _ s' | RErr _ s' => s' end in
                           match cv pf' pfn pargs below' s' with
                           | RVal _ s'' => rd rest (match r with RVal v _ => RVal v s'' | RErr e _ => RErr e s'' end)
                           | RErr e s'' => rd rest (RErr e s'')
                           end
                       | _ :: rest => rd rest r
                       end) dfs r
                end
            | VBuiltin nm =>
                if beq nm names_len then
                  match args with
                  | [v] => match len_of s v with
                           | Some z => RVal (VInt z) s
                           | None => match v with VGoNil => RErr XPanic s | VStr _ => RErr XUnsupported s | _ => RErr XType s end
                           end
                  | _ => RErr XArgs s
                  end
                else if beq nm names_print then RVal VNil (upd_trace s (trace s ++ [args]))
                else RErr XUnsupported s
            | VMethod l nm =>
                if beq nm names_append then
                  match args with
                  | [v] => RVal (VList l) (upd_lists s (lset (lists s) l (nth l (lists s) [] ++ [v])))
                  | _ => RErr XArgs s
                  end
                else RErr XUnsupported s
            | VPartial pfn pargs =>
                if (256 <? length args + length pargs)%nat then RErr XEval s
                else cv pf' pfn (args ++ pargs) below' s
            | VGoNil => RErr XPanic s
            | _ => RErr XNotCallable s
            end
          end in
      let instr := code_instr c in
      match nth_error instr ip with
      | None =>
          (* end of code *)
          (match stack with v :: _ => RVal v s | [] => RVal VNil s end, defers)
      | Some opc =>
          let operand (k : nat) : nat := N.to_nat (nth (ip + k) instr 0%N) in
          let height := (below + length stack)%nat in
          let push (v : value) (ip' : nat) : res * list value :=
              if (MAXSTACK <=? height)%nat then (RErr XPanic s, defers) else exec c ip' (v :: stack) below frames free defers is_main s in
          let push_s (v : value) (ip' : nat) (st : list value) (s' : mstate) : res * list value :=
              if (MAXSTACK <=? below + length st)%nat then (RErr XPanic s', defers) else exec c ip' (v :: st) below frames free defers is_main s' in
          let cont (ip' : nat) (st : list value) (s' : mstate) : res * list value := exec c ip' st below frames free defers is_main s' in
          let underflow : res * list value := (RErr XPanic s, defers) in
          let cur_arr := match frames with a :: _ => a | [] => 0%nat end in
          match opc with
          | 1%N => cont (S ip) stack s
          | 80%N => push VNil (S ip)
          | 81%N => push (VBool false) (S ip)
          | 82%N => push (VBool true) (S ip)
          | 24%N => push (const_value (nth (operand 1) (code_consts c) (KInt 0))) (ip + 2)
          | 21%N => push (nth (operand 1) (nth cur_arr (arrays s) []) VGoNil) (ip + 2)
          | 23%N =>
              (* a declared global that no code has assigned yet is an eval error (only reachable incrementally) *)
              match nth (operand 1) (globals s) VGoNil with
              | VGoNil => (RErr XEval s, defers)
              | gv => push gv (ip + 2)
              end
          | 22%N =>
              match nth_error free (operand 1) with
              | Some (a, i) => push (nth i (nth a (arrays s) []) VGoNil) (ip + 2)
              | None => (RErr XPanic s, defers)
              end
          | 31%N =>
              match stack with
              | v :: st => cont (ip + 2) st (upd_arrays s (lset (arrays s) cur_arr (lset (nth cur_arr (arrays s) []) (operand 1) v)))
              | [] => underflow end
          | 33%N =>
              match stack with
              | v :: st => cont (ip + 2) st (upd_globals s (lset (globals s) (operand 1) v))
              | [] => underflow end
          | 32%N =>
              match stack, nth_error free (operand 1) with
              | v :: st, Some (a, i) => cont (ip + 2) st (upd_arrays s (lset (arrays s) a (lset (nth a (arrays s) []) i v)))
              | _, _ => underflow end
          | 72%N => match stack with _ :: st => cont (S ip) st s | [] => underflow end
          | 71%N =>
              match nth_error stack (operand 1) with
              | Some v => push v (ip + 2)
              | None => underflow end
          | 70%N =>
              match stack with
              | tos :: st =>
                  let k := operand 1 in
                  match k with
                  | O => cont (ip + 2) stack s
                  | S k' => match nth_error st k' with
                            | Some other => cont (ip + 2) (other :: lset st k' tos) s
                            | None => underflow end
                  end
              | [] => underflow end
          | 40%N =>
              match stack with
              | b :: a :: st =>
                  match binary_op s (N.of_nat (operand 1)) a b with
                  | RVal v s' => push_s v (ip + 2) st s'
                  | RErr e s' => (RErr e s', defers)
                  end
              | _ => underflow end
          | 41%N =>
              match stack with
              | b :: a :: st =>
                  match compare_op s (N.of_nat (operand 1)) a b with
                  | RVal v s' => push_s v (ip + 2) st s'
                  | RErr e s' => (RErr e s', defers)
                  end
              | _ => underflow end
          | 42%N =>
              match stack with
              | VInt z :: st => push_s (VInt (wrap64 (- z)%Z)) (S ip) st s
              | VGoNil :: _ => (RErr XPanic s, defers)
              | _ :: _ => (RErr XType s, defers)
              | [] => underflow end
          | 43%N =>
              match stack with
              | v :: st => match truthy s v with
                           | Some b => push_s (VBool (negb b)) (S ip) st s
                           | None => (RErr XPanic s, defers) end
              | [] => underflow end
          | 12%N | 13%N =>
              match stack with
              | v :: st =>
                  match truthy s v with
                  | None => (RErr XPanic s, defers)
                  | Some b =>
                      let jump := if (opc =? 12)%N then negb b else b in
                      cont (if jump then ip + operand 1 else ip + 2)%nat st s
                  end
              | [] => underflow end
          | 11%N => cont (ip + operand 1)%nat stack s
          | 10%N => cont (ip - operand 1)%nat stack s
          | 50%N =>
              let n := operand 1 in
              if (length stack <? n)%nat then underflow else
              let '(v, s') := new_list s (rev (firstn n stack)) in
              push_s v (ip + 2) (skipn n stack) s'
          | 51%N =>
              let n := operand 1 in
              if (length stack <? 2 * n)%nat then underflow else
              (* pairs were pushed k1 v1 k2 v2 …; popping inserts the LAST pair first, so earlier pairs overwrite *)
              let items := firstn (2 * n) stack in
              let pairs := (fix pr (l : list value) : option (list (list N * value)) :=
                              match l with
                              | [] => Some []
                              | v :: VStr k :: r => match pr r with Some ps => Some ((k, v) :: ps) | None => None end
                              | _ => None
                              end) items in
              match pairs with
              | None => (RErr XPanic s, defers)
              | Some ps =>
                  let m := fold_left (fun acc kv => map_insert (fst kv) (snd kv) acc) ps [] in
                  let '(v, s') := new_map s m in
                  push_s v (ip + 2) (skipn (2 * n) stack) s'
              end
          | 60%N =>
              match stack with
              | k :: cval :: st =>
                  match get_item s cval k with
                  | RVal v s' => push_s v (S ip) st s'
                  | RErr e s' => (RErr e s', defers)
                  end
              | _ => underflow end
          | 61%N =>
              match stack with
              | k :: cval :: v :: st =>
                  match cval, k with
                  | VList l, VInt i =>
                      let items := nth l (lists s) [] in
                      match resolve_index i (Z.of_nat (length items)) with
                      | Some j => cont (S ip) st (upd_lists s (lset (lists s) l (lset items (Z.to_nat j) v)))
                      | None => (RErr XIndex s, defers) end
                  | VMap m, VStr kk => cont (S ip) st (upd_maps s (lset (maps s) m (map_insert kk v (nth m (maps s) []))))
                  | VGoNil, _ | _, VGoNil => (RErr XPanic s, defers)
                  | (VList _ | VMap _), _ => (RErr XType s, defers)
                  | VStr _, _ => (RErr XType s, defers)
                  | _, _ => (RErr XType s, defers)
                  end
              | _ => underflow end
          | 62%N =>
              match stack with
              | x :: cval :: st =>
                  match cval with
                  | VList l => if is_gonil x then (RErr XPanic s, defers) else
                               push_s (VBool (existsb (fun y => veq 200 s y x) (nth l (lists s) []))) (ip + 2) st s
                  | VMap m => push_s (VBool (match x with VStr k => match assoc k (nth m (maps s) []) with Some _ => true | None => false end | _ => false end)) (ip + 2) st s
                  | VStr _ => (RErr XUnsupported s, defers)
                  | VGoNil => (RErr XPanic s, defers)
                  | _ => (RErr XType s, defers)
                  end
              | _ => underflow end
          | 63%N =>
              match stack with
              | v :: st => match len_of s v with
                           | Some z => push_s (VInt z) (S ip) st s
                           | None => (match v with VGoNil => RErr XPanic s | VStr _ => RErr XUnsupported s | _ => RErr XType s end, defers) end
              | [] => underflow end
          | 64%N =>
              match stack with
              | start :: stop :: cval :: st =>
                  if negb (is_container cval) then ((if is_gonil cval then RErr XPanic s else RErr XType s), defers) else
                  match len_of s cval with
                  | None => (RErr XUnsupported s, defers)
                  | Some size =>
                      match start, stop with
                      | VInt a, VInt b =>
                          match cval with
                          | VMap _ => (RErr XType s, defers)
                          | _ =>
                            match resolve_slice a b size with
                            | None => (RErr XSlice s, defers)
                            | Some (sa, sb) =>
                                match cval with
                                | VList l => let '(v, s') := new_list s (firstn (Z.to_nat (sb - sa)%Z) (skipn (Z.to_nat sa) (nth l (lists s) []))) in
                                             push_s v (S ip) st s'
                                | VStr t => push_s (VStr (firstn (Z.to_nat (sb - sa)%Z) (skipn (Z.to_nat sa) t))) (S ip) st s
                                | _ => (RErr XType s, defers)
                                end
                            end
                          end
                      | VGoNil, _ | _, VGoNil => (RErr XPanic s, defers)
                      | _, _ => (match cval with VMap _ => RErr XType s | _ => RErr XType s end, defers)
                      end
                  end
              | _ => underflow end
          | 65%N =>
              match stack with
              | cval :: st =>
                  match cval with
                  | VList l =>
                      let items := nth l (lists s) [] in
                      if negb (Nat.eqb (length items) (operand 1)) then (RErr XUnpack s, defers)
                      else if (MAXSTACK <? below + length st + length items)%nat then (RErr XPanic s, defers)
                      else cont (ip + 2) (rev items ++ st) s
                  | VGoNil => (RErr XPanic s, defers)
                  | VMap _ | VStr _ => (RErr XUnsupported s, defers)
                  | _ => (RErr XType s, defers)
                  end
              | [] => underflow end
          | 91%N | 92%N =>
              match stack with
              | v :: st =>
                  match v with
                  | VIter _ => if (opc =? 91)%N then cont (S ip) stack s else (RErr XType s, defers)
                  | VGoNil => (RErr XPanic s, defers)
                  | _ => match make_iter s v with
                         | Some (itv, s') => push_s itv (S ip) st s'
                         | None => (match v with VStr _ => RErr XUnsupported s | _ => RErr XType s end, defers)
                         end
                  end
              | [] => underflow end
          | 90%N =>
              match stack with
              | VIter i :: st =>
                  match iter_next s i with
                  | None => (RErr XPanic s, defers)
                  | Some (None, s') => cont (ip + operand 1)%nat st s'
                  | Some (Some (k, v), s') =>
                      let nc := operand 2 in
                      let pushed := match nc with
                                    | 1%nat => Some [k; VIter i]
                                    | 2%nat => Some [k; v; VIter i]
                                    | 3%nat => Some [v; VIter i]
                                    | 0%nat => Some [VIter i]
                                    | _ => None end in
                      match pushed with
                      | None => (RErr XEval s', defers)
                      | Some p => if (MAXSTACK <? below + length st + length p)%nat then (RErr XPanic s', defers)
                                  else cont (ip + 3) (p ++ st) s'
                      end
                  end
              | _ :: _ => (RErr XPanic s, defers)          (* vm.pop().(object.Iterator) on a non-iterator *)
              | [] => underflow end
          | 20%N =>
              match stack with
              | v :: st =>
                  let nm := nth (operand 1) (code_names c) [] in
                  match v with
                  | VList l => if beq nm names_append then push_s (VMethod l nm) (ip + 2) st s else (RErr XUnsupported s, defers)
                  | VGoNil => (RErr XPanic s, defers)
                  | VNil | VBool _ | VInt _ => (RErr XAttr s, defers)
                  | _ => (RErr XUnsupported s, defers)
                  end
              | [] => underflow end
          | 3%N =>
              let argc := operand 1 in
              if (length stack <? S argc)%nat then underflow else
              let args := rev (firstn argc stack) in
              let fv := nth argc stack VGoNil in
              let st := skipn (S argc) stack in
              match call_value f fv args (below + length st)%nat s with
              | RVal v s' => push_s v (ip + 2) st s'
              | RErr e s' => (RErr e s', defers)
              end
          | 130%N =>
              let argc := operand 1 in
              if (length stack <? S argc)%nat then underflow else
              push_s (VPartial (nth argc stack VGoNil) (rev (firstn argc stack))) (ip + 2) (skipn (S argc) stack) s
          | 4%N =>
              (match stack with v :: _ => RVal v s | [] => RVal VGoNil s end, defers)
          | 5%N =>
              match stack with
              | (VPartial _ _ as p) :: st => exec c (S ip) st below frames free (p :: defers) is_main s
              | VGoNil :: _ => (RErr XPanic s, defers)
              | _ :: _ => (RErr XType s, defers)
              | [] => underflow end
          | 121%N =>
              let back := operand 2 in
              match nth_error frames back with
              | Some a => push (VCell a (operand 1)) (ip + 3)
              | None => (RErr XEval s, defers)
              end
          | 122%N =>
              match nth_error free (operand 1) with
              | Some (a, i) => push (VCell a i) (ip + 2)
              | None => (RErr XPanic s, defers)
              end
          | 120%N =>
              let n := operand 2 in
              if (length stack <? n)%nat then underflow else
              let cells := rev (firstn n stack) in
              let cs := (fix cc (l : list value) : option (list (nat * nat)) :=
                           match l with
                           | [] => Some []
                           | VCell a i :: r => match cc r with Some x => Some ((a, i) :: x) | None => None end
                           | _ => None end) cells in
              match cs, const_value (nth (operand 1) (code_consts c) (KInt 0)) with
              | Some cl, VFunc nm ps ds fc _ => push_s (VFunc nm ps ds fc cl) (ip + 3) (skipn n stack) s
              | None, _ => (RErr XEval s, defers)
              | _, _ => (RErr XPanic s, defers)
              end
          | _ => (RErr XUnsupported s, defers)
          end
      end
    end.
End Exec.

Definition run (fuel : nat) (c : code) (tabs : list table) (nglobals : nat) (builtins : list value) : res :=
  let s0 := {| lists := []; maps := []; arrays := [repeat VGoNil nglobals]; iters := [];
               globals := builtins ++ repeat VGoNil (nglobals - length builtins); trace := [] |} in
  fst (exec tabs fuel c 0%nat [] 0%nat [0%nat] [] [] true s0).
