(* C19, part 2: the codecs of builtins/codecs.go and modules/json.

   - equality used for codecs [veq]: numbers as exact rationals, strings/bytes by content,
     containers structurally;
   - the byte codecs (base64, base32, hex, gzip, urlquery) as glue around an encoder/decoder pair
     (parameters; hex is implemented here);
   - JSON at tree level: the two ways risor turns an object into JSON (Interface() + json.Marshal
     for the codec, the MarshalJSON methods for json.marshal) and the way back (json.Unmarshal into
     interface{} + object.FromGoType: every number becomes a float64).
   Definitions only; proofs live in proofs/CodecsProofs.v. *)
From Coq Require Import List Bool ZArith NArith.
Require Import RV.model.Wrappers.
Import ListNotations.
Open Scope N_scope.

(* ------------------------------------------------------------------ equality of values *)
Fixpoint bytes_eqb (a b : bytes) : bool :=
  match a, b with
  | [], [] => true
  | x :: a', y :: b' => (x =? y) && bytes_eqb a' b'
  | _, _ => false
  end.

Definition num_of (o : obj) : option f64 + Z :=
  match o with
  | OInt z => inr z
  | OByte n => inr (Z.of_N n)
  | OFloat f => inl (Some f)
  | _ => inl None
  end.

Definition num_eqb (a b : option f64 + Z) : bool :=
  match a, b with
  | inr x, inr y => (x =? y)%Z
  | inr x, inl (Some f) | inl (Some f), inr x =>
      match f64_to_z f with Some y => (x =? y)%Z | None => false end
  | inl (Some f), inl (Some g) => f64_eqb f g
  | _, _ => false
  end.

Definition content (o : obj) : option bytes :=
  match o with
  | OString s | OBytes s | OBuffer s => Some s
  | _ => None
  end.

Fixpoint veq (a b : obj) : bool :=
  match a, b with
  | ONil, ONil => true
  | OBool x, OBool y => Bool.eqb x y
  | (OInt _ | OByte _ | OFloat _), _ => num_eqb (num_of a) (num_of b)
  | (OString s | OBytes s | OBuffer s), _ =>
      match content b with Some t => bytes_eqb s t | None => false end
  | OList l, OList m =>
      (fix go (l m : list obj) : bool :=
         match l, m with
         | [], [] => true
         | x :: l', y :: m' => veq x y && go l' m'
         | _, _ => false
         end) l m
  | OMap kv, OMap kv' =>
      (fix go (l m : list (bytes * obj)) : bool :=
         match l, m with
         | [], [] => true
         | (k, x) :: l', (k', y) :: m' => bytes_eqb k k' && veq x y && go l' m'
         | _, _ => false
         end) kv kv'
  | _, _ => false
  end.

(* ------------------------------------------------------------------ byte codecs *)
Record cshape := {
  cs_in : conv;        (* conversion of the argument of encode and of decode *)
  cs_mid : retk;       (* constructor of the encoded form *)
  cs_out : retk;       (* constructor of the decoded form *)
  cs_len : option (nat -> nat)
                       (* decode's own check after the Go decoder succeeded: the input, CR/LF removed,
                          must be as long as the encoding of what was decoded (base32, risor 53b0cbd:
                          encoding/base32 ignores what follows the padding of the last group) *)
}.

Definition strip_nl (s : bytes) : bytes :=
  filter (fun c => negb ((c =? 10) || (c =? 13))) s.

(* base32.StdEncoding.EncodedLen *)
Definition b32_encoded_len (n : nat) : nat := ((n + 4) / 5 * 8)%nat.

Definition content_of (g : gval) : bytes :=
  match g with GStr s | GBytes s => s | _ => [] end.

Definition mk_content (k : retk) (s : bytes) : obj :=
  match k with RString => OString s | _ => OBytes s end.

Section Codec.
  Variable enc : bytes -> bytes.
  Variable dec : bytes -> bytes + bytes.     (* inr: the error of the Go decoder, as a token *)

  Definition codec_encode (cs : cshape) (v : obj) : obj :=
    match convert (cs_in cs) v with
    | Err e => OErr e
    | Ok g => mk_content (cs_mid cs) (enc (content_of g))
    end.

  Definition codec_decode (cs : cshape) (v : obj) : obj :=
    match convert (cs_in cs) v with
    | Err e => OErr e
    | Ok g => match dec (content_of g) with
              | inl b =>
                  match cs_len cs with
                  | Some f =>
                      if Nat.eqb (f (length b)) (length (strip_nl (content_of g)))
                      then mk_content (cs_out cs) b else OErr EValue
                  | None => mk_content (cs_out cs) b
                  end
              | inr t => OErr (EGo t)
              end
    end.
End Codec.

Definition cs_base64 := {| cs_in := CBytes; cs_mid := RString; cs_out := RBytes; cs_len := None |}.
Definition cs_base32 :=
  {| cs_in := CBytes; cs_mid := RString; cs_out := RBytes; cs_len := Some b32_encoded_len |}.
Definition cs_hex := cs_base64.
Definition cs_gzip := {| cs_in := CBytes; cs_mid := RBytes; cs_out := RBytes; cs_len := None |}.
Definition cs_urlquery := {| cs_in := CString; cs_mid := RString; cs_out := RString; cs_len := None |}.

(* ------------------------------------------------------------------ hex (encoding/hex) *)
Definition hex_digit (d : N) : N := if d <? 10 then 48 + d else 87 + d.

Definition hex_encode (b : bytes) : bytes :=
  flat_map (fun c => [hex_digit (c / 16); hex_digit (c mod 16)]) b.

Definition hex_val (c : N) : option N :=
  if (48 <=? c) && (c <=? 57) then Some (c - 48)
  else if (97 <=? c) && (c <=? 102) then Some (c - 87)
  else if (65 <=? c) && (c <=? 70) then Some (c - 55)
  else None.

Inductive hex_err :=
| HexInvalid (c : N)     (* encoding/hex: invalid byte *)
| HexLength.             (* encoding/hex: odd length hex string *)

(* hex.Decode: pairs left to right; an odd tail is checked for validity before its length *)
Fixpoint hex_decode (s : bytes) : bytes + hex_err :=
  match s with
  | [] => inl []
  | [p] => match hex_val p with None => inr (HexInvalid p) | Some _ => inr HexLength end
  | p :: q :: r =>
      match hex_val p with
      | None => inr (HexInvalid p)
      | Some a =>
          match hex_val q with
          | None => inr (HexInvalid q)
          | Some b =>
              match hex_decode r with
              | inl t => inl (16 * a + b :: t)
              | inr e => inr e
              end
          end
      end
  end.

Definition hex_err_token (e : hex_err) : bytes :=
  match e with HexInvalid c => [1; c] | HexLength => [2] end.

Definition hex_dec (s : bytes) : bytes + bytes :=
  match hex_decode s with inl b => inl b | inr e => inr (hex_err_token e) end.

Definition is_hex (c : N) : bool := match hex_val c with Some _ => true | None => false end.
Definition bytes_ok (b : bytes) : Prop := Forall (fun c => c < 256) b.

(* ------------------------------------------------------------------ base64 (encoder only; used for []byte inside JSON) *)
Definition b64_char (n : N) : N :=
  if n <? 26 then 65 + n else if n <? 52 then 71 + n else if n <? 62 then n - 4
  else if n =? 62 then 43 else 47.

Fixpoint b64_encode (s : bytes) : bytes :=
  match s with
  | [] => []
  | [a] => [b64_char (a / 4); b64_char ((a mod 4) * 16); 61; 61]
  | [a; b] => [b64_char (a / 4); b64_char ((a mod 4) * 16 + b / 16); b64_char ((b mod 16) * 4); 61]
  | a :: b :: c :: r =>
      b64_char (a / 4) :: b64_char ((a mod 4) * 16 + b / 16)
      :: b64_char ((b mod 16) * 4 + c / 64) :: b64_char (c mod 64) :: b64_encode r
  end.

(* ------------------------------------------------------------------ UTF-8 as encoding/json sees it
   width of the valid UTF-8 sequence at the head of s, 0 when the first byte does not start one
   (unicode/utf8 DecodeRune: RuneError, width 1) *)
Definition is_cont (c : N) : bool := (128 <=? c) && (c <=? 191).

Definition utf8_width (s : bytes) : nat :=
  match s with
  | [] => 0%nat
  | c :: r =>
      if c <? 128 then 1%nat
      else if (194 <=? c) && (c <=? 223) then
        match r with c1 :: _ => if is_cont c1 then 2%nat else 0%nat | _ => 0%nat end
      else if (224 <=? c) && (c <=? 239) then
        match r with
        | c1 :: c2 :: _ =>
            let lo := if c =? 224 then 160 else 128 in
            let hi := if c =? 237 then 159 else 191 in
            if (lo <=? c1) && (c1 <=? hi) && is_cont c2 then 3%nat else 0%nat
        | _ => 0%nat
        end
      else if (240 <=? c) && (c <=? 244) then
        match r with
        | c1 :: c2 :: c3 :: _ =>
            let lo := if c =? 240 then 144 else 128 in
            let hi := if c =? 244 then 143 else 191 in
            if (lo <=? c1) && (c1 <=? hi) && is_cont c2 && is_cont c3 then 4%nat else 0%nat
        | _ => 0%nat
        end
      else 0%nat
  end.

(* json.Marshal writes U+FFFD for every byte that does not start a valid sequence *)
Fixpoint utf8_fix_f (fuel : nat) (s : bytes) : bytes :=
  match fuel with
  | O => []
  | S f =>
      match s with
      | [] => []
      | c :: r =>
          match utf8_width s with
          | O => 239 :: 191 :: 189 :: utf8_fix_f f r
          | w => firstn w s ++ utf8_fix_f f (skipn w s)
          end
      end
  end.
Definition utf8_fix (s : bytes) : bytes := utf8_fix_f (length s) s.

Fixpoint utf8_valid_f (fuel : nat) (s : bytes) : bool :=
  match s with
  | [] => true
  | _ :: _ =>
      match fuel with
      | O => false
      | S f =>
          match utf8_width s with
          | O => false
          | w => utf8_valid_f f (skipn w s)
          end
      end
  end.
Definition utf8_valid (s : bytes) : bool := utf8_valid_f (length s) s.

(* ------------------------------------------------------------------ JSON trees *)
Inductive jnum :=
| JInt (z : Z)           (* integer literal *)
| JFloat (f : f64).      (* the shortest decimal that strconv parses back to f *)

Inductive jv :=
| JNull
| JBool (b : bool)
| JNum (n : jnum)
| JStr (s : bytes)
| JArr (l : list jv)
| JObj (kv : list (bytes * jv)).

Definition f64_finite (f : f64) : bool := match f with FFin _ _ _ => true | _ => false end.

Fixpoint all_some {A} (l : list (option A)) : option (list A) :=
  match l with
  | [] => Some []
  | None :: _ => None
  | Some x :: r => match all_some r with Some t => Some (x :: t) | None => None end
  end.

(* the codec: json.Marshal(obj.Interface()).  [by_method = false]
   json.marshal: json.Marshal(obj), which uses the MarshalJSON methods.  [by_method = true]
   None = the encoder reports an error (NaN, infinities) or the type is outside this model *)
Fixpoint to_jv (by_method : bool) (o : obj) : option jv :=
  match o with
  | ONil => Some JNull
  | OBool b => Some (JBool b)
  | OInt z => Some (JNum (JInt z))
  | OByte n => Some (JNum (JInt (Z.of_N n)))
  | OFloat f => if f64_finite f then Some (JNum (JFloat f)) else None
  | OString s => Some (JStr (utf8_fix s))
  | OBytes s => Some (JStr (if by_method then utf8_fix s else b64_encode s))
  | OList l =>
      match all_some (map (to_jv by_method) l) with Some t => Some (JArr t) | None => None end
  | OMap kv =>
      match all_some (map (fun p => match to_jv by_method (snd p) with
                                    | Some j => Some (utf8_fix (fst p), j)
                                    | None => None
                                    end) kv) with
      | Some t => Some (JObj t)
      | None => None
      end
  | _ => None
  end.

(* encodeJSON: json.Marshal(obj.Interface()); nil is encoded as null (risor 151e447) *)
Definition json_encode (o : obj) : option jv := to_jv false o.
Definition json_marshal (o : obj) : option jv := to_jv true o.

(* json.Unmarshal into interface{} followed by object.FromGoType *)
Fixpoint of_jv (j : jv) : obj :=
  match j with
  | JNull => ONil
  | JBool b => OBool b
  | JNum (JInt z) => OFloat (z_to_f64 z)
  | JNum (JFloat f) => OFloat f
  | JStr s => OString s
  | JArr l => OList (map of_jv l)
  | JObj kv => OMap (map (fun p => (fst p, of_jv (snd p))) kv)
  end.

Definition json_roundtrip (o : obj) : option obj :=
  match json_encode o with Some j => Some (of_jv j) | None => None end.

(* the two decoders: glue around the same parser *)
Section JsonDecode.
  Variable parse : bytes -> option jv.
  Definition json_decode (v : obj) : obj :=       (* builtins/codecs.go decodeJSON *)
    match as_bytes v with
    | Err e => OErr e
    | Ok g => match parse (content_of g) with Some j => of_jv j | None => OErr (EGo []) end
    end.
  Definition json_unmarshal (v : obj) : obj :=    (* modules/json Unmarshal *)
    match as_bytes v with
    | Err e => OErr e
    | Ok g => match parse (content_of g) with Some j => of_jv j | None => OErr EValue end
    end.
End JsonDecode.

(* errors compare by being errors *)
Definition err_blind (o : obj) : obj := match o with OErr _ => OErr EValue | _ => o end.

(* ------------------------------------------------------------------ the JSON domain *)
Definition int_exact (z : Z) : bool := (Z.abs z <=? 2 ^ 53)%Z.

(* values JSON can carry: nil, bool, numbers (finite), strings, lists, maps with string keys *)
Fixpoint json_dom (o : obj) : bool :=
  match o with
  | ONil | OBool _ | OInt _ | OByte _ => true
  | OFloat f => f64_finite f
  | OString _ => true
  | OList l => forallb json_dom l
  | OMap kv => forallb (fun p => json_dom (snd p)) kv
  | _ => false
  end.

(* ... and the part of it that survives the trip: integers of magnitude <= 2^53, valid UTF-8 *)
Fixpoint json_safe (o : obj) : bool :=
  match o with
  | ONil | OBool _ => true
  | OByte n => n <? 256
  | OInt z => int_exact z
  | OFloat f => f64_finite f
  | OString s => utf8_valid s
  | OList l => forallb json_safe l
  | OMap kv => forallb (fun p => utf8_valid (fst p) && json_safe (snd p)) kv
  | _ => false
  end.

Definition not_nil (o : obj) : bool := match o with ONil => false | _ => true end.
