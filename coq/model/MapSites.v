(* Hand classification of the map-range sites of risor (see DESIGN.md section 5, C05).  The list of
   sites itself is regenerated from the source on every run (coq/gen/GenMapRangeSites.v); the
   obligation C05_sites_classified says every site that exists NOW is classified here.
   OutsideProperty: I/O modules (exec, http), a test helper (MockFS), StringKeys (its callers sort or are
   I/O modules), and
   applyDenylist / applyOverrides (order matters only for overlapping names: an observation). *)
From Coq Require Import List String.
Require Import RV.model.MapOrder.
Import ListNotations.
Local Open Scope string_scope.

Definition classified : list (string * site_class) :=
  [
    (". (*Config).CombinedGlobals cfg.globals #0", CopyByKey);
    (". (*Config).GlobalNames cfg.globals #0", CollectThenSort);
    (". (*Config).Globals cfg.globals #0", CopyByKey);
    (". (*Config).VMOpts globals #0", CopyByKey);
    (". (*Config).applyDefaultGlobals DefaultGlobals(DefaultGlobalsOpts{ListenersAllowed: cfg.listenersAllowed}) #0", CopyByKey);
    (". (*Config).applyDenylist cfg.denylist #0", OutsideProperty);
    (". (*Config).applyOverrides cfg.overrides #0", OutsideProperty);
    (". DefaultGlobals builtins #0", CopyByKey);
    (". DefaultGlobals modules #0", CopyByKey);
    (". WithGlobals globals #0", CopyByKey);
    ("ast (*Map).OrderedKeys m.items #0", CollectThenSort);
    ("builtins All arg.Value() #0", CommutativeAggregate);
    ("builtins Any arg.Value() #0", CommutativeAggregate);
    ("compiler definitionFromSymbolTable table.symbolsByName #0", CopyByKey);
    ("compiler symbolTableFromDefinition def.SymbolsByName #0", CopyByKey);
    ("modules/exec configureCommand envMap.Value() #0", OutsideProperty);
    ("modules/exec configureCommand params.Value() #0", OutsideProperty);
    ("modules/http (*HttpRequest).AddHeaders headers.Value() #0", OutsideProperty);
    ("modules/http (*HttpRequest).GetAttr r.req.URL.Query() #0", OutsideProperty);
    ("modules/http (*HttpRequest).Header hdr #0", OutsideProperty);
    ("modules/http (*HttpResponse).Header hdr #0", OutsideProperty);
    ("object (*GoType).attrMap t.attributes #0", CopyByKey);
    ("object (*Map).Copy m.items #0", CopyByKey);
    ("object (*Map).Equals m.items #0", CommutativeAggregate);
    ("object (*Map).Interface m.items #0", CopyByKey);
    ("object (*Map).SortedKeys m.items #0", CollectThenSort);
    ("object (*Map).StringKeys m.items #0", OutsideProperty);
    ("object (*Map).Update other.items #0", CopyByKey);
    ("object (*MapConverter).To tMap.items #0", CopyByKey);
    ("object (*Set).Difference s.items #0", CopyByKey);
    ("object (*Set).Equals s.items #0", CommutativeAggregate);
    ("object (*Set).Intersection s.items #0", CopyByKey);
    ("object (*Set).SortedItems s.items #0", CollectThenSort);
    ("object (*Set).Union other.items #0", CopyByKey);
    ("object (*Set).Union s.items #0", CopyByKey);
    ("object (*StructConverter).To obj.items #0", CopyByKey);
    ("object AsObjects m #0", CopyByKey);
    ("object FromGoType obj #0", CopyByKey);
    ("object Keys m #0", CollectThenSort);
    ("object NewBuiltinsModule builtins #0", CopyByKey);
    ("object NewBuiltinsModule contents #0", CopyByKey);
    ("object newGoType directMethods #0", CopyByKey);
    ("object newGoType goType.attributes #0", CopyByKey);
    ("object newGoType indirectMethods #0", CopyByKey);
    ("os (*MockFS).ReadDir fs.fileInfos #0", OutsideProperty);
    ("os (*VirtualOS).Environ osObj.env #0", CollectThenSort);
    ("os (*VirtualOS).findMount osObj.mounts #0", ProvedElsewhere);
    ("os WithEnvironment env #0", CopyByKey);
    ("os WithMounts mounts #0", CopyByKey);
    ("vm (*VirtualMachine).Clone vm.loadedCode #0", CopyByKey);
    (* every loaded function code of the main program gets the same new globals array: an update per key, the
       visiting order cannot be observed *)
    ("vm (*VirtualMachine).reloadCode vm.loadedCode #0", CopyByKey);
    (* the module globals are copied back into the module cache under their own names *)
    ("vm (*VirtualMachine).resetForNewCode vm.globals #0", CopyByKey);
    ("vm (*VirtualMachine).Clone vm.modules #0", CopyByKey);
    ("vm (*VirtualMachine).applyOptions vm.globals #0", CopyByKey);
    ("vm WithGlobals globals #0", CopyByKey);
    ("vm basicBuiltins builtins.Builtins() #0", CopyByKey);
    ("vm basicBuiltins modFmt.Builtins() #0", CopyByKey);
    ("vm newVM globals #0", CopyByKey);
    ("vm newVM opts[0].Globals #0", CopyByKey)
  ].

(* The classification above was made by READING each function.  `reviewed_texts` records, per site, a digest of the text
   (signature and body, comments excluded, as printed by go/printer) of the enclosing function AS IT WAS REVIEWED; the
   generator recomputes the digests from the current source on every run (gen_map_range_bodies) and the obligation
   C05_site_texts_reviewed says they are the same.  A function with a map range whose text changed - a comparison against a
   stale variable inside the loop, a sort dropped after it - has to be read again, and its row renewed
   (`c05gen <harness_xt dir> reviewed` prints this table for the current source). *)
Definition reviewed_texts : list (string * string) :=
  [
    (". (*Config).CombinedGlobals cfg.globals #0", "ec92608c525b");
    (". (*Config).GlobalNames cfg.globals #0", "8d9dfc69927f");
    (". (*Config).Globals cfg.globals #0", "ec92608c525b");
    (". (*Config).VMOpts globals #0", "0f6d058a1ea6");
    (". (*Config).applyDefaultGlobals DefaultGlobals(DefaultGlobalsOpts{ListenersAllowed: cfg.listenersAllowed}) #0", "bb2d5f3f38d9");
    (". (*Config).applyDenylist cfg.denylist #0", "c625de74685d");
    (". (*Config).applyOverrides cfg.overrides #0", "9334a3afa827");
    (". DefaultGlobals builtins #0", "f61d9d1391e1");
    (". DefaultGlobals modules #0", "f61d9d1391e1");
    (". WithGlobals globals #0", "1d9738d579b5");
    ("ast (*Map).OrderedKeys m.items #0", "9e76fe6ec58b");
    ("builtins All arg.Value() #0", "13543d89aae3");
    ("builtins Any arg.Value() #0", "cce7b8b3eb85");
    ("compiler definitionFromSymbolTable table.symbolsByName #0", "78702f6edbaa");
    ("compiler symbolTableFromDefinition def.SymbolsByName #0", "c08ae8bc12cf");
    ("modules/exec configureCommand envMap.Value() #0", "f3f3d0ae6330");
    ("modules/exec configureCommand params.Value() #0", "f3f3d0ae6330");
    ("modules/http (*HttpRequest).AddHeaders headers.Value() #0", "ac92023f9d12");
    ("modules/http (*HttpRequest).GetAttr r.req.URL.Query() #0", "24638274e4ac");
    ("modules/http (*HttpRequest).Header hdr #0", "9511fb2fbf99");
    ("modules/http (*HttpResponse).Header hdr #0", "06b4c6490134");
    ("object (*GoType).attrMap t.attributes #0", "ac44355d1fec");
    ("object (*Map).Copy m.items #0", "3bed575e57fb");
    ("object (*Map).Equals m.items #0", "b892099798ad");
    ("object (*Map).Interface m.items #0", "714efe6de180");
    ("object (*Map).SortedKeys m.items #0", "4228095cc526");
    ("object (*Map).StringKeys m.items #0", "95283a4fb205");
    ("object (*Map).Update other.items #0", "67fc3053beda");
    ("object (*MapConverter).To tMap.items #0", "a1a597ff942e");
    ("object (*Set).Difference s.items #0", "0bc99dbbd0d7");
    ("object (*Set).Equals s.items #0", "bc98b9e06029");
    ("object (*Set).Intersection s.items #0", "e25d72bba40f");
    ("object (*Set).SortedItems s.items #0", "4e42a56549e3");
    ("object (*Set).Union other.items #0", "6aa13408d651");
    ("object (*Set).Union s.items #0", "6aa13408d651");
    ("object (*StructConverter).To obj.items #0", "367a6099418e");
    ("object AsObjects m #0", "5bdac85413ce");
    ("object FromGoType obj #0", "60101bf595c2");
    ("object Keys m #0", "093e938b9a26");
    ("object NewBuiltinsModule builtins #0", "d1e5f61d117f");
    ("object NewBuiltinsModule contents #0", "d1e5f61d117f");
    ("object newGoType directMethods #0", "d7bd8fab11a6");
    ("object newGoType goType.attributes #0", "d7bd8fab11a6");
    ("object newGoType indirectMethods #0", "d7bd8fab11a6");
    ("os (*MockFS).ReadDir fs.fileInfos #0", "faeecaf9a142");
    ("os (*VirtualOS).Environ osObj.env #0", "588bd471072a");
    ("os (*VirtualOS).findMount osObj.mounts #0", "ac045578e2a0");
    ("os WithEnvironment env #0", "808d3458f8c4");
    ("os WithMounts mounts #0", "546f4cbed0e8");
    ("vm (*VirtualMachine).Clone vm.loadedCode #0", "d0f6ac5184f7");
    ("vm (*VirtualMachine).Clone vm.modules #0", "d0f6ac5184f7");
    ("vm (*VirtualMachine).applyOptions vm.globals #0", "8461ce655953");
    ("vm (*VirtualMachine).reloadCode vm.loadedCode #0", "0309388ae1bc");
    ("vm (*VirtualMachine).resetForNewCode vm.globals #0", "fc70f8eedcda");
    ("vm WithGlobals globals #0", "dacd234ea6c1");
    ("vm basicBuiltins builtins.Builtins() #0", "c4695aa630d0");
    ("vm basicBuiltins modFmt.Builtins() #0", "c4695aa630d0");
    ("vm newVM globals #0", "1fd7cff83f7d");
    ("vm newVM opts[0].Globals #0", "1fd7cff83f7d")
  ].

