(* Hand classification of the map-range sites of risor (see DESIGN.md section 5, C05).  The list of
   sites itself is regenerated from the source on every run (coq/gen/GenMapRangeSites.v); the
   obligation C05_sites_classified says every site that exists NOW is classified here.
   OutsideProperty: I/O modules (exec, http), a test helper (MockFS), StringKeys (its callers sort or are
   I/O modules), and
   applyDenylist / applyOverrides (order matters only for overlapping names: an observation). *)
From Coq Require Import List String.
Require Import RV.model.MapOrder.
Import ListNotations.
Local Open Scope string_scope.

Definition classified : list (string * site_class) :=
  [
    (". (*Config).CombinedGlobals cfg.globals #0", CopyByKey);
    (". (*Config).GlobalNames cfg.globals #0", CollectThenSort);
    (". (*Config).Globals cfg.globals #0", CopyByKey);
    (". (*Config).VMOpts globals #0", CopyByKey);
    (". (*Config).applyDefaultGlobals DefaultGlobals(DefaultGlobalsOpts{ListenersAllowed: cfg.listenersAllowed}) #0", CopyByKey);
    (". (*Config).applyDenylist cfg.denylist #0", OutsideProperty);
    (". (*Config).applyOverrides cfg.overrides #0", OutsideProperty);
    (". DefaultGlobals builtins #0", CopyByKey);
    (". DefaultGlobals modules #0", CopyByKey);
    (". WithGlobals globals #0", CopyByKey);
    ("ast (*Map).OrderedKeys m.items #0", CollectThenSort);
    ("builtins All arg.Value() #0", CommutativeAggregate);
    ("builtins Any arg.Value() #0", CommutativeAggregate);
    ("compiler definitionFromSymbolTable table.symbolsByName #0", CopyByKey);
    ("compiler symbolTableFromDefinition def.SymbolsByName #0", CopyByKey);
    ("modules/exec configureCommand envMap.Value() #0", OutsideProperty);
    ("modules/exec configureCommand params.Value() #0", OutsideProperty);
    ("modules/http (*HttpRequest).AddHeaders headers.Value() #0", OutsideProperty);
    ("modules/http (*HttpRequest).GetAttr r.req.URL.Query() #0", OutsideProperty);
    ("modules/http (*HttpRequest).Header hdr #0", OutsideProperty);
    ("modules/http (*HttpResponse).Header hdr #0", OutsideProperty);
    ("object (*GoType).attrMap t.attributes #0", CopyByKey);
    ("object (*Map).Copy m.items #0", CopyByKey);
    ("object (*Map).Equals m.items #0", CommutativeAggregate);
    ("object (*Map).Interface m.items #0", CopyByKey);
    ("object (*Map).SortedKeys m.items #0", CollectThenSort);
    ("object (*Map).StringKeys m.items #0", OutsideProperty);
    ("object (*Map).Update other.items #0", CopyByKey);
    ("object (*MapConverter).To tMap.items #0", CopyByKey);
    ("object (*Set).Difference s.items #0", CopyByKey);
    ("object (*Set).Equals s.items #0", CommutativeAggregate);
    ("object (*Set).Intersection s.items #0", CopyByKey);
    ("object (*Set).SortedItems s.items #0", CollectThenSort);
    ("object (*Set).Union other.items #0", CopyByKey);
    ("object (*Set).Union s.items #0", CopyByKey);
    ("object (*StructConverter).To obj.items #0", CopyByKey);
    ("object AsObjects m #0", CopyByKey);
    ("object FromGoType obj #0", CopyByKey);
    ("object Keys m #0", CollectThenSort);
    ("object NewBuiltinsModule builtins #0", CopyByKey);
    ("object NewBuiltinsModule contents #0", CopyByKey);
    ("object newGoType directMethods #0", CopyByKey);
    ("object newGoType goType.attributes #0", CopyByKey);
    ("object newGoType indirectMethods #0", CopyByKey);
    ("os (*MockFS).ReadDir fs.fileInfos #0", OutsideProperty);
    ("os (*VirtualOS).Environ osObj.env #0", CollectThenSort);
    ("os (*VirtualOS).findMount osObj.mounts #0", ProvedElsewhere);
    ("os WithEnvironment env #0", CopyByKey);
    ("os WithMounts mounts #0", CopyByKey);
    ("vm (*VirtualMachine).Clone vm.loadedCode #0", CopyByKey);
    (* every loaded function code of the main program gets the same new globals array: an update per key, the
       visiting order cannot be observed *)
    ("vm (*VirtualMachine).reloadCode vm.loadedCode #0", CopyByKey);
    (* the module globals are copied back into the module cache under their own names *)
    ("vm (*VirtualMachine).resetForNewCode vm.globals #0", CopyByKey);
    ("vm (*VirtualMachine).Clone vm.modules #0", CopyByKey);
    ("vm (*VirtualMachine).applyOptions vm.globals #0", CopyByKey);
    ("vm WithGlobals globals #0", CopyByKey);
    ("vm basicBuiltins builtins.Builtins() #0", CopyByKey);
    ("vm basicBuiltins modFmt.Builtins() #0", CopyByKey);
    ("vm newVM globals #0", CopyByKey);
    ("vm newVM opts[0].Globals #0", CopyByKey)
  ].
