(* Faithful model of risor's lexer (lexer/lexer.go at the pinned commit).
   Input: the rune slice of the source ([]rune(input)), as a list of N code points.
   Non-ASCII letters/digits are not classified (Unicode tables are not reproduced):
   the model answers EUnsupported there. *)
From Coq Require Import List NArith Bool Arith Lia.
Import ListNotations.
Open Scope N_scope.

Notation rune := N (only parsing).

Inductive tkind :=
| AND | ASSIGN | ASTERISK | ASTERISK_EQUALS | BACKTICK | FSTRING | BANG | CASE | COLON | COMMA
| CONST | DECLARE | DEFAULT | DEFER | FUNC | ELSE | EOF | EQ | FALSE | FLOAT | FOR | GT | GT_GT
| GT_EQUALS | GO | IDENT | IF | INT | LBRACE | LBRACKET | LPAREN | LT | LT_LT | LT_EQUALS
| MINUS | MINUS_EQUALS | MINUS_MINUS | MOD | NOT_EQ | NIL | NOT | PIPE | OR | PERIOD | PLUS
| AMPERSAND | PLUS_EQUALS | PLUS_PLUS | POW | QUESTION | RBRACE | RBRACKET | RETURN | RPAREN
| SEMICOLON | SEND | SLASH | SLASH_EQUALS | STRING | STRUCT | SWITCH | TRUE | NEWLINE | IMPORT
| BREAK | CONTINUE | VAR | IN | RANGE | FROM | AS | ILLEGAL | EMPTY (* token.Token{} *).

Record position := { p_value : N; p_char : nat; p_linestart : nat; p_line : nat; p_col : nat }.

Record token := { t_kind : tkind; t_lit : list N (* bytes *); t_start : position; t_end : position }.

Inductive lexerr :=
| EUnexpectedChar (c : N)         (* '~' *)
| EUnterminatedString
| EInvalidEscape (c : N)
| EUnterminatedEscape
| EIllegalEscapeChar (c : N)
| EEscapeNotNumber
| EInvalidDecimal
| EInvalidIdentifier
| EUnsupported.                   (* outside the model: non-ASCII letter/digit classification *)

Record lst := {
  rest : list N;            (* runes from the current position on; [] at or after the end *)
  lpos : nat; lline : nat; lcol : nat; lstart : nat;
  past : bool;              (* unused since the lexer stops at the end-of-input position; always false *)
  prev_eof : bool;          (* prevToken.Type == EOF *)
  prev_period : bool;       (* prevToken.Type == PERIOD *)
}.

Definition cur (s : lst) : N := match rest s with c :: _ => c | [] => 0 end.
Definition peek (s : lst) : N := match rest s with _ :: c :: _ => c | _ => 0 end.

Definition init (input : list N) : lst :=
  {| rest := input; lpos := 0; lline := 0; lcol := 0; lstart := 0; past := false;
     prev_eof := false; prev_period := false |}.

Definition read_char (s : lst) : lst :=
  match rest s with
  | [] => s                      (* at the end of the input: the lexer never moves beyond it *)
  | prev :: r =>
    let pos' := S (lpos s) in
    if prev =? 10 then
      {| rest := r; lpos := pos'; lline := S (lline s); lcol := 0%nat; lstart := pos';
         past := false; prev_eof := prev_eof s; prev_period := prev_period s |}
    else
      {| rest := r; lpos := pos'; lline := lline s; lcol := S (lcol s); lstart := lstart s;
         past := false; prev_eof := prev_eof s; prev_period := prev_period s |}
  end.

Definition get_pos (s : lst) : position :=
  {| p_value := cur s; p_char := lpos s; p_linestart := lstart s; p_line := lline s; p_col := lcol s |}.

Definition set_prev (s : lst) (k : tkind) : lst :=
  {| rest := rest s; lpos := lpos s; lline := lline s; lcol := lcol s; lstart := lstart s; past := past s;
     prev_eof := match k with EOF => true | _ => false end;
     prev_period := match k with PERIOD => true | _ => false end |}.

(* ---------- character classes (ASCII only) ---------- *)

Definition is_ascii (c : N) : bool := c <? 128.
Definition is_digit (c : N) : bool := (48 <=? c) && (c <=? 57).
Definition is_ascii_letter (c : N) : bool := ((65 <=? c) && (c <=? 90)) || ((97 <=? c) && (c <=? 122)).
Definition is_tab_or_space (c : N) : bool := (c =? 32) || (c =? 9).

(* unicode.IsLetter(c) || unicode.IsDigit(c) || c == '_' : Some b when decidable in the model *)
Definition is_identifier (c : N) : option bool :=
  if is_ascii c then Some (is_ascii_letter c || is_digit c || (c =? 95)) else None.
(* unicode.IsLetter(c) || unicode.IsNumber(c) *)
Definition is_letter_or_number (c : N) : option bool :=
  if is_ascii c then Some (is_ascii_letter c || is_digit c) else None.

(* ---------- UTF-8 encoding of a rune as strings.Builder.WriteRune does ---------- *)

Definition utf8_encode (r : N) : list N :=
  let bad := [239; 191; 189] in                       (* U+FFFD *)
  if r <? 128 then [r]
  else if r <? 2048 then [192 + r / 64; 128 + r mod 64]
  else if (55296 <=? r) && (r <=? 57343) then bad     (* surrogates *)
  else if r <? 65536 then [224 + r / 4096; 128 + (r / 64) mod 64; 128 + r mod 64]
  else if r <=? 1114111 then [240 + r / 262144; 128 + (r / 4096) mod 64; 128 + (r / 64) mod 64; 128 + r mod 64]
  else bad.

Definition utf8_string (l : list N) : list N := flat_map utf8_encode l.

(* ---------- skipping ---------- *)

Fixpoint skip_ws (fuel : nat) (s : lst) : lst :=
  match fuel with
  | O => s
  | S f => if is_tab_or_space (cur s) then skip_ws f (read_char s) else s
  end.

Fixpoint skip_to_eol (fuel : nat) (s : lst) : lst :=
  match fuel with
  | O => s
  | S f => if (cur s =? 10) || (cur s =? 0) then s else skip_to_eol f (read_char s)
  end.

(* skipMultiLineComment *)
Fixpoint skip_multi (fuel : nat) (s : lst) : lst :=
  match fuel with
  | O => s
  | S f =>
      if cur s =? 0 then s                                            (* end of input: stop here *)
      else if (cur s =? 42) && (peek s =? 47) then read_char (read_char s)
      else skip_multi f (read_char s)
  end.

Definition sz (s : lst) : nat := S (S (length (rest s))).

(* ---------- numbers ---------- *)

Definition in_accept (accept : list N) (c : N) : bool := existsb (N.eqb c) accept.

Definition acc_dec : list N := [48;49;50;51;52;53;54;55;56;57].
Definition acc_hex : list N := [48;120;49;50;51;52;53;54;55;56;57;97;98;99;100;101;102;65;66;67;68;69;70].
Definition acc_oct : list N := [48;49;50;51;52;53;54;55].

Inductive numtype := NDec | NHex | NOct.

Fixpoint read_accept (fuel : nat) (accept : list N) (s : lst) (acc : list N) : lst * list N :=
  match fuel with
  | O => (s, acc)
  | S f => if in_accept accept (peek s) && negb (peek s =? 0)
           then let s' := read_char s in read_accept f accept s' (acc ++ [cur s'])
           else (s, acc)
  end.

(* readNumber: returns the state (current char = last char of the number), type, text *)
Definition read_number (only_decimal : bool) (s : lst) : lst * option (numtype * list N) * option lexerr :=
  let '(accept, nt) :=
      if only_decimal then (acc_dec, NDec)
      else if (cur s =? 48) && (peek s =? 120) then (acc_hex, NHex)
      else if (cur s =? 48) && negb (peek s =? 46) then (acc_oct, NOct)
      else (acc_dec, NDec) in
  let '(s', str) := read_accept (sz s) accept s [cur s] in
  match is_letter_or_number (peek s') with
  | None => (s', None, Some EUnsupported)
  | Some true => (s', None, Some EInvalidDecimal)
  | Some false => (s', Some (nt, str), None)
  end.

Definition mk_token (k : tkind) (lit : list N) (start : position) (s : lst) : token :=
  {| t_kind := k; t_lit := lit; t_start := start; t_end := get_pos s |}.

Definition empty_pos : position := {| p_value := 0; p_char := 0; p_linestart := 0; p_line := 0; p_col := 0 |}.
Definition empty_token : token := {| t_kind := EMPTY; t_lit := []; t_start := empty_pos; t_end := empty_pos |}.

(* readDecimal *)
Definition read_decimal (start : position) (s : lst) : lst * token * option lexerr :=
  match read_number false s with
  | (s1, None, e) => (s1, empty_token, e)
  | (s1, Some (nt, integer), _) =>
      if negb (peek s1 =? 46) then (s1, mk_token INT integer start s1, None)
      else match nt with
           | NDec =>
               let s2 := read_char s1 in               (* now at '.' *)
               if is_digit (peek s2) then
                 let s3 := read_char s2 in
                 match read_number true s3 with
                 | (s4, None, e) => (s4, empty_token, e)
                 | (s4, Some (_, fraction), _) => (s4, mk_token FLOAT (integer ++ [46] ++ fraction) start s4, None)
                 end
               else (s2, empty_token, Some EInvalidDecimal)
           | _ => (s1, empty_token, Some EInvalidDecimal)
           end
  end.

(* ---------- strings ---------- *)

Definition to_lower_ascii (c : N) : N := if (65 <=? c) && (c <=? 90) then c + 32 else c.

Definition digit_val (c : N) : option N :=
  let c := to_lower_ascii c in
  if is_digit c then Some (c - 48)
  else if (97 <=? c) && (c <=? 102) then Some (c - 87)
  else None.

(* readEscapeSequence count base : reads [count] characters *)
Fixpoint read_escape (count : nat) (base : N) (s : lst) (acc : N) : lst * option N * option lexerr :=
  match count with
  | O => (s, Some acc, None)
  | S n =>
      let s' := read_char s in
      let c := cur s' in
      if c =? 0 then (s', None, Some EUnterminatedEscape)
      else if negb (is_ascii c) then (s', None, Some (EIllegalEscapeChar c))
      else match digit_val c with
           | Some d => if d <? base then read_escape n base s' (acc * base + d)
                       else (s', None, Some (EIllegalEscapeChar c))
           | None => (s', None, Some (EIllegalEscapeChar c))
           end
  end.

(* readString: Some bytes on success; on "unterminated" the partial text is returned with the error *)
Fixpoint read_string (fuel : nat) (endc : N) (s : lst) (acc : list N) : lst * list N * option lexerr :=
  match fuel with
  | O => (s, acc, Some EUnterminatedString)
  | S f =>
      let pk := peek s in
      if (pk =? 0) || (pk =? 10) then (s, acc, Some EUnterminatedString)
      else
        let s1 := read_char s in
        let c := cur s1 in
        if c =? endc then (s1, acc, None)
        else if negb (c =? 92) then read_string f endc s1 (acc ++ utf8_encode c)
        else
          let s2 := read_char s1 in
          let e := cur s2 in
          let simple (b : list N) := read_string f endc s2 (acc ++ b) in
          if e =? 97 then simple [7] else if e =? 98 then simple [8] else if e =? 102 then simple [12]
          else if e =? 110 then simple [10] else if e =? 114 then simple [13] else if e =? 116 then simple [9]
          else if e =? 118 then simple [11] else if e =? 92 then simple [92] else if e =? 101 then simple [27]
          else if e =? endc then simple (utf8_encode e)
          else if e =? 120 then
            match read_escape 2 16 s2 0 with
            | (s3, Some n, _) => read_string f endc s3 (acc ++ utf8_encode n)
            | (s3, None, er) => (s3, [], er)
            end
          else if e =? 117 then
            match read_escape 4 16 s2 0 with
            | (s3, Some n, _) => read_string f endc s3 (acc ++ utf8_encode n)
            | (s3, None, er) => (s3, [], er)
            end
          else if e =? 85 then
            match read_escape 8 16 s2 0 with
            | (s3, Some n, _) =>
                if 2147483647 <? n then (s3, [], Some EEscapeNotNumber)     (* ParseInt(…, 32) overflow *)
                else read_string f endc s3 (acc ++ utf8_encode n)
            | (s3, None, er) => (s3, [], er)
            end
          else if (48 <=? e) && (e <=? 51) then
            match read_escape 2 8 s2 0 with
            | (s3, Some n, _) => read_string f endc s3 (acc ++ [(e - 48) * 64 + n])
            | (s3, None, er) => (s3, [], er)
            end
          else (s2, [], Some (EInvalidEscape e))
  end.

(* readBacktick: raw runes between the quotes, carriage returns discarded *)
Fixpoint read_backtick (fuel : nat) (s : lst) (acc : list N) : lst * list N * option lexerr :=
  match fuel with
  | O => (s, [], Some EUnterminatedString)
  | S f =>
      if peek s =? 0 then (s, [], Some EUnterminatedString)
      else let s1 := read_char s in
           if cur s1 =? 96 then (s1, acc, None)
           else read_backtick f s1 (if cur s1 =? 13 then acc else acc ++ [cur s1])   (* '\r' is discarded *)
  end.

(* ---------- identifiers ---------- *)

Fixpoint read_ident_rest (fuel : nat) (s : lst) (acc : list N) : lst * list N * option lexerr :=
  match fuel with
  | O => (s, acc, None)
  | S f =>
      match is_identifier (peek s) with
      | None => (s, acc, Some (if peek s =? 0 then EUnsupported else EUnsupported))
      | Some true => let s' := read_char s in read_ident_rest f s' (acc ++ [cur s'])
      | Some false => (s, acc, None)
      end
  end.

Definition str (l : list nat) : list N := map N.of_nat l.

Definition keyword (ident : list N) : tkind :=
  let eq (k : list N) := if list_eq_dec N.eq_dec ident k then true else false in
  if eq [97;115] then AS
  else if eq [98;114;101;97;107] then BREAK
  else if eq [99;97;115;101] then CASE
  else if eq [99;111;110;115;116] then CONST
  else if eq [99;111;110;116;105;110;117;101] then CONTINUE
  else if eq [100;101;102;97;117;108;116] then DEFAULT
  else if eq [100;101;102;101;114] then DEFER
  else if eq [101;108;115;101] then ELSE
  else if eq [102;97;108;115;101] then FALSE
  else if eq [102;111;114] then FOR
  else if eq [102;114;111;109] then FROM
  else if eq [102;117;110;99] then FUNC
  else if eq [103;111] then GO
  else if eq [105;102] then IF
  else if eq [105;109;112;111;114;116] then IMPORT
  else if eq [105;110] then IN
  else if eq [110;105;108] then NIL
  else if eq [110;111;116] then NOT
  else if eq [114;97;110;103;101] then RANGE
  else if eq [114;101;116;117;114;110] then RETURN
  else if eq [115;116;114;117;99;116] then STRUCT
  else if eq [115;119;105;116;99;104] then SWITCH
  else if eq [116;114;117;101] then TRUE
  else if eq [118;97;114] then VAR
  else IDENT.

(* ---------- Next ---------- *)
(* an error carries a token: the string read so far for a string literal, otherwise an ILLEGAL token that starts where
   the text that is not a token starts and ends where the lexer stood when it gave up *)

Inductive lexres := LTok (t : token) (s : lst) | LErr (t : token) (e : lexerr) (s : lst).

Definition finish (t : token) (s : lst) : lexres :=
  LTok t (set_prev (read_char s) (t_kind t)).

Fixpoint next (fuel : nat) (s0 : lst) : lexres :=
  match fuel with
  | O => LErr empty_token EUnsupported s0
  | S f =>
    let s := skip_ws (sz s0) s0 in
    let start := get_pos s in
    let c := cur s in
    let p := peek s in
    if (c =? 35) || ((c =? 47) && (p =? 47)) then
      next f (skip_ws (sz s) (skip_to_eol (sz s) s))
    else if (c =? 47) && (p =? 42) then
      (* a block comment: skip it and start over (any number of consecutive comments) *)
      next f (skip_ws (sz s) (skip_multi (sz s) s))
    else
      if prev_eof s then LTok (mk_token EOF [0] start s) s
      else
        let one (k : tkind) := finish (mk_token k [c] start s) s in
        let two (k : tkind) := let s' := read_char s in finish (mk_token k [c; cur s'] start s') s' in
        if c =? 38 then (if p =? 38 then two AND else one AMPERSAND)
        else if c =? 124 then (if p =? 124 then two OR else one PIPE)
        else if c =? 61 then (if p =? 61 then two EQ else one ASSIGN)
        else if c =? 59 then one SEMICOLON
        else if c =? 63 then one QUESTION
        else if c =? 40 then one LPAREN
        else if c =? 41 then one RPAREN
        else if c =? 44 then one COMMA
        else if c =? 46 then one PERIOD
        else if c =? 43 then (if p =? 43 then two PLUS_PLUS else if p =? 61 then two PLUS_EQUALS else one PLUS)
        else if c =? 37 then one MOD
        else if c =? 123 then one LBRACE
        else if c =? 125 then one RBRACE
        else if c =? 45 then (if p =? 45 then two MINUS_MINUS else if p =? 61 then two MINUS_EQUALS else one MINUS)
        else if c =? 47 then (if p =? 61 then two SLASH_EQUALS else one SLASH)
        else if c =? 42 then (if p =? 42 then two POW else if p =? 61 then two ASTERISK_EQUALS else one ASTERISK)
        else if c =? 60 then (if p =? 60 then two LT_LT else if p =? 61 then two LT_EQUALS
                              else if p =? 45 then two SEND else one LT)
        else if c =? 62 then (if p =? 62 then two GT_GT else if p =? 61 then two GT_EQUALS else one GT)
        else if c =? 126 then LErr (mk_token ILLEGAL [] start s) (EUnexpectedChar c) s
        else if c =? 33 then (if p =? 61 then two NOT_EQ else one BANG)
        else if (c =? 39) || (c =? 34) then
          let k := if c =? 39 then FSTRING else STRING in
          match read_string (sz s) c s [] with
          | (s1, lit, None) => finish (mk_token k lit start s1) s1
          | (s1, lit, Some e) =>
              let t := mk_token k lit start s1 in
              LErr t e (set_prev (read_char s1) k)
          end
        else if c =? 96 then
          match read_backtick (sz s) s [] with
          | (s1, lit, None) => finish (mk_token BACKTICK (utf8_string lit) start s1) s1
          | (s1, lit, Some e) =>
              let t := mk_token BACKTICK [] start s1 in
              LErr t e (set_prev (read_char s1) BACKTICK)
          end
        else if c =? 91 then one LBRACKET
        else if c =? 93 then one RBRACKET
        else if c =? 58 then
          (if p =? 61 then let s' := read_char s in finish (mk_token DECLARE [58; 61] start s') s' else one COLON)
        else if c =? 13 then (if p =? 10 then two NEWLINE else one NEWLINE)
        else if c =? 10 then one NEWLINE
        else if c =? 0 then finish (mk_token EOF [] start s) s
        else if is_digit c then
          match read_decimal start s with
          | (s1, t, None) => finish t s1
          | (s1, t, Some e) => LErr (mk_token ILLEGAL [] start s1) e s1
          end
        else
          match is_identifier c with
          | None => LErr empty_token EUnsupported s
          | Some false => LErr (mk_token ILLEGAL [] start s) EInvalidIdentifier s
          | Some true =>
              match read_ident_rest (sz s) s [c] with
              | (s1, _, Some e) => LErr (mk_token ILLEGAL [] start s1) e s1
              | (s1, ident, None) =>
                  if negb (is_ascii (peek s1)) then LErr (mk_token ILLEGAL [] start s1) EInvalidIdentifier s1
                  else
                    let k := if (list_eq_dec N.eq_dec ident [97;115]) then
                               (if prev_period s1 then IDENT else AS)
                             else keyword ident in
                    finish (mk_token k ident start s1) s1
              end
          end
  end.

(* the token stream the parser pulls: up to and including the first EOF token or the first error *)
Fixpoint lex_all (fuel : nat) (s : lst) : list token * option (token * lexerr) :=
  match fuel with
  | O => ([], None)
  | S f =>
      match next (S (sz s)) s with
      | LErr t e _ => ([], Some (t, e))
      | LTok t s' =>
          match t_kind t with
          | EOF => ([t], None)
          | _ => let '(ts, e) := lex_all f s' in (t :: ts, e)
          end
      end
  end.

Definition lex (input : list N) : list token * option (token * lexerr) :=
  lex_all (S (S (length input))) (init input).
