(* Containers.v - lists, maps, sets, strings and byte_slices as object/{list,map,set,string,byte_slice}.go
   implement them (C16).  Definitions only.

   * A list is a Go slice: a backing array (its length is the capacity) and a length.  append, the
     delete idiom append(items[:i], items[i+1:]...), Insert (append(nil) + copy + store) and Reverse work
     in place on the array, exactly as the Go code does; the abstract list is [firstn len arr].
   * One interpreter [step] runs operation sequences over a store of container objects.  It is
     parameterised by the list representation ([lops]).  [cstep] = Go slices (faithful to the code);
     [astep] = plain lists (the reference containers of the property).  list.map hands every callback a
     fresh index object (fix 13e5047), so an index that escapes the callback keeps its value.
   * Elements are immutable [Ops.value] trees; the mutable objects are the ones in the store.
   * Maps and sets are Go maps: association / member lists with distinct keys, order irrelevant
     (every observation sorts).
   * byte_slices have their own store with a heap of backing arrays; every operation that creates a
     byte_slice, GetSlice included (fix ee24db1), allocates a new array.
   * Strings are byte strings; indexing and slicing go through []rune(s) as in the code. *)
From Coq Require Import List Bool ZArith Lia.
Require Import RV.model.Ops.
Import ListNotations.
Open Scope Z_scope.

Inductive err := EIndex | ESlice | EType | EKey | EArgs | EValue | EAttr.

Inductive res (A : Type) := Ok (a : A) | Er (e : err).
Arguments Ok {A} a.
Arguments Er {A} e.

(* ---------------------------------------------------------------- index normalisation (object/list.go) *)

Definition resolve_index (idx size : Z) : option Z :=
  let max := size - 1 in
  if max <? idx then None
  else if 0 <=? idx then Some idx
  else
    let reversed := idx + size in
    if (reversed <? 0) || (max <? reversed) then None else Some reversed.

Definition resolve_slice_core (start stop size : Z) : option (Z * Z) :=
  let start1 := if start <? 0 then size + start else start in
  if (start <? 0) && (start1 <? 0) then None else
  let stop1 := if stop <? 0 then size + stop else stop in
  if (stop <? 0) && (stop1 <? 0) then None else
  if stop1 <? start1 then None else
  if size - 1 <? start1 then None else
  if size <? stop1 then None else Some (start1, stop1).

(* ResolveIntSlice: a missing bound defaults to 0 / size, a bound that is not an int is a type error *)
Definition resolve_slice (lo hi : option value) (size : Z) : res (Z * Z) :=
  match (match lo with None => Ok 0 | Some (VInt z) => Ok z | Some _ => Er EType end) with
  | Er e => Er e
  | Ok start =>
      match (match hi with None => Ok size | Some (VInt z) => Ok z | Some _ => Er EType end) with
      | Er e => Er e
      | Ok stop =>
          match resolve_slice_core start stop size with
          | Some p => Ok p
          | None => Er ESlice
          end
      end
  end.

(* AsInt: int or byte *)
Definition as_int (v : value) : option Z :=
  match v with VInt z => Some z | VByte z => Some z | _ => None end.

(* AsString: string or byte_slice *)
Definition as_string (v : value) : option bytes :=
  match v with VStr s => Some s | VBytes s => Some s | _ => None end.

Definition wrap64 (z : Z) : Z := (z + 9223372036854775808) mod 18446744073709551616 - 9223372036854775808.

(* a[i] += v for the operand types the checks use; None = outside the modelled fragment *)
Definition add_values (a b : value) : option (res value) :=
  match a, b with
  | VInt x, VInt y => Some (Ok (VInt (wrap64 (x + y))))
  | VStr s, VStr t => Some (Ok (VStr (s ++ t)))
  | VNil, _ | VBool _, _ => Some (Er EType)
  | VStr _, VInt _ | VStr _, VNil | VStr _, VBool _ => Some (Er EType)
  | VInt _, VStr _ | VInt _, VNil | VInt _, VBool _ => Some (Er EType)
  | _, _ => None
  end.

(* ---------------------------------------------------------------- list representations *)

Record lops (T : Type) := {
  to_list : T -> list value;
  of_list : list value -> T;
  l_set : T -> nat -> value -> T;
  l_append : T -> list value -> T;     (* append(items, vs...) *)
  l_delete : T -> nat -> T;            (* append(items[:i], items[i+1:]...) *)
  l_insert : T -> Z -> value -> T;     (* List.Insert *)
  l_reverse : T -> T;
  l_assign : T -> list value -> T      (* overwrite the elements in place (sort.SliceStable's swaps) *)
}.
Arguments to_list {T}.
Arguments of_list {T}.
Arguments l_set {T}.
Arguments l_append {T}.
Arguments l_delete {T}.
Arguments l_insert {T}.
Arguments l_reverse {T}.
Arguments l_assign {T}.

(* -- plain lists: the reference *)

Definition set_nth (l : list value) (i : nat) (v : value) : list value :=
  firstn i l ++ v :: skipn (S i) l.

Definition ref_insert (l : list value) (index : Z) (v : value) : list value :=
  let n := Z.of_nat (length l) in
  let i := if index <? 0 then (if n + index <? 0 then 0 else n + index) else index in
  if n <=? i then l ++ [v]
  else firstn (Z.to_nat i) l ++ v :: skipn (Z.to_nat i) l.

Definition ref_lops : lops (list value) := {|
  to_list := fun l => l;
  of_list := fun l => l;
  l_set := set_nth;
  l_append := fun l vs => l ++ vs;
  l_delete := fun l i => firstn i l ++ skipn (S i) l;
  l_insert := ref_insert;
  l_reverse := @rev value;
  l_assign := fun _ l' => l'
|}.

(* -- Go slices *)

Record gslice := GS { g_arr : list value; g_len : nat }.

Definition g_abs (s : gslice) : list value := firstn (g_len s) (g_arr s).
Definition g_wf (s : gslice) : Prop := (g_len s <= length (g_arr s))%nat.

(* copy(arr[off:], vs) for off + len vs <= len arr *)
Definition g_write (arr : list value) (off : nat) (vs : list value) : list value :=
  firstn off arr ++ vs ++ skipn (off + length vs) arr.

Definition g_append (s : gslice) (vs : list value) : gslice :=
  let n := (g_len s + length vs)%nat in
  if (n <=? length (g_arr s))%nat then GS (g_write (g_arr s) (g_len s) vs) n
  else GS (firstn (g_len s) (g_arr s) ++ vs ++ repeat VNil n) n.   (* reallocation, capacity doubled *)

Definition g_delete (s : gslice) (i : nat) : gslice :=
  (* items[:i] keeps the array; the appended elements items[i+1:len] are read before they are written (memmove) *)
  let moved := firstn (g_len s - i - 1) (skipn (S i) (g_arr s)) in
  g_append (GS (g_arr s) i) moved.

Definition g_set (s : gslice) (i : nat) (v : value) : gslice :=
  GS (g_write (g_arr s) i [v]) (g_len s).

Definition g_insert (s : gslice) (index : Z) (v : value) : gslice :=
  let n := Z.of_nat (g_len s) in
  let i := if index <? 0 then (if n + index <? 0 then 0 else n + index) else index in
  if i =? 0 then GS (v :: firstn (g_len s) (g_arr s)) (S (g_len s))       (* append([]Object{obj}, items...) *)
  else if n <=? i then g_append s [v]
  else
    let k := Z.to_nat i in
    let s1 := g_append s [VNil] in                                         (* items = append(items, nil) *)
    let src := firstn (g_len s - k) (skipn k (g_arr s1)) in                (* copy(items[i+1:], items[i:]) *)
    let arr2 := g_write (g_arr s1) (S k) src in
    GS (g_write arr2 k [v]) (g_len s1).                                    (* items[i] = obj *)

(* for i, j := 0, len-1; i < j; i, j = i+1, j-1 { swap } *)
Fixpoint g_rev_loop (fuel : nat) (i j : nat) (arr : list value) : list value :=
  match fuel with
  | O => arr
  | S f =>
      if (i <? j)%nat then
        let x := nth i arr VNil in
        let y := nth j arr VNil in
        g_rev_loop f (S i) (pred j) (g_write (g_write arr i [y]) j [x])
      else arr
  end.

Definition g_reverse (s : gslice) : gslice :=
  GS (g_rev_loop (g_len s) 0 (pred (g_len s)) (g_arr s)) (g_len s).

Definition g_assign (s : gslice) (l' : list value) : gslice :=
  GS (g_write (g_arr s) 0 l') (g_len s).

Definition go_lops : lops gslice := {|
  to_list := g_abs;
  of_list := fun l => GS l (length l);
  l_set := g_set;
  l_append := g_append;
  l_delete := g_delete;
  l_insert := g_insert;
  l_reverse := g_reverse;
  l_assign := g_assign
|}.

(* ---------------------------------------------------------------- maps and sets *)

Fixpoint map_del (k : bytes) (m : list (bytes * value)) : list (bytes * value) :=
  match m with
  | [] => []
  | (k', v) :: m' => if bytes_eqb k' k then m' else (k', v) :: map_del k m'
  end.

Definition map_update (m other : list (bytes * value)) : list (bytes * value) :=
  fold_left (fun acc kv => map_set (fst kv) (snd kv) acc) other m.

(* sort.Strings on the keys *)
Fixpoint key_insert (k : bytes) (ks : list bytes) : list bytes :=
  match ks with
  | [] => [k]
  | k' :: ks' => match bytes_cmp k k' with Gt => k' :: key_insert k ks' | _ => k :: ks end
  end.
Definition sorted_keys (m : list (bytes * value)) : list bytes :=
  fold_right key_insert [] (map fst m).

Definition map_values_sorted (m : list (bytes * value)) : list value :=
  map (fun k => match assoc k m with Some v => v | None => VNil end) (sorted_keys m).

Fixpoint set_del (k : hkey) (s : list value) : list value :=
  match s with
  | [] => []
  | v :: s' => if ohkey_eqb (hashkey v) (Some k) then s' else v :: set_del k s'
  end.

Definition set_union (a b : list value) : list value := fold_left (fun acc v => set_add v acc) b a.
Definition set_inter (a b : list value) : list value :=
  filter (fun v => match hashkey v with
                   | Some k => match set_find k b with Some _ => true | None => false end
                   | None => false end) a.

(* ---------------------------------------------------------------- the store and the operations *)

Inductive obj (T : Type) := OList (t : T) | OMap (m : list (bytes * value)) | OSet (s : list value).
Arguments OList {T} t.
Arguments OMap {T} m.
Arguments OSet {T} s.

Inductive outcome := RVal (v : value) | RRef (r : nat) | RErr (e : err) | RUnsup.

(* callbacks handed to list.map / list.filter *)
Inductive mapcb := CbVal | CbIdx | CbPair | CbIdxCopy.     (* x ; i ; [i, x] ; i + 0 *)
Inductive filtercb := FTruthy | FAll | FNone.

Inductive op :=
| NewList (l : list value) | NewMap (m : list (bytes * value)) | NewSet (l : list value)
| Get (r : nat) (k : value) | Slice (r : nat) (lo hi : option value)
| SetItem (r : nat) (k v : value) | AddAssign (r : nat) (k v : value) | Del (r : nat) (k : value)
| Contains (r : nat) (v : value) | Len (r : nat)
| Append (r : nat) (v : value) | Insert (r : nat) (i v : value) | Pop (r : nat) (i : value) | Remove (r : nat) (v : value)
| Extend (r r2 : nat) | Reverse (r : nat) | Sort (r : nat) | Clear (r : nat) | Copy (r : nat)
| Count (r : nat) (v : value) | Index (r : nat) (v : value)
| Reversed (r : nat) | Sorted (r : nat) | Keys (r : nat) | Concat (r r2 : nat)
| MapCb (r : nat) (cb : mapcb) | FilterCb (r : nat) (cb : filtercb) | EachAppend (r r2 : nat)
| MGetD (r : nat) (k : value) (d : option value) | MPop (r : nat) (k : value) (d : option value)
| MSetDefault (r : nat) (k v : value) | MUpdate (r r2 : nat) | MValues (r : nat) | MItems (r : nat)
| SAdd (r : nat) (v : value) | SRemove (r : nat) (v : value) | SUnion (r r2 : nat) | SInter (r r2 : nat)
| Enumerate (r : nat).      (* for k, v := range r { acc.append([k, v]) } *)

Fixpoint set_nth_obj {A : Type} (l : list A) (i : nat) (x : A) : list A :=
  match l, i with
  | [], _ => []
  | _ :: l', O => x :: l'
  | y :: l', S i' => y :: set_nth_obj l' i' x
  end.

(* index of the first item with Equals(obj, item) *)
Fixpoint find_index (v : value) (l : list value) (i : nat) : option nat :=
  match l with
  | [] => None
  | x :: l' => if equals v x then Some i else find_index v l' (S i)
  end.

Fixpoint index_values (i : nat) (n : nat) : list value :=
  match n with O => [] | S n' => VInt (Z.of_nat i) :: index_values (S i) n' end.

(* what a range loop over a list yields: (index, value), a fresh index per step (ListIter.Entry) *)
Fixpoint enumerate_from (i : nat) (l : list value) : list value :=
  match l with
  | [] => []
  | x :: l' => VList [VInt (Z.of_nat i); x] :: enumerate_from (S i) l'
  end.

(* sort.SliceStable run to the end: final arrangement, whether a comparison failed, whether it panicked *)
Definition sort_full (l : list value) : list value * bool * bool :=
  let '(rp, er, pn) := isort_rev (fun v => v) l [] false false in (rev rp, er, pn).

Section Step.
  Context {T : Type} (LO : lops T).

  Definition store := list (obj T).

  Definition upd (s : store) (r : nat) (o : obj T) : store := set_nth_obj s r o.
  Definition alloc (s : store) (o : obj T) : store * outcome := (s ++ [o], RRef (length s)).
  Definition new_list (s : store) (l : list value) : store * outcome := alloc s (OList (of_list LO l)).

  Definition map_cb_result (cb : mapcb) (l : list value) : list value :=
    let idx (i : nat) := VInt (Z.of_nat i) in      (* mapArgs[0] = NewInt(int64(i)) *)
    let fix go (i : nat) (xs : list value) : list value :=
      match xs with
      | [] => []
      | x :: xs' =>
          (match cb with
           | CbVal => x
           | CbIdx => idx i
           | CbPair => VList [idx i; x]
           | CbIdxCopy => VInt (Z.of_nat i)
           end) :: go (S i) xs'
      end in
    go O l.

  Definition filter_cb_result (cb : filtercb) (l : list value) : list value :=
    filter (fun x => match cb with FTruthy => truthy x | FAll => true | FNone => false end) l.

  Definition step (s : store) (o : op) : store * outcome :=
    match o with
    | NewList l => new_list s l
    | NewMap m => alloc s (OMap (fold_left (fun acc kv => map_set (fst kv) (snd kv) acc) m []))
    | NewSet l => match set_of_list l [] with
                  | Some st => alloc s (OSet st)
                  | None => (s, RErr EType)
                  end
    | Get r k =>
        match nth_error s r with
        | Some (OList t) =>
            match k with
            | VInt z => match resolve_index z (Z.of_nat (length (to_list LO t))) with
                        | Some i => (s, RVal (nth (Z.to_nat i) (to_list LO t) VNil))
                        | None => (s, RErr EIndex)
                        end
            | _ => (s, RErr EType)
            end
        | Some (OMap m) =>
            match k with
            | VStr key => match assoc key m with Some v => (s, RVal v) | None => (s, RErr EKey) end
            | _ => (s, RErr EType)
            end
        | Some (OSet st) =>
            match hashkey k with
            | Some hk => (s, RVal (VBool (match set_find hk st with Some _ => true | None => false end)))
            | None => (s, RErr EType)
            end
        | None => (s, RUnsup)
        end
    | Slice r lo hi =>
        match nth_error s r with
        | Some (OList t) =>
            let l := to_list LO t in
            match resolve_slice lo hi (Z.of_nat (length l)) with
            | Ok (a, b) => new_list s (firstn (Z.to_nat b - Z.to_nat a) (skipn (Z.to_nat a) l))
            | Er e => (s, RErr e)
            end
        | Some _ => (s, RErr EType)
        | None => (s, RUnsup)
        end
    | SetItem r k v =>
        match nth_error s r with
        | Some (OList t) =>
            match k with
            | VInt z => match resolve_index z (Z.of_nat (length (to_list LO t))) with
                        | Some i => (upd s r (OList (l_set LO t (Z.to_nat i) v)), RVal VNil)
                        | None => (s, RErr EIndex)
                        end
            | _ => (s, RErr EType)
            end
        | Some (OMap m) =>
            match k with
            | VStr key => (upd s r (OMap (map_set key v m)), RVal VNil)
            | _ => (s, RErr EType)
            end
        | Some (OSet _) => (s, RErr EType)
        | None => (s, RUnsup)
        end
    | AddAssign r k v =>
        match nth_error s r with
        | Some (OList t) =>
            match k with
            | VInt z => match resolve_index z (Z.of_nat (length (to_list LO t))) with
                        | Some i =>
                            match add_values (nth (Z.to_nat i) (to_list LO t) VNil) v with
                            | Some (Ok w) => (upd s r (OList (l_set LO t (Z.to_nat i) w)), RVal VNil)
                            | Some (Er e) => (s, RErr e)
                            | None => (s, RUnsup)
                            end
                        | None => (s, RErr EIndex)
                        end
            | _ => (s, RErr EType)
            end
        | Some (OMap m) =>
            match k with
            | VStr key =>
                match assoc key m with
                | Some old =>
                    match add_values old v with
                    | Some (Ok w) => (upd s r (OMap (map_set key w m)), RVal VNil)
                    | Some (Er e) => (s, RErr e)
                    | None => (s, RUnsup)
                    end
                | None => (s, RErr EKey)
                end
            | _ => (s, RErr EType)
            end
        | Some (OSet _) => (s, RUnsup)
        | None => (s, RUnsup)
        end
    | Del r k =>
        match nth_error s r with
        | Some (OList t) =>
            match k with
            | VInt z => match resolve_index z (Z.of_nat (length (to_list LO t))) with
                        | Some i => (upd s r (OList (l_delete LO t (Z.to_nat i))), RVal VNil)
                        | None => (s, RErr EIndex)
                        end
            | _ => (s, RErr EType)
            end
        | Some (OMap m) =>
            match k with
            | VStr key => (upd s r (OMap (map_del key m)), RVal VNil)
            | _ => (s, RErr EType)
            end
        | Some (OSet st) =>
            match hashkey k with
            | Some hk => (upd s r (OSet (set_del hk st)), RVal VNil)
            | None => (s, RErr EType)
            end
        | None => (s, RUnsup)
        end
    | Contains r v =>
        match nth_error s r with
        | Some (OList t) => (s, RVal (VBool (existsb (fun x => equals x v) (to_list LO t))))
        | Some (OMap m) => (s, RVal (VBool (match v with
                                            | VStr key => match assoc key m with Some _ => true | None => false end
                                            | _ => false end)))
        | Some (OSet st) => (s, RVal (VBool (match hashkey v with
                                             | Some hk => match set_find hk st with Some _ => true | None => false end
                                             | None => false end)))
        | None => (s, RUnsup)
        end
    | Len r =>
        match nth_error s r with
        | Some (OList t) => (s, RVal (VInt (Z.of_nat (length (to_list LO t)))))
        | Some (OMap m) => (s, RVal (VInt (Z.of_nat (length m))))
        | Some (OSet st) => (s, RVal (VInt (Z.of_nat (length st))))
        | None => (s, RUnsup)
        end
    | Append r v =>
        match nth_error s r with
        | Some (OList t) => (upd s r (OList (l_append LO t [v])), RRef r)
        | Some _ => (s, RErr EAttr)
        | None => (s, RUnsup)
        end
    | Insert r i v =>
        match nth_error s r with
        | Some (OList t) =>
            match as_int i with
            | Some z => (upd s r (OList (l_insert LO t z v)), RRef r)
            | None => (s, RErr EType)
            end
        | Some _ => (s, RErr EAttr)
        | None => (s, RUnsup)
        end
    | Pop r i =>
        match nth_error s r with
        | Some (OList t) =>
            match as_int i with
            | Some z => match resolve_index z (Z.of_nat (length (to_list LO t))) with
                        | Some k => (upd s r (OList (l_delete LO t (Z.to_nat k))),
                                     RVal (nth (Z.to_nat k) (to_list LO t) VNil))
                        | None => (s, RErr EIndex)
                        end
            | None => (s, RErr EType)
            end
        | Some _ => (s, RUnsup)     (* map.pop is MPop *)
        | None => (s, RUnsup)
        end
    | Remove r v =>
        match nth_error s r with
        | Some (OList t) =>
            match find_index v (to_list LO t) O with
            | Some k => (upd s r (OList (l_delete LO t k)), RRef r)
            | None => (s, RRef r)
            end
        | Some _ => (s, RUnsup)     (* set.remove is SRemove *)
        | None => (s, RUnsup)
        end
    | Extend r r2 =>
        match nth_error s r, nth_error s r2 with
        | Some (OList t), Some (OList t2) => (upd s r (OList (l_append LO t (to_list LO t2))), RRef r)
        | Some (OList _), Some _ => (s, RErr EType)
        | Some _, Some _ => (s, RErr EAttr)
        | _, _ => (s, RUnsup)
        end
    | Reverse r =>
        match nth_error s r with
        | Some (OList t) => (upd s r (OList (l_reverse LO t)), RRef r)
        | Some _ => (s, RErr EAttr)
        | None => (s, RUnsup)
        end
    | Sort r =>
        match nth_error s r with
        | Some (OList t) =>
            let '(l', er, pn) := sort_full (to_list LO t) in
            if pn then (s, RUnsup)
            else (upd s r (OList (l_assign LO t l')), if er then RErr EType else RRef r)
        | Some _ => (s, RErr EAttr)
        | None => (s, RUnsup)
        end
    | Clear r =>
        match nth_error s r with
        | Some (OList _) => (upd s r (OList (of_list LO [])), RRef r)
        | Some (OMap _) => (upd s r (OMap []), RRef r)
        | Some (OSet _) => (upd s r (OSet []), RRef r)
        | None => (s, RUnsup)
        end
    | Copy r =>
        match nth_error s r with
        | Some (OList t) => new_list s (to_list LO t)
        | Some (OMap m) => alloc s (OMap m)
        | Some (OSet _) => (s, RErr EAttr)
        | None => (s, RUnsup)
        end
    | Count r v =>
        match nth_error s r with
        | Some (OList t) => (s, RVal (VInt (Z.of_nat (length (filter (fun x => equals v x) (to_list LO t))))))
        | Some _ => (s, RErr EAttr)
        | None => (s, RUnsup)
        end
    | Index r v =>
        match nth_error s r with
        | Some (OList t) => (s, RVal (VInt (match find_index v (to_list LO t) O with
                                            | Some k => Z.of_nat k | None => -1 end)))
        | Some _ => (s, RErr EAttr)
        | None => (s, RUnsup)
        end
    | Reversed r =>
        match nth_error s r with
        | Some (OList t) => new_list s (rev (to_list LO t))
        | Some _ => (s, RErr EType)
        | None => (s, RUnsup)
        end
    | Sorted r =>
        match nth_error s r with
        | Some (OList t) =>
            let '(l', er, pn) := sort_full (to_list LO t) in
            if pn then (s, RUnsup) else if er then (s, RErr EType) else new_list s l'
        | Some _ => (s, RUnsup)
        | None => (s, RUnsup)
        end
    | Keys r =>
        match nth_error s r with
        | Some (OList t) => new_list s (index_values O (length (to_list LO t)))
        | Some (OMap m) => new_list s (map VStr (sorted_keys m))
        | Some (OSet _) => (s, RUnsup)
        | None => (s, RUnsup)
        end
    | Concat r r2 =>
        match nth_error s r, nth_error s r2 with
        | Some (OList t), Some (OList t2) => new_list s (to_list LO t ++ to_list LO t2)
        | Some _, Some _ => (s, RErr EType)
        | _, _ => (s, RUnsup)
        end
    | MapCb r cb =>
        match nth_error s r with
        | Some (OList t) => new_list s (map_cb_result cb (to_list LO t))
        | Some _ => (s, RErr EAttr)
        | None => (s, RUnsup)
        end
    | FilterCb r cb =>
        match nth_error s r with
        | Some (OList t) => new_list s (filter_cb_result cb (to_list LO t))
        | Some _ => (s, RErr EAttr)
        | None => (s, RUnsup)
        end
    | EachAppend r r2 =>
        match nth_error s r, nth_error s r2 with
        | Some (OList t), Some (OList t2) => (upd s r2 (OList (l_append LO t2 (to_list LO t))), RVal VNil)
        | _, _ => (s, RUnsup)
        end
    | MGetD r k d =>
        match nth_error s r with
        | Some (OMap m) =>
            match as_string k with
            | Some key => (s, RVal (match assoc key m with
                                    | Some v => v
                                    | None => match d with Some dv => dv | None => VNil end
                                    end))
            | None => (s, RErr EType)
            end
        | Some _ => (s, RErr EAttr)
        | None => (s, RUnsup)
        end
    | MPop r k d =>
        match nth_error s r with
        | Some (OMap m) =>
            match as_string k with
            | Some key =>
                match assoc key m with
                | Some v => (upd s r (OMap (map_del key m)), RVal v)
                | None => (s, RVal (match d with Some dv => dv | None => VNil end))
                end
            | None => (s, RErr EType)
            end
        | Some _ => (s, RUnsup)
        | None => (s, RUnsup)
        end
    | MSetDefault r k v =>
        match nth_error s r with
        | Some (OMap m) =>
            match as_string k with
            | Some key =>
                match assoc key m with
                | Some old => (s, RVal old)
                | None => (upd s r (OMap (map_set key v m)), RVal v)
                end
            | None => (s, RErr EType)
            end
        | Some _ => (s, RErr EAttr)
        | None => (s, RUnsup)
        end
    | MUpdate r r2 =>
        match nth_error s r, nth_error s r2 with
        | Some (OMap m), Some (OMap m2) => (upd s r (OMap (map_update m m2)), RRef r)
        | Some (OMap _), Some _ => (s, RErr EType)
        | Some _, Some _ => (s, RErr EAttr)
        | _, _ => (s, RUnsup)
        end
    | MValues r =>
        match nth_error s r with
        | Some (OMap m) => new_list s (map_values_sorted m)
        | Some _ => (s, RErr EAttr)
        | None => (s, RUnsup)
        end
    | MItems r =>
        match nth_error s r with
        | Some (OMap m) =>
            new_list s (map (fun k => VList [VStr k; match assoc k m with Some v => v | None => VNil end]) (sorted_keys m))
        | Some _ => (s, RErr EAttr)
        | None => (s, RUnsup)
        end
    | SAdd r v =>
        match nth_error s r with
        | Some (OSet st) =>
            match hashkey v with
            | Some _ => (upd s r (OSet (set_add v st)), RRef r)
            | None => (s, RErr EType)
            end
        | Some _ => (s, RErr EAttr)
        | None => (s, RUnsup)
        end
    | SRemove r v =>
        match nth_error s r with
        | Some (OSet st) =>
            match hashkey v with
            | Some hk => (upd s r (OSet (set_del hk st)), RRef r)
            | None => (s, RErr EType)
            end
        | Some _ => (s, RUnsup)
        | None => (s, RUnsup)
        end
    | SUnion r r2 =>
        match nth_error s r, nth_error s r2 with
        | Some (OSet a), Some (OSet b) => alloc s (OSet (set_union a b))
        | Some (OSet _), Some _ => (s, RErr EType)
        | Some _, Some _ => (s, RErr EAttr)
        | _, _ => (s, RUnsup)
        end
    | SInter r r2 =>
        match nth_error s r, nth_error s r2 with
        | Some (OSet a), Some (OSet b) => alloc s (OSet (set_inter a b))
        | Some (OSet _), Some _ => (s, RErr EType)
        | Some _, Some _ => (s, RErr EAttr)
        | _, _ => (s, RUnsup)
        end
    | Enumerate r =>
        match nth_error s r with
        | Some (OList t) => new_list s (enumerate_from O (to_list LO t))
        | Some (OMap m) =>
            (* MapIter: the keys sorted when the loop starts *)
            new_list s (map (fun k => VList [VStr k; match assoc k m with Some v => v | None => VNil end]) (sorted_keys m))
        | Some (OSet _) => (s, RUnsup)
        | None => (s, RUnsup)
        end
    end.

  Fixpoint run (s : store) (ops : list op) : store * list outcome :=
    match ops with
    | [] => (s, [])
    | o :: ops' =>
        let '(s1, out) := step s o in
        let '(s2, outs) := run s1 ops' in
        (s2, out :: outs)
    end.
End Step.

(* the code: Go slices *)
Definition cstep := step go_lops.
Definition crun := run go_lops.
(* the reference containers *)
Definition astep := step ref_lops.
Definition arun := run ref_lops.

Definition abs_obj (o : obj gslice) : obj (list value) :=
  match o with OList t => OList (g_abs t) | OMap m => OMap m | OSet s => OSet s end.
Definition abs_store (s : list (obj gslice)) : list (obj (list value)) := map abs_obj s.

Definition wf_obj (o : obj gslice) : Prop := match o with OList t => g_wf t | _ => True end.

(* operations that must leave every existing object alone *)
Definition readonly (o : op) : bool :=
  match o with
  | NewList _ | NewMap _ | NewSet _ | Get _ _ | Slice _ _ _ | Contains _ _ | Len _ | Copy _ | Count _ _ | Index _ _
  | Reversed _ | Sorted _ | Keys _ | Concat _ _ | MapCb _ _ | FilterCb _ _ | MGetD _ _ _ | MValues _ | MItems _
  | SUnion _ _ | SInter _ _ | Enumerate _ => true
  | _ => false
  end.

(* the object an operation may change *)
Definition target (o : op) : option nat :=
  match o with
  | SetItem r _ _ | AddAssign r _ _ | Del r _ | Append r _ | Insert r _ _ | Pop r _ | Remove r _ | Extend r _
  | Reverse r | Sort r | Clear r | MPop r _ _ | MSetDefault r _ _ | MUpdate r _ | SAdd r _ | SRemove r _ => Some r
  | EachAppend _ r2 => Some r2
  | _ => None
  end.

(* ---------------------------------------------------------------- strings, by code point *)

Definition str_get (s : bytes) (k : value) : res value :=
  match k with
  | VInt z =>
      let rs := runes_of s in
      match resolve_index z (Z.of_nat (length rs)) with
      | Some i => Ok (VStr (utf8_encode (nth (Z.to_nat i) rs 0)))
      | None => Er EIndex
      end
  | _ => Er EType
  end.

Definition str_slice (s : bytes) (lo hi : option value) : res value :=
  let rs := runes_of s in
  match resolve_slice lo hi (Z.of_nat (length rs)) with
  | Ok (a, b) => Ok (VStr (utf8_string (firstn (Z.to_nat b - Z.to_nat a) (skipn (Z.to_nat a) rs))))
  | Er e => Er e
  end.

Definition str_len (s : bytes) : Z := Z.of_nat (length (runes_of s)).

(* the reference: a string is its list of code points *)
Definition cp_get (cps : list Z) (k : value) : res (list Z) :=
  match k with
  | VInt z => match resolve_index z (Z.of_nat (length cps)) with
              | Some i => Ok [nth (Z.to_nat i) cps 0]
              | None => Er EIndex
              end
  | _ => Er EType
  end.

Definition cp_slice (cps : list Z) (lo hi : option value) : res (list Z) :=
  match resolve_slice lo hi (Z.of_nat (length cps)) with
  | Ok (a, b) => Ok (firstn (Z.to_nat b - Z.to_nat a) (skipn (Z.to_nat a) cps))
  | Er e => Er e
  end.

(* Unicode scalar values *)
Definition valid_cp (c : Z) : bool := (0 <=? c) && (c <=? 1114111) && negb ((55296 <=? c) && (c <=? 57343)).

(* ---------------------------------------------------------------- byte_slices: a heap of backing arrays *)

Record bobj := BO { b_arr : nat; b_off : nat; b_len : nat }.
Record bstate := BS { b_heap : list (list Z); b_objs : list bobj }.

Inductive bop :=
| BNew (l : list Z) | BGet (r : nat) (k : value) | BSlice (r : nat) (lo hi : option value)
| BSetItem (r : nat) (k v : value) | BClone (r : nat) | BLen (r : nat) | BConcat (r r2 : nat).

Definition b_view (st : bstate) (o : bobj) : list Z :=
  firstn (b_len o) (skipn (b_off o) (nth (b_arr o) (b_heap st) [])).

Definition b_alloc (st : bstate) (l : list Z) : bstate * outcome :=
  (BS (b_heap st ++ [l]) (b_objs st ++ [BO (length (b_heap st)) 0 (length l)]), RRef (length (b_objs st))).

Definition zwrite (arr : list Z) (i : nat) (x : Z) : list Z := firstn i arr ++ x :: skipn (S i) arr.

Definition bstep (st : bstate) (o : bop) : bstate * outcome :=
  match o with
  | BNew l => b_alloc st l
  | BGet r k =>
      match nth_error (b_objs st) r with
      | Some bo =>
          match k with
          | VInt z => match resolve_index z (Z.of_nat (b_len bo)) with
                      | Some i => (st, RVal (VByte (nth (Z.to_nat i) (b_view st bo) 0)))
                      | None => (st, RErr EIndex)
                      end
          | _ => (st, RErr EType)
          end
      | None => (st, RUnsup)
      end
  | BSlice r lo hi =>
      match nth_error (b_objs st) r with
      | Some bo =>
          match resolve_slice lo hi (Z.of_nat (b_len bo)) with
          | Ok (a, b) =>
              (* result := make([]byte, stop-start); copy(result, b.value[start:stop]) *)
              b_alloc st (firstn (Z.to_nat b - Z.to_nat a) (skipn (Z.to_nat a) (b_view st bo)))
          | Er e => (st, RErr e)
          end
      | None => (st, RUnsup)
      end
  | BSetItem r k v =>
      match nth_error (b_objs st) r with
      | Some bo =>
          match k with
          | VInt z =>
              match resolve_index z (Z.of_nat (b_len bo)) with
              | Some i =>
                  match as_string v with
                  | Some [x] =>
                      let arr := nth (b_arr bo) (b_heap st) [] in
                      (BS (set_nth_obj (b_heap st) (b_arr bo) (zwrite arr (b_off bo + Z.to_nat i) x)) (b_objs st), RVal VNil)
                  | Some _ => (st, RErr EValue)
                  | None => (st, RErr EType)
                  end
              | None => (st, RErr EIndex)
              end
          | _ => (st, RErr EType)
          end
      | None => (st, RUnsup)
      end
  | BClone r =>
      match nth_error (b_objs st) r with
      | Some bo => b_alloc st (b_view st bo)
      | None => (st, RUnsup)
      end
  | BLen r =>
      match nth_error (b_objs st) r with
      | Some bo => (st, RVal (VInt (Z.of_nat (b_len bo))))
      | None => (st, RUnsup)
      end
  | BConcat r r2 =>
      match nth_error (b_objs st) r, nth_error (b_objs st) r2 with
      | Some a, Some b => b_alloc st (b_view st a ++ b_view st b)
      | _, _ => (st, RUnsup)
      end
  end.

Fixpoint brun (st : bstate) (ops : list bop) : bstate * list outcome :=
  match ops with
  | [] => (st, [])
  | o :: ops' =>
      let '(s1, out) := bstep st o in
      let '(s2, outs) := brun s1 ops' in
      (s2, out :: outs)
  end.

(* the reference byte_slices: every object owns its bytes *)
Definition rbstep (st : list (list Z)) (o : bop) : list (list Z) * outcome :=
  match o with
  | BNew l => (st ++ [l], RRef (length st))
  | BGet r k =>
      match nth_error st r with
      | Some l =>
          match k with
          | VInt z => match resolve_index z (Z.of_nat (length l)) with
                      | Some i => (st, RVal (VByte (nth (Z.to_nat i) l 0)))
                      | None => (st, RErr EIndex)
                      end
          | _ => (st, RErr EType)
          end
      | None => (st, RUnsup)
      end
  | BSlice r lo hi =>
      match nth_error st r with
      | Some l =>
          match resolve_slice lo hi (Z.of_nat (length l)) with
          | Ok (a, b) => (st ++ [firstn (Z.to_nat b - Z.to_nat a) (skipn (Z.to_nat a) l)], RRef (length st))
          | Er e => (st, RErr e)
          end
      | None => (st, RUnsup)
      end
  | BSetItem r k v =>
      match nth_error st r with
      | Some l =>
          match k with
          | VInt z =>
              match resolve_index z (Z.of_nat (length l)) with
              | Some i =>
                  match as_string v with
                  | Some [x] => (set_nth_obj st r (zwrite l (Z.to_nat i) x), RVal VNil)
                  | Some _ => (st, RErr EValue)
                  | None => (st, RErr EType)
                  end
              | None => (st, RErr EIndex)
              end
          | _ => (st, RErr EType)
          end
      | None => (st, RUnsup)
      end
  | BClone r =>
      match nth_error st r with
      | Some l => (st ++ [l], RRef (length st))
      | None => (st, RUnsup)
      end
  | BLen r =>
      match nth_error st r with
      | Some l => (st, RVal (VInt (Z.of_nat (length l))))
      | None => (st, RUnsup)
      end
  | BConcat r r2 =>
      match nth_error st r, nth_error st r2 with
      | Some a, Some b => (st ++ [a ++ b], RRef (length st))
      | _, _ => (st, RUnsup)
      end
  end.

Fixpoint rbrun (st : list (list Z)) (ops : list bop) : list (list Z) * list outcome :=
  match ops with
  | [] => (st, [])
  | o :: ops' =>
      let '(s1, out) := rbstep st o in
      let '(s2, outs) := rbrun s1 ops' in
      (s2, out :: outs)
  end.

Definition babs (st : bstate) : list (list Z) := map (b_view st) (b_objs st).
