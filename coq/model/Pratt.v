(* Reduced model of the Pratt expression parser (parser/parser.go: parseExpression, parseInfixExpr,
   parsePrefixExpr, parseGroupedExpr) for the binary-operator fragment: integer literals, every
   operator registered with parseInfixExpr, the prefix operators - and !, and grouping.
   The binding powers are a parameter: they are instantiated with the table regenerated from
   parser/precedence.go (coq/gen/GenPrecedence.v).  Operators are indices into that table. *)
From Coq Require Import List Arith Bool.
Import ListNotations.

Notation op := nat (only parsing).
Inductive tok := TInt (n : nat) | TOp (o : op) | TBang | TL | TR.
Inductive pre := PNeg | PNot.
Inductive expr := Int (n : nat) | Infix (o : op) (l r : expr) | Prefix (p : pre) (e : expr).

Section Pratt.
  Variable bp : op -> nat.          (* precedences[token] of binary operator o *)
  Variable minus : op.              (* the operator that is also the prefix operator "-" *)
  Variables LOWEST PREFIX : nat.

  Definition pre_tok (p : pre) : tok := match p with PNeg => TOp minus | PNot => TBang end.

  (* fuel = any number above the token count *)
  Fixpoint parse (fuel : nat) (prec : nat) (ts : list tok) {struct fuel} : option (expr * list tok) :=
    match fuel with
    | O => None
    | S f =>
      let fix loop (g : nat) (left : expr) (ts : list tok) {struct g} : option (expr * list tok) :=
          match g with
          | O => None
          | S g' =>
            match ts with
            | TOp o :: r =>
                if prec <? bp o then
                  match parse f (bp o) r with
                  | Some (rt, r') => loop g' (Infix o left rt) r'
                  | None => None
                  end
                else Some (left, ts)
            | _ => Some (left, ts)
            end
          end in
      match ts with
      | TInt n :: r => loop f (Int n) r
      | TL :: r => match parse f LOWEST r with
                   | Some (e, TR :: r') => loop f e r'
                   | _ => None
                   end
      | TOp o :: r => if Nat.eqb o minus then
                        match parse f PREFIX r with
                        | Some (e, r') => loop f (Prefix PNeg e) r'
                        | None => None
                        end
                      else None
      | TBang :: r => match parse f PREFIX r with
                      | Some (e, r') => loop f (Prefix PNot e) r'
                      | None => None
                      end
      | _ => None
      end
    end.

  (* the loop as a top-level function, for stating lemmas *)
  Fixpoint loop (f : nat) (prec : nat) (g : nat) (left : expr) (ts : list tok) {struct g} : option (expr * list tok) :=
    match g with
    | O => None
    | S g' =>
      match ts with
      | TOp o :: r =>
          if prec <? bp o then
            match parse f (bp o) r with
            | Some (rt, r') => loop f prec g' (Infix o left rt) r'
            | None => None
            end
          else Some (left, ts)
      | _ => Some (left, ts)
      end
    end.

  (* the printer: parentheses exactly around infix nodes that bind no tighter than the context;
     left operand printed one level lower (left associativity, as implemented) *)
  Fixpoint flat (q : nat) (e : expr) : list tok :=
    match e with
    | Int n => [TInt n]
    | Prefix p e' => pre_tok p :: flat PREFIX e'
    | Infix o l r =>
        let s := flat (bp o - 1) l ++ TOp o :: flat (bp o) r in
        if bp o <=? q then TL :: s ++ [TR] else s
    end.
End Pratt.
