(* AST of risor programs as the parser produces it (ast/*.go), positions dropped. *)
From Coq Require Import List ZArith NArith Bool.
Import ListNotations.

Notation bytes := (list N) (only parsing).

Inductive node :=
| NNil
| NInt (z : Z)
| NFloat (bits : Z)
| NFloatText (lit : list N)
| NTypedNilReturn
| NBool (b : bool)
| NString (value : list N) (tmpl : option (list frag))
| NIdent (name : list N)
| NPrefix (op : list N) (r : node)
| NInfix (op : list N) (l r : node)
| NIf (c : node) (cns : list node) (alt : option (list node))
| NTernary (c t f : node)
| NCall (f : node) (args : list node)
| NGetAttr (o : node) (name : list N)
| NPipe (es : list node)
| NObjectCall (o : node) (name : list N) (args : list node)
| NIndex (l i : node)
| NSlice (l : node) (from to : option node)
| NSwitch (v : node) (cases : list scase)
| NIn (l r : node)
| NNotIn (l r : node)
| NRange (c : node)
| NReceive (c : node)
| NFunc (name : option (list N)) (params : list (list N)) (defaults : list (list N * node)) (body : list node)
| NList (items : list node)
| NMap (items : list (node * node))
| NSet (items : list node)
| NVar (name : list N) (value : node)
| NMultiVar (names : list (list N)) (value : node) (walrus : bool)
| NConst (name : list N) (value : node)
| NBreak
| NContinue
| NReturn (v : option node)
| NFor (cond init post : option node) (body : list node)
| NForIn (v : list N) (iter : node) (body : list node)
| NAssign (name : list N) (op : list N) (value : node)
| NAssignIndex (l i : node) (op : list N) (value : node)
| NImport (path : list N) (alias : option (list N))
| NFromImport (parents : list (list N)) (imports : list (list N * option (list N)))
| NPostfix (name : list N) (op : list N)
| NSetAttr (o : node) (name : list N) (op : list N) (value : node)
| NGo (call : node)
| NDefer (call : node)
| NSend (ch v : node)
with frag :=
| FText (s : list N)
| FVar (e : option node)
with scase :=
| SCase (is_default : bool) (exprs : list node) (block : option (list node)).

(* ast.Node.IsExpression() *)
Definition is_expression (n : node) : bool :=
  match n with
  | NNil | NInt _ | NFloat _ | NFloatText _ | NBool _ | NString _ _ | NIdent _ | NPrefix _ _ | NInfix _ _ _
  | NIf _ _ _ | NTernary _ _ _ | NCall _ _ | NGetAttr _ _ | NPipe _ | NObjectCall _ _ _
  | NIndex _ _ | NSlice _ _ _ | NSwitch _ _ | NIn _ _ | NNotIn _ _ | NRange _ | NReceive _
  | NList _ | NMap _ | NSet _ => true
  | NFunc None _ _ _ => true
  | NFunc (Some _) _ _ _ => false
  | _ => false
  end.
