(* Model of compiler/store.go: the flat marshalled state of compiled code (one definition per code
   object, in Flatten order) and how codeFromState rebuilds the links that the JSON does not carry:
   which code object a function constant runs (by function id), which code is the parent (by code
   id), and whether a code object is "named" (its own name is bound in its frame). *)
From Coq Require Import List NArith Bool Arith.
Import ListNotations.

Notation bytes := (list N) (only parsing).
Definition beq (a b : list N) : bool := if list_eq_dec N.eq_dec a b then true else false.
Definition is_empty (s : list N) : bool := match s with [] => true | _ => false end.

Record cdef := {
  cd_id : list N;            (* "__main__", "__main__.0", ... *)
  cd_name : list N;          (* "__main__" for the entrypoint, the function's name, or "" *)
  cd_parent : list N;        (* id of the parent code, "" for the entrypoint *)
  cd_funcid : list N;        (* "" for the entrypoint, the function id otherwise *)
  cd_named : bool;           (* Code.isNamed as the compiler set it *)
  cd_fnrefs : list (list N); (* function ids of the function constants, in constant order *)
}.

Definition main_name : list N := [95;95;109;97;105;110;95;95]%N.   (* "__main__" *)

(* isNamed as codeFromState recomputes it (repaired rule) and as it did before the repair *)
Definition named_of (d : cdef) : bool := negb (is_empty (cd_name d)) && negb (is_empty (cd_funcid d)).
Definition named_of_old (d : cdef) : bool := negb (is_empty (cd_name d)) && negb (beq (cd_name d) main_name).

(* functionsByID / the second loop of codeFromState: the code whose function id is [fid] *)
Fixpoint find_code (fid : list N) (defs : list cdef) (i : nat) : option nat :=
  match defs with
  | [] => None
  | d :: r => if beq (cd_funcid d) fid then Some i else find_code fid r (S i)
  end.
(* codesByID: the parent of a definition *)
Fixpoint find_id (id : list N) (defs : list cdef) (i : nat) : option nat :=
  match defs with
  | [] => None
  | d :: r => if beq (cd_id d) id then Some i else find_id id r (S i)
  end.

(* the rebuilt linkage: for every definition, the index of its parent and, for each function
   constant, the index of the code it runs; None when a link cannot be resolved (an error in Go) *)
Definition link_fnrefs (defs : list cdef) (d : cdef) : option (list nat) :=
  fold_right (fun fid acc => match find_code fid defs 0, acc with
                             | Some i, Some l => Some (i :: l)
                             | _, _ => None end) (Some []) (cd_fnrefs d).
Definition relink (defs : list cdef) : list (option nat * option (list nat) * bool) :=
  map (fun d => (if is_empty (cd_parent d) then None else find_id (cd_parent d) defs 0,
                 link_fnrefs defs d, named_of d)) defs.

(* what the compiler guarantees about the definitions it produces *)
Definition def_ok (d : cdef) : bool :=
  Bool.eqb (cd_named d) (negb (is_empty (cd_name d)) && negb (is_empty (cd_funcid d))).
Fixpoint nodup_b (l : list (list N)) : bool :=
  match l with [] => true | x :: r => negb (existsb (beq x) r) && nodup_b r end.
Definition defs_ok (defs : list cdef) : bool :=
  forallb def_ok defs &&
  nodup_b (map cd_funcid (filter (fun d => negb (is_empty (cd_funcid d))) defs)) &&
  nodup_b (map cd_id defs) &&
  match defs with d :: r => is_empty (cd_funcid d) && forallb (fun x => negb (is_empty (cd_funcid x))) r | [] => false end.
