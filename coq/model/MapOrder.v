(* Go map iteration order as an explicit parameter: a `range` over a map visits the entries (a list
   with distinct keys) in an arbitrary permutation.  The three shapes of loop body found at the
   order-insensitive sites of risor, as folds over the visiting order. *)
From Coq Require Import List Bool Arith.
Import ListNotations.

Section MapOrder.
  Variable K V : Type.
  Variable keq : forall a b : K, {a = b} + {a <> b}.

  (* shape A: every visited entry is written into another map under its own key (copy, merge,
     convert, delete-by-key): the target map as a lookup function *)
  Definition ins (W : Type) (k : K) (w : W) (m : K -> option W) : K -> option W :=
    fun k' => if keq k' k then Some w else m k'.
  Definition copy_into (W : Type) (f : K -> V -> W) (entries : list (K * V)) (m0 : K -> option W) : K -> option W :=
    fold_left (fun m kv => ins W (fst kv) (f (fst kv) (snd kv)) m) entries m0.

  (* shape B: the keys (or items) are collected and then sorted before anything observes them *)
  Variable le : K -> K -> bool.
  Fixpoint insert_sorted (x : K) (l : list K) : list K :=
    match l with
    | [] => [x]
    | y :: r => if le x y then x :: l else y :: insert_sorted x r
    end.
  Definition sort_keys (l : list K) : list K := fold_right insert_sorted [] l.
  Definition collect_sorted (entries : list (K * V)) : list K := sort_keys (map fst entries).

  (* shape C: a commutative, associative aggregate of the entries (all / any / count / equality
     of every entry with the other map) *)
  Definition aggregate (A : Type) (op : A -> A -> A) (e : A) (f : K -> V -> A) (entries : list (K * V)) : A :=
    fold_right (fun kv acc => op (f (fst kv) (snd kv)) acc) e entries.
End MapOrder.

(* classification of a site *)
Inductive site_class := CopyByKey | CollectThenSort | CommutativeAggregate | OutsideProperty | ProvedElsewhere.
