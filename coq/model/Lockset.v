(* Generic interleaving semantics of threads that acquire / release (reader-writer) locks and read /
   write shared locations, and the lock discipline checked on the generated site list (C09).
   Definitions only; proofs live in proofs/LocksetProofs.v.

   A thread is (locks it holds, events it still has to perform).  Any number of threads (a list,
   thread id = position), any schedule (a list of thread ids).  Locks are Go's sync.Mutex / RWMutex:
   Lock needs nobody to hold the lock, RLock needs nobody to hold it in write mode. *)
From Coq Require Import List Bool Arith.
Import ListNotations.

Inductive event :=
| Acq (m : nat) (w : bool)        (* m.Lock() (w = true) / m.RLock() (w = false) *)
| Rel (m : nat)                   (* m.Unlock() / m.RUnlock() *)
| Rd (x : nat)                    (* read of shared location x *)
| Wr (x : nat).                   (* write of shared location x *)

Record thread := mk_thread { held : list (nat * bool); todo : list event }.

Definition holds_any (h : list (nat * bool)) (m : nat) : bool := existsb (fun p => Nat.eqb (fst p) m) h.
Definition holds_w (h : list (nat * bool)) (m : nat) : bool := existsb (fun p => Nat.eqb (fst p) m && snd p) h.

Fixpoint release (m : nat) (h : list (nat * bool)) : list (nat * bool) :=
  match h with
  | [] => []
  | p :: r => if Nat.eqb (fst p) m then r else p :: release m r
  end.

Fixpoint set_thread (t : nat) (th : thread) (s : list thread) : list thread :=
  match s, t with
  | [], _ => []
  | _ :: r, 0 => th :: r
  | x :: r, S t' => x :: set_thread t' th r
  end.

Definition step (s : list thread) (t : nat) : option (list thread) :=
  match nth_error s t with
  | None => None
  | Some th =>
      match todo th with
      | [] => None
      | Acq m true :: r =>
          if existsb (fun u => holds_any (held u) m) s then None
          else Some (set_thread t (mk_thread ((m, true) :: held th) r) s)
      | Acq m false :: r =>
          if existsb (fun u => holds_w (held u) m) s then None
          else Some (set_thread t (mk_thread ((m, false) :: held th) r) s)
      | Rel m :: r =>
          if holds_any (held th) m then Some (set_thread t (mk_thread (release m (held th)) r) s) else None
      | Rd _ :: r | Wr _ :: r => Some (set_thread t (mk_thread (held th) r) s)
      end
  end.

Fixpoint run (s : list thread) (sched : list nat) : option (list thread) :=
  match sched with
  | [] => Some s
  | t :: r => match step s t with Some s' => run s' r | None => None end
  end.

Definition init (progs : list (list event)) : list thread := map (mk_thread []) progs.

(* a data race: two different threads are both about to access the same location, one of them writing *)
Definition next_access (th : thread) : option (nat * bool) :=
  match todo th with Rd x :: _ => Some (x, false) | Wr x :: _ => Some (x, true) | _ => None end.

Definition race (s : list thread) : Prop :=
  exists t1 t2 th1 th2 x w1 w2,
    t1 <> t2 /\ nth_error s t1 = Some th1 /\ nth_error s t2 = Some th2 /\
    next_access th1 = Some (x, w1) /\ next_access th2 = Some (x, w2) /\ (w1 = true \/ w2 = true).

Definition conflicting (a b : option (nat * bool)) : bool :=
  match a, b with
  | Some (x, w1), Some (y, w2) => Nat.eqb x y && (w1 || w2)
  | _, _ => false
  end.

Fixpoint raceb_from (t1 : nat) (a : option (nat * bool)) (rest : list thread) : bool :=
  match rest with
  | [] => false
  | th :: r => conflicting a (next_access th) || raceb_from t1 a r
  end.

Fixpoint raceb (s : list thread) : bool :=
  match s with
  | [] => false
  | th :: r => raceb_from 0 (next_access th) r || raceb r
  end.

(* ---- the generated facts: an access site with the locks that must be held there ---- *)

Record site := mk_site { s_loc : nat; s_write : bool; s_held : list (nat * bool) }.

(* thread-local view: does [h] hold lock m in at least mode w *)
Definition holds_mode (h : list (nat * bool)) (p : nat * bool) : bool :=
  if snd p then holds_w h (fst p) else holds_any h (fst p).

Definition covers (h : list (nat * bool)) (st : site) : bool := forallb (holds_mode h) (s_held st).

Definition site_for (sites : list site) (h : list (nat * bool)) (x : nat) (w : bool) : bool :=
  existsb (fun st => Nat.eqb (s_loc st) x && Bool.eqb (s_write st) w && covers h st) sites.

(* every access of the thread happens at one of the sites, holding at least that site's locks
   (this is what the must-lock analysis of the translator asserts about an evaluation) *)
Fixpoint conformsb (sites : list site) (h : list (nat * bool)) (evs : list event) : bool :=
  match evs with
  | [] => true
  | Acq m w :: r => conformsb sites ((m, w) :: h) r
  | Rel m :: r => conformsb sites (release m h) r
  | Rd x :: r => site_for sites h x false && conformsb sites h r
  | Wr x :: r => site_for sites h x true && conformsb sites h r
  end.

(* two sites can never be executed at the same time by two threads: some lock is required in write
   mode by one of them and (in any mode) by the other *)
Definition excluded (a b : site) : bool :=
  existsb (fun p => (snd p && holds_any (s_held b) (fst p)) || holds_w (s_held b) (fst p)) (s_held a).

Definition pair_ok (a b : site) : bool :=
  negb (Nat.eqb (s_loc a) (s_loc b)) || (negb (s_write a) && negb (s_write b)) || excluded a b.

(* the discipline: every pair of sites (a site with itself included: two threads at the same site) *)
Definition all_pairs_ok (sites : list site) : bool :=
  forallb (fun a => forallb (pair_ok a) sites) sites.

Fixpoint find_bad_pair_with (a : site) (l : list site) : option (site * site) :=
  match l with
  | [] => None
  | b :: r => if pair_ok a b then find_bad_pair_with a r else Some (a, b)
  end.

Fixpoint find_bad_pair_in (l all : list site) : option (site * site) :=
  match l with
  | [] => None
  | a :: r => match find_bad_pair_with a all with Some p => Some p | None => find_bad_pair_in r all end
  end.

Definition find_bad_pair (sites : list site) : option (site * site) := find_bad_pair_in sites sites.

(* the racy program of a bad pair: each thread takes its site's locks, then accesses *)
Definition site_prog (st : site) : list event :=
  map (fun p => Acq (fst p) (snd p)) (s_held st) ++ [if s_write st then Wr (s_loc st) else Rd (s_loc st)].

Definition witness_sched (a b : site) : list nat := repeat 0 (length (s_held a)) ++ repeat 1 (length (s_held b)).

(* decidable check of a refutation witness: both programs conform to the sites and the schedule reaches a race *)
Definition check_witness (sites : list site) (a b : site) : bool :=
  conformsb sites [] (site_prog a) && conformsb sites [] (site_prog b) &&
  match run (init [site_prog a; site_prog b]) (witness_sched a b) with
  | Some s => raceb s
  | None => false
  end.

(* either the discipline holds of the whole list, or the first bad pair yields a checked racy program *)
Definition refuted_or_ok (sites : list site) : bool :=
  match find_bad_pair sites with
  | Some (a, b) => check_witness sites a b
  | None => true
  end.
