(* Model of spawned calls: object/spawn.go (Spawn), object/thread.go (NewThread, Wait), the `go`
   statement (compiler: Partial + Go; vm: op.Partial, op.Go), builtins spawn / function.spawn /
   builtin.spawn.  Definitions only; proofs live in proofs/SpawnProofs.v.

   1. Thread: the goroutine started by NewThread is three atomic steps
        pc 0  t.result = callable.Call(ctx, args...)      (or the call panics: no assignment)
        pc 1  deferred: if r := recover(); r != nil { t.result = NewError("panic: r") }
        pc 2  deferred: close(t.done)
      and Wait is  select { <-ctx.Done(): error "wait error: ..." ; <-t.done: return t.result }.
   2. Arguments: every spawn form evaluates the argument expressions at the spawn site into a
      fresh slice (op.Call / op.Partial: make([]Object, argc)); Spawn hands the call a COPY of
      that slice (argsCopy).  Slices live in a heap; the caller may overwrite elements of the
      slice it passed (a host calling object.Spawn from Go), and may reassign its variables. *)
From Coq Require Import List Bool Arith NArith.
Import ListNotations.

(* ------------------------------------------------------------------ 1. thread and wait *)

Inductive err := ERaised (code : N) | EPanic (code : N) | EWaitCtx.
Inductive res := RVal (v : list N) | RErr (e : err).
Inductive outcome := Returns (v : list N) | Raises (code : N) | Panics (code : N).

Definition result_of (o : outcome) : res :=
  match o with Returns v => RVal v | Raises c => RErr (ERaised c) | Panics c => RErr (EPanic c) end.

Record tst := {
  pc : nat;
  result : option res;             (* Thread.result, nil until assigned *)
  done : bool;                     (* Thread.done closed *)
  tcancelled : bool;
  waits : list (nat * option res); (* (waiter, what wait() returned); None = a Go nil Object *)
}.

Inductive tact := TStep | Wait (k : nat) | TCancel | WaitCtx (k : nat).

Definition tinit : tst := {| pc := 0; result := None; done := false; tcancelled := false; waits := [] |}.

Definition tstep (o : outcome) (s : tst) (a : tact) : option tst :=
  match a with
  | TStep =>
      match pc s with
      | 0 => Some {| pc := 1;
                     result := match o with Panics _ => result s | _ => Some (result_of o) end;
                     done := done s; tcancelled := tcancelled s; waits := waits s |}
      | 1 => Some {| pc := 2;
                     result := match o with Panics c => Some (RErr (EPanic c)) | _ => result s end;
                     done := done s; tcancelled := tcancelled s; waits := waits s |}
      | 2 => Some {| pc := 3; result := result s; done := true; tcancelled := tcancelled s; waits := waits s |}
      | _ => None
      end
  | Wait k =>
      if done s then Some {| pc := pc s; result := result s; done := done s; tcancelled := tcancelled s;
                             waits := waits s ++ [(k, result s)] |}
      else None
  | TCancel => Some {| pc := pc s; result := result s; done := done s; tcancelled := true; waits := waits s |}
  | WaitCtx k =>
      if tcancelled s then Some {| pc := pc s; result := result s; done := done s; tcancelled := tcancelled s;
                                   waits := waits s ++ [(k, Some (RErr EWaitCtx))] |}
      else None
  end.

Fixpoint trun (o : outcome) (s : tst) (sch : list tact) : option tst :=
  match sch with
  | [] => Some s
  | a :: r => match tstep o s a with Some s' => trun o s' r | None => None end
  end.

(* ------------------------------------------------------------------ 2. argument snapshot *)

Record sst := {
  copying : bool;                  (* Spawn copies the argument slice (the code as it is: true) *)
  env : nat -> N;                  (* the spawner's variables *)
  heap : list (list N);            (* argument slices by address *)
  thr : list (nat * nat * list N); (* per spawned call: caller's slice, the call's slice, ghost: values at the spawn site *)
  reads : list (nat * list N);     (* (call, parameters it observed) *)
}.

Inductive sact :=
| SAssign (x : nat) (v : N)        (* the spawner reassigns a variable *)
| SSpawn (xs : list nat)           (* go f(xs...) | spawn(f, xs...) | f.spawn(xs...) *)
| SPoke (t k : nat) (v : N)        (* the caller overwrites element k of the slice it handed to the t-th Spawn *)
| SRead (t : nat).                 (* call t reads its parameters *)

Definition updN (f : nat -> N) (x : nat) (v : N) : nat -> N := fun y => if Nat.eqb y x then v else f y.

Fixpoint set_at {A} (n : nat) (x : A) (l : list A) : list A :=
  match l, n with
  | [], _ => []
  | _ :: r, 0 => x :: r
  | y :: r, S n' => y :: set_at n' x r
  end.

Definition sstep (s : sst) (a : sact) : option sst :=
  match a with
  | SAssign x v => Some {| copying := copying s; env := updN (env s) x v; heap := heap s; thr := thr s; reads := reads s |}
  | SSpawn xs =>
      let vals := map (env s) xs in
      let a := length (heap s) in
      if copying s then
        Some {| copying := copying s; env := env s; heap := heap s ++ [vals; vals];
                thr := thr s ++ [(a, S a, vals)]; reads := reads s |}
      else
        Some {| copying := copying s; env := env s; heap := heap s ++ [vals; vals];
                thr := thr s ++ [(a, a, vals)]; reads := reads s |}
  | SPoke t k v =>
      match nth_error (thr s) t with
      | Some (a, _, _) =>
          Some {| copying := copying s; env := env s; heap := set_at a (set_at k v (nth a (heap s) [])) (heap s);
                  thr := thr s; reads := reads s |}
      | None => None
      end
  | SRead t =>
      match nth_error (thr s) t with
      | Some (_, b, _) =>
          Some {| copying := copying s; env := env s; heap := heap s; thr := thr s;
                  reads := reads s ++ [(t, nth b (heap s) [])] |}
      | None => None
      end
  end.

Fixpoint srun (s : sst) (sch : list sact) : option sst :=
  match sch with
  | [] => Some s
  | a :: r => match sstep s a with Some s' => srun s' r | None => None end
  end.

Definition sinit (cp : bool) (e : nat -> N) : sst := {| copying := cp; env := e; heap := []; thr := []; reads := [] |}.

(* ------------------------------------------------------------------ 3. scenarios (the differential tie)
   One spawned call: variables x0..x(n-1) hold [vals]; the call gets the variables [xs]; afterwards the
   spawner reassigns variables and (host form) pokes its slice; then the call reads its parameters and
   finishes according to [kind]; [nwait] waiters call wait(). *)

Inductive kind := KReturnArgs | KRaise (code : N) | KPanic (code : N).

Record scenario := {
  sc_vals : list N; sc_args : list nat; sc_assigns : list (nat * N); sc_pokes : list (nat * N);
  sc_kind : kind; sc_nwait : nat;
}.

Fixpoint env_of (vals : list N) : nat -> N :=
  fun x => match vals with [] => 0%N | v :: r => match x with 0 => v | S x' => env_of r x' end end.

Definition sc_schedule (sc : scenario) : list sact :=
  [SSpawn (sc_args sc)] ++ map (fun p => SAssign (fst p) (snd p)) (sc_assigns sc)
  ++ map (fun p => SPoke 0 (fst p) (snd p)) (sc_pokes sc) ++ [SRead 0].

Definition sc_outcome (sc : scenario) (params : list N) : outcome :=
  match sc_kind sc with KReturnArgs => Returns params | KRaise c => Raises c | KPanic c => Panics c end.

Definition sc_tschedule (sc : scenario) : list tact := [TStep; TStep; TStep] ++ map Wait (seq 0 (sc_nwait sc)).

(* what every waiter observes, and the parameters the call saw *)
Definition predict (cp : bool) (sc : scenario) : option (list N * list (nat * option res)) :=
  match srun (sinit cp (env_of (sc_vals sc))) (sc_schedule sc) with
  | Some s =>
      match reads s with
      | [(_, params)] =>
          match trun (sc_outcome sc params) tinit (sc_tschedule sc) with
          | Some t => Some (params, waits t)
          | None => None
          end
      | _ => None
      end
  | None => None
  end.
