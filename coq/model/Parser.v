(* Model of risor's parser (parser/parser.go, precedence.go, internal/tmpl at the pinned commit).
   Error handling follows the source: the first error is sticky in the state, parse functions
   return "nil" afterwards.  Typed-nil results (parseReturn) are explicit. *)
From Coq Require Import List ZArith NArith Bool Arith Lia.
Require Import RV.model.Lexer RV.model.Syntax.
Import ListNotations.
Open Scope N_scope.

(* ---------- precedences ---------- *)
Definition LOWEST := 1%nat.  Definition PIPE_P := 2%nat.  Definition COND := 3%nat.
Definition ASSIGN_P := 4%nat.  Definition DECLARE_P := 5%nat.  Definition TERNARY := 6%nat.
Definition EQUALS := 7%nat.  Definition LESSGREATER := 8%nat.  Definition SUM := 9%nat.
Definition PRODUCT := 10%nat.  Definition POWER := 11%nat.  Definition MOD_P := 12%nat.
Definition PREFIX_P := 13%nat.  Definition CALL_P := 14%nat.  Definition INDEX_P := 15%nat.

Definition precedence (k : tkind) : nat :=
  match k with
  | QUESTION => TERNARY | Lexer.ASSIGN => ASSIGN_P | Lexer.DECLARE => DECLARE_P
  | EQ | NOT_EQ => EQUALS
  | LT | LT_EQUALS | GT | GT_EQUALS => LESSGREATER
  | PLUS | PLUS_EQUALS | MINUS | MINUS_EQUALS => SUM
  | SLASH | SLASH_EQUALS | ASTERISK | ASTERISK_EQUALS | AMPERSAND | GT_GT | LT_LT => PRODUCT
  | POW => POWER | Lexer.MOD => MOD_P
  | AND | OR => COND
  | Lexer.PIPE => PIPE_P
  | LPAREN => CALL_P | PERIOD => INDEX_P | LBRACKET => INDEX_P
  | IN | NOT | RANGE => PREFIX_P
  | SEND => CALL_P
  | _ => LOWEST
  end.

Definition statement_terminator (k : tkind) : bool :=
  match k with SEMICOLON | NEWLINE | RBRACE | EOF | PLUS_PLUS | MINUS_MINUS => true | _ => false end.

Definition tkind_eq_dec (a b : tkind) : {a = b} + {a <> b}.
Proof. decide equality. Defined.
Definition keq (a b : tkind) : bool := if tkind_eq_dec a b then true else false.

(* ---------- errors ---------- *)
Inductive pkind :=
| PK_NoPrefix | PK_Peek | PK_FollowingStatement | PK_MissingValue | PK_InvalidSyntax | PK_ExpectedExpr
| PK_IllegalToken | PK_InvalidIdent | PK_InvalidInt | PK_InvalidFloat
| PK_UntermSwitch | PK_ExpectedCase | PK_MultiDefault
| PK_ImportPath | PK_ModulePath | PK_FromMissingImport
| PK_InvalidPrefix | PK_InvalidExpr | PK_InvalidTernary | PK_NestedTernary | PK_TernTrue | PK_TernFalse
| PK_ForInIterable | PK_ForExpr | PK_ForSemicolon | PK_ForCond | PK_ForPost
| PK_UntermBlock | PK_UntermParams | PK_ExpectedIdentGot
| PK_InvalidGo | PK_InvalidDefer
| PK_Template | PK_TemplateMulti | PK_TemplateStmt
| PK_ListSyntax | PK_InvalidIndex | PK_AssignTarget | PK_AssignOp | PK_AssignValue
| PK_InvalidCall | PK_InvalidPipe | PK_InvalidIn | PK_ExpectedIn | PK_InvalidNotIn
| PK_RangeBrace | PK_InvalidRange | PK_SetSyntax | PK_MapSyntax | PK_InvalidAttr | PK_ExpectedIdentAfter
| PK_SendChannel | PK_SendValue | PK_InvalidReceive | PK_InvalidReturn | PK_InvalidCase | PK_InvalidElseIf.

Inductive perr := PSyntax (e : lexerr) | PParse (k : pkind).
Record perror := { pe_kind : perr; pe_line : nat; pe_col : nat }.

Record pstate := {
  lx : lst; prevT : token; curT : token; peekT : token;
  perr_ : option perror; tern : bool;
}.

Definition P (A : Type) := pstate -> A * pstate.
Definition ret {A} (a : A) : P A := fun s => (a, s).
Definition bind {A B} (m : P A) (f : A -> P B) : P B := fun s => let '(a, s') := m s in f a s'.
Notation "'do' x <- m ; k" := (bind m (fun x => k)) (at level 200, x pattern, m at level 100, k at level 200).
Notation "m ;; k" := (bind m (fun _ => k)) (at level 199, right associativity).
Definition get : P pstate := fun s => (s, s).

Definition set_err_at (k : perr) (t : position) : P unit :=
  fun s => match perr_ s with
           | Some _ => (tt, s)
           | None => (tt, {| lx := lx s; prevT := prevT s; curT := curT s; peekT := peekT s;
                             perr_ := Some {| pe_kind := k; pe_line := p_line t; pe_col := p_col t |};
                             tern := tern s |})
           end.
Definition tok_err (t : token) (k : pkind) : P unit := set_err_at (PParse k) (t_start t).
Definition has_err : P bool := fun s => (match perr_ s with Some _ => true | None => false end, s).
Definition set_tern (b : bool) : P unit :=
  fun s => (tt, {| lx := lx s; prevT := prevT s; curT := curT s; peekT := peekT s; perr_ := perr_ s; tern := b |}).

(* nextToken: true on success *)
Definition next_token : P bool :=
  fun s => match perr_ s with
           | Some _ => (false, s)
           | None =>
               match next (S (sz (lx s))) (lx s) with
               | LTok t l' => (true, {| lx := l'; prevT := curT s; curT := peekT s; peekT := t; perr_ := None; tern := tern s |})
               | LErr t e l' =>
                   (false, {| lx := l'; prevT := curT s; curT := peekT s; peekT := t;
                              perr_ := Some {| pe_kind := PSyntax e; pe_line := p_line (t_start t); pe_col := p_col (t_start t) |};
                              tern := tern s |})
               end
           end.


Definition cur_is (k : tkind) : P bool := fun s => (keq (t_kind (curT s)) k, s).
Definition peek_is (k : tkind) : P bool := fun s => (keq (t_kind (peekT s)) k, s).
Definition cur_tok : P token := fun s => (curT s, s).
Definition peek_tok : P token := fun s => (peekT s, s).
Definition prev_tok : P token := fun s => (prevT s, s).
Definition peek_prec : P nat := fun s => (precedence (t_kind (peekT s)), s).
Definition cur_prec : P nat := fun s => (precedence (t_kind (curT s)), s).

(* expectPeek *)
Definition expect_peek (k : tkind) : P bool :=
  do b <- peek_is k;
  if b then (do _ <- next_token; ret true)
  else (do t <- peek_tok; tok_err t PK_Peek ;; ret false).

(* eat newlines while cur is NEWLINE (eatNewlines) *)
Fixpoint eat_newlines (fuel : nat) : P unit :=
  match fuel with
  | O => ret tt
  | S f => do b <- cur_is NEWLINE;
           if b then (do ok <- next_token; if ok then eat_newlines f else ret tt) else ret tt
  end.

(* `for p.peekTokenIs(NEWLINE) { if err := p.nextToken(); err != nil { return nil } }` : false = abort *)
Fixpoint skip_peek_newlines (fuel : nat) : P bool :=
  match fuel with
  | O => ret true
  | S f => do b <- peek_is NEWLINE;
           if b then (do ok <- next_token; if ok then skip_peek_newlines f else ret false) else ret true
  end.

Definition tfuel : P nat := fun s => (S (S (S (S (S (length (rest (lx s))))))), s).

Inductive sres := SNone | STypedNil | SNode (n : node).

Definition implements_expression (n : node) : bool :=
  match n with NFunc _ _ _ _ => true | _ => is_expression n end.

(* ---------- literals ---------- *)
Definition bytes_eq (a b : list N) : bool := if list_eq_dec N.eq_dec a b then true else false.

Fixpoint parse_digits (base : Z) (l : list N) (acc : Z) : option Z :=
  match l with
  | [] => Some acc
  | c :: r => match digit_val c with
              | Some d => if (Z.of_N d <? base)%Z then parse_digits base r (acc * base + Z.of_N d)%Z else None
              | None => None
              end
  end.

(* strconv.ParseInt(s, base, 64) on the forms the lexer produces (no sign, no underscores) *)
Definition parse_int_lit (lit : list N) : option Z :=
  let in_range (z : Z) := if (z <=? 9223372036854775807)%Z then Some z else None in
  match lit with
  | 48 :: 120 :: r => match r with [] => None | _ => match parse_digits 16 r 0 with Some z => in_range z | None => None end end
  | 48 :: ((_ :: _) as r) => match parse_digits 8 r 0 with Some z => in_range z | None => None end
  | [] => None
  | _ => match parse_digits 10 lit 0 with Some z => in_range z | None => None end
  end.

(* ---------- UTF-8 decoding as []rune(s) does ---------- *)
Fixpoint utf8_decode (fuel : nat) (l : list N) : list N :=
  match fuel with
  | O => []
  | S f =>
    match l with
    | [] => []
    | b0 :: r =>
        let cont (b : N) := (128 <=? b) && (b <=? 191) in
        let bad (_ : unit) := 65533 :: utf8_decode f r in
        if b0 <? 128 then b0 :: utf8_decode f r
        else if (194 <=? b0) && (b0 <=? 223) then
          match r with
          | b1 :: r1 => if cont b1 then ((b0 - 192) * 64 + (b1 - 128)) :: utf8_decode f r1 else bad tt
          | _ => bad tt
          end
        else if (224 <=? b0) && (b0 <=? 239) then
          match r with
          | b1 :: b2 :: r2 =>
              let lo := if b0 =? 224 then 160 else 128 in
              let hi := if b0 =? 237 then 159 else 191 in
              if (lo <=? b1) && (b1 <=? hi) && cont b2
              then ((b0 - 224) * 4096 + (b1 - 128) * 64 + (b2 - 128)) :: utf8_decode f r2 else bad tt
          | _ => bad tt
          end
        else if (240 <=? b0) && (b0 <=? 244) then
          match r with
          | b1 :: b2 :: b3 :: r3 =>
              let lo := if b0 =? 240 then 144 else 128 in
              let hi := if b0 =? 244 then 143 else 191 in
              if (lo <=? b1) && (b1 <=? hi) && cont b2 && cont b3
              then ((b0 - 240) * 262144 + (b1 - 128) * 4096 + (b2 - 128) * 64 + (b3 - 128)) :: utf8_decode f r3 else bad tt
          | _ => bad tt
          end
        else bad tt
    end
  end.
Definition runes_of (s : list N) : list N := utf8_decode (S (length s)) s.

(* ---------- internal/tmpl.Parse ---------- *)
Inductive tfrag := TText (s : list N) | TVar (s : list N).

(* returns None on a template error *)
Fixpoint tmpl_parse (fuel : nat) (rs : list N) (frags : list tfrag) (cur : option tfrag) : option (list tfrag) :=
  (* frags is reversed and does not include cur *)
  let push (c : option tfrag) := match c with Some x => x :: frags | None => frags end in
  let in_var := match cur with Some (TVar _) => true | _ => false end in
  match fuel with
  | O => None
  | S f =>
    let append_char (ch : N) (rest : list N) :=
      match cur with
      | None => tmpl_parse f rest frags (Some (TText (utf8_encode ch)))
      | Some (TText s) => tmpl_parse f rest frags (Some (TText (s ++ utf8_encode ch)))
      | Some (TVar s) => tmpl_parse f rest frags (Some (TVar (s ++ utf8_encode ch)))
      end in
    match rs with
    | [] => if in_var then None else Some (rev (push cur))
    | ch :: rest =>
        let pk := match rest with p :: _ => p | [] => 0 end in
        if (ch =? 123) && (pk =? 123) then append_char 123 (tl rest)
        else if ch =? 125 then
          if in_var then tmpl_parse f rest (push cur) None
          else if pk =? 125 then append_char 125 (tl rest)
          else None
        else if ch =? 123 then
          if in_var then None
          else tmpl_parse f rest (push cur) (Some (TVar []))
        else append_char ch rest
    end
  end.

(* validateImportPath on the path value *)
Definition ident_start (c : N) : bool := is_ascii_letter c || (c =? 95).
Definition ident_char (c : N) : bool := is_ascii_letter c || is_digit c || (c =? 95).
Fixpoint valid_import_path_aux (l : list N) (at_start : bool) : bool :=
  match l with
  | [] => negb at_start
  | c :: r =>
      if at_start then ident_start c && valid_import_path_aux r false
      else if c =? 47 then valid_import_path_aux r true
      else ident_char c && valid_import_path_aux r false
  end.
Fixpoint trim_quotes_left (l : list N) : list N := match l with 34 :: r => trim_quotes_left r | _ => l end.
Definition valid_import_path (p : list N) : bool :=
  let p := rev (trim_quotes_left (rev (trim_quotes_left p))) in
  valid_import_path_aux p true.

(* ---------- the mutually recursive parse functions, one fuel level at a time ---------- *)
Record fns := {
  f_node : nat -> P (option node);         (* parseNode *)
  f_stmt : P sres;                         (* parseStatement *)
  f_block : P (option (list node));        (* parseBlock, cur = '{' *)
  f_program : list N -> option (list node) * option perror;   (* Parse of a nested source (templates) *)
}.

Section Step.
  Variable R : fns.

  Definition parse_expression (prec : nat) : P (option node) :=
    do n <- f_node R prec;
    match n with
    | None => ret None
    | Some nd =>
        do e <- has_err;
        if e then ret None
        else if implements_expression nd then ret (Some nd)
        else (do t <- prev_tok; tok_err t PK_ExpectedExpr ;; ret None)
    end.

  Definition parse_statement_strict : P sres :=
    do st <- f_stmt R;
    match st with
    | SNone => ret SNone
    | _ =>
        do c <- cur_is SEMICOLON;
        do pk <- peek_tok;
        if negb c && negb (statement_terminator (t_kind pk))
        then (do t <- cur_tok; tok_err t PK_FollowingStatement ;; ret SNone)
        else ret st
    end.

  Definition parse_assignment_value : P (option node) :=
    do r <- parse_expression LOWEST;
    match r with
    | Some n => ret (Some n)
    | None => do t <- prev_tok; set_err_at (PParse PK_MissingValue) (t_end t) ;; ret None
    end.

  (* idents separated by commas: cur is the first IDENT *)
  Fixpoint more_idents (fuel : nat) (acc : list (list N)) : P (option (list (list N))) :=
    match fuel with
    | O => ret (Some acc)
    | S f =>
        do b <- peek_is COMMA;
        if b then
          do _ <- next_token;
          do ok <- expect_peek IDENT;
          if ok then (do t <- cur_tok; more_idents f (acc ++ [t_lit t])) else ret None
        else ret (Some acc)
    end.

  Definition parse_var : P sres :=
    do ok <- expect_peek IDENT;
    if negb ok then ret SNone else
    do t <- cur_tok;
    do fu <- tfuel;
    do ids <- more_idents fu [t_lit t];
    match ids with
    | None => ret SNone
    | Some idents =>
        do ok2 <- expect_peek Lexer.ASSIGN;
        if negb ok2 then ret SNone else
        do _ <- next_token;
        do v <- parse_assignment_value;
        match v with
        | None => ret SNone
        | Some value =>
            match idents with
            | [x] => ret (SNode (NVar x value))
            | _ => ret (SNode (NMultiVar idents value false))
            end
        end
    end.

  Definition parse_declaration : P sres :=
    do t <- cur_tok;
    do fu <- tfuel;
    do ids <- more_idents fu [t_lit t];
    match ids with
    | None => ret SNone
    | Some idents =>
        do pk <- peek_tok;
        match t_kind pk with
        | Lexer.ASSIGN | Lexer.DECLARE =>
            let walrus := keq (t_kind pk) Lexer.DECLARE in
            do _ <- next_token; do _ <- next_token;
            do v <- parse_assignment_value;
            match v with
            | None => ret SNone
            | Some value =>
                match idents with
                | [x] => ret (SNode (NVar x value))
                | _ => ret (SNode (NMultiVar idents value walrus))
                end
            end
        | _ => do _ <- expect_peek Lexer.ASSIGN; ret SNone
        end
    end.

  (* parseConst / parseReturn return typed pointers; parseStatement keeps only non-nil results *)
  Definition parse_const : P sres :=
    do ok <- expect_peek IDENT;
    if negb ok then ret SNone else
    do t <- cur_tok;
    do ok2 <- expect_peek Lexer.ASSIGN;
    if negb ok2 then ret SNone else
    do _ <- next_token;
    do v <- parse_assignment_value;
    match v with
    | None => ret SNone
    | Some value => ret (SNode (NConst (t_lit t) value))
    end.

  Definition parse_return : P sres :=
    do pk <- peek_tok;
    match t_kind pk with
    | SEMICOLON | NEWLINE | RBRACE | EOF => ret (SNode (NReturn None))
    | _ =>
        do _ <- next_token;
        do v <- parse_expression LOWEST;
        match v with
        | None => do t <- cur_tok; tok_err t PK_InvalidReturn ;; ret SNone
        | Some value => ret (SNode (NReturn (Some value)))
        end
    end.

  Definition parse_expression_statement : P sres :=
    do n <- f_node R LOWEST;
    match n with
    | None => do t <- cur_tok; tok_err t PK_InvalidSyntax ;; ret SNone
    | Some nd => ret (SNode nd)
    end.

  Definition parse_statement : P sres :=
    do c <- cur_tok;
    do st <- (match t_kind c with
              | VAR => parse_var
              | CONST => parse_const
              | RETURN => parse_return
              | BREAK => ret (SNode NBreak)
              | CONTINUE => ret (SNode NContinue)
              | NEWLINE => ret SNone
              | IDENT =>
                  do pk <- peek_tok;
                  match t_kind pk with
                  | Lexer.DECLARE | COMMA => parse_declaration
                  | _ => parse_expression_statement
                  end
              | _ => parse_expression_statement
              end);
    do b <- peek_is SEMICOLON;
    (if b then (do _ <- next_token; ret tt) else ret tt) ;;
    ret st.

  (* ---------- prefix functions ---------- *)

  Definition parse_ident : P (option node) :=
    do t <- cur_tok;
    match t_lit t with
    | [] => tok_err t PK_InvalidIdent ;; ret None
    | l => ret (Some (NIdent l))
    end.

  Definition parse_int : P (option node) :=
    do t <- cur_tok;
    match parse_int_lit (t_lit t) with
    | Some z => ret (Some (NInt z))
    | None => tok_err t PK_InvalidInt ;; ret None
    end.

  Definition parse_float : P (option node) :=
    do t <- cur_tok; ret (Some (NFloatText (t_lit t))).

  Definition parse_prefix_expr : P (option node) :=
    do op <- cur_tok;
    do ok <- next_token;
    if negb ok then ret None else
    do r <- parse_expression PREFIX_P;
    match r with
    | None => do t <- cur_tok; tok_err t PK_InvalidPrefix ;; ret None
    | Some rgt => ret (Some (NPrefix (t_lit op) rgt))
    end.

  Definition parse_grouped : P (option node) :=
    do _ <- next_token;
    do e <- parse_expression LOWEST;
    do ok <- expect_peek RPAREN;
    if ok then ret e else ret None.

  (* parseIf: cur = IF *)
  Fixpoint parse_if (fuel : nat) : P (option node) :=
    match fuel with
    | O => ret None
    | S f =>
        do _ <- next_token;
        do c <- parse_expression LOWEST;
        match c with
        | None => ret None
        | Some cond =>
            do ok <- expect_peek LBRACE;
            if negb ok then ret None else
            do cb <- f_block R;
            match cb with
            | None => ret None
            | Some cns =>
                do e <- peek_is ELSE;
                if negb e then ret (Some (NIf cond cns None)) else
                do _ <- next_token;
                do i <- peek_is IF;
                if i then
                  do _ <- next_token;
                  do nt <- cur_tok;
                  do nested <- parse_if f;
                  match nested with
                  | Some nif => ret (Some (NIf cond cns (Some [nif])))
                  | None => tok_err nt PK_InvalidElseIf ;; ret None
                  end
                else
                  do ok2 <- expect_peek LBRACE;
                  if negb ok2 then ret None else
                  do ab <- f_block R;
                  match ab with
                  | None => ret None
                  | Some alt => ret (Some (NIf cond cns (Some alt)))
                  end
            end
        end
    end.

  Definition sres_node (s : sres) : option node :=
    match s with SNode n => Some n | STypedNil => Some NTypedNilReturn | SNone => None end.

  Definition parse_for : P (option node) :=
    do _ <- next_token;
    do lb <- cur_is LBRACE;
    if lb then
      do b <- f_block R;
      match b with Some body => ret (Some (NFor None None None body)) | None => ret None end
    else
    do ci <- cur_is IDENT; do pin <- peek_is IN;
    if ci && pin then
      do v <- cur_tok;
      do _ <- next_token; do _ <- next_token;
      do it <- parse_expression LOWEST;
      match it with
      | None => do t <- cur_tok; tok_err t PK_ForInIterable ;; ret None
      | Some iter =>
          do ok <- expect_peek LBRACE;
          if negb ok then ret None else
          do b <- f_block R;
          match b with Some body => ret (Some (NForIn (t_lit v) iter body)) | None => ret None end
      end
    else
    do semi <- cur_is SEMICOLON;
    do init <- (if semi then ret (Some None)
                else do st <- f_stmt R;
                     match st with
                     | SNone => do t <- cur_tok; tok_err t PK_ForExpr ;; ret None
                     | _ => ret (Some (sres_node st))
                     end);
    match init with
    | None => ret None
    | Some init =>
        do plb <- peek_is LBRACE;
        if plb then
          do _ <- next_token;
          do b <- f_block R;
          match b with Some body => ret (Some (NFor init None None body)) | None => ret None end
        else
        let is_range := match init with
                        | Some (NVar _ (NRange _)) | Some (NMultiVar _ (NRange _) _) => true
                        | _ => false end in
        if is_range then
          do ok <- expect_peek LBRACE;
          if negb ok then ret None else
          do b <- f_block R;
          match b with Some body => ret (Some (NFor init None None body)) | None => ret None end
        else
        do semi2 <- cur_is SEMICOLON;
        if negb semi2 then (do t <- cur_tok; tok_err t PK_ForSemicolon ;; ret None) else
        do _ <- next_token;
        do semi3 <- cur_is SEMICOLON;
        do cond <- (if semi3 then ret (Some None)
                    else do c <- parse_expression LOWEST;
                         match c with
                         | None => do t <- cur_tok; tok_err t PK_ForCond ;; ret None
                         | Some c => ret (Some (Some c))
                         end);
        match cond with
        | None => ret None
        | Some cond =>
            do ok <- expect_peek SEMICOLON;
            if negb ok then ret None else
            do _ <- next_token;
            do lb2 <- cur_is LBRACE;
            do post <- (if lb2 then ret (Some None)
                        else
                          do ci2 <- cur_is IDENT;
                          do pk <- peek_tok;
                          if ci2 && (keq (t_kind pk) PLUS_PLUS || keq (t_kind pk) MINUS_MINUS) then
                            do idt <- cur_tok;
                            do _ <- next_token;
                            do op <- cur_tok;
                            ret (Some (Some (NPostfix (t_lit idt) (t_lit op))))
                          else
                            do st <- f_stmt R;
                            match st with
                            | SNone => do t <- cur_tok; tok_err t PK_ForPost ;; ret None
                            | _ => ret (Some (sres_node st))
                            end);
            match post with
            | None => ret None
            | Some post =>
                do ok2 <- expect_peek LBRACE;
                if negb ok2 then ret None else
                do b <- f_block R;
                match b with
                | Some body => ret (Some (NFor cond init post body))
                | None => ret None
                end
            end
        end
    end.

  (* parseFuncParams: returns None on error *)
  Fixpoint parse_func_params (fuel : nat) (params : list (list N)) (defaults : list (list N * node))
    : P (option (list (list N) * list (list N * node))) :=
    match fuel with
    | O => ret None
    | S f =>
        do rp <- cur_is RPAREN;
        if rp then ret (Some (params, defaults)) else
        do eof <- cur_is EOF;
        if eof then (do t <- prev_tok; tok_err t PK_UntermParams ;; ret None) else
        do id <- cur_is IDENT;
        if negb id then (do t <- cur_tok; tok_err t PK_ExpectedIdentGot ;; ret None) else
        do t <- cur_tok;
        do ok <- next_token;
        if negb ok then ret None else
        do asg <- cur_is Lexer.ASSIGN;
        do dr <- (if asg then
                    do _ <- next_token;
                    do e <- parse_expression LOWEST;
                    match e with
                    | None => ret None
                    | Some ex => do _ <- next_token; ret (Some [(t_lit t, ex)])
                    end
                  else ret (Some []));
        match dr with
        | None => ret None
        | Some d =>
            (* defaults[ident] = expr overwrites an earlier default of the same name *)
            let defaults' := match d with
                             | [(k, v)] => filter (fun kv => negb (bytes_eq (fst kv) k)) defaults ++ [(k, v)]
                             | _ => defaults end in
            do cm <- cur_is COMMA;
            (if cm then (do _ <- next_token; ret tt) else ret tt) ;;
            parse_func_params f (params ++ [t_lit t]) defaults'
        end
    end.

  Definition parse_func : P (option node) :=
    do pid <- peek_is IDENT;
    do name <- (if pid then (do _ <- next_token; do t <- cur_tok; ret (Some (t_lit t))) else ret None);
    do ok <- expect_peek LPAREN;
    if negb ok then ret None else
    do prp <- peek_is RPAREN;
    do pr <- (if prp then (do _ <- next_token; ret (Some ([], [])))
              else do _ <- next_token; do fu <- tfuel; parse_func_params fu [] []);
    (* parseFuncParams returning (nil, nil) does not stop parseFunc *)
    let '(params, defaults) := match pr with Some x => x | None => ([], []) end in
    do ok2 <- expect_peek LBRACE;
    if negb ok2 then ret None else
    do b <- f_block R;
    match b with
    | Some body => ret (Some (NFunc name params defaults body))
    | None => ret (Some (NFunc name params defaults []))          (* nil body; an error is set *)
    end.

  Definition parse_go_defer (is_go : bool) : P (option node) :=
    let ek := if is_go then PK_InvalidGo else PK_InvalidDefer in
    do ok <- next_token;
    if negb ok then ret None else
    do cf <- cur_is FUNC; do ci <- cur_is IDENT;
    if negb cf && negb ci then (do t <- cur_tok; tok_err t ek ;; ret None) else
    do e <- parse_expression PREFIX_P;
    match e with
    | None => do t <- cur_tok; tok_err t ek ;; ret None
    | Some ((NCall _ _ | NObjectCall _ _ _) as c) => ret (Some (if is_go then NGo c else NDefer c))
    | Some _ => do t <- cur_tok; tok_err t ek ;; ret None
    end.

  Definition contains_brace (l : list N) : bool := existsb (fun c => c =? 123) l.

  Definition parse_string : P (option node) :=
    do t <- cur_tok;
    match t_kind t with
    | BACKTICK | STRING => ret (Some (NString (t_lit t) None))
    | _ =>
        if negb (contains_brace (t_lit t)) then ret (Some (NString (t_lit t) None)) else
        let rs := runes_of (t_lit t) in
        match tmpl_parse (S (length rs)) rs [] None with
        | None => tok_err t PK_Template ;; ret None
        | Some frags =>
            (fix go (l : list tfrag) (acc : list frag) : P (option node) :=
               match l with
               | [] => ret (Some (NString (t_lit t) (Some acc)))
               | TText s :: r => go r (acc ++ [FText s])
               | TVar s :: r =>
                   match f_program R (runes_of s) with
                   | (_, Some _) => tok_err t PK_Template ;; ret None
                   | (None, None) => tok_err t PK_Template ;; ret None
                   | (Some [], None) => go r (acc ++ [FVar None])
                   | (Some [st], None) =>
                       if implements_expression st then go r (acc ++ [FVar (Some st)])
                       else (tok_err t PK_TemplateStmt ;; ret None)
                   | (Some _, None) => tok_err t PK_TemplateMulti ;; ret None
                   end
               end) frags []
        end
    end.

  Definition opt_or_nil (x : option node) : node := match x with Some n => n | None => NNil end.

  (* parseExprList / parseNodeList: cur = opening token; returns None for "nil" *)
  Definition parse_items (as_nodes : bool) (endk : tkind) : P (option (list node)) :=
    let parse1 := if as_nodes then f_node R LOWEST else parse_expression LOWEST in
    do pe <- peek_is endk;
    if pe then (do _ <- next_token; ret (Some [])) else
    do fu <- tfuel;
    do ok <- skip_peek_newlines fu;
    if negb ok then ret None else
    do _ <- next_token;
    do e <- parse1;
    match e with
    | None => do t <- cur_tok; tok_err t PK_ListSyntax ;; ret None
    | Some first =>
        do r <- (fix more (fuel : nat) (acc : list node) : P (option (list node)) :=
                   match fuel with
                   | O => ret (Some acc)
                   | S f =>
                       do pc <- peek_is COMMA;
                       if negb pc then ret (Some acc) else
                       do ok1 <- next_token;
                       if negb ok1 then ret None else
                       do fu2 <- tfuel;
                       do ok2 <- skip_peek_newlines fu2;
                       if negb ok2 then ret None else
                       do pe2 <- peek_is endk;
                       if pe2 then ret (Some acc) else
                       do ok3 <- next_token;
                       if negb ok3 then ret None else
                       do x <- parse1;
                       do ateof <- cur_is EOF;
                       match x with
                       | None => if ateof then more f (acc ++ [opt_or_nil x])
                                 else (do t <- cur_tok; tok_err t PK_ListSyntax ;; ret None)
                       | Some _ => more f (acc ++ [opt_or_nil x])
                       end
                   end) fu [first];
        match r with
        | None => ret None
        | Some l =>
            do fu3 <- tfuel;
            do ok4 <- skip_peek_newlines fu3;
            if negb ok4 then ret None else
            do ok5 <- expect_peek endk;
            if ok5 then ret (Some l) else ret None
        end
    end.

  Definition parse_list : P (option node) :=
    do items <- parse_items false RBRACKET;
    match items with
    | Some l => ret (Some (NList l))
    | None => ret (Some (NList []))            (* NewList(bracket, nil); an error is set *)
    end.

  Definition parse_map_or_set : P (option node) :=
    do fu <- tfuel;
    do ok <- skip_peek_newlines fu;
    if negb ok then ret None else
    do prb <- peek_is RBRACE;
    if prb then (do _ <- next_token; ret (Some (NMap []))) else
    do _ <- next_token;
    do k1 <- parse_expression LOWEST;
    do eof1 <- cur_is EOF;
    if (match k1 with None => negb eof1 | Some _ => false end) then (do t <- cur_tok; tok_err t PK_SetSyntax ;; ret None) else
    do pc <- peek_is COLON;
    if pc then
      do _ <- next_token; do _ <- next_token;
      do v1 <- parse_expression LOWEST;
      do eof2 <- cur_is EOF;
      if (match v1 with None => negb eof2 | Some _ => false end) then (do t <- cur_tok; tok_err t PK_MapSyntax ;; ret None) else
      do r <- (fix more (fuel : nat) (acc : list (node * node)) : P (option (list (node * node))) :=
                 match fuel with
                 | O => ret (Some acc)
                 | S f =>
                     do rb <- peek_is RBRACE;
                     if rb then ret (Some acc) else
                     do nl <- peek_is NEWLINE;
                     if nl then (do _ <- next_token; ret (Some acc)) else
                     do okc <- expect_peek COMMA;
                     if negb okc then ret None else
                     do fu2 <- tfuel;
                     do ok2 <- skip_peek_newlines fu2;
                     if negb ok2 then ret None else
                     do rb2 <- peek_is RBRACE;
                     if rb2 then ret (Some acc) else
                     (* parseKeyValue *)
                     do _ <- next_token;
                     do k <- parse_expression LOWEST;
                     do okk <- expect_peek COLON;
                     if negb okk then ret None else
                     do _ <- next_token;
                     do v <- parse_expression LOWEST;
                     match k, v with
                     | Some kk, Some vv =>
                         do pc2 <- peek_is COMMA;
                         if negb pc2 then ret (Some (acc ++ [(kk, vv)])) else more f (acc ++ [(kk, vv)])
                     | _, _ => ret None
                     end
                 end) fu [(opt_or_nil k1, opt_or_nil v1)];
      match r with
      | None => ret None
      | Some pairs =>
          do fu3 <- tfuel;
          do ok3 <- skip_peek_newlines fu3;
          if negb ok3 then ret None else
          do ok4 <- expect_peek RBRACE;
          if ok4 then ret (Some (NMap pairs)) else ret None
      end
    else
      do pcm <- peek_is COMMA;
      do prb2 <- peek_is RBRACE;
      if pcm then
        do _ <- next_token;
        do fu2 <- tfuel;
        do ok2 <- skip_peek_newlines fu2;
        if negb ok2 then ret None else
        do r <- (fix more (fuel : nat) (acc : list node) : P (option (list node)) :=
                   match fuel with
                   | O => ret (Some acc)
                   | S f =>
                       do rb <- peek_is RBRACE;
                       if rb then ret (Some acc) else
                       do ok1 <- next_token;
                       if negb ok1 then ret None else
                       do k <- parse_expression LOWEST;
                       do eof3 <- cur_is EOF;
                       if (match k with None => negb eof3 | Some _ => false end) then (do t <- cur_tok; tok_err t PK_SetSyntax ;; ret None) else
                       let acc' := acc ++ [opt_or_nil k] in
                       do pc2 <- peek_is COMMA;
                       if negb pc2 then ret (Some acc') else
                       do _ <- next_token;
                       do fu3 <- tfuel;
                       do ok3 <- skip_peek_newlines fu3;
                       if negb ok3 then ret None else more f acc'
                   end) fu [opt_or_nil k1];
        match r with
        | None => ret None
        | Some items =>
            do ok4 <- expect_peek RBRACE;
            if ok4 then ret (Some (NSet items)) else ret None
        end
      else if prb2 then (do _ <- next_token; ret (Some (NSet [opt_or_nil k1])))
      else (do t <- peek_tok; tok_err t PK_SetSyntax ;; ret None).

  Definition parse_range : P (option node) :=
    do ok <- next_token;
    if negb ok then ret None else
    do lb <- cur_is LBRACE;
    if lb then (do t <- cur_tok; tok_err t PK_RangeBrace ;; ret None) else
    do c <- parse_expression PREFIX_P;
    match c with
    | None => do t <- cur_tok; tok_err t PK_InvalidRange ;; ret None
    | Some cont => ret (Some (NRange cont))
    end.

  Definition parse_receive : P (option node) :=
    do ok <- next_token;
    if negb ok then ret None else
    do e <- parse_expression LOWEST;
    match e with
    | None => do t <- cur_tok; tok_err t PK_InvalidReceive ;; ret None
    | Some ex => ret (Some (NReceive ex))
    end.

  (* the statements of one case body *)
  Fixpoint case_stmts (fuel : nat) (acc : list node) : P (option (list node)) :=
    match fuel with
    | O => ret None
    | S f =>
        do fu <- tfuel;
        do okskip <- (fix sk (fuel4 : nat) : P bool :=
                        match fuel4 with
                        | O => ret true
                        | S f4 =>
                            do a <- cur_is NEWLINE; do b <- cur_is SEMICOLON;
                            if a || b then (do ok <- next_token; if ok then sk f4 else ret false)
                            else ret true
                        end) fu;
        if negb okskip then ret None else
        do e1 <- cur_is CASE; do e2 <- cur_is DEFAULT; do e3 <- cur_is RBRACE; do e4 <- cur_is EOF;
        if e1 || e2 || e3 || e4 then ret (Some acc) else
        do s <- f_stmt R;
        let acc' := match s with
                    | SNone => acc
                    | STypedNil => acc ++ [NTypedNilReturn]
                    | SNode n => acc ++ [n] end in
        do csemi <- cur_is SEMICOLON;
        do pk <- peek_tok;
        if negb csemi && negb (statement_terminator (t_kind pk))
           && negb (keq (t_kind pk) CASE) && negb (keq (t_kind pk) DEFAULT)
           && negb (keq (t_kind pk) RBRACE)
        then (tok_err pk PK_Peek ;; ret None)
        else
          do ok <- next_token;
          if negb ok then ret None else case_stmts f acc'
    end.

  (* the comma-separated case expressions: stops at the first one that fails to parse *)
  Fixpoint case_exprs (fuel : nat) (acc : list node) : P (option (list node)) :=
    match fuel with
    | O => ret (Some acc)
    | S f =>
        do pc <- peek_is COMMA;
        if negb pc then ret (Some acc) else
        do _ <- next_token; do _ <- next_token;
        do e <- parse_expression LOWEST;
        match e with
        | None => do t <- cur_tok; tok_err t PK_InvalidCase ;; ret None
        | Some x => case_exprs f (acc ++ [x])
        end
    end.

  Fixpoint switch_cases (fuel : nat) (value : node) (acc : list scase) (ndefault : nat) : P (option node) :=
    match fuel with
    | O => ret None
    | S f =>
        do rb <- cur_is RBRACE;
        if rb then ret (Some (NSwitch value acc)) else
        do eof <- cur_is EOF;
        if eof then (do t <- prev_tok; tok_err t PK_UntermSwitch ;; ret None) else
        do ct <- cur_tok;
        let is_case_lit := bytes_eq (t_lit ct) [99;97;115;101] in
        let is_default_lit := bytes_eq (t_lit ct) [100;101;102;97;117;108;116] in
        if negb is_case_lit && negb is_default_lit then (tok_err ct PK_ExpectedCase ;; ret None) else
        do isd <- cur_is DEFAULT;
        do isc <- cur_is CASE;
        do hdr <- (if isd then ret (Some (true, []))
                   else if isc then
                     do _ <- next_token;
                     do e1 <- parse_expression LOWEST;
                     match e1 with
                     | None => do t <- cur_tok; tok_err t PK_InvalidCase ;; ret None
                     | Some x1 =>
                         do fu <- tfuel;
                         do es <- case_exprs fu [x1];
                         match es with Some l => ret (Some (false, l)) | None => ret None end
                     end
                   else (tok_err ct PK_ExpectedCase ;; ret None));
        match hdr with
        | None => ret None
        | Some (is_default, exprs) =>
            do okc <- expect_peek COLON;
            if negb okc then ret None else
            do _ <- next_token;
            do fu2 <- tfuel;
            eat_newlines fu2 ;;
            do c1 <- cur_is CASE; do c2 <- cur_is DEFAULT; do c3 <- cur_is RBRACE;
            if c1 || c2 || c3 then
              if is_default && (1 <=? ndefault)%nat then (tok_err ct PK_MultiDefault ;; ret None)
              else switch_cases f value (acc ++ [SCase is_default exprs None]) (if is_default then S ndefault else ndefault)
            else
              do fu3 <- tfuel;
              do body <- case_stmts fu3 [];
              match body with
              | None => ret None
              | Some blk =>
                  if is_default && (1 <=? ndefault)%nat then (tok_err ct PK_MultiDefault ;; ret None)
                  else switch_cases f value (acc ++ [SCase is_default exprs (Some blk)]) (if is_default then S ndefault else ndefault)
              end
        end
    end.

  Definition parse_switch : P (option node) :=
    do _ <- next_token;
    do v <- parse_expression LOWEST;
    match v with
    | None => ret None
    | Some value =>
        do ok <- expect_peek LBRACE;
        if negb ok then ret None else
        do _ <- next_token;
        do fu <- tfuel;
        eat_newlines fu ;;
        do fu2 <- tfuel;
        switch_cases fu2 value [] 0%nat
    end.

  Definition parse_import : P (option node) :=
    do pk <- peek_tok;
    match t_kind pk with
    | IDENT | STRING =>
        do _ <- next_token;
        do t <- cur_tok;
        let path := t_lit t in
        if negb (valid_import_path path) then (tok_err t PK_ImportPath ;; ret None) else
        do pas <- peek_is AS;
        if pas then
          do _ <- next_token;
          do ok <- expect_peek IDENT;
          if negb ok then ret None else
          do a <- cur_tok; ret (Some (NImport path (Some (t_lit a))))
        else ret (Some (NImport path None))
    | _ => tok_err pk PK_Peek ;; ret None
    end.

  Fixpoint dotted_parents (fuel : nat) (acc : list (list N)) : P (option (list (list N))) :=
    match fuel with
    | O => ret (Some acc)
    | S f =>
        do ci <- cur_is IDENT;
        if negb ci then ret (Some acc) else
        do t <- cur_tok;
        do ok <- next_token;
        if negb ok then ret None else
        do pd <- cur_is PERIOD;
        if negb pd then ret (Some (acc ++ [t_lit t])) else
        do ok2 <- next_token;
        if negb ok2 then ret None else dotted_parents f (acc ++ [t_lit t])
    end.

  Fixpoint from_imports (fuel : nat) (grouped : bool) (acc : list (list N * option (list N)))
    : P (option (list (list N * option (list N)))) :=
    match fuel with
    | O => ret (Some acc)
    | S f =>
        do idt <- cur_tok;
        do pas <- peek_is AS;
        do al <- (if pas then
                    do _ <- next_token;
                    do ok1 <- expect_peek IDENT;
                    if negb ok1 then ret None else (do a <- cur_tok; ret (Some (Some (t_lit a))))
                  else ret (Some None));
        match al with
        | None => ret None
        | Some alias =>
            let acc' := acc ++ [(t_lit idt, alias)] in
            do pc <- peek_is COMMA;
            if negb pc then ret (Some acc') else
            do _ <- next_token;
            do brk <- (if grouped then
                         do fu2 <- tfuel;
                         do ok2 <- skip_peek_newlines fu2;
                         if negb ok2 then ret None else
                         do prp <- peek_is RPAREN; ret (Some prp)
                       else ret (Some false));
            match brk with
            | None => ret None
            | Some true => ret (Some acc')
            | Some false =>
                do ok3 <- expect_peek IDENT;
                if negb ok3 then ret None else from_imports f grouped acc'
            end
        end
    end.

  Definition parse_from_import : P (option node) :=
    do pk <- peek_tok;
    match t_kind pk with
    | IDENT | STRING =>
        do _ <- next_token;
        do isstr <- cur_is STRING;
        do parents <- (if isstr then
                         do t <- cur_tok;
                         if negb (valid_import_path (t_lit t)) then (tok_err t PK_ImportPath ;; ret None)
                         else (do _ <- next_token; ret (Some [t_lit t]))
                       else (do fu <- tfuel; dotted_parents fu []));
        match parents with
        | None => ret None
        | Some ps =>
            do ci <- cur_is IMPORT;
            if negb ci then (do t <- prev_tok; set_err_at (PParse PK_FromMissingImport) (t_end t) ;; ret None) else
            do plp <- peek_is LPAREN;
            do grouped_ok <- (if plp then
                                do _ <- next_token;
                                do fu <- tfuel;
                                do ok <- skip_peek_newlines fu;
                                ret (true, ok)
                              else ret (false, true));
            let '(grouped, gok) := grouped_ok in
            if negb gok then ret None else
            do ok <- expect_peek IDENT;
            if negb ok then ret None else
            do fu <- tfuel;
            do imps <- from_imports fu grouped [];
            match imps with
            | None => ret None
            | Some imports =>
                do okp <- (if grouped then expect_peek RPAREN else ret true);
                if okp then ret (Some (NFromImport ps imports)) else ret None
            end
        end
    | _ => tok_err pk PK_Peek ;; ret None
    end.

  Definition illegal_token : P (option node) :=
    do t <- cur_tok; tok_err t PK_IllegalToken ;; ret None.

  Definition prefix_fn (k : tkind) : option (P (option node)) :=
    match k with
    | BACKTICK | FSTRING | STRING => Some parse_string
    | BANG | MINUS | Lexer.PIPE => Some parse_prefix_expr
    | DEFER => Some (parse_go_defer false)
    | GO => Some (parse_go_defer true)
    | EOF => Some illegal_token
    | FALSE => Some (ret (Some (NBool false)))
    | TRUE => Some (ret (Some (NBool true)))
    | FLOAT => Some parse_float
    | FOR => Some parse_for
    | FROM => Some parse_from_import
    | FUNC => Some parse_func
    | IDENT => Some parse_ident
    | IF => Some (do fu <- tfuel; parse_if fu)
    | IMPORT => Some parse_import
    | INT => Some parse_int
    | LBRACE => Some parse_map_or_set
    | LBRACKET => Some parse_list
    | LPAREN => Some parse_grouped
    | NEWLINE => Some (do _ <- next_token; ret None)
    | NIL => Some (ret (Some NNil))
    | RANGE => Some parse_range
    | SWITCH => Some parse_switch
    | SEND => Some parse_receive
    | _ => None
    end.

  (* ---------- infix functions: cur = the operator ---------- *)

  Fixpoint skip_cur_newlines (fuel : nat) : P bool :=
    match fuel with
    | O => ret true
    | S f => do nl <- cur_is NEWLINE;
             if nl then (do ok <- next_token; if ok then skip_cur_newlines f else ret false) else ret true
    end.

  Definition parse_infix_expr (lft : node) : P (option node) :=
    if negb (implements_expression lft) then (do t <- cur_tok; tok_err t PK_InvalidExpr ;; ret None) else
    do op <- cur_tok;
    do prec <- cur_prec;
    do _ <- next_token;
    do fu <- tfuel;
    do ok <- skip_cur_newlines fu;
    if negb ok then ret None else
    do r <- parse_expression prec;
    match r with
    | None => do t <- cur_tok; tok_err t PK_InvalidExpr ;; ret None
    | Some rgt => ret (Some (NInfix (t_lit op) lft rgt))
    end.

  Definition parse_ternary (cond : node) : P (option node) :=
    if negb (implements_expression cond) then (do t <- cur_tok; tok_err t PK_InvalidTernary ;; ret None) else
    do s <- get;
    if tern s then (do t <- cur_tok; tok_err t PK_NestedTernary ;; ret None) else
    set_tern true ;;
    do _ <- next_token;
    do prec <- cur_prec;
    do a <- parse_expression prec;
    (match a with None => (do t <- cur_tok; tok_err t PK_TernTrue) | Some _ => ret tt end) ;;
    do ok <- expect_peek COLON;
    if negb ok then (set_tern false ;; ret None) else
    do _ <- next_token;
    do b <- parse_expression prec;
    (match b with None => (do t <- cur_tok; tok_err t PK_TernFalse) | Some _ => ret tt end) ;;
    set_tern false ;;
    ret (Some (NTernary cond (opt_or_nil a) (opt_or_nil b))).

  Definition parse_index (lft : node) : P (option node) :=
    if negb (implements_expression lft) then (do t <- cur_tok; tok_err t PK_InvalidIndex ;; ret None) else
    do pc <- peek_is COLON;
    do first <- (if negb pc then
                   do _ <- next_token;
                   do e <- parse_expression LOWEST;
                   match e with
                   | None => do t <- cur_tok; tok_err t PK_InvalidIndex ;; ret (inl None)
                   | Some _ =>
                   do prb <- peek_is RBRACKET;
                   if prb then (do _ <- next_token; ret (inl (Some (NIndex lft (opt_or_nil e)))))
                   else ret (inr e)
                   end
                 else ret (inr None));
    match first with
    | inl n => ret n
    | inr first_index =>
        do pc2 <- peek_is COLON;
        do second <- (if pc2 then
                        do _ <- next_token;
                        do prb <- peek_is RBRACKET;
                        if prb then (do _ <- next_token; ret (inl (Some (NSlice lft first_index None))))
                        else (do _ <- next_token; do e <- parse_expression LOWEST;
                              match e with
                              | None => do t <- cur_tok; tok_err t PK_InvalidIndex ;; ret (inl None)
                              | Some _ => ret (inr e)
                              end)
                      else ret (inr None));
        match second with
        | inl n => ret n
        | inr second_index =>
            do ok <- expect_peek RBRACKET;
            if ok then ret (Some (NSlice lft first_index second_index)) else ret None
        end
    end.

  Definition parse_assign (name : node) : P (option node) :=
    do op <- cur_tok;
    match name with
    | NIdent _ | NIndex _ _ =>
        match t_kind op with
        | PLUS_EQUALS | MINUS_EQUALS | SLASH_EQUALS | ASTERISK_EQUALS | Lexer.DECLARE | Lexer.ASSIGN =>
            do _ <- next_token;
            do r <- parse_expression LOWEST;
            match r with
            | None => do t <- cur_tok; tok_err t PK_AssignValue ;; ret None
            | Some rgt =>
                match name with
                | NIdent nm => ret (Some (NAssign nm (t_lit op) rgt))
                | NIndex l i => ret (Some (NAssignIndex l i (t_lit op) rgt))
                | _ => ret None
                end
            end
        | _ => tok_err op PK_AssignOp ;; ret None
        end
    | _ => tok_err op PK_AssignTarget ;; ret None
    end.

  Definition parse_call (fn : node) : P (option node) :=
    if negb (implements_expression fn) then (do t <- cur_tok; tok_err t PK_InvalidCall ;; ret None) else
    do args <- parse_items true RPAREN;
    match args with
    | None => ret None
    | Some a => ret (Some (NCall fn a))
    end.

  Fixpoint pipe_rest (fuel : nat) (acc : list node) : P (option node) :=
    match fuel with
    | O => ret None
    | S f =>
        do ok <- next_token;
        if negb ok then ret None else
        do fu2 <- tfuel;
        eat_newlines fu2 ;;
        do e <- parse_expression PIPE_P;
        match e with
        | None => do t <- cur_tok; tok_err t PK_InvalidPipe ;; ret None
        | Some ex =>
            do pp <- peek_is Lexer.PIPE;
            if pp then (do _ <- next_token; pipe_rest f (acc ++ [ex])) else ret (Some (NPipe (acc ++ [ex])))
        end
    end.

  Definition parse_pipe (first : node) : P (option node) :=
    if negb (implements_expression first) then (do t <- cur_tok; tok_err t PK_InvalidPipe ;; ret None) else
    do fu <- tfuel;
    pipe_rest fu [first].

  Definition parse_in (lft : node) : P (option node) :=
    if negb (implements_expression lft) then (do t <- cur_tok; tok_err t PK_InvalidIn ;; ret None) else
    do ok <- next_token;
    if negb ok then ret None else
    do r <- parse_expression PREFIX_P;
    match r with
    | None => do t <- cur_tok; tok_err t PK_InvalidIn ;; ret None
    | Some rgt => ret (Some (NIn lft rgt))
    end.

  Definition parse_not_in (lft : node) : P (option node) :=
    if negb (implements_expression lft) then (do t <- cur_tok; tok_err t PK_InvalidNotIn ;; ret None) else
    do pin <- peek_is IN;
    if negb pin then (do t <- peek_tok; tok_err t PK_ExpectedIn ;; ret None) else
    do ok <- next_token;
    if negb ok then ret None else
    do ok2 <- next_token;
    if negb ok2 then ret None else
    do r <- parse_expression PREFIX_P;
    match r with
    | None => do t <- cur_tok; tok_err t PK_InvalidNotIn ;; ret None
    | Some rgt => ret (Some (NNotIn lft rgt))
    end.

  Definition parse_get_attr (obj : node) : P (option node) :=
    if negb (implements_expression obj) then (do t <- cur_tok; tok_err t PK_InvalidAttr ;; ret None) else
    do _ <- next_token;
    do fu <- tfuel;
    eat_newlines fu ;;
    do ci <- cur_is IDENT;
    if negb ci then (do t <- cur_tok; tok_err t PK_ExpectedIdentAfter ;; ret None) else
    do nt <- cur_tok;
    let name := t_lit nt in
    do pk <- peek_tok;
    match t_kind pk with
    | LPAREN =>
        do _ <- next_token;
        do args <- parse_items true RPAREN;
        match args with
        | None => do t <- cur_tok; tok_err t PK_InvalidAttr ;; ret None
        | Some a => ret (Some (NObjectCall obj name a))
        end
    | Lexer.ASSIGN | PLUS_EQUALS | MINUS_EQUALS | ASTERISK_EQUALS | SLASH_EQUALS =>
        do _ <- next_token;
        do op <- cur_tok;
        do _ <- next_token;
        do r <- parse_expression LOWEST;
        match r with
        | None => do t <- cur_tok; tok_err t PK_AssignValue ;; ret None
        | Some rgt => ret (Some (NSetAttr obj name (t_lit op) rgt))
        end
    | _ => ret (Some (NGetAttr obj name))
    end.

  Definition parse_send (ch : node) : P (option node) :=
    if negb (implements_expression ch) then (do t <- cur_tok; tok_err t PK_SendChannel ;; ret None) else
    do op <- cur_tok;
    do _ <- next_token;
    do v <- parse_expression CALL_P;
    match v with
    | None => tok_err op PK_SendValue ;; ret None
    | Some value => ret (Some (NSend ch value))
    end.

  Definition infix_fn (k : tkind) : option (node -> P (option node)) :=
    match k with
    | AND | ASTERISK | AMPERSAND | EQ | GT_EQUALS | GT_GT | GT | LT_EQUALS | LT_LT | LT | MINUS
    | Lexer.MOD | NOT_EQ | OR | PLUS | POW | SLASH => Some parse_infix_expr
    | Lexer.ASSIGN | ASTERISK_EQUALS | MINUS_EQUALS | PLUS_EQUALS | SLASH_EQUALS => Some parse_assign
    | IN => Some parse_in
    | LBRACKET => Some parse_index
    | LPAREN => Some parse_call
    | NOT => Some parse_not_in
    | PERIOD => Some parse_get_attr
    | Lexer.PIPE => Some parse_pipe
    | QUESTION => Some parse_ternary
    | SEND => Some parse_send
    | _ => None
    end.

  Fixpoint infix_loop (fuel : nat) (prec : nat) (lft : node) : P (option node) :=
    match fuel with
    | O => ret (Some lft)
    | S f =>
        do psemi <- peek_is SEMICOLON;
        do pp <- peek_prec;
        if negb psemi && (prec <? pp)%nat then
          do pk <- peek_tok;
          match infix_fn (t_kind pk) with
          | None => ret (Some lft)
          | Some inf =>
              do ok <- next_token;
              if negb ok then ret None else
              do l2 <- inf lft;
              do e3 <- has_err;
              if e3 then ret l2
              else match l2 with
                   | Some nl => infix_loop f prec nl
                   | None => ret None
                   end
          end
        else ret (Some lft)
    end.

  (* parseNode *)
  Definition parse_node (prec : nat) : P (option node) :=
    do c <- cur_tok;
    do e <- has_err;
    if keq (t_kind c) EOF || e then ret None else
    match t_kind c with
    | PLUS_PLUS | MINUS_MINUS =>
        do p <- prev_tok; ret (Some (NPostfix (t_lit p) (t_lit c)))
    | _ =>
        match prefix_fn (t_kind c) with
        | None => tok_err c PK_NoPrefix ;; ret None
        | Some pf =>
            do l <- pf;
            do e2 <- has_err;
            match l with
            | None => ret None
            | Some left0 =>
                if e2 then ret None else
                do fu <- tfuel;
                infix_loop fu prec left0
            end
        end
    end.

  Definition add_stmt (acc : list node) (st : sres) : list node :=
    match st with SNone => acc | STypedNil => acc ++ [NTypedNilReturn] | SNode n => acc ++ [n] end.

  Fixpoint block_stmts (fuel : nat) (acc : list node) : P (option (list node)) :=
    match fuel with
    | O => ret None
    | S f =>
        do rb <- cur_is RBRACE; do eof <- cur_is EOF;
        if rb || eof then ret (Some acc) else
        do st <- parse_statement_strict;
        do ok2 <- next_token;
        if negb ok2 then ret None else block_stmts f (add_stmt acc st)
    end.

  (* parseBlock: cur = '{' *)
  Definition parse_block : P (option (list node)) :=
    do bt <- cur_tok;
    do ok <- next_token;
    if negb ok then ret None else
    do fu <- tfuel;
    do r <- block_stmts fu [];
    match r with
    | None => ret None
    | Some stmts =>
        do eof <- cur_is EOF;
        if eof then (tok_err bt PK_UntermBlock ;; ret None) else ret (Some stmts)
    end.

  Fixpoint program_stmts (fuel : nat) (acc : list node) : P (option (list node)) :=
    match fuel with
    | O => ret None
    | S f =>
        do eof <- cur_is EOF;
        if eof then ret (Some acc) else
        do st <- parse_statement_strict;
        do ok <- next_token;
        if negb ok then ret None else program_stmts f (add_stmt acc st)
    end.

  (* Parse, after the two priming nextToken calls of New *)
  Definition parse_program_body : P (option (list node)) :=
    do e0 <- has_err;
    if e0 then ret None else
    do fu <- tfuel;
    program_stmts fu [].

  Definition parse_source (input : list N) : option (list node) * option perror :=
    let s0 := {| lx := Lexer.init input; prevT := empty_token; curT := empty_token; peekT := empty_token;
                 perr_ := None; tern := false |} in
    let '(_, s1) := next_token s0 in
    let '(_, s2) := next_token s1 in
    let '(r, s3) := parse_program_body s2 in
    match perr_ s3 with
    | Some e => (None, Some e)
    | None => (r, None)
    end.

  Definition step : fns :=
    {| f_node := parse_node; f_stmt := parse_statement; f_block := parse_block; f_program := parse_source |}.
End Step.

Definition bottom : fns :=
  {| f_node := fun _ => ret None; f_stmt := ret SNone; f_block := ret None;
     f_program := fun _ => (None, None) |}.

Fixpoint level (fuel : nat) : fns :=
  match fuel with O => bottom | S f => step (level f) end.

Definition parse (fuel : nat) (input : list N) : option (list node) * option perror :=
  f_program (level fuel) input.
