(* The scalar expression fragment of the core grammar (stage A of C01_back): integer, boolean and nil
   literals, prefix - and !, the arithmetic and comparison operators, short-circuit && and ||, and the
   ternary conditional - as an inductive type embedded into the AST the parser produces, with
   (1) the code the compiler model emits for it as a pure function, and
   (2) its source-level value as a pure function.
   proofs/BackendProofs.v shows that (1) IS what Compiler.compile produces, that (2) IS what Sem.eval
   computes, and that the VM model running (1) yields (2). *)
From Coq Require Import List ZArith NArith Bool Arith.
Require Import RV.model.Syntax RV.model.Compiler.
Import ListNotations.

Inductive bop := BAdd | BSub | BMul | BDiv | BMod | BAnd | CLt | CLe | CEq | CNe | CGt | CGe.

Inductive sexp :=
| SInt (z : Z) | SBool (b : bool) | SNil
| SStr (t : list N)                    (* a plain string literal *)
| SVar (i : nat)                       (* the i-th declared top-level variable *)
| SNeg (e : sexp) | SNot (e : sexp)
| SBin (o : bop) (a b : sexp)
| SLand (a b : sexp) | SLor (a b : sexp)
| STern (c t f : sexp).

Definition op_text (o : bop) : list N :=
  match o with
  | BAdd => [43] | BSub => [45] | BMul => [42] | BDiv => [47] | BMod => [37] | BAnd => [38]
  | CLt => [60] | CLe => [60;61] | CEq => [61;61] | CNe => [33;61] | CGt => [62] | CGe => [62;61]
  end%N.

(* [names]: the names of the declared variables, in declaration order *)
Fixpoint embed (names : list (list N)) (e : sexp) : node :=
  match e with
  | SInt z => NInt z | SBool b => NBool b | SNil => NNil
  | SStr t => NString t None
  | SVar i => NIdent (nth i names [])
  | SNeg a => NPrefix [45%N] (embed names a)
  | SNot a => NPrefix [33%N] (embed names a)
  | SBin o a b => NInfix (op_text o) (embed names a) (embed names b)
  | SLand a b => NInfix [38;38]%N (embed names a) (embed names b)
  | SLor a b => NInfix [124;124]%N (embed names a) (embed names b)
  | STern c t f => NTernary (embed names c) (embed names t) (embed names f)
  end.

(* every variable mentioned is one of the first n declared *)
Fixpoint wf (n : nat) (e : sexp) : bool :=
  match e with
  | SInt _ | SBool _ | SNil | SStr _ => true
  | SVar i => Nat.ltb i n
  | SNeg a | SNot a => wf n a
  | SBin _ a b | SLand a b | SLor a b => wf n a && wf n b
  | STern c t f => wf n c && wf n t && wf n f
  end.

Fixpoint height (e : sexp) : nat :=
  match e with
  | SInt _ | SBool _ | SNil | SStr _ | SVar _ => 1
  | SNeg a | SNot a => S (height a)
  | SBin _ a b | SLand a b | SLor a b => S (Nat.max (height a) (height b))
  | STern c t f => S (Nat.max (height c) (Nat.max (height t) (height f)))
  end.

(* operand-stack slots the code of e needs above the current top *)
Fixpoint need (e : sexp) : nat :=
  match e with
  | SInt _ | SBool _ | SNil | SStr _ | SVar _ => 1
  | SNeg a | SNot a => need a
  | SBin _ a b => Nat.max (need a) (S (need b))
  | SLand a b | SLor a b => Nat.max (Nat.max (need a) 2) (S (need b))
  | STern c t f => Nat.max (need c) (Nat.max (need t) (need f))
  end.

Definition op_code (o : bop) : list N :=
  match o with
  | BAdd => [opBinaryOp; bAdd] | BSub => [opBinaryOp; bSubtract] | BMul => [opBinaryOp; bMultiply]
  | BDiv => [opBinaryOp; bDivide] | BMod => [opBinaryOp; bModulo] | BAnd => [opBinaryOp; bBitwiseAnd]
  | CLt => [opCompareOp; cLessThan] | CLe => [opCompareOp; cLessThanOrEqual] | CEq => [opCompareOp; cEqual]
  | CNe => [opCompareOp; cNotEqual] | CGt => [opCompareOp; cGreaterThan] | CGe => [opCompareOp; cGreaterThanOrEqual]
  end.

Definition nlenN (l : list N) : N := N.of_nat (length l).

(* (1) the emitted slots and the constants appended, when [base] constants exist already *)
(* [slot i]: the global slot of variable i (the identity for programs whose variables are all declared at the top level) *)
Fixpoint cexp_at (slot : nat -> nat) (base : nat) (e : sexp) : list N * list konst :=
  match e with
  | SInt z => ([opLoadConst; N.of_nat base], [KInt z])
  | SBool b => ([if b then opTrue else opFalse], [])
  | SNil => ([opNil], [])
  | SStr t => ([opLoadConst; N.of_nat base], [KStr t])
  | SVar i => ([opLoadGlobal; N.of_nat (slot i)], [])
  | SNeg a => let '(ca, ka) := cexp_at slot base a in (ca ++ [opUnaryNegative], ka)
  | SNot a => let '(ca, ka) := cexp_at slot base a in (ca ++ [opUnaryNot], ka)
  | SBin o a b =>
      let '(ca, ka) := cexp_at slot base a in
      let '(cb, kb) := cexp_at slot (base + length ka) b in
      (ca ++ cb ++ op_code o, ka ++ kb)
  | SLand a b =>
      let '(ca, ka) := cexp_at slot base a in
      let '(cb, kb) := cexp_at slot (base + length ka) b in
      let body := cb ++ [opBinaryOp; bAnd; opNop] in
      (ca ++ [opCopy; 0; opPopJumpForwardIfFalse; nlenN body + 2] ++ body, ka ++ kb)
  | SLor a b =>
      let '(ca, ka) := cexp_at slot base a in
      let '(cb, kb) := cexp_at slot (base + length ka) b in
      let body := cb ++ [opBinaryOp; bOr; opNop] in
      (ca ++ [opCopy; 0; opPopJumpForwardIfTrue; nlenN body + 2] ++ body, ka ++ kb)
  | STern c t f =>
      let '(cc, kc) := cexp_at slot base c in
      let '(ct, kt) := cexp_at slot (base + length kc) t in
      let '(cf, kf) := cexp_at slot (base + length kc + length kt) f in
      (cc ++ [opPopJumpForwardIfFalse; nlenN ct + 4] ++ ct ++ [opJumpForward; nlenN cf + 2] ++ cf, kc ++ kt ++ kf)
  end%N.

Definition cexp : nat -> sexp -> list N * list konst := cexp_at (fun i => i).

(* (2) the source-level value: scalars, or the class of the error raised *)
Inductive sval := VNil | VBool (b : bool) | VInt (z : Z) | VStr (t : list N).
Inductive serr := EType | EDiv0.
Definition wrap64 (z : Z) : Z := ((z + 9223372036854775808) mod 18446744073709551616 - 9223372036854775808)%Z.
Definition struthy (v : sval) : bool :=
  match v with VNil => false | VBool b => b | VInt z => negb (Z.eqb z 0) | VStr t => match t with [] => false | _ => true end end.
(* byte-wise lexicographic order of strings *)
Fixpoint str_cmp (a b : list N) : comparison :=
  match a, b with
  | [], [] => Eq | [], _ => Lt | _, [] => Gt
  | x :: a', y :: b' => match N.compare x y with Eq => str_cmp a' b' | c => c end
  end.
Definition sveq (a b : sval) : bool :=
  match a, b with
  | VNil, VNil => true | VBool x, VBool y => Bool.eqb x y | VInt x, VInt y => Z.eqb x y
  | VStr x, VStr y => beq x y | _, _ => false end.

Definition cmp_res (o : bop) (c : comparison) : bool :=
  match o with
  | CLt => match c with Lt => true | _ => false end
  | CLe => match c with Gt => false | _ => true end
  | CGt => match c with Gt => true | _ => false end
  | _ => match c with Lt => false | _ => true end
  end.

Definition sbin (o : bop) (a b : sval) : sval + serr :=
  match o with
  | CEq => inl (VBool (sveq a b))
  | CNe => inl (VBool (negb (sveq a b)))
  | CLt | CLe | CGt | CGe =>
      match a, b with
      | VInt x, VInt y => inl (VBool (cmp_res o (x ?= y)%Z))
      | VStr x, VStr y => inl (VBool (cmp_res o (str_cmp x y)))
      | VBool x, VBool y => inl (VBool (cmp_res o (match x, y with true, false => Gt | false, true => Lt | _, _ => Eq end)))
      | VNil, VNil => inl (VBool (cmp_res o Eq))
      | _, _ => inr EType
      end
  | _ =>
      match a, b with
      | VInt x, VInt y =>
          match o with
          | BAdd => inl (VInt (wrap64 (x + y))) | BSub => inl (VInt (wrap64 (x - y))) | BMul => inl (VInt (wrap64 (x * y)))
          | BDiv => if Z.eqb y 0 then inr EDiv0 else inl (VInt (wrap64 (Z.quot x y)))
          | BMod => if Z.eqb y 0 then inr EDiv0 else inl (VInt (Z.rem x y))
          | _ => inl (VInt (Z.land x y))
          end
      | VStr x, VStr y => match o with BAdd => inl (VStr (x ++ y)) | _ => inr EType end
      | _, _ => inr EType
      end
  end.

(* [rho]: the current values of the declared variables.  A variable outside rho cannot occur in a well-formed
   program ([wf]); the clause for it only makes the function total. *)
Fixpoint sev (rho : list sval) (e : sexp) : sval + serr :=
  match e with
  | SInt z => inl (VInt z) | SBool b => inl (VBool b) | SNil => inl VNil
  | SStr t => inl (VStr t)
  | SVar i => match nth_error rho i with Some v => inl v | None => inr EType end
  | SNeg a => match sev rho a with inl (VInt z) => inl (VInt (wrap64 (- z))) | inl _ => inr EType | inr x => inr x end
  | SNot a => match sev rho a with inl v => inl (VBool (negb (struthy v))) | inr x => inr x end
  | SBin o a b => match sev rho a with
                  | inl va => match sev rho b with inl vb => sbin o va vb | inr x => inr x end
                  | inr x => inr x end
  | SLand a b => match sev rho a with inl va => if struthy va then sev rho b else inl va | inr x => inr x end
  | SLor a b => match sev rho a with inl va => if struthy va then inl va else sev rho b | inr x => inr x end
  | STern c t f => match sev rho c with inl vc => if struthy vc then sev rho t else sev rho f | inr x => inr x end
  end.
