(* Model of risor's import machinery (C14).  Definitions only; proofs in proofs/ImporterProofs.v.

   Part A  names and files
     parser/parser.go   validateImportPath (the model is Parser.valid_import_path, the very function the
                        validated parser model runs), parseImport, parseFromImport: which module-name
                        strings a parsed import statement can hand to the VM
     vm/vm.go           op.Import / op.FromImport: filepath.Join(filepath.Join(from...), name), fallback
                        filepath.Join(from...)
     importer/importer.go     readFileWithExtensions: filepath.Join(sourceDir, name+ext)
     importer/fs_importer.go  name+ext handed to fs.FS.Open

   Part B  the VM side: vm.modules cache, importer code cache, vm.loadedCode (globals arrays),
     importModule (a module imported while its own body is running is an import-cycle ERROR; frame fp+1; body
     evaluated BEFORE the module is cached, nothing cached on failure; whatever the body left on the operand stack
     is dropped),
     FromImport (names processed in reverse source order, any error of the first attempt swallowed),
     object.NewModule / Module.UseGlobals.  Ghost counters (never read by the control flow) count body
     starts and how each start ended. *)
From Coq Require Import List Bool Arith NArith ZArith.
Require Import RV.model.Paths RV.model.Lexer RV.model.Parser.
Import ListNotations.
Local Open Scope nat_scope.

Notation bstr := (list N).
Notation name := (list N).

(* ------------------------------------------------------------------ Part A *)

(* bytes of an IDENT token: unicode.IsLetter / IsDigit / '_' ; every non-ASCII letter is encoded with
   bytes >= 128, so this over-approximates the lexer's identifiers *)
Definition lex_ident_byte (c : N) : bool :=
  is_ascii_letter c || is_digit c || (c =? 95)%N || (128 <=? c)%N.
Definition lex_ident (s : bstr) : bool := negb (@is_empty ByteAlphabet s) && forallb lex_ident_byte s.

(* filepath.Join(elems...): leading empty elements are dropped, the rest joined with "/" and cleaned *)
Fixpoint drop_empty (l : list bstr) : list bstr :=
  match l with
  | [] => []
  | e :: r => if @is_empty ByteAlphabet e then drop_empty r else l
  end.
Definition join_list (elems : list bstr) : bstr :=
  match drop_empty elems with
  | [] => []
  | l => clean (join_segs l)
  end.

(* the names op.FromImport hands to importModule *)
Definition from_parent (parents : list bstr) : bstr := join_list parents.
Definition from_name (parents : list bstr) (nm : bstr) : bstr := join_list [join_list parents; nm].

(* every spelling of an import statement (the alias never influences the module name) *)
Inductive spelling :=
| SpImportIdent (id : bstr) (alias : option bstr)                       (* import foo [as a] *)
| SpImportQuoted (path : bstr) (alias : option bstr)                    (* import "a/b" [as a] ; path = string VALUE *)
| SpFromDotted (parents : list bstr) (imports : list (bstr * option bstr)) (grouped : bool)
| SpFromQuoted (path : bstr) (imports : list (bstr * option bstr)) (grouped : bool).

(* what lexer + parser accept *)
Definition accepted (sp : spelling) : bool :=
  match sp with
  | SpImportIdent id _ => lex_ident id && valid_import_path id
  | SpImportQuoted p _ => valid_import_path p
  | SpFromDotted ps imps _ =>
      negb (match ps with [] => true | _ => false end) && forallb lex_ident ps
      && negb (match imps with [] => true | _ => false end) && forallb (fun i => lex_ident (fst i)) imps
  | SpFromQuoted p imps _ =>
      valid_import_path p
      && negb (match imps with [] => true | _ => false end) && forallb (fun i => lex_ident (fst i)) imps
  end.

(* every module name the statement may hand to the importer *)
Definition requested (sp : spelling) : list bstr :=
  match sp with
  | SpImportIdent p _ | SpImportQuoted p _ => [p]
  | SpFromDotted ps imps _ => from_parent ps :: map (fun i => from_name ps (fst i)) imps
  | SpFromQuoted p imps _ => from_parent [p] :: map (fun i => from_name [p] (fst i)) imps
  end.

(* the files *)
Definition ext_risor : bstr := [46;114;105;115;111;114]%N.
Definition ext_rsr : bstr := [46;114;115;114]%N.
Definition default_exts : list bstr := [ext_risor; ext_rsr].
Definition local_file (root nm ext : bstr) : bstr := join root (nm ++ ext).   (* LocalImporter *)
Definition fs_file (nm ext : bstr) : bstr := nm ++ ext.                       (* FSImporter *)

(* decidable shape of a module name: every "/"-separated component is non-empty and has neither '.' nor '/' *)
Definition plain_byte (c : N) : bool := negb (c =? 47)%N && negb (c =? 46)%N.
Definition plainb (s : bstr) : bool := negb (@is_empty ByteAlphabet s) && forallb plain_byte s.
Definition name_okb (nm : bstr) : bool := forallb plainb (split nm).

(* ------------------------------------------------------------------ Part B *)

Definition name_eqb (a b : name) : bool := if list_eq_dec N.eq_dec a b then true else false.

Fixpoint lookup {V} (k : name) (l : list (name * V)) : option V :=
  match l with
  | [] => None
  | (k', v) :: r => if name_eqb k k' then Some v else lookup k r
  end.
Definition update {V} (k : name) (v : V) (l : list (name * V)) : list (name * V) := (k, v) :: l.
Definition get (k : name) (l : list (name * nat)) : nat := match lookup k l with Some n => n | None => 0 end.
Definition bump (k : name) (l : list (name * nat)) : list (name * nat) := (k, S (get k l)) :: l.
Fixpoint nlookup {V} (k : nat) (l : list (nat * V)) : option V :=
  match l with
  | [] => None
  | (k', v) :: r => if Nat.eqb k k' then Some v else nlookup k r
  end.
Definition mem (k : name) (l : list name) : bool := existsb (name_eqb k) l.

(* a module object: identity, name, and the globals array it adopted (Module.UseGlobals) when its body completed *)
Inductive value := VInt (z : Z) | VMod (id : nat) (n : name) (arr : nat) | VBool (b : bool) | VNil
               | VFn.   (* a function defined by the module: func set_x(v) { x = v } *)
Notation env := (list (name * value)).

Inductive expr := EPath (p : list name) | ESame (p q : list name).

Inductive action :=
| AImport (path : name) (alias : option name)
| AFrom (parents : list name) (imports : list (name * option name))
| ASet (x : name) (v : Z)                          (* x = v on the executing code's own global *)
| ADef (x : name)                                  (* func set_x(v) { x = v } *)
| ACallSet (p : list name) (x : name) (v : Z)      (* p.set_x(v): a function of module p assigns p's global x *)
| AObs (e : expr)
| AFail                                            (* error("boom") *)
| ATry (body : list action)                        (* try(func() { body }) *)
| AIfRun (k : nat) (body : list action).           (* if <this is the k-th start of this module's body> { body } *)

Inductive modsrc := MBad | MBody (body : list action).
(* the module tree: (name, extension) -> source *)
Notation tree := (list (name * bstr * modsrc)).

Inductive err := ENotFound | ECompile | EBoom | ECannotImport | EAttr | ENotModule | EUnbound
             | ECycle.   (* import error: import cycle detected for module ... *)
Inductive outcome := OK | Err (e : err) | Panic | Fuel.

Inductive reqres := RFound (ext : bstr) (fresh : bool) | RNotFound | RBad (ext : bstr).
Inductive obsval := OInt (z : Z) | OMod (n : name) (id : nat) | OBool (b : bool) | ONil.
Inductive event :=
| EvReq (n : name) (r : reqres)        (* the VM called importer.Import(n) *)
| EvStart (n : name) (k : nat) (d : nat)   (* k-th start of the body of n, at import depth d *)
| EvDone (n : name) (d : nat)              (* the body of n ran to its end *)
| EvObs (v : obsval) (d : nat).

Record st := {
  cache : list (name * (nat * nat));    (* vm.modules: name -> module object (identity, adopted globals array) *)
  compiled : list name;                 (* importer codeCache keys *)
  loaded : list (name * nat);           (* vm.loadedCode for module root code (code identity = name): -> globals array *)
  arrays : list (nat * env);            (* globals arrays by id; 0 is the main program's *)
  next_arr : nat;
  next_mod : nat;
  trace : list event;                   (* newest first *)
  (* ghost *)
  starts : list (name * nat);
  dones : list (name * nat);            (* bodies that ran to their end *)
  fails : list (name * nat);            (* bodies that failed *)
  cycles : list (name * nat);           (* imports rejected as import cycles *)
  results : list (name * nat);          (* every successful importModule(n) = id *)
  wlog : list (nat * option name)       (* every `x = v` executed: (globals array written, module whose code executed it) *)
}.

Definition init : st :=
  {| cache := []; compiled := []; loaded := []; arrays := [(0, [])]; next_arr := 1; next_mod := 0;
     trace := []; starts := []; dones := []; fails := []; cycles := []; results := []; wlog := [] |}.

Record ctx := {
  c_self : option name;      (* the module whose code is executing; None = main *)
  c_arr : nat;               (* its globals array *)
  c_depth : nat;             (* vm.fp *)
  c_inprog : list name;      (* module bodies in progress, innermost first *)
  c_run : nat                (* ordinal of this start of c_self's body *)
}.
Definition main_ctx : ctx := {| c_self := None; c_arr := 0; c_depth := 0; c_inprog := []; c_run := 0 |}.

Definition max_frame : nat := 1024.

(* -------- field updates -------- *)
Definition log (e : event) (s : st) : st :=
  {| cache := cache s; compiled := compiled s; loaded := loaded s; arrays := arrays s;
     next_arr := next_arr s; next_mod := next_mod s; trace := e :: trace s;
     starts := starts s; dones := dones s; fails := fails s; cycles := cycles s;
     results := results s; wlog := wlog s |}.
Definition set_array (a : nat) (e : env) (s : st) : st :=
  {| cache := cache s; compiled := compiled s; loaded := loaded s; arrays := (a, e) :: arrays s;
     next_arr := next_arr s; next_mod := next_mod s; trace := trace s;
     starts := starts s; dones := dones s; fails := fails s; cycles := cycles s;
     results := results s; wlog := wlog s |}.
Definition note_write (a : nat) (who : option name) (s : st) : st :=
  {| cache := cache s; compiled := compiled s; loaded := loaded s; arrays := arrays s;
     next_arr := next_arr s; next_mod := next_mod s; trace := trace s;
     starts := starts s; dones := dones s; fails := fails s; cycles := cycles s;
     results := results s; wlog := (a, who) :: wlog s |}.
Definition note_cycle (n : name) (s : st) : st :=
  {| cache := cache s; compiled := compiled s; loaded := loaded s; arrays := arrays s;
     next_arr := next_arr s; next_mod := next_mod s; trace := trace s;
     starts := starts s; dones := dones s; fails := fails s; cycles := bump n (cycles s);
     results := results s; wlog := wlog s |}.
Definition add_result (n : name) (id : nat) (s : st) : st :=
  {| cache := cache s; compiled := compiled s; loaded := loaded s; arrays := arrays s;
     next_arr := next_arr s; next_mod := next_mod s; trace := trace s;
     starts := starts s; dones := dones s; fails := fails s; cycles := cycles s;
     results := (n, id) :: results s; wlog := wlog s |}.
(* importer.Import found and compiled the source: remember the code, make a module object *)
Definition note_compiled (n : name) (s : st) : st :=
  {| cache := cache s; compiled := n :: compiled s; loaded := loaded s; arrays := arrays s;
     next_arr := next_arr s; next_mod := S (next_mod s); trace := trace s;
     starts := starts s; dones := dones s; fails := fails s; cycles := cycles s;
     results := results s; wlog := wlog s |}.
(* vm.loadCode(module.Code()) for code not loaded yet: a fresh globals array *)
Definition load_fresh (n : name) (s : st) : st :=
  {| cache := cache s; compiled := compiled s; loaded := (n, next_arr s) :: loaded s;
     arrays := (next_arr s, []) :: arrays s;
     next_arr := S (next_arr s); next_mod := next_mod s; trace := trace s;
     starts := starts s; dones := dones s; fails := fails s; cycles := cycles s;
     results := results s; wlog := wlog s |}.
Definition begin_run (n : name) (d : nat) (s : st) : st :=
  {| cache := cache s; compiled := compiled s; loaded := loaded s; arrays := arrays s;
     next_arr := next_arr s; next_mod := next_mod s; trace := EvStart n (S (get n (starts s))) d :: trace s;
     starts := bump n (starts s); dones := dones s; fails := fails s; cycles := cycles s;
     results := results s; wlog := wlog s |}.
(* module.UseGlobals(code.Globals); vm.modules[name] = module *)
Definition finish_ok (n : name) (id arr : nat) (d : nat) (s : st) : st :=
  {| cache := update n (id, arr) (cache s); compiled := compiled s; loaded := loaded s; arrays := arrays s;
     next_arr := next_arr s; next_mod := next_mod s; trace := EvDone n d :: trace s;
     starts := starts s; dones := bump n (dones s); fails := fails s; cycles := cycles s;
     results := (n, id) :: results s; wlog := wlog s |}.
Definition finish_fail (n : name) (s : st) : st :=
  {| cache := cache s; compiled := compiled s; loaded := loaded s; arrays := arrays s;
     next_arr := next_arr s; next_mod := next_mod s; trace := trace s;
     starts := starts s; dones := dones s; fails := bump n (fails s); cycles := cycles s;
     results := results s; wlog := wlog s |}.

(* -------- the importer: first extension whose file exists -------- *)
Fixpoint find_file (T : tree) (n : name) (ext : bstr) : option modsrc :=
  match T with
  | [] => None
  | (n', e', src) :: r => if name_eqb n n' && name_eqb ext e' then Some src else find_file r n ext
  end.
Fixpoint find_source (T : tree) (exts : list bstr) (n : name) : option (bstr * modsrc) :=
  match exts with
  | [] => None
  | e :: r => match find_file T n e with Some src => Some (e, src) | None => find_source T r n end
  end.

(* -------- variables -------- *)
Definition arr_env (a : nat) (s : st) : env := match nlookup a (arrays s) with Some e => e | None => [] end.
Definition read_var (c : ctx) (loc : option env) (x : name) (s : st) : option value :=
  match match loc with Some l => lookup x l | None => None end with
  | Some v => Some v
  | None => lookup x (arr_env (c_arr c) s)
  end.
(* an import statement binds in the function's locals (StoreFast) or in the code's globals (StoreGlobal) *)
Definition bind (c : ctx) (loc : option env) (x : name) (v : value) (s : st) : option env * st :=
  match loc with
  | Some l => (Some (update x v l), s)
  | None => (None, set_array (c_arr c) (update x v (arr_env (c_arr c) s)) s)
  end.

Inductive rv := ROk (v : value) | RErr (e : err).
Fixpoint walk (v : value) (p : list name) (s : st) : rv :=
  match p with
  | [] => ROk v
  | x :: r =>
      match v with
      | VMod _ _ a =>
          match lookup x (arr_env a s) with
          | Some v' => walk v' r s
          | None => RErr EAttr
          end
      | _ => RErr ENotModule
      end
  end.
Definition eval_path (c : ctx) (loc : option env) (p : list name) (s : st) : rv :=
  match p with
  | [] => RErr EUnbound
  | x :: r => match read_var c loc x s with
              | Some v => walk v r s
              | None => RErr EUnbound
              end
  end.
Definition setter (x : name) : name := [115;101;116;95]%N ++ x.     (* "set_" ++ x *)
Definition obs_of (v : value) : obsval :=
  match v with
  | VFn => ONil
  | VInt z => OInt z
  | VBool b => OBool b
  | VNil => ONil
  | VMod id n _ => OMod n id
  end.
Definition value_same (a b : value) : bool :=
  match a, b with
  | VInt x, VInt y => Z.eqb x y
  | VMod x _ _, VMod y _ _ => Nat.eqb x y   (* Module.Equals: pointer identity *)
  | VBool x, VBool y => Bool.eqb x y
  | VNil, VNil => true
  | VFn, VFn => true
  | _, _ => false
  end.

(* -------- importModule, parameterised by the evaluator of a body -------- *)
Inductive ires := IOk (id : nat) (arr : nat) | IErr (e : err) | IPanic | IFuel.
Notation runner := (ctx -> option env -> list action -> st -> outcome * option env * st).

Definition import_with (run : runner) (T : tree) (exts : list bstr) (c : ctx) (n : name) (s : st) : ires * st :=
  match lookup n (cache s) with
  | Some (id, a) => (IOk id a, add_result n id s)
  | None =>
      if mem n (c_inprog c) then (IErr ECycle, note_cycle n s)        (* vm.importing[name]: before importer.Import *)
      else
      match find_source T exts n with
      | None => (IErr ENotFound, log (EvReq n RNotFound) s)
      | Some (ext, MBad) => (IErr ECompile, log (EvReq n (RBad ext)) s)
      | Some (ext, MBody body) =>
          let fresh := negb (mem n (compiled s)) in
          let id := next_mod s in
          let s1 := note_compiled n (log (EvReq n (RFound ext fresh)) s) in
          let s2 := match lookup n (loaded s1) with Some _ => s1 | None => load_fresh n s1 end in
          let arr := match lookup n (loaded s2) with Some a => a | None => 0 end in
          if Nat.leb (pred max_frame) (c_depth c) then (IPanic, s2)     (* vm.frames[fp+1]: index out of range *)
          else
            let d := S (length (c_inprog c)) in
            let s3 := begin_run n d s2 in
            let c' := {| c_self := Some n; c_arr := arr; c_depth := S (c_depth c);
                         c_inprog := n :: c_inprog c; c_run := get n (starts s3) |} in
            match run c' None body s3 with
            | (OK, _, s4) => (IOk id arr, finish_ok n id arr d s4)
            | (Err e, _, s4) => (IErr e, finish_fail n s4)
            | (Panic, _, s4) => (IPanic, finish_fail n s4)
            | (Fuel, _, s4) => (IFuel, finish_fail n s4)
            end
      end
  end.

(* op.FromImport: one name (importModule leaves nothing but its result on the operand stack) *)
Definition from_one (run : runner) (T : tree) (exts : list bstr) (c : ctx) (parents : list name) (nm : name) (s : st)
  : (rv + outcome) * st :=
  match import_with run T exts c (from_name parents nm) s with
  | (IOk id a, s1) => (inl (ROk (VMod id (from_name parents nm) a)), s1)
  | (IPanic, s1) => (inr Panic, s1)
  | (IFuel, s1) => (inr Fuel, s1)
  | (IErr _, s1) =>                                   (* any error: the name is taken to be a symbol of the parent *)
      match import_with run T exts c (from_parent parents) s1 with
      | (IOk id a, s2) =>
          match walk (VMod id (from_parent parents) a) [nm] s2 with
          | ROk v => (inl (ROk v), s2)
          | RErr _ => (inl (RErr ECannotImport), s2)
          end
      | (IErr e, s2) => (inl (RErr e), s2)
      | (IPanic, s2) => (inr Panic, s2)
      | (IFuel, s2) => (inr Fuel, s2)
      end
  end.

(* names are popped from the stack, i.e. processed in reverse source order; returns values in processing order *)
Fixpoint from_all (run : runner) (T : tree) (exts : list bstr) (c : ctx) (parents : list name) (names : list name) (s : st)
  : (option (list value)) * outcome * st :=
  match names with
  | [] => (Some [], OK, s)
  | nm :: r =>
      match from_one run T exts c parents nm s with
      | (inl (ROk v), s1) =>
          match from_all run T exts c parents r s1 with
          | (Some vs, o, s2) => (Some (v :: vs), o, s2)
          | (None, o, s2) => (None, o, s2)
          end
      | (inl (RErr e), s1) => (None, Err e, s1)
      | (inr o, s1) => (None, o, s1)
      end
  end.

Definition last_comp (p : name) : name := last (split p) [].
(* compileFromImport: aliases[name] = alias, a later entry of the same name overrides an earlier one *)
Definition from_alias (imports : list (name * option name)) (nm : name) : name :=
  fold_left (fun acc im => if name_eqb (fst im) nm then match snd im with Some a => a | None => fst im end else acc)
            imports nm.
Fixpoint bind_all (c : ctx) (loc : option env) (xs : list name) (vs : list value) (s : st) : option env * st :=
  match xs, vs with
  | x :: xr, v :: vr => let '(loc', s') := bind c loc x v s in bind_all c loc' xr vr s'
  | _, _ => (loc, s)
  end.

Definition step_with (run : runner) (T : tree) (exts : list bstr) (c : ctx) (loc : option env) (a : action) (s : st)
  : outcome * option env * st :=
  match a with
  | AImport path alias =>
      match import_with run T exts c path s with
      | (IOk id a, s1) =>
          let x := match alias with Some al => al | None => last_comp path end in
          let '(loc', s2) := bind c loc x (VMod id path a) s1 in (OK, loc', s2)
      | (IErr e, s1) => (Err e, loc, s1)
      | (IPanic, s1) => (Panic, loc, s1)
      | (IFuel, s1) => (Fuel, loc, s1)
      end
  | AFrom parents imports =>
      let names := map fst imports in
      match from_all run T exts c parents (rev names) s with
      | (Some vs, _, s1) =>
          (* the stores pop in source order: source name i receives the value computed for it *)
          let '(loc', s2) := bind_all c loc (map (from_alias imports) names) (rev vs) s1 in (OK, loc', s2)
      | (None, o, s1) => (o, loc, s1)
      end
  | ASet x v =>
      (OK, loc, note_write (c_arr c) (c_self c) (set_array (c_arr c) (update x (VInt v) (arr_env (c_arr c) s)) s))
  | ADef x =>
      (OK, loc, set_array (c_arr c) (update (setter x) VFn (arr_env (c_arr c) s)) s)
  | ACallSet p x v =>
      match eval_path c loc p s with
      | ROk (VMod _ _ a) =>
          match lookup (setter x) (arr_env a s) with
          | Some VFn => (OK, loc, set_array a (update x (VInt v) (arr_env a s)) s)
          | _ => (Err EAttr, loc, s)
          end
      | ROk _ => (Err ENotModule, loc, s)
      | RErr e => (Err e, loc, s)
      end
  | AObs (EPath p) =>
      match eval_path c loc p s with
      | ROk v => (OK, loc, log (EvObs (obs_of v) (length (c_inprog c))) s)
      | RErr e => (Err e, loc, s)
      end
  | AObs (ESame p q) =>
      match eval_path c loc p s, eval_path c loc q s with
      | ROk v, ROk w => (OK, loc, log (EvObs (OBool (value_same v w)) (length (c_inprog c))) s)
      | RErr e, _ => (Err e, loc, s)
      | _, RErr e => (Err e, loc, s)
      end
  | AFail => (Err EBoom, loc, s)
  | ATry body =>
      if Nat.leb (pred max_frame) (c_depth c) then (Panic, loc, s)      (* callFunction: frames[fp+1] *)
      else
        let c' := {| c_self := c_self c; c_arr := c_arr c; c_depth := S (c_depth c);
                     c_inprog := c_inprog c; c_run := c_run c |} in
        match run c' (Some []) body s with
        | (OK, _, s1) => (OK, loc, s1)
        | (Err _, _, s1) => (OK, loc, s1)             (* try() turns the error into a value *)
        | (o, _, s1) => (o, loc, s1)
        end
  | AIfRun k body =>
      if Nat.eqb (c_run c) k then
        match run c loc body s with
        | (o, loc', s1) => (o, loc', s1)
        end
      else (OK, loc, s)
  end.

Fixpoint exec (fuel : nat) (T : tree) (exts : list bstr) (c : ctx) (loc : option env) (acts : list action) (s : st)
  : outcome * option env * st :=
  match fuel with
  | O => (Fuel, loc, s)
  | S f =>
      match acts with
      | [] => (OK, loc, s)
      | a :: rest =>
          match step_with (exec f T exts) T exts c loc a s with
          | (OK, loc', s') => exec f T exts c loc' rest s'
          | r => r
          end
      end
  end.

Definition run_main (fuel : nat) (T : tree) (exts : list bstr) (main : list action) : outcome * st :=
  let '(o, _, s) := exec fuel T exts main_ctx None main init in (o, s).

(* -------- static description of a program, used by the theorems -------- *)
(* module names an action may hand to importModule, nested bodies included *)
Fixpoint action_requests (a : action) : list name :=
  match a with
  | AImport p _ => [p]
  | AFrom ps imps => from_parent ps :: map (fun i => from_name ps (fst i)) imps
  | ATry b | AIfRun _ b => flat_map action_requests b
  | _ => []
  end.
Definition requests (acts : list action) : list name := flat_map action_requests acts.

(* the spelling an action came from is accepted by the parser *)
Fixpoint action_accepted (a : action) : bool :=
  match a with
  | AImport p _ => valid_import_path p
  | AFrom ps imps =>
      ((match ps with [p] => valid_import_path p | _ => false end) ||
       (negb (match ps with [] => true | _ => false end) && forallb lex_ident ps))
      && forallb (fun i => lex_ident (fst i)) imps
  | ATry b | AIfRun _ b => forallb action_accepted b
  | _ => true
  end.
Definition tree_accepted (T : tree) : bool :=
  forallb (fun f => match snd f with MBad => true | MBody b => forallb action_accepted b end) T.

(* acyclicity certificate: a rank for every module name such that every body only requests names of
   strictly smaller rank (the main program may request anything) *)
Definition ranked_below (rank : name -> nat) (r : nat) (acts : list action) : bool :=
  forallb (fun n => Nat.ltb (rank n) r) (requests acts).
Definition tree_ranked (rank : name -> nat) (T : tree) : bool :=
  forallb (fun f => match f with (n, _, MBody b) => ranked_below rank (rank n) b | _ => true end) T.
Definition rank_of (l : list (name * nat)) (n : name) : nat := get n l.
