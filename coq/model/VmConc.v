(* VmConc: one evaluation, its context, its halt flag, its watcher goroutine, and every script thread it starts.
   Definitions only (proofs in proofs/VmConcProofs.v).

   Models, for C06: the halt poll at the head of eval's loop (vm/vm.go), start()'s watcher goroutine,
   Clone() / cloneCallAsync (go, spawn, f.spawn run callFunction on a clone), callFunction's unwinding,
   the callback-carrying builtins (object/list.go each/map/filter, builtins sorted/call/try), and the blocking
   primitives that select on ctx.Done() (object/chan.go Send/Receive/Next, object/thread.go Wait,
   modules/time Sleep).

   A thread is a control stack; one step of a thread is one iteration of eval's loop (poll, then one
   instruction), one dispatch of a callback by a builtin's Go loop, one frame of error unwinding, or waking
   from a select.  Global actions: cancel the context, let the watcher goroutine run, step a thread.
   A [ccfg] says which variant of the code is modelled: [k_current] is the code as it is; each other
   configuration is the code without one repair (clones with a flag of their own that nobody sets; builtins that
   rebuild the callback's error from its text; try() recovering from a cancellation; range/sleep waking silently). *)
From Coq Require Import List Bool Arith Lia.
Import ListNotations.

Record ccfg := mkK {
  shares : bool;        (* Clone() copies the pointer to the run's halt flag (b731f6b) *)
  keeps_err : bool;     (* each/map/filter/sorted/call hand on the callback's error (644b857); thread.wait wraps
                           ctx.Err() with %w (dafa602); else the error is rebuilt from its text *)
  try_fatal : bool;     (* try() does not recover once the context is done (ee030a3) *)
  wake_reports : bool   (* a range over a channel / time.sleep ended by a done context returns ctx.Err() (b9a89d8) *)
}.
Definition k_current    := mkK true  true  true  true.
Definition k_noclone    := mkK false true  true  true.
Definition k_textual    := mkK true  false true  true.
Definition k_tryrecovers := mkK true true  false true.
Definition k_wakesilent := mkK true  true  true  false.

Inductive blk := BRecv | BSend | BRecvM | BNext | BSleep | BWait.
Inductive cbk := CbEach | CbMap | CbFilter | CbSorted | CbCall | CbTry.

Inductive shape :=
| Skip
| Tick                                           (* tick(): a host builtin that counts script activity *)
| Mark                                           (* mark(): tells the harness the program got here *)
| Block (b : blk)                                (* blocks for ever unless the context is done *)
| Seq (a b : shape)
| Forever (body : shape)                         (* for { body } *)
| Callback (c : cbk) (n : nat) (body : shape)    (* the builtin calls a script function with this body n times *)
| Spawn (body : shape)                           (* go f() / spawn(f) / f.spawn() : body runs on a clone *)
| Deep (d : nat) (body : shape).                 (* body runs d script calls deep *)

(* errors a thread can be unwinding with *)
Inductive ecls :=
| ECtx          (* ctx.Err() itself: errors.Is(err, ctx.Err()) holds *)
| ECtxText      (* a new error with the same text (Errorf(err.Error())): identity lost *)
| EWait         (* "wait error: context canceled" *)
| ENilHalt.     (* halt observed although the context is not cancelled: ctx.Err() == nil (pre-repair only) *)

Inductive frame :=
| FSeq (rest : shape)
| FLoop (body : shape)
| FCall                                          (* a script function frame (callFunction) *)
| FCb (c : cbk) (rem : nat) (body : shape) (err : option ecls).   (* inside builtin c: rem more callbacks; sorted keeps the last error *)

Inductive mode := Normal | Unwind (e : ecls).
Inductive tres := TOk | TErr (e : ecls).

Record thread := mkT {
  tshare : bool;                 (* polls the run's halt flag (false: a flag nobody ever sets) *)
  tcur : option shape;           (* what to evaluate next; None: the current piece is finished *)
  tstack : list frame;
  tmode : mode;
  tdone : option tres;
  tparked : bool                 (* inside a blocking builtin's select: no poll until it wakes *)
}.

Record cstate := mkC {
  cancelled : bool;              (* the evaluation's context *)
  flag : bool;                   (* the run's halt flag *)
  marked : bool;                 (* mark() was called *)
  ticks : nat;
  threads : list thread          (* thread 0 is the evaluation itself (risor.Eval's goroutine) *)
}.

(* what a callback-carrying builtin makes of the callback's error *)
Definition stringify (k : ccfg) (e : ecls) : ecls :=
  if keeps_err k then e else match e with ECtx => ECtxText | other => other end.

Definition polled (c : cstate) (t : thread) : bool := tshare t && flag c.
Definition halt_err (c : cstate) : ecls := if cancelled c then ECtx else ENilHalt.

(* a thread can take a step unless it is finished or parked in a select with the context not done *)
Definition blocked_now (c : cstate) (t : thread) : bool :=
  match tdone t, tmode t, tcur t with
  | None, Normal, Some (Block _) => tparked t && negb (cancelled c)
  | _, _, _ => false
  end.
Definition enabled (c : cstate) (t : thread) : bool :=
  match tdone t with Some _ => false | None => negb (blocked_now c t) end.

(* does the builtin go on to the next callback after one returned normally? try and call return at once *)
Definition continues (c : cbk) : bool :=
  match c with CbTry | CbCall => false | _ => true end.

Record outcome := mkO { o_thread : thread; o_spawn : option thread; o_tick : bool; o_mark : bool }.
Definition upd (t : thread) := mkO t None false false.

Definition set_cur t s := mkT (tshare t) (Some s) (tstack t) Normal None false.
Definition fin_piece t := mkT (tshare t) None (tstack t) Normal None false.
Definition push t f s := mkT (tshare t) (Some s) (f :: tstack t) Normal None false.
Definition unwind t e := mkT (tshare t) None (tstack t) (Unwind e) None false.
Definition pop_to t st m cur := mkT (tshare t) cur st m None false.
Definition finish t r := mkT (tshare t) None [] (tmode t) (Some r) false.
Definition park t := mkT (tshare t) (tcur t) (tstack t) Normal None true.
(* what the select of a blocking primitive returns when the context is done *)
Definition wake (k : ccfg) t (b : blk) :=
  match b with
  | BRecv | BSend | BRecvM => unwind t ECtx     (* return ctx.Err() *)
  | BWait => unwind t (if keeps_err k then ECtx else EWait)     (* "wait error: %w" wraps ctx.Err() / %s did not *)
  | BNext | BSleep => if wake_reports k then unwind t ECtx      (* ForIter / Sleep return ctx.Err() *)
                      else fin_piece t                          (* the loop ended / sleep returned nil *)
  end.

(* one step of a thread that is enabled *)
Definition step_thread (k : ccfg) (c : cstate) (t : thread) : outcome :=
  match tdone t with
  | Some _ => upd t
  | None =>
    match tmode t with
    | Unwind e =>
        match tstack t with
        | [] => upd (finish t (TErr e))
        | FSeq _ :: r | FLoop _ :: r | FCall :: r => upd (pop_to t r (Unwind e) None)
        | FCb cb rem body _ :: r =>
            match cb with
            | CbTry =>
                if try_fatal k && cancelled c then
                  (* the evaluation's context is done: try returns ctx.Err() *)
                  upd (pop_to t r (Unwind ECtx) None)
                else
                (* try: the error is kept aside; the next function is tried, or nil is returned *)
                match rem with
                | 0 => upd (pop_to t r Normal None)
                | S n => upd (pop_to t (FCb CbTry n body None :: r) Normal (Some body))
                end
            | CbSorted =>
                (* sort.SliceStable keeps calling the comparator; the last error is reported at the end *)
                match rem with
                | 0 => upd (pop_to t r (Unwind (stringify k e)) None)
                | S n => upd (pop_to t (FCb CbSorted n body (Some e) :: r) Normal (Some body))
                end
            | _ => upd (pop_to t r (Unwind (stringify k e)) None)     (* NewError(err) / Errorf(err.Error()) *)
            end
        end
    | Normal =>
        match tcur t with
        | Some s =>
            match s, tparked t with
            | Block b, true =>
                (* parked in a select: it wakes when the context is done *)
                if cancelled c then upd (wake k t b) else upd t
            | _, _ =>
            (* an instruction: the halt flag is polled first *)
            if polled c t then upd (unwind t (halt_err c))
            else
            match s with
            | Skip => upd (fin_piece t)
            | Tick => mkO (fin_piece t) None true false
            | Mark => mkO (fin_piece t) None false true
            | Block b => if cancelled c then upd (wake k t b) else upd (park t)
            | Seq a b => upd (push t (FSeq b) a)
            | Forever body => upd (push t (FLoop body) body)
            | Callback cb n body =>
                match n with
                | 0 => upd (fin_piece t)
                | S m => upd (push t (FCb cb m body None) body)
                end
            | Spawn body =>
                mkO (fin_piece t)
                    (Some (mkT (if shares k then tshare t else false) (Some body) [FCall] Normal None false))
                    false false
            | Deep d body =>
                match d with
                | 0 => upd (set_cur t body)
                | S m => upd (push t FCall (Deep m body))
                end
            end
            end
        | None =>
            match tstack t with
            | [] => upd (finish t TOk)                                 (* end of the code: no instruction, no poll *)
            | FCb cb rem body err :: r =>
                (* back in the builtin's Go loop: no poll here *)
                if continues cb then
                  match rem with
                  | 0 => match err with
                         | Some e => upd (pop_to t r (Unwind (stringify k e)) None)
                         | None => upd (pop_to t r Normal None)
                         end
                  | S m => upd (pop_to t (FCb cb m body err :: r) Normal (Some body))
                  end
                else upd (pop_to t r Normal None)
            | f :: r =>
                (* PopTop / JumpBackward / ReturnValue: an instruction, polled *)
                if polled c t then upd (unwind t (halt_err c))
                else
                match f with
                | FSeq rest => upd (pop_to t r Normal (Some rest))
                | FLoop body => upd (pop_to t (FLoop body :: r) Normal (Some body))
                | _ => upd (pop_to t r Normal None)
                end
            end
        end
    end
  end.

Inductive action := ACancel | AFire | AStep (i : nat).

Fixpoint set_nth {A} (n : nat) (x : A) (l : list A) : list A :=
  match l, n with
  | [], _ => []
  | _ :: r, 0 => x :: r
  | y :: r, S k => y :: set_nth k x r
  end.

Definition act (k : ccfg) (a : action) (c : cstate) : cstate :=
  match a with
  | ACancel => mkC true (flag c) (marked c) (ticks c) (threads c)
  | AFire => if cancelled c then mkC true true (marked c) (ticks c) (threads c) else c   (* <-doneChan; store 1 *)
  | AStep i =>
      match nth_error (threads c) i with
      | None => c
      | Some t =>
          if enabled c t then
            let o := step_thread k c t in
            mkC (cancelled c) (flag c) (marked c || o_mark o)
                (if o_tick o then S (ticks c) else ticks c)
                (set_nth i (o_thread o) (threads c) ++ match o_spawn o with Some n => [n] | None => [] end)
          else c
      end
  end.

Definition init (s : shape) : cstate :=
  mkC false false false 0 [mkT true (Some s) [] Normal None false].

Fixpoint run (k : ccfg) (sched : list action) (c : cstate) : cstate :=
  match sched with [] => c | a :: r => run k r (act k a c) end.

Definition all_done (c : cstate) : bool := forallb (fun t => match tdone t with Some _ => true | None => false end) (threads c).
Definition main_result (c : cstate) : option tres :=
  match threads c with t :: _ => tdone t | [] => None end.

(* ------------------------------------------------------------------ the measure of the bounded response *)
Definition frame_weight (f : frame) : nat :=
  match f with FCb _ rem _ _ => 3 * S rem | _ => 3 end.
Fixpoint stack_weight (st : list frame) : nat :=
  match st with [] => 1 | f :: r => frame_weight f + stack_weight r end.
(* an upper bound on the number of its own steps a thread takes once the flag it polls is set *)
Definition steps_left (t : thread) : nat :=
  match tdone t with
  | Some _ => 0
  | None =>
      match tmode t, tcur t with
      | Unwind _, _ => stack_weight (tstack t)
      | Normal, Some (Block _) => (if tparked t then 3 else 1) + stack_weight (tstack t)
      | Normal, Some _ => 1 + stack_weight (tstack t)
      | Normal, None => 2 + stack_weight (tstack t)
      end
  end.

(* ------------------------------------------------------------------ exploring all schedules of a concrete program *)
Scheme Equality for blk.
Scheme Equality for cbk.
Scheme Equality for ecls.
Fixpoint shape_eqb (a b : shape) : bool :=
  match a, b with
  | Skip, Skip | Tick, Tick | Mark, Mark => true
  | Block x, Block y => blk_beq x y
  | Seq a1 a2, Seq b1 b2 => shape_eqb a1 b1 && shape_eqb a2 b2
  | Forever x, Forever y => shape_eqb x y
  | Callback c n x, Callback d m y => cbk_beq c d && Nat.eqb n m && shape_eqb x y
  | Spawn x, Spawn y => shape_eqb x y
  | Deep n x, Deep m y => Nat.eqb n m && shape_eqb x y
  | _, _ => false
  end.
Definition opt_eqb {A} (f : A -> A -> bool) (x y : option A) : bool :=
  match x, y with Some a, Some b => f a b | None, None => true | _, _ => false end.
Definition frame_eqb (a b : frame) : bool :=
  match a, b with
  | FSeq x, FSeq y => shape_eqb x y
  | FLoop x, FLoop y => shape_eqb x y
  | FCall, FCall => true
  | FCb c n x e, FCb d m y f => cbk_beq c d && Nat.eqb n m && shape_eqb x y && opt_eqb ecls_beq e f
  | _, _ => false
  end.
Fixpoint list_eqb {A} (f : A -> A -> bool) (x y : list A) : bool :=
  match x, y with
  | [], [] => true
  | a :: r, b :: s => f a b && list_eqb f r s
  | _, _ => false
  end.
Definition mode_eqb (a b : mode) : bool :=
  match a, b with Normal, Normal => true | Unwind e, Unwind f => ecls_beq e f | _, _ => false end.
Definition tres_eqb (a b : tres) : bool :=
  match a, b with TOk, TOk => true | TErr e, TErr f => ecls_beq e f | _, _ => false end.
Definition thread_eqb (a b : thread) : bool :=
  Bool.eqb (tshare a) (tshare b) && opt_eqb shape_eqb (tcur a) (tcur b) && list_eqb frame_eqb (tstack a) (tstack b)
  && mode_eqb (tmode a) (tmode b) && opt_eqb tres_eqb (tdone a) (tdone b) && Bool.eqb (tparked a) (tparked b).
(* states are compared without the tick counter *)
Definition cstate_eqb (a b : cstate) : bool :=
  Bool.eqb (cancelled a) (cancelled b) && Bool.eqb (flag a) (flag b) && Bool.eqb (marked a) (marked b)
  && list_eqb thread_eqb (threads a) (threads b).

(* when may the harness cancel: from the start, or only once mark() was called *)
Inductive instant := IEarly | IMarked | IMainParked.
Definition main_parked (c : cstate) : bool :=
  match threads c with t :: _ => tparked t | [] => false end.

Definition actions (inst : instant) (c : cstate) : list action :=
  (if negb (cancelled c) && (match inst with IEarly => true | IMarked => marked c | IMainParked => marked c && main_parked c end) then [ACancel] else [])
  ++ (if cancelled c && negb (flag c) then [AFire] else [])
  ++ map AStep (filter (fun i => match nth_error (threads c) i with Some t => enabled c t | None => false end)
                       (seq 0 (length (threads c)))).

Definition norm (c : cstate) : cstate := mkC (cancelled c) (flag c) (marked c) 0 (threads c).
Definition seen (c : cstate) (l : list cstate) : bool := existsb (cstate_eqb c) l.

(* breadth-first closure of the reachable states (tick counter dropped); the thread count is capped so that a
   program that spawns in a loop still has a finite abstraction *)
Fixpoint explore (k : ccfg) (inst : instant) (maxthreads fuel : nat) (frontier visited : list cstate) : list cstate * bool :=
  match fuel with
  | 0 => (visited, false)
  | S fuel' =>
      match frontier with
      | [] => (visited, true)
      | c :: rest =>
          let succs := map (fun a => norm (act k a c)) (actions inst c) in
          let fresh := fold_left (fun acc s =>
                                    if seen s acc || seen s visited || (maxthreads <? length (threads s)) then acc else acc ++ [s])
                                 succs [] in
          explore k inst maxthreads fuel' (rest ++ fresh) (visited ++ fresh)
      end
  end.

Record verdict := mkV {
  v_complete : bool;            (* the exploration reached its fixed point *)
  v_states : nat;
  v_results : list tres;        (* results the evaluation can return with, in runs where the context was cancelled *)
  v_uncancelled_results : list tres;
  v_stuck : bool;               (* some reachable state after the watcher's step has a live thread that does not poll the run's flag *)
  v_live_after_flag : nat       (* the largest steps_left of a thread over the states after the watcher's step *)
}.

Definition add_res (r : tres) (l : list tres) : list tres := if existsb (tres_eqb r) l then l else l ++ [r].

Definition analyse (k : ccfg) (inst : instant) (s : shape) : verdict :=
  let c0 := init s in
  let '(states, complete) := explore k inst 6 20000 [c0] [c0] in
  let results := fold_left (fun acc c => match main_result c with
                                         | Some r => if cancelled c then add_res r acc else acc
                                         | None => acc end) states [] in
  let ures := fold_left (fun acc c => match main_result c with
                                      | Some r => if cancelled c then acc else add_res r acc
                                      | None => acc end) states [] in
  let stuck := existsb (fun c => flag c && existsb (fun t => match tdone t with
                                                             | None => negb (tshare t)
                                                             | Some _ => false end) (threads c)) states in
  let live := fold_left (fun acc c => if flag c then fold_left (fun a t => Nat.max a (steps_left t)) (threads c) acc else acc)
                        states 0 in
  mkV complete (length states) results ures stuck live.
