(* VmRun: runs of a (reused) virtual machine, their contexts, halt flags and watcher goroutines.
   Definitions only (the proofs are in proofs/VmRunProofs.v).

   Models vm/vm.go: start, stop, Run, RunCode, runCodeInternal, resetForNewCode, Call, callFunction,
   callObject, resumeFrame, activateFunction, push, pop and the halt poll at the head of eval's loop.

   * The environment [env] holds what lives outside any one VM: which contexts are cancelled, the halt
     cells ever allocated (a cell is the int32 a watcher goroutine stores 1 into), and the watcher
     goroutines (context, cell) armed by every start() so far, fired or not.
   * A [config] says which variant of the code is modelled, so that the same definitions carry the
     theorems about the code as it is ([cfg_current]) and the regression witnesses about the code
     before each repair ([cfg_pinned] = one halt field per VM written by every watcher, and so on).
   * Programs are expression trees; evaluating one pushes exactly one value on the VM's operand stack
     (the stack discipline of compiled code), so the stack is represented by its height H = sp + 1.
     Function calls are Go-level recursion through callFunction with its deferred resumeFrame, as in the
     source; a Go panic unwinds through those deferred calls.
     Since fb6ebf3 callFunction's error path also drops what the failed callee left above its base; that height
     is never looked at again (nothing in a run resumes after an error, and start() empties the stack), so the
     model keeps the older bookkeeping (base + 1) there.
   * The environment acts (cancel a context, let a watcher goroutine run) only while the VM is inside a
     host builtin [Gate] or between two iterations of [Spin] (for { }), and between invocations. *)
From Coq Require Import List Bool Arith ZArith Lia.
Import ListNotations.

(* ------------------------------------------------------------------ configuration *)
Record config := mkCfg {
  per_run_flag : bool;  (* start() allocates a fresh halt cell for the run (b00ed5e); else one cell per VM *)
  clone_shares : bool;  (* Clone() copies the pointer to the run's cell (b731f6b); else the clone has its own *)
  reset_clears : bool;  (* resetForNewCode stores 0 into the VM's halt cell (before b00ed5e) *)
  push_guard   : bool;  (* push stores before it increments sp (7c03eb9) *)
  start_drops  : bool;  (* start() drops what earlier invocations left on the operand stack (c13bc4b) *)
  run_keeps_ip : bool;  (* Run() resumes the main code at a position of its own, vm.mainIP (02032cf); else at vm.ip *)
  reset_keeps_mods : bool (* resetForNewCode re-populates vm.modules from the module globals (0029df9) *)
}.
(* the code with the halt-flag, push, Run-position and module-table repairs; d = start() empties the stack *)
Definition cfgd (d : bool) := mkCfg true true false true d true true.
Definition cfg_current  := cfgd true.
Definition cfg_nodrop   := cfgd false.                                        (* without c13bc4b *)
Definition cfg_pinned   := mkCfg false false true  false false false false.   (* the pinned tree *)
Definition cfg_nopush   := mkCfg true  true  false false false true  true.    (* without 7c03eb9 (and c13bc4b) *)
Definition cfg_noclone  := mkCfg true  false false true  true  true  true.    (* without b731f6b *)
Definition cfg_norunip  := mkCfg true  true  false true  true  false true.    (* without 02032cf *)
Definition cfg_nomods   := mkCfg true  true  false true  true  true  false.   (* without 0029df9 *)

Definition MaxStack := 1024.
Definition MaxFrames := 1024.

(* ------------------------------------------------------------------ environment *)
Definition mem (n : nat) (l : list nat) : bool := existsb (Nat.eqb n) l.
Definition remove_nat (n : nat) (l : list nat) : list nat := filter (fun m => negb (Nat.eqb n m)) l.

Record env := mkEnv {
  cancelled : list nat;          (* contexts whose Done channel is closed *)
  ncells    : nat;               (* halt cells allocated so far: ids 0 .. ncells-1 *)
  setcells  : list nat;          (* cells holding 1 *)
  watchers  : list (nat * nat);  (* (context, cell) per start(), in order *)
  fired     : list nat           (* indices of watchers that have run *)
}.
Definition env0 := mkEnv [] 0 [] [] [].

Inductive ev :=
| Cancel (c : nat)      (* cancel(ctx_c) *)
| Fire (w : nat)        (* the watcher goroutine armed by the w-th start() gets to run *)
| Reenter.              (* another goroutine calls Run/RunCode/Call on the VM while it is running: start() refuses
                           ("vm is already running") and touches nothing *)

Definition is_cancelled (e : env) (c : nat) := mem c (cancelled e).
Definition cell_set (e : env) (k : nat) := mem k (setcells e).

Definition do_cancel (c : nat) (e : env) : env :=
  mkEnv (c :: cancelled e) (ncells e) (setcells e) (watchers e) (fired e).
(* the watcher goroutine: <-doneChan; atomic.StoreInt32(halt, 1).  It can run only once its context is
   cancelled, and it runs once. *)
Definition do_fire (w : nat) (e : env) : env :=
  match nth_error (watchers e) w with
  | Some (c, k) =>
      if is_cancelled e c && negb (mem w (fired e))
      then mkEnv (cancelled e) (ncells e) (k :: setcells e) (watchers e) (w :: fired e)
      else e
  | None => e
  end.
Definition do_ev (x : ev) (e : env) : env :=
  match x with Cancel c => do_cancel c e | Fire w => do_fire w e | Reenter => e end.
Definition do_evs (xs : list ev) (e : env) : env := fold_left (fun e x => do_ev x e) xs e.

Definition alloc_cell (e : env) : nat * env :=
  (ncells e, mkEnv (cancelled e) (S (ncells e)) (setcells e) (watchers e) (fired e)).
Definition clear_cell (k : nat) (e : env) : env :=
  mkEnv (cancelled e) (ncells e) (remove_nat k (setcells e)) (watchers e) (fired e).
Definition arm (c k : nat) (e : env) : env :=
  mkEnv (cancelled e) (ncells e) (setcells e) (watchers e ++ [(c, k)]) (fired e).

(* ------------------------------------------------------------------ the VM *)
Record vm := mkVm {
  halt : option nat;     (* vm.halt: nil, or the cell polled by eval *)
  running : bool;
  startCount : nat;
  H : nat;               (* sp + 1 *)
  FP : nat;
  ipok : bool;           (* vm.ip is where Run() has to resume the main code (matters only before 02032cf: Run
                            started at vm.ip, and RunCode left the instruction pointer of its own code there) *)
  mods : bool            (* vm.modules holds the modules that were given as globals (import statements find them) *)
}.

Definition new_vm (cfg : config) (e : env) : vm * env :=
  if per_run_flag cfg then (mkVm None false 0 0 0 true true, e)
  else let (k, e') := alloc_cell e in (mkVm (Some k) false 0 0 0 true true, e').

(* start(): refuse when running; count; empty the operand stack; give the run its flag; arm the watcher *)
Definition start (cfg : config) (c : nat) (v : vm) (e : env) : option (vm * env) :=
  if running v then None
  else
    let '(k, e1) :=
      if per_run_flag cfg then alloc_cell e
      else match halt v with
           | Some k => (k, clear_cell k e)
           | None => alloc_cell e
           end in
    Some (mkVm (Some k) true (S (startCount v)) (if start_drops cfg then 0 else H v) (FP v) (ipok v) (mods v), arm c k e1).

(* ------------------------------------------------------------------ programs *)
Inductive expr :=
| Lit (z : Z)                    (* a constant *)
| GetG                           (* read the host global G.n *)
| AddG (z : Z)                   (* G.n = G.n + z ; value z *)
| Bin (a b : expr)               (* a + b *)
| Seq (a b : expr)               (* a ; b *)
| ListN (n : nat) (last : expr)  (* [0, 0, ... (n times), last] : n + 1 operands pending while last runs *)
| CallE (body : expr)            (* func() { return body }() *)
| Raise                          (* a runtime error, e.g. [1][5] *)
| HostPanic                      (* a host builtin that panics *)
| Gate                           (* a host builtin during which the environment acts *)
| Spin.                          (* for { } *)

Inductive ecls := ERuntime | EHost | EStack | EFrames | ECtx | EImport (* "imports are disabled" *).
Inductive res :=
| RV (z : Z)          (* one value pushed *)
| RE (e : ecls)       (* eval returned an error *)
| RP (e : ecls)       (* a Go panic is unwinding *)
| RHaltNil            (* halt observed while the run's own context is not cancelled: eval returns ctx.Err() = nil *)
| RDiverge.           (* never returns *)

Record st := mkSt {
  sG : Z;                     (* the host global *)
  sE : env;
  sH : nat;
  sFP : nat;
  sGates : list (list ev)     (* what the environment does at the successive gates / spin iterations *)
}.
Definition setH (s : st) (h : nat) := mkSt (sG s) (sE s) h (sFP s) (sGates s).
Definition setHF (s : st) (h f : nat) := mkSt (sG s) (sE s) h f (sGates s).
Definition setG (s : st) (g : Z) := mkSt g (sE s) (sH s) (sFP s) (sGates s).

(* the head of eval's loop:  if vm.halt != nil && atomic.LoadInt32(vm.halt) == 1 { return ctx.Err() } *)
Definition polled (hc : option nat) (s : st) : bool :=
  match hc with Some k => cell_set (sE s) k | None => false end.
Definition halt_res (cx : nat) (s : st) : res :=
  if is_cancelled (sE s) cx then RE ECtx else RHaltNil.

(* push: with the guard the store panics before sp moves *)
Definition push_val (cfg : config) (z : Z) (s : st) : res * st :=
  if sH s <? MaxStack then (RV z, setH s (S (sH s)))
  else (RP EStack, if push_guard cfg then s else setH s (S (sH s))).
(* pop: vm.stack[vm.sp] panics when sp is outside the array *)
Definition pop1 (s : st) : option st :=
  if (sH s =? 0) || (MaxStack <? sH s) then None else Some (setH s (pred (sH s))).

(* resumeFrame(fp, ip, sp) as run by callFunction's defer: returns true when it panics itself *)
Definition resume (bh bf : nat) (s : st) : bool * st :=
  if bh <? sH s then
    if MaxStack <? sH s then (true, s)
    else (false, setHF s (S bh) bf)
  else (false, setHF s bh bf).

Definition take_gate (s : st) : st :=
  match sGates s with
  | [] => s
  | xs :: r => mkSt (sG s) (do_evs xs (sE s)) (sH s) (sFP s) r
  end.

(* for { }: poll, let the environment act, again *)
Fixpoint spin (hc : option nat) (cx : nat) (gs : list (list ev)) (s : st) : res * st :=
  if polled hc s then (halt_res cx s, mkSt (sG s) (sE s) (sH s) (sFP s) gs)
  else match gs with
       | [] => (RDiverge, mkSt (sG s) (sE s) (sH s) (sFP s) [])
       | xs :: r => spin hc cx r (mkSt (sG s) (do_evs xs (sE s)) (sH s) (sFP s) r)
       end.

Section Eval.
  Variable cfg : config.
  Variable hc : option nat.   (* the cell this VM polls during the run *)
  Variable cx : nat.          (* the run's context *)

  Definition poll_then (s : st) (k : st -> res * st) : res * st :=
    if polled hc s then (halt_res cx s, s) else k s.

  (* callFunction after the frame is chosen; [ev_body] evaluates the callee's code.  On success the
     result is popped and returned (the caller pushes it); the deferred resumeFrame runs on every path. *)
  Definition call_fn (ev_body : st -> res * st) (s : st) : res * st :=
    let bh := sH s in
    let bf := sFP s in
    if MaxFrames <=? S bf then
      (* activateFunction: vm.fp = fp; &vm.frames[fp] panics; the deferred resumeFrame restores *)
      let '(p, s') := resume bh bf (setHF s bh (S bf)) in (RP (if p then EStack else EFrames), s')
    else
      let '(r, s1) := ev_body (setHF s bh (S bf)) in
      match r with
      | RV z =>
          (* op.ReturnValue: poll, resumeFrame, StopSignal; callFunction pops the result *)
          if polled hc s1 then
            let '(p, s2) := resume bh bf s1 in
            (if p then RP EStack else halt_res cx s1, s2)
          else
            (RV z, setHF s1 bh bf)
      | RE x => let '(p, s2) := resume bh bf s1 in (if p then RP EStack else RE x, s2)
      | RP x => let '(p, s2) := resume bh bf s1 in (RP (if p then EStack else x), s2)
      | RHaltNil => let '(p, s2) := resume bh bf s1 in (if p then RP EStack else RHaltNil, s2)
      | RDiverge => (RDiverge, s1)
      end.

  Fixpoint eval (e : expr) (s : st) : res * st :=
    match e with
    | Lit z => poll_then s (push_val cfg z)
    | GetG => poll_then s (fun s => push_val cfg (sG s) s)
    | AddG z => poll_then s (fun s => push_val cfg z (setG s (sG s + z)%Z))
    | Bin a b =>
        match eval a s with
        | (RV x, s1) =>
            match eval b s1 with
            | (RV y, s2) =>
                poll_then s2 (fun s2 =>
                  match pop1 s2 with
                  | Some s3 => match pop1 s3 with
                               | Some s4 => push_val cfg (x + y)%Z s4
                               | None => (RP EStack, s3)
                               end
                  | None => (RP EStack, s2)
                  end)
            | other => other
            end
        | other => other
        end
    | Seq a b =>
        match eval a s with
        | (RV _, s1) =>
            poll_then s1 (fun s1 =>
              match pop1 s1 with
              | Some s2 => eval b s2
              | None => (RP EStack, s1)
              end)
        | other => other
        end
    | ListN n last =>
        poll_then s (fun s =>
          if sH s + n <=? MaxStack then
            match eval last (setH s (sH s + n)) with
            | (RV y, s1) =>
                poll_then s1 (fun s1 => push_val cfg y (setH s1 (sH s1 - S n)))
            | other => other
            end
          else (RP EStack, setH s (if push_guard cfg then MaxStack else S MaxStack)))
    | CallE body =>
        poll_then s (fun s =>
          match call_fn (eval body) s with
          | (RV z, s1) => push_val cfg z s1      (* callObject pushes the result *)
          | other => other
          end)
    | Raise => poll_then s (fun s => (RE ERuntime, s))
    | HostPanic => poll_then s (fun s => (RP EHost, s))
    | Gate => poll_then s (fun s => push_val cfg 0%Z (take_gate s))
    | Spin => spin hc cx (sGates s) s
    end.
End Eval.

(* ------------------------------------------------------------------ the public entry points *)
Inductive api := ARunCode | ARun | ACall.

Record inv := mkInv {
  iapi : api;
  ibody : expr;
  ictx : nat;
  igates : list (list ev);
  iimport : bool        (* the program begins with `import m`, m a module that was given as a global *)
}.

Inductive outcome :=
| OVal (z : option Z)     (* nil error; the value handed back (TOS, or the call's result) *)
| OErr (e : ecls)         (* an error; EHost/EStack/EFrames are "panic: ..." errors from recover() *)
| OStale                  (* nil error although the run was cut short: eval returned ctx.Err() == nil *)
| OWild                   (* only before 02032cf: Run() started the main code at an instruction pointer left by a
                             RunCode: it may execute nothing and return nil, start mid-instruction, or panic *)
| OBusy                   (* "vm is already running" *)
| ODiverge.               (* the call never returns *)

Definition outcome_of (r : res) : outcome :=
  match r with
  | RV z => OVal (Some z)
  | RE x => OErr x
  | RP x => OErr x
  | RHaltNil => OStale
  | RDiverge => ODiverge
  end.

Definition is_err (o : outcome) : bool := match o with OErr _ => true | _ => false end.

(* resetForNewCode (the part that matters here) *)
Definition reset_vm (cfg : config) (v : vm) (e : env) : vm * env :=
  (mkVm (halt v) (running v) (startCount v) 0 0 (ipok v) (reset_keeps_mods cfg),
   if reset_clears cfg then match halt v with Some k => clear_cell k e | None => e end else e).

Definition run_inv (cfg : config) (e : env) (g : Z) (v : vm) (i : inv) : outcome * env * Z * vm :=
  match start cfg (ictx i) v e with
  | None => (OBusy, e, g, v)
  | Some (v1, e1) =>
      match iapi i, ipok v1 || run_keeps_ip cfg with
      | ARun, false =>
          (* activateCode(0, vm.ip, main) with a foreign vm.ip *)
          (OWild, e1, g, mkVm (halt v1) false (startCount v1) 0 0 false (mods v1))
      | _, _ =>
      let '(v2, e2) :=
        match iapi i with
        | ARunCode => if 1 <? startCount v1 then reset_vm cfg v1 e1 else (v1, e1)
        | _ => (v1, e1)
        end in
      (* Run: the REPL's protocol (SetIP to the end of the main code after an error) keeps vm.ip usable;
         Call: the deferred resumeFrame restores vm.ip; RunCode: vm.ip is left inside its own code *)
      let ok := match iapi i with ARunCode => false | _ => ipok v2 end in
      let f0 := match iapi i with ACall => FP v2 | _ => 0 end in   (* activateCode(0, ...) *)
      if iimport i && negb (mods v2) then
        (* op.Import: the module is not in vm.modules and there is no importer: "imports are disabled" *)
        (OErr EImport, e2, g, mkVm (halt v2) false (startCount v2) (H v2) f0 ok (mods v2))
      else
      let s0 := mkSt g e2 (H v2) f0 (igates i) in
      let '(r, s1) :=
        match iapi i with
        | ACall => call_fn (halt v2) (ictx i) (eval cfg (halt v2) (ictx i) (ibody i)) s0
        | _ => eval cfg (halt v2) (ictx i) (ibody i) s0
        end in
      let o := outcome_of r in
      match r with
      | RDiverge => (o, sE s1, sG s1, mkVm (halt v2) true (startCount v2) (sH s1) (sFP s1) ok (mods v2))
      | _ => (o, sE s1, sG s1, mkVm (halt v2) false (startCount v2) (sH s1) (sFP s1) ok (mods v2))   (* deferred stop() *)
      end
      end
  end.

(* ------------------------------------------------------------------ histories on one VM *)
Inductive item := IEnv (x : ev) | IInv (i : inv).

(* the state before each invocation, the invocation, and its outcome *)
Record obs := mkObs { o_env : env; o_g : Z; o_vm : vm; o_inv : inv; o_out : outcome }.

Fixpoint exec (cfg : config) (e : env) (g : Z) (v : vm) (h : list item) : list obs :=
  match h with
  | [] => []
  | IEnv x :: r => exec cfg (do_ev x e) g v r
  | IInv i :: r =>
      let '(o, e', g', v') := run_inv cfg e g v i in
      mkObs e g v i o ::
        match o with
        | ODiverge => []          (* the call never returns: the host issues nothing after it *)
        | _ => exec cfg e' g' v' r
        end
  end.

(* outcomes and the global after each invocation (what the correspondence compares) *)
Fixpoint exec_out (cfg : config) (e : env) (g : Z) (v : vm) (h : list item) : list (outcome * Z) :=
  match h with
  | [] => []
  | IEnv x :: r => exec_out cfg (do_ev x e) g v r
  | IInv i :: r =>
      let '(o, e', g', v') := run_inv cfg e g v i in
      (o, g') :: match o with ODiverge => [] | _ => exec_out cfg e' g' v' r end
  end.

(* the same invocation on a VM that was just created, same globals, same surroundings *)
Definition fresh_outcome (cfg : config) (b : obs) : outcome :=
  let '(v0, e0) := new_vm cfg (o_env b) in
  let '(o, _, _, _) := run_inv cfg e0 (o_g b) v0 (o_inv b) in o.

(* a history on a new VM in an empty environment *)
Definition exec0 (cfg : config) (g : Z) (h : list item) : list obs :=
  let '(v0, e0) := new_vm cfg env0 in exec cfg e0 g v0 h.

Definition exec0_out (cfg : config) (g : Z) (h : list item) : list (outcome * Z) :=
  let '(v0, e0) := new_vm cfg env0 in exec_out cfg e0 g v0 h.

(* a static bound on how far evaluating e can raise the stack above where it starts *)
Fixpoint hmax (e : expr) : nat :=
  match e with
  | Lit _ | GetG | AddG _ | Raise | HostPanic | Gate | Spin => 1
  | Bin a b => Nat.max (hmax a) (S (hmax b))
  | Seq a b => Nat.max (hmax a) (hmax b)
  | ListN n last => n + Nat.max 1 (hmax last)
  | CallE body => Nat.max 1 (hmax body)
  end.

(* programs used by the generator and the witnesses *)
Fixpoint deep (n : nat) : expr := match n with 0 => Lit 0 | S m => CallE (deep m) end.
(* func fact(n) { if n <= 1 { return 1 }; return n * fact(n-1) } : the test, the callee and its argument need four slots above the
   pending operands of the callers, so the operand stack is exhausted before the frame array is *)
Fixpoint fact (n : nat) : expr :=
  match n with 0 => Lit 1 | S m => CallE (Seq (Bin (Lit 1) (Bin (Lit 1) (Bin (Lit 1) (Lit 1)))) (Bin (Lit 2) (fact m))) end.
Fixpoint at_depth (d : nat) (e : expr) : expr := match d with 0 => e | S m => CallE (at_depth m e) end.

Definition differs (cfg : config) (b : obs) : bool :=
  match o_out b, fresh_outcome cfg b with
  | OVal x, OVal y => negb (match x, y with
                            | Some a, Some c => Z.eqb a c
                            | None, None => true
                            | _, _ => false end)
  | OErr x, OErr y => negb (match x, y with
                            | ERuntime, ERuntime | EHost, EHost | EStack, EStack | EFrames, EFrames | ECtx, ECtx | EImport, EImport => true
                            | _, _ => false end)
  | OStale, OStale | OBusy, OBusy | ODiverge, ODiverge | OWild, OWild => false
  | _, _ => true
  end.
