(* The comparator of Set.SortedItems: a chain of field comparisons over object.HashKey.  The chain
   itself (which fields, in which order) is regenerated from the source by harness_xt/cmd/c05gen. *)
From Coq Require Import List Bool String.
Import ListNotations.

Inductive hfield := FType | FFlt | FInt | FStr.

Definition hfield_eqb (a b : hfield) : bool :=
  match a, b with FType, FType | FFlt, FFlt | FInt, FInt | FStr, FStr => true | _, _ => false end.

Definition field_of_name (s : string) : option hfield :=
  if String.eqb s "Type" then Some FType else if String.eqb s "FltValue" then Some FFlt
  else if String.eqb s "IntValue" then Some FInt else if String.eqb s "StrValue" then Some FStr else None.

Definition all_fields : list hfield := [FType; FFlt; FInt; FStr].

Fixpoint fields_of_names (l : list string) : option (list hfield) :=
  match l with
  | [] => Some []
  | s :: r => match field_of_name s, fields_of_names r with Some f, Some fs => Some (f :: fs) | _, _ => None end
  end.

Definition covers (c : list hfield) : bool := forallb (fun f => existsb (hfield_eqb f) c) all_fields.

(* the generated description is usable: the struct has exactly the four modelled fields, the comparator has
   the recognised shape, and its chain mentions every field *)
Definition chain_complete (struct_fields chain : list string) (shape_ok : bool) : bool :=
  shape_ok &&
  match fields_of_names struct_fields, fields_of_names chain with
  | Some sf, Some c => covers sf && Nat.eqb (List.length sf) 4 && covers c
  | _, _ => false
  end.

Section Chain.
  (* D: the values a field can take (type names, int64, strings, floats without NaN), with its order *)
  Variable D : Type.
  Variable deqb dltb : D -> D -> bool.

  Record hkey := HK { hk_type : D; hk_flt : D; hk_int : D; hk_str : D }.

  Definition get (f : hfield) (k : hkey) : D :=
    match f with FType => hk_type k | FFlt => hk_flt k | FInt => hk_int k | FStr => hk_str k end.

  (* less(i, j) of the Go comparator *)
  Fixpoint chain_lt (c : list hfield) (a b : hkey) : bool :=
    match c with
    | [] => false
    | f :: r => if deqb (get f a) (get f b) then chain_lt r a b else dltb (get f a) (get f b)
    end.

  Definition chain_le (c : list hfield) (a b : hkey) : bool := negb (chain_lt c b a).
End Chain.
