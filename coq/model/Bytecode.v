(* Bytecode shapes (stack effect, size and control-flow kind of every opcode of op/op.go as
   vm.eval executes it) and the executable, UNTRUSTED stack-height verifier: one forward pass,
   heights recorded at jump targets, every path checked (not only executed ones).  Its answer is
   validated by [check] (proofs/CheckProofs.v), and only [check] is proved sound. *)
From Coq Require Import List NArith Bool Arith Lia.
Import ListNotations.

Inductive verdict := VOk (maxh : nat) (L : list (nat * nat)) | VFail (pc : nat) (why : nat).
(* why: 1 underflow, 2 inconsistent join, 3 bad backward target, 4 unknown opcode, 5 truncated,
        6 falls off the end of a function, 7 end of main with height <> 1 *)

Record shape := { pops : nat; pushes : nat; size : nat;
                  kind : nat (* 0 fallthrough, 1 jump fwd, 2 jump back, 3 cond fwd, 4 return, 5 foriter *) }.

Definition mk (po pu sz k : nat) : option shape := Some {| pops := po; pushes := pu; size := sz; kind := k |}.

(* stack effect of the instruction at pc, given its operands *)
Definition shape_of (opc a b : nat) : option shape :=
  match opc with
  | 1 => mk 0 0 1 0                              (* Nop *)
  | 2 => mk 0 0 1 4                              (* Halt *)
  | 3 | 130 => mk (S a) 1 2 0                    (* Call n, Partial n *)
  | 4 => mk 1 0 1 4                              (* ReturnValue *)
  | 5 | 6 => mk 1 0 1 0                          (* Defer, Go *)
  | 10 => mk 0 0 2 2                             (* JumpBackward *)
  | 11 => mk 0 0 2 1                             (* JumpForward *)
  | 12 | 13 => mk 1 0 2 3                        (* PopJumpForwardIf* *)
  | 20 => mk 1 1 2 0                             (* LoadAttr *)
  | 21 | 22 | 23 | 24 => mk 0 1 2 0              (* LoadFast/Free/Global/Const *)
  | 30 => mk 2 0 2 0                             (* StoreAttr *)
  | 31 | 32 | 33 => mk 1 0 2 0                   (* StoreFast/Free/Global *)
  | 40 | 41 => mk 2 1 2 0                        (* BinaryOp, CompareOp *)
  | 42 | 43 => mk 1 1 1 0                        (* UnaryNegative, UnaryNot *)
  | 50 | 52 | 53 => mk a 1 2 0                   (* BuildList/Set/String n *)
  | 51 => mk (2 * a) 1 2 0                       (* BuildMap n *)
  | 60 => mk 2 1 1 0                             (* BinarySubscr *)
  | 61 => mk 3 0 1 0                             (* StoreSubscr *)
  | 62 => mk 2 1 2 0                             (* ContainsOp *)
  | 63 => mk 1 1 1 0                             (* Length *)
  | 64 => mk 3 1 1 0                             (* Slice *)
  | 65 => mk 1 a 2 0                             (* Unpack n *)
  | 70 => mk (S a) (S a) 2 0                     (* Swap n: needs n+1 slots *)
  | 71 => mk (S a) (S (S a)) 2 0                 (* Copy n *)
  | 72 => mk 1 0 1 0                             (* PopTop *)
  | 80 | 81 | 82 => mk 0 1 1 0                   (* Nil, False, True *)
  | 90 => mk 1 (S (match b with 1 => 1 | 2 => 2 | 3 => 1 | _ => 0 end)) 3 5   (* ForIter delta n *)
  | 91 | 92 => mk 1 1 1 0                        (* GetIter, Range *)
  | 100 => mk (a + b) b 3 0                      (* FromImport parents imports *)
  | 101 => mk 1 1 1 0                            (* Import *)
  | 110 => mk 1 1 1 0                            (* Receive *)
  | 111 => mk 2 0 1 0                            (* Send *)
  | 120 => mk b 1 3 0                            (* LoadClosure const n *)
  | 121 => mk 0 1 3 0                            (* MakeCell sym back *)
  | 122 => mk 0 1 2 0                            (* LoadCell free *)
  | _ => None
  end.

Fixpoint lookup (pc : nat) (l : list (nat * nat)) : option nat :=
  match l with [] => None | (p, h) :: r => if Nat.eqb p pc then Some h else lookup pc r end.

(* [seen]: heights recorded at instruction starts already visited or targeted *)
Fixpoint pass (fuel : nat) (code : list nat) (pc : nat) (cur : option nat) (seen : list (nat * nat))
         (maxh : nat) (is_main : bool) : verdict :=
  match fuel with
  | O => VFail pc 5
  | S f =>
    if length code <=? pc then
      (* end of code *)
      match cur with
      | None => VOk maxh seen
      | Some h => if is_main then (if Nat.eqb h 1 then VOk maxh ((pc, h) :: seen) else VFail pc 7) else VFail pc 6
      end
    else
      (* merge with a height recorded for this position by an earlier jump *)
      let rec_h := lookup pc seen in
      match cur, rec_h with
      | Some h, Some h' => if Nat.eqb h h' then step f code pc h seen maxh is_main else VFail pc 2
      | Some h, None => step f code pc h ((pc, h) :: seen) maxh is_main
      | None, Some h' => step f code pc h' seen maxh is_main
      | None, None =>
          (* unreachable instruction: skip it *)
          let opc := nth pc code 0 in
          match shape_of opc (nth (pc + 1) code 0) (nth (pc + 2) code 0) with
          | None => VFail pc 4
          | Some sh => pass f code (pc + size sh) None seen maxh is_main
          end
      end
  end
with step (fuel : nat) (code : list nat) (pc : nat) (h : nat) (seen : list (nat * nat))
          (maxh : nat) (is_main : bool) : verdict :=
  match fuel with
  | O => VFail pc 5
  | S f =>
    let opc := nth pc code 0 in
    let a := nth (pc + 1) code 0 in
    let b := nth (pc + 2) code 0 in
    match shape_of opc a b with
    | None => VFail pc 4
    | Some sh =>
        if h <? pops sh then VFail pc 1 else
        let h' := h - pops sh + pushes sh in
        let maxh' := Nat.max maxh (Nat.max h h') in
        let next := pc + size sh in
        let record (target hh : nat) (seen : list (nat * nat)) : option (list (nat * nat)) :=
            match lookup target seen with
            | Some x => if Nat.eqb x hh then Some seen else None
            | None => Some ((target, hh) :: seen)
            end in
        match kind sh with
        | 0 => pass f code next (Some h') seen maxh' is_main
        | 1 => match record (pc + a) h' seen with
               | Some seen' => pass f code next None seen' maxh' is_main
               | None => VFail pc 2 end
        | 2 => if a <=? pc then
                 match lookup (pc - a) seen with
                 | Some x => if Nat.eqb x h' then pass f code next None seen maxh' is_main else VFail pc 3
                 | None => VFail pc 3 end
               else VFail pc 3
        | 3 => match record (pc + a) h' seen with
               | Some seen' => pass f code next (Some h') seen' maxh' is_main
               | None => VFail pc 2 end
        | 4 => pass f code next None seen maxh' is_main
        | _ => (* ForIter: exhausted -> jump with the iterator popped; else iterator + values *)
               match record (pc + a) (h - 1) seen with
               | Some seen' => pass f code next (Some h') seen' maxh' is_main
               | None => VFail pc 2 end
        end
    end
  end.

Definition verify (code : list nat) (is_main : bool) : verdict :=
  pass (2 * length code + 4) code 0 (Some 0) [] 0 is_main.

Definition labels := list (nat * nat).

Definition labelled (L : labels) (pc h : nat) : bool :=
  match lookup pc L with Some x => Nat.eqb x h | None => false end.

Definition ok_at (code : list nat) (is_main : bool) (L : labels) (pc h : nat) : bool :=
  if length code <=? pc then is_main && (Nat.eqb h 1)
  else
    let a := nth (pc + 1) code 0 in
    let b := nth (pc + 2) code 0 in
    match shape_of (nth pc code 0) a b with
    | None => false
    | Some sh =>
        (pops sh <=? h) &&
        let h' := h - pops sh + pushes sh in
        let next := pc + size sh in
        match kind sh with
        | 0 => labelled L next h'
        | 1 => labelled L (pc + a) h'
        | 2 => (a <=? pc) && labelled L (pc - a) h'
        | 3 => labelled L (pc + a) h' && labelled L next h'
        | 4 => true
        | _ => labelled L (pc + a) (h - 1) && labelled L next h'
        end
    end.

Definition check (code : list nat) (is_main : bool) (L : labels) : bool :=
  labelled L 0 0 && forallb (fun ph => ok_at code is_main L (fst ph) (snd ph)) L.

Definition maxlabel (L : labels) : nat := fold_right (fun ph m => Nat.max (snd ph) m) 0 L.

Definition certify (code : list nat) (is_main : bool) : option nat :=
  match verify code is_main with
  | VOk _ L => if check code is_main L then Some (maxlabel L) else None
  | VFail _ _ => None
  end.


(* the same, returning the validated labelling (pc -> height) itself *)
Definition certify_labels (code : list nat) (is_main : bool) : option labels :=
  match verify code is_main with
  | VOk _ L => if check code is_main L then Some L else None
  | VFail _ _ => None
  end.

(* number of operands of an opcode according to [shape_of] (independent of operand values) *)
Definition model_operands (opc : nat) : option nat :=
  match shape_of opc 0 0 with Some sh => Some (size sh - 1) | None => None end.
