(* Model of risor's channel object (object/chan.go) on top of a Go channel, as used by the VM
   opcodes Send / Receive / ForIter (vm/vm.go) and the builtins chan / close.  Definitions only;
   proofs live in proofs/ChanProofs.v.

   Trusted semantics of the underlying Go channel `chan Object`: a FIFO queue [buf] of at most
   [cap] elements, a [closed] flag; a send on a closed channel panics (risor turns the panic into
   the error "exec error: send on closed channel"), a receive on a closed and empty channel
   returns (zero, false).  An unbuffered channel (cap = 0) is treated as capacity 1: a rendezvous
   is the two steps Send;Recv, so this only ADDS schedules (the theorems quantify over a superset).

   risor on top of it (one [act] = one atomic step of one script goroutine):
     Send i    Chan.Send       select { ctx.Done | c.value <- v }          sender i's next value
     Recv j    Chan.Receive    select { ctx.Done | v, ok := <-c.value }    ok=false -> Nil
     Take j    Chan.NextEntry  the same select (the value stays in a local variable)          } what ForIter, keys() and
     Fin j     Chan.NextEntry  n := atomic.AddInt64(&c.rxCount, 1); the entry (key n-1, value) } map() do for a
                               is built from that local value                                 } channel (range loops)
     Next j    Chan.Next       the select of Receive; ok=false -> (nil, false)     } the three statements
     Store j   Chan.Next       c.lastReceived = value                             } of Chan.Next are
     Count j   Chan.Next       c.rxCount++ ; return (value, true)                 } three steps
     Entry j   Chan.Entry      reads c.lastReceived and c.rxCount-1
     Close k   Chan.Close      close(c.value), "close of closed channel" panic -> error
     Cancel                    the context of the evaluation is cancelled
     SendCtx / RecvCtx / NextCtx   the ctx.Done() branch of the select (enabled once cancelled)
   Next/Store/Count/Entry are the generic Iterator protocol (call Next, DROP its value, call Entry):
   two calls that communicate through the fields lastReceived / rxCount of the shared Chan object.
   Neither range loops (fix 0f2710a) nor the builtins keys(ch) / map(ch) (fix ce76520, object.IterNextEntry)
   use it for channels any more; it is exported Go API only.  Receiver j is "inside the protocol" ([iters])
   from its Next to its Entry.  (rxCount++ and the reads of Entry are taken as atomic.)

   Messages carry a ghost tag (the sender) next to the payload; [deq] is the ghost log of dequeue
   events in channel order, [seen] is what the scripts actually observed. *)
From Coq Require Import List Bool Arith NArith.
Import ListNotations.

Notation val := N (only parsing).
Notation msg := (nat * N)%type (only parsing).        (* (ghost sender id, payload) *)

Inductive act :=
| Send (i : nat) | Recv (j : nat)
| Take (j : nat) | Fin (j : nat)
| Next (j : nat) | Store (j : nat) | Count (j : nat) | Entry (j : nat)
| Close (k : nat)
| Cancel | SendCtx (i : nat) | RecvCtx (j : nat) | NextCtx (j : nat).

(* what the step returned to the script that performed it *)
Inductive ev :=
| EvSent (i : nat) (m : msg)         (* send statement completed *)
| EvSendClosed (i : nat)             (* "exec error: send on closed channel" *)
| EvRecv (j : nat) (m : msg)         (* <-c  /  c.receive() returned the value *)
| EvRecvNil (j : nat)                (* ... returned nil: channel closed and drained *)
| EvTaken (j : nat)                  (* Chan.NextEntry: the channel handed over a value (still in a local variable) *)
| EvNext (j : nat)                   (* Chan.Next: the channel handed over a value (still in a local variable) *)
| EvStore (j : nat)                  (* Chan.Next: c.lastReceived = value *)
| EvCount (j : nat)                  (* Chan.Next: c.rxCount++ ; returns (value, true), which ForIter drops *)
| EvIterEnd (j : nat)                (* Chan.Next returned (nil, false): the range loop ends *)
| EvEntry (j : nat) (key : nat) (m : msg)  (* loop variables of this iteration: key, value *)
| EvClosed (k : nat)                 (* close(c) succeeded *)
| EvCloseErr (k : nat)               (* "exec error: close of closed channel" *)
| EvCancel
| EvSendCtx (i : nat) | EvRecvCtx (j : nat) | EvIterCtx (j : nat).

(* where a receiver is: inside Chan.NextEntry (Taken), or inside the Next/Entry protocol *)
Inductive phase := Taken | Got | Stored | Counted.

Record st := {
  buf : list msg;                    (* the Go channel's queue, head = oldest *)
  cap : nat;
  closed : bool;
  cancelled : bool;
  todo : nat -> list N;              (* what sender i still has to send, in its program order *)
  deq : list (nat * msg);            (* ghost: (receiver, message) in the order the channel released them *)
  seen : list ev;                    (* every event, in global order *)
  last : option msg;                 (* Chan.lastReceived *)
  rxcount : nat;                     (* Chan.rxCount *)
  iters : list (nat * (phase * msg)); (* receivers inside NextEntry or the protocol: phase and the value they got *)
}.

Definition upd {A} (f : nat -> A) (i : nat) (v : A) : nat -> A :=
  fun k => if Nat.eqb k i then v else f k.

Definition is_key {A} (j : nat) (p : nat * A) : bool := Nat.eqb (fst p) j.

(* the iteration receiver j is in, if any *)
Definition iter_of (j : nat) (l : list (nat * (phase * msg))) : option (phase * msg) :=
  match find (is_key j) l with Some p => Some (snd p) | None => None end.
Definition drop_iter (j : nat) (l : list (nat * (phase * msg))) : list (nat * (phase * msg)) :=
  filter (fun p => negb (is_key j p)) l.
Definition busy (j : nat) (s : st) : bool :=
  match iter_of j (iters s) with Some _ => true | None => false end.

Definition room (s : st) : bool := length (buf s) <? Nat.max (cap s) 1.

(* the step only reports an event to the script *)
Definition note (s : st) (e : ev) : st :=
  {| buf := buf s; cap := cap s; closed := closed s; cancelled := cancelled s; todo := todo s;
     deq := deq s; seen := seen s ++ [e]; last := last s; rxcount := rxcount s; iters := iters s |}.

Definition step (s : st) (a : act) : option (st * ev) :=
  match a with
  | Send i =>
      match todo s i with
      | [] => None                                            (* sender i has nothing to send *)
      | v :: r =>
          if closed s then Some (note s (EvSendClosed i), EvSendClosed i)
          else if room s then
            let e := EvSent i (i, v) in
            Some ({| buf := buf s ++ [(i, v)]; cap := cap s; closed := closed s; cancelled := cancelled s;
                     todo := upd (todo s) i r;
                     deq := deq s; seen := seen s ++ [e]; last := last s; rxcount := rxcount s;
                     iters := iters s |}, e)
          else None                                           (* blocked: queue full *)
      end
  | Recv j =>
      if busy j s then None else                              (* j is inside ForIter *)
      match buf s with
      | m :: r =>
          let e := EvRecv j m in
          Some ({| buf := r; cap := cap s; closed := closed s; cancelled := cancelled s; todo := todo s;
                   deq := deq s ++ [(j, m)]; seen := seen s ++ [e]; last := last s; rxcount := rxcount s;
                   iters := iters s |}, e)
      | [] => if closed s then Some (note s (EvRecvNil j), EvRecvNil j)
              else None                                       (* blocked: queue empty *)
      end
  | Take j =>
      if busy j s then None else
      match buf s with
      | m :: r =>
          let e := EvTaken j in
          Some ({| buf := r; cap := cap s; closed := closed s; cancelled := cancelled s; todo := todo s;
                   deq := deq s ++ [(j, m)]; seen := seen s ++ [e]; last := last s; rxcount := rxcount s;
                   iters := (j, (Taken, m)) :: iters s |}, e)
      | [] => if closed s then Some (note s (EvIterEnd j), EvIterEnd j) else None
      end
  | Fin j =>
      match iter_of j (iters s) with
      | Some (Taken, m) =>
          let e := EvEntry j (rxcount s) m in
          Some ({| buf := buf s; cap := cap s; closed := closed s; cancelled := cancelled s; todo := todo s;
                   deq := deq s; seen := seen s ++ [e]; last := last s; rxcount := S (rxcount s);
                   iters := drop_iter j (iters s) |}, e)
      | _ => None
      end
  | Next j =>
      if busy j s then None else
      match buf s with
      | m :: r =>
          let e := EvNext j in
          Some ({| buf := r; cap := cap s; closed := closed s; cancelled := cancelled s; todo := todo s;
                   deq := deq s ++ [(j, m)]; seen := seen s ++ [e]; last := last s; rxcount := rxcount s;
                   iters := (j, (Got, m)) :: iters s |}, e)
      | [] => if closed s then Some (note s (EvIterEnd j), EvIterEnd j) else None
      end
  | Store j =>
      match iter_of j (iters s) with
      | Some (Got, m) =>
          let e := EvStore j in
          Some ({| buf := buf s; cap := cap s; closed := closed s; cancelled := cancelled s; todo := todo s;
                   deq := deq s; seen := seen s ++ [e]; last := Some m; rxcount := rxcount s;
                   iters := (j, (Stored, m)) :: drop_iter j (iters s) |}, e)
      | _ => None
      end
  | Count j =>
      match iter_of j (iters s) with
      | Some (Stored, m) =>
          let e := EvCount j in
          Some ({| buf := buf s; cap := cap s; closed := closed s; cancelled := cancelled s; todo := todo s;
                   deq := deq s; seen := seen s ++ [e]; last := last s; rxcount := S (rxcount s);
                   iters := (j, (Counted, m)) :: drop_iter j (iters s) |}, e)
      | _ => None
      end
  | Entry j =>
      match iter_of j (iters s) with
      | Some (Counted, _) =>
          match last s with
          | Some m =>
              let e := EvEntry j (rxcount s - 1) m in
              Some ({| buf := buf s; cap := cap s; closed := closed s; cancelled := cancelled s; todo := todo s;
                       deq := deq s; seen := seen s ++ [e]; last := last s; rxcount := rxcount s;
                       iters := drop_iter j (iters s) |}, e)
          | None => None
          end
      | _ => None
      end
  | Close k =>
      let e := if closed s then EvCloseErr k else EvClosed k in
      Some ({| buf := buf s; cap := cap s; closed := true; cancelled := cancelled s; todo := todo s;
               deq := deq s; seen := seen s ++ [e]; last := last s; rxcount := rxcount s; iters := iters s |}, e)
  | Cancel =>
      Some ({| buf := buf s; cap := cap s; closed := closed s; cancelled := true; todo := todo s;
               deq := deq s; seen := seen s ++ [EvCancel]; last := last s; rxcount := rxcount s;
               iters := iters s |}, EvCancel)
  | SendCtx i =>
      if cancelled s then
        match todo s i with
        | [] => None
        | _ :: _ => Some (note s (EvSendCtx i), EvSendCtx i)
        end
      else None
  | RecvCtx j =>
      if cancelled s && negb (busy j s) then Some (note s (EvRecvCtx j), EvRecvCtx j) else None
  | NextCtx j =>
      if cancelled s && negb (busy j s) then Some (note s (EvIterCtx j), EvIterCtx j) else None
  end.

Fixpoint run (s : st) (sch : list act) : option st :=
  match sch with
  | [] => Some s
  | a :: r => match step s a with Some (s', _) => run s' r | None => None end
  end.

Definition init (c : nat) (prog : nat -> list N) : st :=
  {| buf := []; cap := c; closed := false; cancelled := false; todo := prog; deq := []; seen := [];
     last := None; rxcount := 0; iters := [] |}.

(* ---- projections used by the statements ---- *)

Definition tag (i : nat) (l : list val) : list msg := map (fun v => (i, v)) l.

(* messages of sender i, in order *)
Definition from (i : nat) (l : list msg) : list msg := filter (fun m => Nat.eqb (fst m) i) l.

(* entries of key j in a keyed log *)
Definition by_key {A} (j : nat) (l : list (nat * A)) : list A :=
  map snd (filter (fun p => Nat.eqb (fst p) j) l).

(* what the scripts of the receivers got as VALUES: (receiver, message), in global order *)
Fixpoint delivered (l : list ev) : list (nat * msg) :=
  match l with
  | [] => []
  | EvRecv j m :: r => (j, m) :: delivered r
  | EvEntry j _ m :: r => (j, m) :: delivered r
  | _ :: r => delivered r
  end.

(* keys handed to range loops, in global order *)
Fixpoint entry_keys (l : list ev) : list nat :=
  match l with
  | [] => []
  | EvEntry _ k _ :: r => k :: entry_keys r
  | _ :: r => entry_keys r
  end.

(* the value Chan.Next returned to receiver j (and ForIter dropped), while j is inside ForIter *)
Definition held (s : st) (j : nat) : list msg :=
  match iter_of j (iters s) with Some (_, m) => [m] | None => [] end.

(* ---- the guard: nobody starts a range step while a receiver is inside the Next/Entry protocol, and nobody
   enters the protocol while any receiver is inside NextEntry or the protocol ---- *)

Definition is_nil {A} (l : list A) : bool := match l with [] => true | _ => false end.

(* nobody is inside the Next/Entry protocol *)
Definition all_taken (l : list (nat * (phase * (nat * N)))) : bool :=
  forallb (fun p => match fst (snd p) with Taken => true | _ => false end) l.

Fixpoint exclusive (s : st) (sch : list act) : bool :=
  match sch with
  | [] => true
  | a :: r =>
      match step s a with
      | Some (s', _) => (match a with Next _ => is_nil (iters s) | Take _ => all_taken (iters s) | _ => true end)
                        && exclusive s' r
      | None => true
      end
  end.

(* the steps of the Next/Entry protocol *)
Definition two_step (a : act) : bool :=
  match a with Next _ | Store _ | Count _ | Entry _ => true | _ => false end.

(* the class scripts are in when they use send / receive / range only: no Next/Entry protocol at all *)
Definition one_step_only (sch : list act) : bool := forallb (fun a => negb (two_step a)) sch.

(* at most one receiver (j0) uses the Next/Entry protocol (keys(ch) / map(ch)) and nobody ranges *)
Definition single_iter (j0 : nat) (sch : list act) : bool :=
  forallb (fun a => match a with
                    | Next j | Store j | Count j | Entry j | NextCtx j => Nat.eqb j j0
                    | Take _ | Fin _ => false
                    | _ => true end) sch.

Definition mem (j : nat) (l : list nat) : bool := existsb (Nat.eqb j) l.

(* ids of the receivers that iterate in a schedule; class of the known finding: more than one *)
Fixpoint iter_ids (sch : list act) : list nat :=
  match sch with
  | [] => []
  | Next j :: r => if mem j (iter_ids r) then iter_ids r else j :: iter_ids r
  | _ :: r => iter_ids r
  end.
Definition multi_iter (sch : list act) : bool := 1 <? length (iter_ids sch).

(* ---- single-goroutine histories (the sequential tie): an unbuffered send can never complete ---- *)
Definition seq_step (s : st) (a : act) : option (st * ev) :=
  match a with
  | Send _ => if Nat.eqb (cap s) 0 && negb (closed s) then None else step s a
  | _ => step s a
  end.

Fixpoint seq_run (s : st) (sch : list act) (acc : list ev) : list ev * bool :=
  match sch with
  | [] => (rev acc, true)
  | a :: r => match seq_step s a with
              | Some (s', e) => seq_run s' r (e :: acc)
              | None => (rev acc, false)          (* the goroutine blocks forever at this operation *)
              end
  end.

(* ---- acceptance of an observed history (run on what the real receivers logged) ----
   progs : per sender, the values whose send completed, in program order
   logs  : per receiver, the messages it got, in its own order
   [merge] searches a dequeue order [d] of the channel that explains the logs:
   per sender it is that sender's program, per receiver it is that receiver's log. *)

Fixpoint set_nth {A} (n : nat) (x : A) (l : list A) : list A :=
  match l, n with
  | [], _ => []
  | _ :: r, 0 => x :: r
  | y :: r, S n' => y :: set_nth n' x r
  end.

Definition head_ok (progs : list (list val)) (lg : list msg) : bool :=
  match lg with
  | (i, v) :: _ => match nth i progs [] with w :: _ => N.eqb v w | [] => false end
  | [] => false
  end.

(* first receiver (at index >= j) whose oldest unexplained message is the next one of its sender *)
Fixpoint pick (progs : list (list val)) (logs : list (list msg)) (j : nat) : option nat :=
  match logs with
  | [] => None
  | lg :: r => if head_ok progs lg then Some j else pick progs r (S j)
  end.

Definition all_nil {A} (ls : list (list A)) : bool := forallb is_nil ls.

Fixpoint merge (fuel : nat) (progs : list (list val)) (logs : list (list msg)) : option (list (nat * msg)) :=
  match fuel with
  | 0 => if all_nil progs && all_nil logs then Some [] else None
  | S f =>
      match pick progs logs 0 with
      | Some j =>
          match nth j logs [] with
          | (i, v) :: lrest =>
              match merge f (set_nth i (tl (nth i progs [])) progs) (set_nth j lrest logs) with
              | Some d => Some ((j, (i, v)) :: d)
              | None => None
              end
          | [] => None
          end
      | None => if all_nil progs && all_nil logs then Some [] else None
      end
  end.

Definition total {A} (ls : list (list A)) : nat := fold_right (fun l n => length l + n) 0 ls.

Definition accept (progs : list (list val)) (logs : list (list msg)) : bool :=
  match merge (total logs) progs logs with Some _ => true | None => false end.

(* the weaker acceptance that the faithful model guarantees for EVERY schedule, overlapping
   iterations included: as many deliveries as dequeues, and nothing delivered that was not sent *)
Definition sent_by (progs : list (list val)) (m : msg) : bool :=
  existsb (N.eqb (snd m)) (nth (fst m) progs []).

Definition weak_accept (progs : list (list val)) (logs : list (list msg)) : bool :=
  Nat.eqb (total logs) (total progs) && forallb (forallb (sent_by progs)) logs.
