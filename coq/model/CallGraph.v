(* C12 (b) - a static call graph with real-OS sinks: executable check that no builtin reaches a sink.
   Definitions only; the soundness lemma is in proofs/CallGraphProofs.v. *)
From Coq Require Import List Bool PArith.
Require Import RV.model.Graph.
Import ListNotations.

(* functions in [cuts] keep no outgoing edges *)
Definition cut_graph (g : graph) (cuts : list node) : graph :=
  filter (fun e => negb (existsb (Pos.eqb (fst e)) cuts)) g.

Definition reach_from (g : graph) (roots : list node) : option PS.t :=
  reachable_set (default_fuel g roots) g roots.

(* no function of [real] is reachable from any function of [builtins] *)
Definition mediated_check (g : graph) (cuts builtins real : list node) : bool :=
  match reach_from (cut_graph g cuts) builtins with
  | Some s => forallb (fun r => negb (PS.mem r s)) real
  | None => false
  end.

(* some function of [real] is reachable from [roots] (used to show the analysis sees real-OS calls) *)
Definition reaches_some (g : graph) (cuts roots real : list node) : bool :=
  match reach_from (cut_graph g cuts) roots with
  | Some s => existsb (fun r => PS.mem r s) real
  | None => false
  end.

Definition count_reached (g : graph) (cuts roots : list node) : nat :=
  match reach_from (cut_graph g cuts) roots with
  | Some s => PS.cardinal s
  | None => 0
  end.
