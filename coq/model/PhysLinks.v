(* Kernel path resolution over symbolic links, on component lists (C13: links made through a rooted filesystem).

   A path is the list of its components (absolute, from the root).  A link table maps the location of a
   symbolic link to the text stored in it: absolute or relative, as a component list.  [phys] resolves a path
   the way the kernel does: component by component; ".." is taken physically (the parent of the directory reached
   so far); a component that is a link is replaced by the stored text - an absolute text restarts at the root, a
   relative one continues in the directory that holds the link.  The fuel bounds the number of links followed
   (the kernel's ELOOP limit).  Definitions only; proofs are in proofs/PhysLinksProofs.v. *)
From Coq Require Import List Bool.
Import ListNotations.

Section Phys.
  Variable seg : Type.
  Variable seg_eqb : seg -> seg -> bool.
  Variable dotdot : seg.

  Record target := Tgt { t_abs : bool; t_comps : list seg }.
  Definition links := list (list seg * target).

  Fixpoint path_eqb (a b : list seg) : bool :=
    match a, b with
    | [], [] => true
    | x :: a', y :: b' => seg_eqb x y && path_eqb a' b'
    | _, _ => false
    end.

  Definition link_at (L : links) (p : list seg) : option target :=
    match find (fun e => path_eqb (fst e) p) L with Some e => Some (snd e) | None => None end.

  Inductive stop :=
  | Done (p : list seg)
  | Link (dir : list seg) (t : target) (rest : list seg).

  (* walk until the components are used up or a link is met *)
  Fixpoint walk_to_link (L : links) (cur todo : list seg) : stop :=
    match todo with
    | [] => Done cur
    | s :: r =>
        if seg_eqb s dotdot then walk_to_link L (removelast cur) r
        else match link_at L (cur ++ [s]) with
             | Some t => Link cur t r
             | None => walk_to_link L (cur ++ [s]) r
             end
    end.

  Fixpoint phys (fuel : nat) (L : links) (cur todo : list seg) : option (list seg) :=
    match walk_to_link L cur todo with
    | Done p => Some p
    | Link dir t r =>
        match fuel with
        | O => None
        | S f => phys f L (if t_abs t then [] else dir) (t_comps t ++ r)
        end
    end.

  (* where the path p leads *)
  Definition leads (fuel : nat) (L : links) (p : list seg) : option (list seg) := phys fuel L [] p.

  Definition under (base p : list seg) : Prop := exists rest, p = base ++ rest.
End Phys.

Arguments Tgt {seg}.
Arguments t_abs {seg}.
Arguments t_comps {seg}.
Arguments Done {seg}.
Arguments Link {seg}.
