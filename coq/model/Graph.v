(* Finite directed graphs over [positive] node names: executable reachability (worklist search with
   fuel) and the inductive reachability relation.  Used by C11 (object graph of the globals) and C12
   (static call graph).  Definitions only; proofs are in proofs/GraphProofs.v. *)
From Coq Require Import List Bool PArith MSets.MSetPositive FSets.FMapPositive.
Import ListNotations.

Module PS := PositiveSet.
Module PM := PositiveMap.

Notation node := positive (only parsing).
Notation graph := (list (positive * positive)) (only parsing).

(* n is reachable from the roots along edges of g *)
Inductive Reach (g : graph) (roots : list node) : node -> Prop :=
| reach_root : forall r, In r roots -> Reach g roots r
| reach_step : forall n m, Reach g roots n -> In (n, m) g -> Reach g roots m.

(* adjacency table *)
Definition adj_get (a : PM.t (list node)) (n : node) : list node :=
  match PM.find n a with Some l => l | None => [] end.

Definition adj_add (a : PM.t (list node)) (e : node * node) : PM.t (list node) :=
  PM.add (fst e) (snd e :: adj_get a (fst e)) a.

Definition build_adj (g : graph) : PM.t (list node) := fold_left adj_add g (PM.empty (list node)).

(* worklist search: [None] when the fuel runs out *)
Fixpoint saturate (a : PM.t (list node)) (fuel : nat) (work : list node) (seen : PS.t) : option PS.t :=
  match fuel with
  | O => None
  | S f =>
      match work with
      | [] => Some seen
      | n :: w =>
          if PS.mem n seen then saturate a f w seen
          else saturate a f (adj_get a n ++ w) (PS.add n seen)
      end
  end.

Definition reachable_set (fuel : nat) (g : graph) (roots : list node) : option PS.t :=
  saturate (build_adj g) fuel roots PS.empty.

(* enough for every graph: each step either drops a work item or marks a new node and pushes its successors *)
Definition default_fuel (g : graph) (roots : list node) : nat := 2 * (length g + length roots) + 2.

Definition reaches (g : graph) (roots : list node) (n : node) : option bool :=
  match reachable_set (default_fuel g roots) g roots with
  | Some s => Some (PS.mem n s)
  | None => None
  end.
