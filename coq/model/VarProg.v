(* Stages B and C of C01_back: programs over top-level variables.  A program is a list of top-level statements -
   declarations `x := e`, assignments `x = e`, expression statements, and conditionals
   `if c { simple; ... } else { simple; ... }` whose branches are lists of assignments and expression statements -
   with the scalar expressions of ScalarFrag.v (which may mention the variables declared so far).  The k-th
   declaration declares variable k; [names] gives the variables their (distinct, non-empty) identifiers.  As for
   the expression fragment: the code the compiler model emits and the source-level result are pure functions;
   proofs/Var*Proofs.v show that they ARE what Compiler.compile_program, Sem.run and VM.run compute. *)
From Coq Require Import List ZArith NArith Bool Arith.
Require Import RV.model.Syntax RV.model.Compiler RV.model.ScalarFrag.
Import ListNotations.
Local Open Scope nat_scope.

(* what a branch of a conditional may contain *)
Inductive simple := MSet (i : nat) (e : sexp) | MExpr (e : sexp).
Inductive stmt := SDecl (e : sexp) | SSet (i : nat) (e : sexp) | SExpr (e : sexp)
                | SIf (c : sexp) (t e : list simple).

Definition embed_simple (names : list (list N)) (m : simple) : node :=
  match m with
  | MSet i e => NAssign (nth i names []) [61%N] (embed names e)
  | MExpr e => embed names e
  end.

(* k = number of variables declared so far *)
Fixpoint embed_stmts (names : list (list N)) (k : nat) (l : list stmt) : list node :=
  match l with
  | [] => []
  | SDecl e :: r => NVar (nth k names []) (embed names e) :: embed_stmts names (S k) r
  | SSet i e :: r => NAssign (nth i names []) [61%N] (embed names e) :: embed_stmts names k r
  | SExpr e :: r => embed names e :: embed_stmts names k r
  | SIf c t e :: r => NIf (embed names c) (map (embed_simple names) t) (Some (map (embed_simple names) e))
                      :: embed_stmts names k r
  end.

Definition wf_simple (k : nat) (m : simple) : bool :=
  match m with MSet i e => Nat.ltb i k && wf k e | MExpr e => wf k e end.

Fixpoint wf_stmts (k : nat) (l : list stmt) : bool :=
  match l with
  | [] => true
  | SDecl e :: r => wf k e && wf_stmts (S k) r
  | SSet i e :: r => Nat.ltb i k && wf k e && wf_stmts k r
  | SExpr e :: r => wf k e && wf_stmts k r
  | SIf c t e :: r => wf k c && forallb (wf_simple k) t && forallb (wf_simple k) e && wf_stmts k r
  end.

Fixpoint ndecls (l : list stmt) : nat :=
  match l with [] => 0 | SDecl _ :: r => S (ndecls r) | _ :: r => ndecls r end.

(* fuel the compiler and the reference semantics need, operand-stack slots the VM needs *)
Definition simple_exp (m : simple) : sexp := match m with MSet _ e | MExpr e => e end.
Definition simples_height (l : list simple) : nat := fold_right (fun m a => Nat.max (height (simple_exp m)) a) 0 l.
Definition simples_need (l : list simple) : nat := fold_right (fun m a => Nat.max (need (simple_exp m)) a) 1 l.
Definition stmt_height (s : stmt) : nat :=
  match s with
  | SDecl e | SSet _ e | SExpr e => height e
  | SIf c t e => S (Nat.max (height c) (S (Nat.max (simples_height t) (simples_height e))))
  end.
Definition stmt_need (s : stmt) : nat :=
  match s with
  | SDecl e | SSet _ e | SExpr e => need e
  | SIf c t e => Nat.max (need c) (Nat.max (simples_need t) (simples_need e))
  end.
Definition max_height (l : list stmt) : nat := fold_right (fun s m => Nat.max (stmt_height s) m) 0 l.
Definition max_need (l : list stmt) : nat := fold_right (fun s m => Nat.max (stmt_need s) m) 0 l.

Fixpoint set_nth (i : nat) (v : sval) (l : list sval) : list sval :=
  match l, i with [], _ => [] | _ :: r, O => v :: r | x :: r, S j => x :: set_nth j v r end.

(* ---------------------------------------------------------------- source-level meaning *)
(* a statement: the new values of the variables and the statement's value, or the class of the error *)
Definition run_simple (rho : list sval) (m : simple) : (list sval * sval) + serr :=
  match m with
  | MSet i e => match sev rho e with inl v => inl (set_nth i v rho, VNil) | inr x => inr x end
  | MExpr e => match sev rho e with inl v => inl (rho, v) | inr x => inr x end
  end.
(* a block: the value of its last statement if that is an expression, else nil *)
Fixpoint run_simples (rho : list sval) (l : list simple) (last : sval) : (list sval * sval) + serr :=
  match l with
  | [] => inl (rho, last)
  | m :: r => match run_simple rho m with inl (rho', v) => run_simples rho' r v | inr x => inr x end
  end.
Definition run_stmt (rho : list sval) (s : stmt) : (list sval * sval) + serr :=
  match s with
  | SDecl e => match sev rho e with inl v => inl (rho ++ [v], VNil) | inr x => inr x end
  | SSet i e => match sev rho e with inl v => inl (set_nth i v rho, VNil) | inr x => inr x end
  | SExpr e => match sev rho e with inl v => inl (rho, v) | inr x => inr x end
  | SIf c t e => match sev rho c with
                 | inl vc => run_simples rho (if struthy vc then t else e) VNil
                 | inr x => inr x
                 end
  end.
(* a program: the value of the last statement if it is an expression, else nil; or the class of the first error *)
Fixpoint run_stmts (rho : list sval) (l : list stmt) (last : sval) : sval + serr :=
  match l with
  | [] => inl last
  | s :: r => match run_stmt rho s with inl (rho', v) => run_stmts rho' r v | inr x => inr x end
  end.

(* ---------------------------------------------------------------- emitted code *)
Definition simple_code (base : nat) (m : simple) : list N * list konst :=
  match m with
  | MSet i e => let '(c, ks) := cexp base e in (c ++ [opStoreGlobal; N.of_nat i], ks)
  | MExpr e => cexp base e
  end.
Definition is_expr_simple (m : simple) : bool := match m with MExpr _ => true | _ => false end.
(* a non-empty statement list as compileStatements lays it out: an expression statement is followed by PopTop unless
   it is the last one; a last statement that is not an expression is followed by Nil *)
Fixpoint simples_code (base : nat) (l : list simple) : list N * list konst :=
  match l with
  | [] => ([], [])
  | [m] => let '(c, ks) := simple_code base m in (c ++ (if is_expr_simple m then [] else [opNil]), ks)
  | m :: r =>
      let '(c, ks) := simple_code base m in
      let '(cr, kr) := simples_code (base + length ks) r in
      (c ++ (if is_expr_simple m then [opPopTop] else []) ++ cr, ks ++ kr)
  end.
(* a block: an empty one is Nil *)
Definition block_code (base : nat) (l : list simple) : list N * list konst :=
  match l with [] => ([opNil], []) | _ => simples_code base l end.

(* the code of one statement (without what separates it from the next), [k] variables declared, [base] constants *)
Definition stmt_code (k base : nat) (s : stmt) : list N * list konst :=
  match s with
  | SDecl e => let '(c, ks) := cexp base e in (c ++ [opStoreGlobal; N.of_nat k], ks)
  | SSet i e => let '(c, ks) := cexp base e in (c ++ [opStoreGlobal; N.of_nat i], ks)
  | SExpr e => cexp base e
  | SIf c t e =>
      let '(cc, kc) := cexp base c in
      let '(ct, kt) := block_code (base + length kc) t in
      let '(ce, ke) := block_code (base + length kc + length kt) e in
      (cc ++ [opPopJumpForwardIfFalse; (nlenN ct + 4)%N] ++ ct ++ [opJumpForward; (nlenN ce + 2)%N] ++ ce, kc ++ kt ++ ke)
  end.
Definition is_expr_stmt (s : stmt) : bool := match s with SExpr _ | SIf _ _ _ => true | _ => false end.

Fixpoint pcode (k base : nat) (l : list stmt) : list N * list konst :=
  match l with
  | [] => ([], [])
  | [s] => let '(c, ks) := stmt_code k base s in (c ++ (if is_expr_stmt s then [] else [opNil]), ks)
  | s :: r =>
      let '(c, ks) := stmt_code k base s in
      let '(cr, kr) := pcode (match s with SDecl _ => S k | _ => k end) (base + length ks) r in
      (c ++ (if is_expr_stmt s then [opPopTop] else []) ++ cr, ks ++ kr)
  end.
