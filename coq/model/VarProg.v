(* Stages B - G of C01_back: programs over variables.  A program is a list of statements - declarations `x := e`
   (at the top level AND inside blocks: a variable declared in a block is visible until the block ends), assignments
   `x = e`, `x += e` (also -= *= /=), `x++`, `x--`, expression statements, conditionals `if c { ... } else { ... }` /
   `if c { ... }`, plain loops `for { ... }`, condition loops `for c { ... }` and three-clause loops `for x := e; c; p { ... }` (p one of
   `x_i = e`, `x_i op= e`, `x_i++`, `x_i--`) with break and continue, whose blocks are again lists of
   statements, nested to any depth - over the scalar expressions of ScalarFrag.v.  A variable is referred to by its
   position among the variables VISIBLE at that point (in declaration order); the compiler gives the d-th declaration
   of the program text the global slot d, whatever block it is in.  [names] gives the slots their (distinct, non-empty)
   identifiers.  As for the expression fragment: the code the compiler model emits and the source-level result are pure
   functions; proofs/Var*Proofs.v show that they ARE what Compiler.compile_program, Sem.run and VM.run compute.  Loops
   make the source-level meaning a fuelled function: [None] = the fuel did not suffice. *)
From Coq Require Import List ZArith NArith Bool Arith.
Require Import RV.model.Syntax RV.model.Compiler RV.model.ScalarFrag.
Import ListNotations.
Local Open Scope nat_scope.

Inductive stmt :=
| SDecl (e : sexp)                       (* x := e : x becomes the last visible variable *)
| SSet (i : nat) (e : sexp)              (* x_i = e *)
| SSetOp (i : nat) (o : bop) (e : sexp)  (* x_i += e,  -=  *=  /= *)
| SInc (i : nat) (up : bool)             (* x_i++  /  x_i-- *)
| SExpr (e : sexp)
| SIf (c : sexp) (t e : list stmt)       (* if c { t } else { e } *)
| SIf1 (c : sexp) (t : list stmt)        (* if c { t } *)
| SWhile (c : sexp) (b : list stmt)      (* for c { b } *)
| SLoop (b : list stmt)                  (* for { b } *)
| SFor (e c : sexp) (p : stmt) (b : list stmt)   (* for x := e; c; p { b } : x is visible in c, p and b; p is x_i = .., x_i op= .., x_i++ *)
| SBreak | SContinue.                    (* only inside a loop body *)

Definition is_compound (o : bop) : bool := match o with BAdd | BSub | BMul | BDiv => true | _ => false end.

(* the number of declarations in a statement, nested ones included: so many global slots its code claims *)
Definition sum_list (h : stmt -> nat) (l : list stmt) : nat := fold_right (fun s a => h s + a) 0 l.
Fixpoint nd (s : stmt) : nat :=
  match s with
  | SDecl _ => 1
  | SIf _ t e => sum_list nd t + sum_list nd e
  | SIf1 _ b | SWhile _ b | SLoop b => sum_list nd b
  | SFor _ _ _ b => S (sum_list nd b)
  | _ => 0
  end.
Definition ndecls (l : list stmt) : nat := sum_list nd l.

(* [k]: the next free slot; [scope]: the slots of the visible variables, in declaration order *)
Definition next_scope (k : nat) (scope : list nat) (s : stmt) : list nat :=
  match s with SDecl _ => scope ++ [k] | _ => scope end.
Definition slot_of (scope : list nat) (i : nat) : nat := nth i scope 0.
(* the identifiers of the visible variables *)
Definition vnames (names : list (list N)) (scope : list nat) : list (list N) := map (fun sl => nth sl names []) scope.

(* ---------------------------------------------------------------- the AST of a program *)
Definition embed_list (es : nat -> list nat -> stmt -> node) : nat -> list nat -> list stmt -> list node :=
  fix el (k : nat) (scope : list nat) (l : list stmt) : list node :=
    match l with [] => [] | s :: r => es k scope s :: el (k + nd s) (next_scope k scope s) r end.
Fixpoint embed_stmt (names : list (list N)) (k : nat) (scope : list nat) (s : stmt) {struct s} : node :=
  let vn := vnames names scope in
  match s with
  | SDecl e => NVar (nth k names []) (embed vn e)
  | SSet i e => NAssign (nth i vn []) [61%N] (embed vn e)
  | SSetOp i o e => NAssign (nth i vn []) (op_text o ++ [61%N]) (embed vn e)
  | SInc i up => NPostfix (nth i vn []) (if up then [43; 43]%N else [45; 45]%N)
  | SExpr e => embed vn e
  | SIf c t e => NIf (embed vn c) (embed_list (embed_stmt names) k scope t)
                     (Some (embed_list (embed_stmt names) (k + sum_list nd t) scope e))
  | SIf1 c t => NIf (embed vn c) (embed_list (embed_stmt names) k scope t) None
  | SWhile c b => NFor (Some (embed vn c)) None None (embed_list (embed_stmt names) k scope b)
  | SLoop b => NFor None None None (embed_list (embed_stmt names) k scope b)
  | SFor e c p b => let sc1 := scope ++ [k] in
                    NFor (Some (embed (vnames names sc1) c)) (Some (NVar (nth k names []) (embed vn e)))
                         (Some (embed_stmt names (S k) sc1 p)) (embed_list (embed_stmt names) (S k) sc1 b)
  | SBreak => NBreak
  | SContinue => NContinue
  end.
Definition embed_stmts (names : list (list N)) : nat -> list nat -> list stmt -> list node := embed_list (embed_stmt names).

(* ---------------------------------------------------------------- well-formedness *)
(* [n]: the number of visible variables *)
Definition wf_list (w : nat -> stmt -> bool) : nat -> list stmt -> bool :=
  fix wl (n : nat) (l : list stmt) : bool :=
    match l with [] => true | s :: r => w n s && wl (match s with SDecl _ => S n | _ => n end) r end.
(* the post statement of a three-clause loop *)
Definition is_simple (s : stmt) : bool := match s with SSet _ _ | SSetOp _ _ _ | SInc _ _ => true | _ => false end.
(* variables are used while they are visible; break / continue only inside a loop *)
Fixpoint wf_stmt (lp : bool) (n : nat) (s : stmt) {struct s} : bool :=
  match s with
  | SDecl e | SExpr e => wf n e
  | SSet i e => Nat.ltb i n && wf n e
  | SSetOp i o e => Nat.ltb i n && wf n e && is_compound o
  | SInc i _ => Nat.ltb i n
  | SIf c t e => wf n c && wf_list (wf_stmt lp) n t && wf_list (wf_stmt lp) n e
  | SIf1 c t => wf n c && wf_list (wf_stmt lp) n t
  | SWhile c b => wf n c && wf_list (wf_stmt true) n b
  | SLoop b => wf_list (wf_stmt true) n b
  | SFor e c p b => wf n e && wf (S n) c && is_simple p && wf_stmt lp (S n) p && wf_list (wf_stmt true) (S n) b
  | SBreak | SContinue => lp
  end.
Definition wf_stmts (lp : bool) : nat -> list stmt -> bool := wf_list (wf_stmt lp).

(* fuel the compiler and the reference semantics need, operand-stack slots the VM needs *)
Definition max_list (h : stmt -> nat) (d : nat) (l : list stmt) : nat := fold_right (fun s a => Nat.max (h s) a) d l.
Fixpoint sheight (s : stmt) : nat :=
  match s with
  | SDecl e | SSet _ e | SExpr e | SSetOp _ _ e => height e
  | SInc _ _ => 0
  | SIf c t e => S (Nat.max (height c) (Nat.max (max_list sheight 0 t) (max_list sheight 0 e)))
  | SIf1 c b | SWhile c b => S (Nat.max (height c) (max_list sheight 0 b))
  | SLoop b => S (max_list sheight 0 b)
  | SFor e c p b => S (Nat.max (height e) (Nat.max (height c) (Nat.max (sheight p) (max_list sheight 0 b))))
  | SBreak | SContinue => 0
  end.
Fixpoint sneed (s : stmt) : nat :=
  match s with
  | SDecl e | SSet _ e | SExpr e => need e
  | SSetOp _ _ e => S (need e)
  | SInc _ _ => 2
  | SIf c t e => Nat.max (need c) (Nat.max (max_list sneed 1 t) (max_list sneed 1 e))
  | SIf1 c b | SWhile c b => Nat.max (need c) (max_list sneed 1 b)
  | SLoop b => max_list sneed 1 b
  | SFor e c p b => Nat.max (need e) (Nat.max (need c) (Nat.max (sneed p) (max_list sneed 1 b)))
  | SBreak | SContinue => 1
  end.
Definition max_height (l : list stmt) : nat := max_list sheight 0 l.
Definition max_need (l : list stmt) : nat := max_list sneed 1 l.

Fixpoint set_nth (i : nat) (v : sval) (l : list sval) : list sval :=
  match l, i with [], _ => [] | _ :: r, O => v :: r | x :: r, S j => x :: set_nth j v r end.

(* ---------------------------------------------------------------- source-level meaning *)
(* [rho]: the values of the visible variables.  A statement gives the new values and the statement's value, or what
   stopped it - the class of an error, or a break / continue on its way to the enclosing loop (with the values at that
   point); None: not enough fuel (each nesting level and each loop iteration costs one).  When a block ends - in
   whichever way - the variables it declared are gone. *)
Inductive stop := StErr (e : serr) | StBrk (rho : list sval) | StCont (rho : list sval).
Definition result : Type := option ((list sval * sval) + stop).
Definition trunc (n : nat) (r : (list sval * sval) + stop) : (list sval * sval) + stop :=
  match r with
  | inl (rho, v) => inl (firstn n rho, v)
  | inr (StBrk rho) => inr (StBrk (firstn n rho))
  | inr (StCont rho) => inr (StCont (firstn n rho))
  | inr (StErr x) => inr (StErr x)
  end.
(* a statement list: the value of its last statement if that is an expression, else nil *)
Definition run_list (step : list sval -> stmt -> result) : list sval -> list stmt -> sval -> result :=
  fix rl (rho : list sval) (l : list stmt) (last : sval) : result :=
    match l with
    | [] => Some (inl (rho, last))
    | s :: r => match step rho s with Some (inl (rho', v)) => rl rho' r v | other => other end
    end.
(* a block *)
Definition run_block (step : list sval -> stmt -> result) (rho : list sval) (l : list stmt) : result :=
  option_map (trunc (length rho)) (run_list step rho l VNil).
Definition of_sev (r : sval + serr) (k : sval -> (list sval * sval)) : result :=
  match r with inl v => Some (inl (k v)) | inr x => Some (inr (StErr x)) end.
(* the rounds of a three-clause loop (after its init clause): condition, body, post; k: the rounds still allowed *)
Definition loop3 (step : list sval -> stmt -> result) (c : sexp) (p : stmt) (b : list stmt) : nat -> list sval -> result :=
  fix lp (k : nat) (rho : list sval) : result :=
    match k with
    | O => None
    | S k' =>
        match sev rho c with
        | inl vc =>
            if struthy vc then
              match run_block step rho b with
              | Some (inl (rho1, _)) | Some (inr (StCont rho1)) =>
                  match step rho1 p with
                  | Some (inl (rho2, _)) => lp k' rho2
                  | other => other
                  end
              | Some (inr (StBrk rho1)) => Some (inl (rho1, VNil))
              | other => other
              end
            else Some (inl (rho, VNil))
        | inr x => Some (inr (StErr x))
        end
    end.
Fixpoint run_stmt (fuel : nat) (rho : list sval) (s : stmt) {struct fuel} : result :=
  match fuel with
  | O => None
  | S f =>
    match s with
    | SDecl e => of_sev (sev rho e) (fun v => (rho ++ [v], VNil))
    | SSet i e => of_sev (sev rho e) (fun v => (set_nth i v rho, VNil))
    | SSetOp i o e => match sev rho e with
                      | inl v => of_sev (sbin o (nth i rho VNil) v) (fun r => (set_nth i r rho, VNil))
                      | inr x => Some (inr (StErr x))
                      end
    | SInc i up => of_sev (sbin BAdd (nth i rho VNil) (VInt (if up then 1 else -1))) (fun r => (set_nth i r rho, VNil))
    | SExpr e => of_sev (sev rho e) (fun v => (rho, v))
    | SIf c t e => match sev rho c with
                   | inl vc => run_block (run_stmt f) rho (if struthy vc then t else e)
                   | inr x => Some (inr (StErr x))
                   end
    | SIf1 c t => match sev rho c with
                  | inl vc => if struthy vc then run_block (run_stmt f) rho t else Some (inl (rho, VNil))
                  | inr x => Some (inr (StErr x))
                  end
    | SWhile c b => match sev rho c with
                    | inl vc =>
                        if struthy vc then
                          match run_block (run_stmt f) rho b with
                          | Some (inl (rho', _)) | Some (inr (StCont rho')) => run_stmt f rho' (SWhile c b)
                          | Some (inr (StBrk rho')) => Some (inl (rho', VNil))
                          | other => other
                          end
                        else Some (inl (rho, VNil))
                    | inr x => Some (inr (StErr x))
                    end
    | SLoop b => match run_block (run_stmt f) rho b with
                 | Some (inl (rho', _)) | Some (inr (StCont rho')) => run_stmt f rho' (SLoop b)
                 | Some (inr (StBrk rho')) => Some (inl (rho', VNil))
                 | other => other
                 end
    | SFor e c p b => match sev rho e with
                      | inl v => option_map (trunc (length rho)) (loop3 (run_stmt f) c p b f (rho ++ [v]))
                      | inr x => Some (inr (StErr x))
                      end
    | SBreak => Some (inr (StBrk rho))
    | SContinue => Some (inr (StCont rho))
    end
  end.
Definition run_stmts (fuel : nat) : list sval -> list stmt -> sval -> result := run_list (run_stmt fuel).

(* ---------------------------------------------------------------- emitted code *)
(* code is a list of slots: numbers, and the two placeholders break / continue leave for the enclosing loop to patch *)
Definition slots : Type := list slot * list konst.
Definition is_expr_stmt (s : stmt) : bool := match s with SExpr _ | SIf _ _ _ | SIf1 _ _ => true | _ => false end.
(* a non-empty statement list as compileStatements lays it out: an expression statement is followed by PopTop unless
   it is the last one; a last statement that is not an expression is followed by Nil *)
Definition layout (sc : nat -> list nat -> nat -> stmt -> slots) : nat -> list nat -> nat -> list stmt -> slots :=
  fix lc (k : nat) (scope : list nat) (base : nat) (l : list stmt) : slots :=
    match l with
    | [] => ([], [])
    | s :: r =>
        let '(c, ks) := sc k scope base s in
        match r with
        | [] => (c ++ (if is_expr_stmt s then [] else I [opNil]), ks)
        | _ :: _ => let '(cr, kr) := lc (k + nd s) (next_scope k scope s) (base + length ks) r in
                    (c ++ (if is_expr_stmt s then I [opPopTop] else []) ++ cr, ks ++ kr)
        end
    end.
(* a block: an empty one is Nil *)
Definition block_layout (sc : nat -> list nat -> nat -> stmt -> slots) (k : nat) (scope : list nat) (base : nat) (l : list stmt) : slots :=
  match l with [] => (I [opNil], []) | _ :: _ => layout sc k scope base l end.

(* the code of one statement (without what separates it from the next): [k] the next free slot, [scope] the slots of
   the visible variables, [base] the number of constants so far *)
Fixpoint stmt_code (k : nat) (scope : list nat) (base : nat) (s : stmt) {struct s} : slots :=
  let ce := cexp_at (slot_of scope) in
  match s with
  | SDecl e => let '(c, ks) := ce base e in (I (c ++ [opStoreGlobal; N.of_nat k]), ks)
  | SSet i e => let '(c, ks) := ce base e in (I (c ++ [opStoreGlobal; N.of_nat (slot_of scope i)]), ks)
  | SSetOp i o e => let '(c, ks) := ce base e in
                    (I ([opLoadGlobal; N.of_nat (slot_of scope i)] ++ c ++ op_code o ++ [opStoreGlobal; N.of_nat (slot_of scope i)]), ks)
  | SInc i up => (I [opLoadGlobal; N.of_nat (slot_of scope i); opLoadConst; N.of_nat base; opBinaryOp; bAdd;
                     opStoreGlobal; N.of_nat (slot_of scope i)],
                  [KInt (if up then 1 else -1)])
  | SExpr e => let '(c, ks) := ce base e in (I c, ks)
  | SIf c t e =>
      let '(cc, kc) := ce base c in
      let '(ct, kt) := block_layout stmt_code k scope (base + length kc) t in
      let '(ce0, ke) := block_layout stmt_code (k + sum_list nd t) scope (base + length kc + length kt) e in
      (I cc ++ I [opPopJumpForwardIfFalse; (nlen ct + 4)%N] ++ ct ++ I [opJumpForward; (nlen ce0 + 2)%N] ++ ce0, kc ++ kt ++ ke)
  | SIf1 c t =>
      let '(cc, kc) := ce base c in
      let '(ct, kt) := block_layout stmt_code k scope (base + length kc) t in
      (I cc ++ I [opPopJumpForwardIfFalse; (nlen ct + 4)%N] ++ ct ++ I [opJumpForward; 3%N] ++ I [opNil], kc ++ kt)
  | SWhile c b =>
      (* the loop patches the placeholders of its body: break jumps to the Nop behind the JumpBackward, continue to the
         JumpBackward *)
      let '(cc, kc) := ce base c in
      let '(cb, kb) := block_layout stmt_code k scope (base + length kc) b in
      let inner := I cc ++ I [opPopJumpForwardIfFalse; (nlen cb + 6)%N] ++ cb ++ I [opPopTop] in
      let jb := nlen inner in
      (patch 0 (jb + 2) jb inner ++ I [opJumpBackward; jb; opNop], kc ++ kb)
  | SLoop b =>
      let '(cb, kb) := block_layout stmt_code k scope base b in
      let inner := cb ++ I [opPopTop] in
      let jb := nlen inner in
      (patch 0 (jb + 2) jb inner ++ I [opJumpBackward; jb; opNop], kb)
  | SFor e c p b =>
      (* init; then the loop proper: head (condition, exit jump), body, PopTop, post, JumpBackward; break jumps behind the
         JumpBackward, continue to the post statement *)
      let '(ci, ki) := ce base e in
      let sc1 := scope ++ [k] in
      let '(cc, kc) := cexp_at (slot_of sc1) (base + length ki) c in
      let '(cb, kb) := block_layout stmt_code (S k) sc1 (base + length ki + length kc) b in
      let '(cp, kp) := stmt_code (S k) sc1 (base + length ki + length kc + length kb) p in
      let head := I cc ++ I [opPopJumpForwardIfFalse; (nlen cb + 1 + nlen cp + 2 + 2)%N] in
      let cont := (nlen head + nlen cb + 1)%N in
      let jb := (cont + nlen cp)%N in
      (I (ci ++ [opStoreGlobal; N.of_nat k]) ++ patch 0 (jb + 2) cont (head ++ cb ++ I [opPopTop] ++ cp) ++ I [opJumpBackward; jb],
       ki ++ kc ++ kb ++ kp)
  | SBreak => ([SI opJumpForward; SBrk], [])
  | SContinue => ([SI opJumpForward; SCont], [])
  end.
Definition block_code : nat -> list nat -> nat -> list stmt -> slots := block_layout stmt_code.
Definition scode : nat -> list nat -> nat -> list stmt -> slots := layout stmt_code.
(* what ends up in the code object *)
Definition strip (l : list slot) : list N := map (fun s => match s with SI n => n | _ => PLACEHOLDER end) l.
Definition pcode (l : list stmt) : list N * list konst := (strip (fst (scode 0 [] 0 l)), snd (scode 0 [] 0 l)).
