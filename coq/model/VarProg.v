(* Stage B of C01_back: straight-line programs over top-level variables.  A program is a list of top-level
   statements - declarations `x := e`, assignments `x = e`, expression statements - whose expressions are the
   scalar expressions of ScalarFrag.v (now with variable references).  The k-th declaration declares variable k;
   [names] gives the variables their (distinct, non-empty) identifiers.  As for the expression fragment: the code
   the compiler model emits and the source-level result are pure functions; proofs/VarProgProofs.v shows that they
   ARE what Compiler.compile_program, Sem.run and VM.run compute. *)
From Coq Require Import List ZArith NArith Bool Arith.
Require Import RV.model.Syntax RV.model.Compiler RV.model.ScalarFrag.
Import ListNotations.
Local Open Scope nat_scope.

Inductive stmt := SDecl (e : sexp) | SSet (i : nat) (e : sexp) | SExpr (e : sexp).

(* k = number of variables declared so far *)
Fixpoint embed_stmts (names : list (list N)) (k : nat) (l : list stmt) : list node :=
  match l with
  | [] => []
  | SDecl e :: r => NVar (nth k names []) (embed names e) :: embed_stmts names (S k) r
  | SSet i e :: r => NAssign (nth i names []) [61%N] (embed names e) :: embed_stmts names k r
  | SExpr e :: r => embed names e :: embed_stmts names k r
  end.

Fixpoint wf_stmts (k : nat) (l : list stmt) : bool :=
  match l with
  | [] => true
  | SDecl e :: r => wf k e && wf_stmts (S k) r
  | SSet i e :: r => Nat.ltb i k && wf k e && wf_stmts k r
  | SExpr e :: r => wf k e && wf_stmts k r
  end.

Fixpoint ndecls (l : list stmt) : nat :=
  match l with [] => 0 | SDecl _ :: r => S (ndecls r) | _ :: r => ndecls r end.

Definition stmt_exp (s : stmt) : sexp := match s with SDecl e | SSet _ e | SExpr e => e end.
Definition max_height (l : list stmt) : nat := fold_right (fun s m => Nat.max (height (stmt_exp s)) m) 0 l.
Definition max_need (l : list stmt) : nat := fold_right (fun s m => Nat.max (need (stmt_exp s)) m) 0 l.

Fixpoint set_nth (i : nat) (v : sval) (l : list sval) : list sval :=
  match l, i with [], _ => [] | _ :: r, O => v :: r | x :: r, S j => x :: set_nth j v r end.

(* the source-level result of a program: the value of the last statement if it is an expression, else nil; or the
   class of the first error *)
Fixpoint run_stmts (rho : list sval) (l : list stmt) (last : sval) : sval + serr :=
  match l with
  | [] => inl last
  | SDecl e :: r => match sev rho e with inl v => run_stmts (rho ++ [v]) r VNil | inr x => inr x end
  | SSet i e :: r => match sev rho e with inl v => run_stmts (set_nth i v rho) r VNil | inr x => inr x end
  | SExpr e :: r => match sev rho e with inl v => run_stmts rho r v | inr x => inr x end
  end.

(* the code of one statement (without what separates it from the next), [k] variables declared, [base] constants *)
Definition stmt_code (k base : nat) (s : stmt) : list N * list konst :=
  match s with
  | SDecl e => let '(c, ks) := cexp base e in (c ++ [opStoreGlobal; N.of_nat k], ks)
  | SSet i e => let '(c, ks) := cexp base e in (c ++ [opStoreGlobal; N.of_nat i], ks)
  | SExpr e => cexp base e
  end.
Definition is_expr_stmt (s : stmt) : bool := match s with SExpr _ => true | _ => false end.

(* the code of a non-empty statement list as compileProgram lays it out: an expression statement is followed by
   PopTop unless it is the last one; a last statement that is not an expression is followed by Nil *)
Fixpoint pcode (k base : nat) (l : list stmt) : list N * list konst :=
  match l with
  | [] => ([], [])
  | [s] => let '(c, ks) := stmt_code k base s in (c ++ (if is_expr_stmt s then [] else [opNil]), ks)
  | s :: r =>
      let '(c, ks) := stmt_code k base s in
      let '(cr, kr) := pcode (match s with SDecl _ => S k | _ => k end) (base + length ks) r in
      (c ++ (if is_expr_stmt s then [opPopTop] else []) ++ cr, ks ++ kr)
  end.
