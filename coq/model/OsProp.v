(* C12 (a) - which OS a builtin sees in every execution context derived from a configured root.

   Mirrors vm/vm.go getOS / initContext / Clone / cloneCallAsync / cloneCallSync / Call, os/os.go WithOS / GetOS /
   GetDefaultOS and risor_options.go WithOS.  An OS implementation is identified by a number; [real_os] stands for
   NewSimpleOS (the real operating system), which is what the code falls back to.  Definitions only. *)
From Coq Require Import List.
Import ListNotations.

Notation os := nat (only parsing).
Definition real_os : os := 0.

(* vm.getOS(ctx): the context value wins, then the VM's own field (WithOS option), then the real OS *)
Definition get_os (vm_os ctx_os : option os) : os :=
  match ctx_os with
  | Some v => v
  | None => match vm_os with Some v => v | None => real_os end
  end.

(* vm.initContext(ctx): ctx = os.WithOS(ctx, vm.getOS(ctx)) - the context handed to every builtin *)
Definition init_context (vm_os ctx_os : option os) : option os := Some (get_os vm_os ctx_os).

(* os.WithOS(ctx, o): the derived context carries o - whatever ctx carried before (a context value shadows the
   same key of its parent) *)
Definition with_os (ctx_os : option os) (o : os) : option os := Some o.

(* a context the host builds by layering: os.WithOS(... os.WithOS(context.Background(), o1) ..., on) *)
Definition ctx_of_layers (ls : list os) : option os := fold_left with_os ls None.

(* a host builtin derives the context of a nested evaluation from the context it was called with: as it is, or with
   an OS of its own placed on it *)
Definition layer_ctx (ctx_os : option os) (layer : option os) : option os :=
  match layer with Some o => with_os ctx_os o | None => ctx_os end.

(* os.GetDefaultOS(ctx), used by every OS-facing builtin *)
Definition builtin_os (ctx_os : option os) : os := match ctx_os with Some v => v | None => real_os end.

(* how an execution context comes about *)
Inductive deriv : Type :=
| Top (vm_os host_ctx : option os)         (* vm.Run / RunCode / risor.Eval: eval(initContext(ctx)); vm_os = WithOS option *)
| HostCall (d : deriv) (host_ctx : option os)   (* host calls vm.Call(ctx, fn) on the same VM *)
| HostClone (d : deriv) (host_ctx : option os)  (* host: clone := vm.Clone() (copies vm.os); clone.Call(ctx, fn) *)
| Spawn (d : deriv)                         (* go / spawn: cloneCallAsync(ctx of the running builtin): Clone; clone.initContext(ctx) *)
| CloneSync (d : deriv)                     (* cloneCallSync: the same, synchronously *)
| Import (d : deriv)                        (* import statement: module code evaluated with the running context *)
| CallFn (d : deriv)                        (* a builtin calls back a function through the context's call function *)
| Nest (d : deriv) (layer vm_os : option os). (* a HOST builtin running in context d starts a new evaluation (new VM, WithOS
                                               option vm_os) with the context it received, layered with os.WithOS(ctx, o)
                                               when layer = Some o *)

(* (VirtualMachine.os, the os value in the context handed to builtins) *)
Fixpoint ectx_of (d : deriv) : option os * option os :=
  match d with
  | Top v c => (v, init_context v c)
  | HostCall d c' => (fst (ectx_of d), init_context (fst (ectx_of d)) c')
  | HostClone d c' => (fst (ectx_of d), init_context (fst (ectx_of d)) c')
  | Spawn d => (fst (ectx_of d), init_context (fst (ectx_of d)) (snd (ectx_of d)))
  | CloneSync d => (fst (ectx_of d), init_context (fst (ectx_of d)) (snd (ectx_of d)))
  | Import d => ectx_of d
  | CallFn d => ectx_of d
  | Nest d l v => (v, init_context v (layer_ctx (snd (ectx_of d)) l))
  end.

Definition effective_os (d : deriv) : os := builtin_os (snd (ectx_of d)).

(* The host supplied o: with the WithOS option (and no different OS in the context it passes), or in the context. *)
Definition supplied (o : os) (vm_os ctx_os : option os) : Prop :=
  ctx_os = Some o \/ (ctx_os = None /\ vm_os = Some o).

Fixpoint host_supplies (o : os) (d : deriv) : Prop :=
  match d with
  | Top v c => supplied o v c
  | HostCall d c' => host_supplies o d /\ supplied o (fst (ectx_of d)) c'
  | HostClone d c' => host_supplies o d /\ supplied o (fst (ectx_of d)) c'
  | Spawn d | CloneSync d | Import d | CallFn d => host_supplies o d
  (* a nested evaluation: the OS the host placed on its context; without one it inherits the context it derives from
     (a context risor hands to a builtin always carries an OS, and a context value wins over the WithOS option) *)
  | Nest d (Some o') _ => o' = o
  | Nest d None _ => host_supplies o d
  end.
