(* C11 - the globals a host configuration leaves to a script.

   The heap is a finite labelled graph: nodes are object identities, an edge (src, label, dst) says that
   GetAttr(label) on src yields dst.  Edges marked [e_mem] are entries of a module's attribute tables
   (object/module.go: builtins, globalsIndex) - the only thing Module.Override edits; the others are
   computed by GetAttr (__name__, __module__, spawn, methods).

   [apply_config] mirrors risor_config.go: init = applyDefaultGlobals; applyDenylist; applyOverrides,
   with removeModuleAttr / resolveModule as they are written (resolveModule walks nested modules one by one).
   Definitions only; proofs are in proofs/GlobalsProofs.v. *)
From Coq Require Import List Bool String Ascii PArith.
Require Import RV.model.Graph.
Import ListNotations.
Open Scope string_scope.

Record edge := E { e_src : node; e_lbl : string; e_mem : bool; e_dst : node }.

Notation heap := (list edge) (only parsing).
Notation env := (list (string * positive)) (only parsing).

(* the environment cfg.globals, the object heap, and which nodes are *object.Module *)
Record world := W { w_env : env; w_heap : heap; w_mods : list node }.

Definition is_module (mods : list node) (n : node) : bool := existsb (Pos.eqb n) mods.

(* ---- environment (a Go map: at most one entry per key) *)
Definition env_get (e : env) (x : string) : option node :=
  match find (fun p => String.eqb (fst p) x) e with Some p => Some (snd p) | None => None end.
Definition env_del (e : env) (x : string) : env := filter (fun p => negb (String.eqb (fst p) x)) e.
Definition env_set (e : env) (x : string) (v : node) : env := env_del e x ++ [(x, v)].

(* ---- object.GetAttr *)
Definition edge_at (n : node) (a : string) (e : edge) : bool := Pos.eqb (e_src e) n && String.eqb (e_lbl e) a.
Definition get_attr (h : heap) (n : node) (a : string) : option node :=
  match find (edge_at n a) h with Some e => Some (e_dst e) | None => None end.

(* ---- Module.Override(name, value); value nil = delete.  Errors are ignored by the callers. *)
Definition member_at (m : node) (a : string) (e : edge) : bool := edge_at m a e && e_mem e.
Definition override_attr (h : heap) (m : node) (a : string) (v : option node) : heap :=
  if String.eqb a "__name__" then h
  else match v with
       | None => filter (fun e => negb (member_at m a e)) h
       | Some x => map (fun e => if member_at m a e then E (e_src e) (e_lbl e) true x else e) h
       end.

(* ---- strings.Split(s, ".") and strings.SplitN(s, ".", 2) *)
Fixpoint split_dot (s : string) : list string :=
  match s with
  | EmptyString => [EmptyString]
  | String c r =>
      if Ascii.eqb c "." then EmptyString :: split_dot r
      else match split_dot r with
           | [] => [String c EmptyString]
           | x :: xs => String c x :: xs
           end
  end.

Fixpoint cut_dot (s : string) : string * option string :=
  match s with
  | EmptyString => (EmptyString, None)
  | String c r =>
      if Ascii.eqb c "." then (EmptyString, Some r)
      else let (a, b) := cut_dot r in (String c a, b)
  end.

(* ---- resolveModule(m, path): walk the path module by module; every element is looked up in the module found
   so far and must itself be a module (risor_config.go after the repair e1edc7f) *)
Fixpoint resolve_module (h : heap) (mods : list node) (m : node) (path : list string) : option node :=
  match path with
  | [] => Some m
  | name :: rest =>
      match get_attr h m name with
      | Some o => if is_module mods o then resolve_module h mods o rest else None
      | None => None
      end
  end.

(* The rule BEFORE the repair, kept for the regression example only: every element was looked up in the ROOT
   module m, and the last one found was returned. *)
Fixpoint resolve_loop_old (h : heap) (mods : list node) (m : node) (path : list string) (result : option node)
  : option node :=
  match path with
  | [] => result
  | name :: rest =>
      match get_attr h m name with
      | Some o => if is_module mods o then resolve_loop_old h mods m rest (Some o) else None
      | None => None
      end
  end.
Definition resolve_module_old (h : heap) (mods : list node) (m : node) (path : list string) : option node :=
  match path with [] => Some m | _ => resolve_loop_old h mods m path None end.

(* ---- removeModuleAttr(m, attr) *)
Definition remove_module_attr (h : heap) (mods : list node) (m : node) (attr : string) : heap :=
  match rev (split_dot attr) with
  | [] => h
  | [a] => override_attr h m a None
  | name :: rpath =>
      match resolve_module h mods m (rev rpath) with
      | Some t => override_attr h t name None
      | None => h
      end
  end.

(* ---- one denylist entry (applyDenylist) *)
Definition apply_deny (w : world) (name : string) : world :=
  match cut_dot name with
  | (_, None) => W (env_del (w_env w) name) (w_heap w) (w_mods w)
  | (moduleName, Some attr) =>
      match env_get (w_env w) moduleName with
      | Some m => if is_module (w_mods w) m
                  then W (w_env w) (remove_module_attr (w_heap w) (w_mods w) m attr) (w_mods w)
                  else w
      | None => w
      end
  end.

(* ---- one override entry (applyOverrides); the value is a valid object (node v) *)
Definition apply_override (w : world) (ov : string * node) : world :=
  let (name, v) := ov in
  match split_dot name with
  | [] => w
  | [_] => W (env_set (w_env w) name v) (w_heap w) (w_mods w)
  | moduleName :: rest =>
      match env_get (w_env w) moduleName with
      | Some m =>
          if is_module (w_mods w) m then
            match resolve_module (w_heap w) (w_mods w) m (removelast rest) with
            | Some t => W (w_env w) (override_attr (w_heap w) t (last rest "") (Some v)) (w_mods w)
            | None => w
            end
          else w
      | None => w
      end
  end.

(* ---- Config: options, then init *)
Record config := Cfg {
  c_nodefaults : bool;            (* WithoutDefaultGlobals *)
  c_extra : env;                  (* WithGlobals / WithGlobal *)
  c_deny : list string;           (* WithoutGlobal(s) *)
  c_over : list (string * node)   (* WithGlobalOverride *)
}.

(* [defaults] = the fresh default globals of THIS Config instance (its env, in a heap that may also hold other
   instances).  applyDefaultGlobals writes the defaults over what WithGlobals put there. *)
Definition initial_env (defaults : env) (c : config) : env :=
  if c_nodefaults c then c_extra c
  else fold_left (fun e p => env_set e (fst p) (snd p)) defaults (c_extra c).

Definition apply_config (defaults : world) (c : config) : world :=
  let w0 := W (initial_env (w_env defaults) c) (w_heap defaults) (w_mods defaults) in
  let w1 := fold_left apply_deny (c_deny c) w0 in
  fold_left apply_override (c_over c) w1.

Definition deny1 (name : string) : config := Cfg false [] [name] [].
Definition override1 (name : string) (v : node) : config := Cfg false [] [] [(name, v)].

(* ---- options (risor_options.go).  A Config is what a SEQUENCE of options leaves in its fields: every option is a
   function on the Config and they are applied in the order given (NewConfig), then init runs.  globals, denylist and
   overrides are Go maps: WithGlobal(s) and WithGlobalOverride keep the LAST value given for a key, WithoutGlobal and
   WithoutGlobals(names...) ADD to the deny set whatever came before. *)
Inductive opt :=
| OptNoDefaults                            (* WithoutDefaultGlobals() *)
| OptGlobal (x : string) (v : node)        (* WithGlobal(x, v) *)
| OptGlobals (e : env)                     (* WithGlobals(map) *)
| OptWithout (x : string)                  (* WithoutGlobal(x) *)
| OptWithoutMany (xs : list string)        (* WithoutGlobals(xs...) *)
| OptOverride (x : string) (v : node).     (* WithGlobalOverride(x, v) *)

Definition deny_add (l : list string) (x : string) : list string :=
  if existsb (String.eqb x) l then l else l ++ [x].
Definition over_set (l : list (string * node)) (x : string) (v : node) : list (string * node) :=
  filter (fun p => negb (String.eqb (fst p) x)) l ++ [(x, v)].

Definition apply_opt (c : config) (o : opt) : config :=
  match o with
  | OptNoDefaults => Cfg true (c_extra c) (c_deny c) (c_over c)
  | OptGlobal x v => Cfg (c_nodefaults c) (env_set (c_extra c) x v) (c_deny c) (c_over c)
  | OptGlobals e => Cfg (c_nodefaults c) (fold_left (fun a p => env_set a (fst p) (snd p)) e (c_extra c)) (c_deny c) (c_over c)
  | OptWithout x => Cfg (c_nodefaults c) (c_extra c) (deny_add (c_deny c) x) (c_over c)
  | OptWithoutMany xs => Cfg (c_nodefaults c) (c_extra c) (fold_left deny_add xs (c_deny c)) (c_over c)
  | OptOverride x v => Cfg (c_nodefaults c) (c_extra c) (c_deny c) (over_set (c_over c) x v)
  end.

Definition empty_config : config := Cfg false [] [] [].
Definition config_of (opts : list opt) : config := fold_left apply_opt opts empty_config.

(* the names an option list denies, and the names it overrides *)
Definition opt_denies (o : opt) (x : string) : Prop :=
  match o with OptWithout y => y = x | OptWithoutMany ys => In x ys | _ => False end.
Definition denied_by (opts : list opt) (x : string) : Prop := exists o, In o opts /\ opt_denies o x.
Definition overridden_by (opts : list opt) (x : string) : Prop := exists v, In (OptOverride x v) opts.

(* ---- object.NewBuiltinsModule(name, contents), called by a host to put a module together out of objects it already
   has: a new module object n whose stored attributes are the given objects; every *Builtin among them is re-parented
   (its computed attribute __module__ yields n from then on).  A builtin is an object that has a computed __module__
   attribute. *)
Definition reparent (n : node) (bs : list node) (e : edge) : edge :=
  if String.eqb (e_lbl e) "__module__" && negb (e_mem e) && existsb (Pos.eqb (e_src e)) bs
  then E (e_src e) (e_lbl e) false n else e.
Definition assemble (w : world) (n : node) (members : list (string * node)) : world :=
  W (w_env w)
    (map (reparent n (map snd members)) (w_heap w) ++ map (fun p => E n (fst p) true (snd p)) members)
    (n :: w_mods w).

(* ---- what a script can do: follow a name / an attribute chain *)
Fixpoint walk (h : heap) (n : node) (path : list string) : option node :=
  match path with
  | [] => Some n
  | a :: r => match get_attr h n a with Some m => walk h m r | None => None end
  end.
Definition lookup_path (w : world) (p : list string) : option node :=
  match p with
  | [] => None
  | x :: r => match env_get (w_env w) x with Some n => walk (w_heap w) n r | None => None end
  end.
Definition lookup_name (w : world) (name : string) : option node := lookup_path w (split_dot name).

(* The access paths of a script: an identifier; an import statement (resolves among the globals that are
   modules: vm.modules is seeded from them); attribute syntax x.a and the builtin getattr(x, "a") (both are
   GetAttr), which includes the back-reference __module__ of a builtin. *)
Inductive Access (w : world) : node -> Prop :=
| acc_ident : forall x n, env_get (w_env w) x = Some n -> Access w n
| acc_import : forall x n, env_get (w_env w) x = Some n -> is_module (w_mods w) n = true -> Access w n
| acc_attr : forall n a m, Access w n -> get_attr (w_heap w) n a = Some m -> Access w m
| acc_getattr : forall n a m, Access w n -> get_attr (w_heap w) n a = Some m -> Access w m.

(* ---- the unlabelled view used for reachability *)
Definition edges_of (h : heap) : graph := map (fun e => (e_src e, e_dst e)) h.
Definition env_nodes (e : env) : list node := map snd e.
Definition world_reach (w : world) : option PS.t :=
  let g := edges_of (w_heap w) in
  let r := env_nodes (w_env w) in
  reachable_set (default_fuel g r) g r.

(* ---- the registered names of a world: globals, and "module.member" for the members of module globals *)
Definition members_of (h : heap) (m : node) : list string :=
  map e_lbl (filter (fun e => Pos.eqb (e_src e) m && e_mem e) h).
Definition names (w : world) : list string :=
  map fst (w_env w) ++
  flat_map (fun p => if is_module (w_mods w) (snd p)
                     then map (fun a => fst p ++ "." ++ a) (members_of (w_heap w) (snd p))
                     else []) (w_env w).

(* ---- a dotted name from its components: strings.Join(parts, ".") *)
Fixpoint dotted (parts : list string) : string :=
  match parts with
  | [] => ""
  | [x] => x
  | x :: r => x ++ String "." (dotted r)
  end.

(* ---- well-formedness: GetAttr is a function, global names are unique, names carry no dot *)
Fixpoint has_dot (s : string) : bool :=
  match s with EmptyString => false | String c r => Ascii.eqb c "." || has_dot r end.
Fixpoint nodup_keys {A} (eqb : A -> A -> bool) (l : list A) : bool :=
  match l with [] => true | x :: r => negb (existsb (eqb x) r) && nodup_keys eqb r end.
Definition edge_key_eqb (e1 e2 : edge) : bool := Pos.eqb (e_src e1) (e_src e2) && String.eqb (e_lbl e1) (e_lbl e2).
Definition wf_world (w : world) : bool :=
  nodup_keys edge_key_eqb (w_heap w) &&
  nodup_keys String.eqb (map fst (w_env w)) &&
  forallb (fun p => negb (has_dot (fst p))) (w_env w) &&
  forallb (fun e => negb (e_mem e) || negb (has_dot (e_lbl e)) && negb (String.eqb (e_lbl e) "__name__")) (w_heap w).

(* ---- a restricted module assembled by the host from stored members of a global module x (those whose name
   satisfies [keep]), installed (1) with WithGlobalOverride(x, n) and (2) under a new name next to WithoutGlobal(x):
   the full module object must not be reachable in either configuration *)
Definition stored_members (h : heap) (m : node) : list (string * node) :=
  map (fun e => (e_lbl e, e_dst e)) (filter (fun e => Pos.eqb (e_src e) m && e_mem e) h).
Definition restricted (w : world) (n m : node) (keep : string -> bool) : world :=
  assemble w n (filter (fun p => keep (fst p)) (stored_members (w_heap w) m)).
Definition beside (x : string) (n : node) : config := Cfg false [("safe_" ++ x, n)] [x] [].
Definition check_assemble (w : world) (n : node) (keep : string -> bool) (x : string) : bool :=
  match env_get (w_env w) x with
  | None => false
  | Some m =>
      if is_module (w_mods w) m then
        match world_reach (apply_config (restricted w n m keep) (override1 x n)),
              world_reach (apply_config (restricted w n m keep) (beside x n)) with
        | Some s1, Some s2 => negb (PS.mem m s1) && negb (PS.mem m s2) && PS.mem n s1 && PS.mem n s2
        | _, _ => false
        end
      else true
  end.

(* ---- decision procedures used by the finite-domain theorems *)
Definition check_deny (w : world) (name : string) : bool :=
  match lookup_name w name with
  | None => false
  | Some o => match world_reach (apply_config w (deny1 name)) with
              | Some s => negb (PS.mem o s)
              | None => false
              end
  end.

Definition check_override (w : world) (v : node) (name : string) : bool :=
  match lookup_name w name with
  | None => false
  | Some o =>
      let w' := apply_config w (override1 name v) in
      match world_reach w', lookup_name w' name with
      | Some s, Some x => Pos.eqb x v && PS.mem v s && negb (PS.mem o s)
      | _, _ => false
      end
  end.
