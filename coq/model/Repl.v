(* Reduced model of incremental (REPL-style) evaluation: a program is a list of top-level
   statements; a statement is a function from the global store to an outcome.  The whole-program
   run executes the statements in order and stops at the first failure; the incremental run feeds
   the same statements in consecutive pieces to one evaluator that keeps the store, skips pieces
   that are rejected before execution (rejected pieces are INERT: that is what the repaired
   pipeline guarantees for parse rejections and what the known finding is about for compile
   rejections), and after a failing piece continues with the next piece on the store the failing
   piece left behind. *)
From Coq Require Import List Bool.
Import ListNotations.

Section Repl.
  Variable store value : Type.
  (* a statement either completes with a new store and a value, or fails leaving a store *)
  Inductive outcome := Done (s : store) (v : value) | Fail (s : store).
  Definition stmt := store -> outcome.
  Variable nilv : value.

  (* whole program: statements in order, stop at the first failure *)
  Fixpoint run_stmts (l : list stmt) (s : store) (last : value) : outcome :=
    match l with
    | [] => Done s last
    | st :: r => match st s with
                 | Done s' v => run_stmts r s' v
                 | Fail s' => Fail s'
                 end
    end.

  (* a piece: accepted statements, or rejected source text (never executed) *)
  Inductive piece := Accepted (l : list stmt) | Rejected.

  (* incremental: store after all pieces, and the per-piece results *)
  Inductive presult := PVal (v : value) | PFail | PRejected.
  Fixpoint run_pieces (ps : list piece) (s : store) : store * list presult :=
    match ps with
    | [] => (s, [])
    | Rejected :: r => let '(s', rs) := run_pieces r s in (s', PRejected :: rs)
    | Accepted l :: r =>
        match run_stmts l s nilv with
        | Done s1 v => let '(s', rs) := run_pieces r s1 in (s', PVal v :: rs)
        | Fail s1 => let '(s', rs) := run_pieces r s1 in (s', PFail :: rs)
        end
    end.

  Definition accepted_stmts (ps : list piece) : list stmt :=
    flat_map (fun p => match p with Accepted l => l | Rejected => [] end) ps.
  Definition drop_rejected (ps : list piece) : list piece :=
    filter (fun p => match p with Rejected => false | _ => true end) ps.
  Definition no_failure (ps : list piece) (s : store) : Prop :=
    exists s' v, run_stmts (accepted_stmts ps) s nilv = Done s' v.
End Repl.
