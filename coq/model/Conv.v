(* Model of the Go <-> script value boundary (C08).  Definitions only; proofs in proofs/ConvProofs.v.

   object/typeconv.go   createTypeConverter / getTypeConverter (converter chosen by reflect.Kind, then by
                        type), the *Converter.From / To methods with their `.(int64)`-style assertions on the
                        UNNAMED type, Slice/Array/Map/Pointer/Struct/Dynamic converters built with reflect
   object/proxy.go      Proxy.GetAttr / SetAttr / call (reflect.Value.Set, reflect.Value.Call: assignability)
   object/go_field.go   newGoField (a struct-typed field is given the converter of the POINTER type)
   object/go_type.go    GoType.GetConverter (getTypeConverter: kind table first)
   Object.Interface()   the way a result goes back to Go dynamically typed

   Outcomes: Ok | Err (rejected with an error) | Panic (a Go panic: type assertion, reflect.Set / Append /
   Call with a non-assignable value, index out of range, zero reflect.Value) | Unsup (outside the modelled
   arithmetic: inexact float conversions). *)
From Coq Require Import List Bool Arith NArith ZArith Lia.
Import ListNotations.
Local Open Scope Z_scope.

Notation str := (list N).

Inductive ikind := KInt | KInt8 | KInt16 | KInt32 | KInt64 | KUint | KUint8 | KUint16 | KUint32 | KUint64.

Inductive gotype :=
| TBool | TInt (k : ikind) | TFloat32 | TFloat64 | TString | TTime
| TNamed (id : N) (u : gotype)          (* declared type with a non-struct underlying type; u is never TNamed *)
| TPtr (t : gotype) | TSlice (t : gotype) | TArray (n : nat) (t : gotype) | TMap (t : gotype)   (* map[string]t *)
| TStruct (id : N) (fs : list (str * gotype))   (* a struct type, identified by id *)
| TIface.                               (* interface{} *)

Inductive goval :=
| GBool (b : bool) | GInt (z : Z) | GFloat (bits : N) | GStr (s : str) | GTime (t : Z)
| GNil                                   (* nil pointer / slice / map / interface *)
| GRef (cell : nat) (path : list nat)    (* non-nil pointer to a struct: heap cell and field path inside it *)
| GBox (v : goval)                       (* non-nil pointer to a non-struct value *)
| GSlice (l : list goval) | GArray (l : list goval) | GMap (m : list (str * goval))
| GStruct (fs : list goval)
| GDyn (t : gotype) (v : goval).         (* non-nil interface: dynamic type and value *)

Inductive robj :=
| RNil | RBool (b : bool) | RInt (z : Z) | RByte (n : Z) | RFloat (bits : N) | RStr (s : str) | RTime (t : Z)
| RList (l : list robj) | RMap (m : list (str * robj))
| RBytes (isnil : bool) (l : list Z) | RFloats (isnil : bool) (l : list N)   (* wrap the Go slice itself: a nil slice stays nil *)
| RProxy (t : gotype) (cell : nat) (path : list nat)     (* wraps a pointer into the Go heap (aliases Go memory) *)
| RProxyNil (t : gotype)                                  (* wraps a nil struct pointer *)
| RProxyOwn (t : gotype) (v : goval).                     (* wraps a pointer to a private COPY of a struct value *)

Inductive res (A : Type) := Ok (a : A) | Err | Panic | Unsup.
Arguments Ok {A} a. Arguments Err {A}. Arguments Panic {A}. Arguments Unsup {A}.
Definition bind {A B} (r : res A) (f : A -> res B) : res B :=
  match r with Ok a => f a | Err => Err | Panic => Panic | Unsup => Unsup end.
Notation "'do' x <- r ;; k" := (bind r (fun x => k)) (at level 200, x name, r at level 100, k at level 200).

(* ---------- integers ---------- *)
Definition ik_bits (k : ikind) : Z :=
  match k with KInt8 | KUint8 => 8 | KInt16 | KUint16 => 16 | KInt32 | KUint32 => 32 | _ => 64 end.
Definition ik_signed (k : ikind) : bool :=
  match k with KInt | KInt8 | KInt16 | KInt32 | KInt64 => true | _ => false end.
Definition ik_min (k : ikind) : Z := if ik_signed k then - 2 ^ (ik_bits k - 1) else 0.
Definition ik_max (k : ikind) : Z := if ik_signed k then 2 ^ (ik_bits k - 1) - 1 else 2 ^ (ik_bits k) - 1.
Definition in_range (k : ikind) (z : Z) : bool := (ik_min k <=? z) && (z <=? ik_max k).
(* Go integer conversion T(x): keep the low bits, reinterpret *)
Definition wrap (k : ikind) (z : Z) : Z :=
  let m := 2 ^ ik_bits k in
  let r := z mod m in
  if ik_signed k then (if r <? m / 2 then r else r - m) else r.
Definition wrap64 (z : Z) : Z := wrap KInt64 z.

(* ---------- float64 bit patterns ---------- *)
Definition f_sign (b : N) : bool := N.testbit b 63.
Definition f_exp (b : N) : Z := Z.of_N (N.land (N.shiftr b 52) 2047).
Definition f_mant (b : N) : Z := Z.of_N (N.land b 4503599627370495).       (* 2^52 - 1 *)
(* truncation toward zero of a finite float that fits int64; None otherwise (NaN, Inf, too large) *)
Definition float_trunc (b : N) : option Z :=
  let e := f_exp b in
  if e =? 2047 then None
  else if e =? 0 then Some 0
  else
    let m := 2 ^ 52 + f_mant b in
    let sh := e - 1075 in
    let a := if 0 <=? sh then (if sh <? 11 then Some (m * 2 ^ sh) else None) else Some (m / 2 ^ (- sh)) in
    match a with
    | Some a => Some (if f_sign b then - a else a)
    | None => None
    end.
(* float64(z) for |z| < 2^53 (exact); None otherwise *)
Definition float_of_Z (z : Z) : option N :=
  if z =? 0 then Some 0%N
  else
    let a := Z.abs z in
    if 2 ^ 53 <=? a then None
    else
      let e := Z.log2 a in
      let m := a * 2 ^ (52 - e) - 2 ^ 52 in
      let bits := (1023 + e) * 2 ^ 52 + m + (if z <? 0 then 2 ^ 63 else 0) in
      Some (Z.to_N bits).
(* is the float64 value exactly representable as a float32? (the model represents a float32 by the bits of its
   float64 widening) : zero, or normal float32 range with 29 low mantissa bits clear, or Inf/NaN *)
Definition is_f32 (b : N) : bool :=
  let e := f_exp b in
  let m := f_mant b in
  ((e =? 0) && (m =? 0)) || (e =? 2047) ||
  ((897 <=? e) && (e <=? 1150) && (m mod 2 ^ 29 =? 0)).

(* ---------- types ---------- *)
Definition under (t : gotype) : gotype := match t with TNamed _ u => u | _ => t end.
(* Go's "named (defined) type": the predeclared scalar types are named types too; type literals are not *)
Definition is_named (t : gotype) : bool :=
  match t with TPtr _ | TSlice _ | TArray _ _ | TMap _ | TIface => false | _ => true end.
(* kinds served by the kind table of getTypeConverter (assertion on the unnamed type in From) *)
Definition scalar_kind (t : gotype) : bool :=
  match under t with TBool | TInt _ | TFloat32 | TFloat64 | TString => true | _ => false end.

Fixpoint ikind_eqb (a b : ikind) : bool :=
  match a, b with
  | KInt, KInt | KInt8, KInt8 | KInt16, KInt16 | KInt32, KInt32 | KInt64, KInt64
  | KUint, KUint | KUint8, KUint8 | KUint16, KUint16 | KUint32, KUint32 | KUint64, KUint64 => true
  | _, _ => false
  end.

(* type identity: struct and named types by id, the rest structurally *)
Fixpoint type_eqb (a b : gotype) : bool :=
  match a, b with
  | TBool, TBool | TFloat32, TFloat32 | TFloat64, TFloat64 | TString, TString | TTime, TTime | TIface, TIface => true
  | TInt k, TInt k' => ikind_eqb k k'
  | TNamed i _, TNamed j _ => N.eqb i j
  | TPtr x, TPtr y | TSlice x, TSlice y | TMap x, TMap y => type_eqb x y
  | TArray n x, TArray m y => Nat.eqb n m && type_eqb x y
  | TStruct i _, TStruct j _ => N.eqb i j
  | _, _ => false
  end.

(* reflect's assignability of a value of dynamic type [dyn] to a location of type [target] *)
Definition assignable (target dyn : gotype) : bool :=
  type_eqb target dyn
  || (match target with TIface => true | _ => false end)
  || (type_eqb (under target) (under dyn) && (negb (is_named target) || negb (is_named dyn))).

(* ---------- the Go heap: struct cells addressed by pointers ---------- *)
Notation heap := (list goval).

Fixpoint get_path (v : goval) (p : list nat) : option goval :=
  match p with
  | [] => Some v
  | i :: r => match v with
              | GStruct fs => match nth_error fs i with Some f => get_path f r | None => None end
              | GBox (GStruct fs) => match nth_error fs i with Some f => get_path f r | None => None end
              | _ => None
              end
  end.
Fixpoint set_nth {A} (l : list A) (i : nat) (x : A) : list A :=
  match l, i with
  | [], _ => []
  | _ :: r, O => x :: r
  | a :: r, S j => a :: set_nth r j x
  end.
Fixpoint set_path (v : goval) (p : list nat) (x : goval) : option goval :=
  match p with
  | [] => Some x
  | i :: r => match v with
              | GStruct fs => match nth_error fs i with
                              | Some f => match set_path f r x with
                                          | Some f' => Some (GStruct (set_nth fs i f'))
                                          | None => None
                                          end
                              | None => None
                              end
              | GBox (GStruct fs) => match nth_error fs i with
                                     | Some f => match set_path f r x with
                                                 | Some f' => Some (GBox (GStruct (set_nth fs i f')))
                                                 | None => None
                                                 end
                                     | None => None
                                     end
              | _ => None
              end
  end.
Definition heap_get (h : heap) (c : nat) (p : list nat) : option goval :=
  match nth_error h c with Some v => get_path v p | None => None end.
Definition heap_set (h : heap) (c : nat) (p : list nat) (x : goval) : option heap :=
  match nth_error h c with
  | Some v => match set_path v p x with Some v' => Some (set_nth h c v') | None => None end
  | None => None
  end.

(* ---------- From: Go value -> script object ---------- *)
(* [direct] = the converter came from getTypeConverter (a struct field, a method parameter or result): the kind
   table is consulted before the type table, so a uint8 is an int, not a byte.  Otherwise createTypeConverter
   (globals, elements of slices/arrays/maps, pointees) finds byte in the type table first. *)
Definition from_scalar (direct : bool) (t : gotype) (v : goval) : res robj :=
  match t, v with
  | TBool, GBool b => Ok (RBool b)
  | TInt KUint8, GInt z => if direct then Ok (RInt z) else Ok (RByte z)
  | TInt _, GInt z => Ok (RInt (wrap64 z))              (* int64(uint64(x)) wraps *)
  | TFloat32, GFloat b | TFloat64, GFloat b => Ok (RFloat b)
  | TString, GStr s => Ok (RStr s)
  | _, _ => Panic
  end.

Definition all_bytes (l : list goval) : option (list Z) :=
  fold_right (fun v acc => match v, acc with GInt z, Some r => Some (z :: r) | _, _ => None end) (Some []) l.
Definition all_floats (l : list goval) : option (list N) :=
  fold_right (fun v acc => match v, acc with GFloat b, Some r => Some (b :: r) | _, _ => None end) (Some []) l.

Fixpoint from_go (direct : bool) (t : gotype) (v : goval) {struct v} : res robj :=
  let elems := fix elems (et : gotype) (l : list goval) : res (list robj) :=
    match l with
    | [] => Ok []
    | x :: r => do o <- from_go false et x ;; do os <- elems et r ;; Ok (o :: os)
    end in
  let entries := fix entries (et : gotype) (m : list (str * goval)) : res (list (str * robj)) :=
    match m with
    | [] => Ok []
    | (k, x) :: r => do o <- from_go false et x ;; do os <- entries et r ;; Ok ((k, o) :: os)
    end in
  match t with
  | TNamed _ u =>
      if scalar_kind t then Panic                          (* obj.(int64) on a value of a named type *)
      else
        match u, v with
        | TSlice et, GSlice l => do os <- elems et l ;; Ok (RList os)
        | TSlice _, GNil => Ok (RList [])
        | TArray _ et, GArray l => do os <- elems et l ;; Ok (RList os)
        | TMap et, GMap m => do os <- entries et m ;; Ok (RMap os)
        | TMap _, GNil => Ok (RMap [])
        | TPtr (TStruct _ _), GRef c p | TPtr TTime, GRef c p => Ok (RProxy t c p)
        | TPtr (TStruct _ _), GNil | TPtr TTime, GNil => Ok (RProxyNil t)
        | TPtr (TStruct _ _), GBox x | TPtr TTime, GBox x => Ok (RProxyOwn t x)
        | TPtr pt, GNil => Ok RNil
        | TPtr pt, GBox x => from_go false pt x
        | _, _ => Panic
        end
  | TBool | TInt _ | TFloat32 | TFloat64 | TString => from_scalar direct t v
  | TTime => match v with GTime z => Ok (RTime z) | _ => Panic end
  | TSlice (TInt KUint8) =>                                 (* []byte is in the type table *)
      match v with
      | GSlice l => match all_bytes l with Some bs => Ok (RBytes false bs) | None => Panic end
      | GNil => Ok (RBytes true [])
      | _ => Panic
      end
  | TSlice TFloat64 =>                                      (* []float64 is in the type table *)
      match v with
      | GSlice l => match all_floats l with Some fs => Ok (RFloats false fs) | None => Panic end
      | GNil => Ok (RFloats true [])
      | _ => Panic
      end
  | TSlice et =>
      match v with
      | GSlice l => do os <- elems et l ;; Ok (RList os)
      | GNil => Ok (RList [])
      | _ => Panic
      end
  | TArray _ et => match v with GArray l => do os <- elems et l ;; Ok (RList os) | _ => Panic end
  | TMap et =>
      match v with
      | GMap m => do os <- entries et m ;; Ok (RMap os)
      | GNil => Ok (RMap [])
      | _ => Panic
      end
  | TPtr (TStruct _ _) | TPtr TTime =>                      (* pointer to struct (time.Time is one): a proxy around the pointer *)
      match v with
      | GRef c p => Ok (RProxy t c p)
      | GNil => Ok (RProxyNil t)
      | GBox x => Ok (RProxyOwn t x)                         (* a pointee that lives outside the modelled heap cells *)
      | _ => Panic
      end
  | TPtr pt =>
      match v with
      | GNil => Ok RNil                                      (* v.IsZero() *)
      | GBox x => from_go false pt x
      | _ => Panic
      end
  | TStruct _ _ =>                                          (* struct value: a proxy around a pointer to a copy *)
      match v with GStruct _ => Ok (RProxyOwn (TPtr t) v) | _ => Panic end
  | TIface =>
      match v with
      | GNil => Ok RNil
      | GDyn dt x => from_go false dt x                      (* NewTypeConverter(reflect.TypeOf(obj)) *)
      | _ => Panic
      end
  end.

(* a struct FIELD of struct type is read through the address of the field: the proxy aliases the parent *)
Definition from_field (ft : gotype) (v : goval) (cell : nat) (path : list nat) : res robj :=
  match ft with
  | TStruct _ _ | TTime => Ok (RProxy (TPtr ft) cell path)
  | TPtr (TStruct _ _) | TPtr TTime =>
      match v with
      | GBox _ => Ok (RProxy ft cell path)        (* the pointee lives inline: its address is this path *)
      | _ => from_go true ft v
      end
  | _ => from_go true ft v
  end.

(* ---------- Object.Interface(): the dynamically typed way back ---------- *)
Fixpoint iface_of (o : robj) : goval :=
  match o with
  | RNil => GNil
  | RBool b => GDyn TBool (GBool b)
  | RInt z => GDyn (TInt KInt64) (GInt z)
  | RByte z => GDyn (TInt KUint8) (GInt z)
  | RFloat b => GDyn TFloat64 (GFloat b)
  | RStr s => GDyn TString (GStr s)
  | RTime z => GDyn TTime (GTime z)
  | RList l => GDyn (TSlice TIface) (GSlice (map iface_of l))
  | RMap m => GDyn (TMap TIface) (GMap (map (fun kv => (fst kv, iface_of (snd kv))) m))
  | RBytes isnil l => GDyn (TSlice (TInt KUint8)) (if isnil then GNil else GSlice (map GInt l))
  | RFloats isnil l => GDyn (TSlice TFloat64) (if isnil then GNil else GSlice (map GFloat l))
  | RProxy t c p => GDyn t (GRef c p)
  | RProxyNil t => GDyn t GNil
  | RProxyOwn t v => GDyn t (GBox v)                         (* pointer to the private copy *)
  end.

(* ---------- To: script object -> Go value of dynamic type ---------- *)
(* result: the dynamic type of the produced Go value and the value; [None] = a nil interface{} (the converter
   returned nil: reflect.ValueOf(nil) is the zero Value) *)
Notation tv := (option (gotype * goval)).

Definition to_int (k : ikind) (o : robj) : res tv :=
  match o with
  | RInt z | RByte z => Ok (Some (TInt k, GInt (wrap k z)))
  | RFloat b =>
      match float_trunc b with
      | Some z => if in_range k z then Ok (Some (TInt k, GInt z)) else Unsup
      | None => Unsup
      end
  | _ => Err
  end.
Definition to_float (t : gotype) (o : robj) : res tv :=
  match o with
  | RInt z | RByte z => match float_of_Z z with
                        | Some b => if (match t with TFloat32 => is_f32 b | _ => true end) then Ok (Some (t, GFloat b)) else Unsup
                        | None => Unsup
                        end
  | RFloat b => if (match t with TFloat32 => is_f32 b | _ => true end) then Ok (Some (t, GFloat b)) else Unsup
  | _ => Err
  end.

Definition bytes_of_str (s : str) : list goval := map (fun c => GInt (Z.of_N c)) s.

(* the field list of a struct type, for the Map -> struct conversion *)
Fixpoint field_index (fs : list (str * gotype)) (k : str) (i : nat) : option (nat * gotype) :=
  match fs with
  | [] => None
  | (n, t) :: r => if list_eq_dec N.eq_dec n k then Some (i, t) else field_index r k (S i)
  end.

(* zero value of a type *)
Fixpoint zero (t : gotype) : goval :=
  match t with
  | TBool => GBool false
  | TInt _ => GInt 0
  | TFloat32 | TFloat64 => GFloat 0
  | TString => GStr []
  | TTime => GTime 0
  | TNamed _ u => zero u
  | TPtr _ | TSlice _ | TMap _ | TIface => GNil
  | TArray n et => GArray (repeat (zero et) n)
  | TStruct _ fs => GStruct ((fix zs (l : list (str * gotype)) : list goval :=
                                match l with [] => [] | (_, ft) :: r => zero ft :: zs r end) fs)
  end.

Section To.
  Variable h : heap.

  (* reflect.Value.Set / Append / SetMapIndex / Call with the converter's result *)
  Definition place (target : gotype) (r : tv) : res goval :=
    match r with
    | None => Panic                                          (* zero reflect.Value *)
    | Some (dt, v) =>
        if assignable target dt then
          Ok (match target with TIface => GDyn dt v | _ => v end)
        else Panic
    end.

  Fixpoint to_go (fuel : nat) (direct : bool) (t : gotype) (o : robj) {struct fuel} : res tv :=
    match fuel with
    | O => Unsup
    | S f =>
      let elems := fix elems (et : gotype) (l : list robj) : res (list goval) :=
        match l with
        | [] => Ok []
        | x :: r => do tvx <- to_go f false et x ;;
                    do g <- (match tvx with None => Ok (zero et) | Some _ => place et tvx end) ;;   (* nil element: the zero value *)
                    do gs <- elems et r ;; Ok (g :: gs)
        end in
      let entries := fix entries (et : gotype) (m : list (str * robj)) : res (list (str * goval)) :=
        match m with
        | [] => Ok []
        | (k, x) :: r => do tvx <- to_go f false et x ;;
                         do g <- (match tvx with None => Ok (zero et) | Some _ => place et tvx end) ;;   (* nil value: the zero value *)
                         do gs <- entries et r ;; Ok ((k, g) :: gs)
        end in
      match under t with
      | TBool => match o with RBool b => Ok (Some (TBool, GBool b)) | _ => Err end
      | TInt k => to_int k o
      | TFloat32 => to_float TFloat32 o
      | TFloat64 => to_float TFloat64 o
      | TString =>
          match o with
          | RStr s => Ok (Some (TString, GStr s))
          | RBytes _ l => Ok (Some (TString, GStr (map Z.to_N l)))
          | _ => Err
          end
      | TTime => match o with RTime z => Ok (Some (TTime, GTime z)) | RStr _ => Unsup | _ => Err end
      | TSlice et =>
          if (match t, et with TSlice _, TInt KUint8 => true | _, _ => false end) then       (* ByteSliceConverter *)
            match o with
            | RBytes isnil l => Ok (Some (TSlice (TInt KUint8), if isnil then GNil else GSlice (map GInt l)))
            | RStr s => Ok (Some (TSlice (TInt KUint8), GSlice (bytes_of_str s)))
            | _ => Err
            end
          else if (match t, et with TSlice _, TFloat64 => true | _, _ => false end) then     (* FloatSliceConverter *)
            match o with
            | RFloats isnil l => Ok (Some (TSlice TFloat64, if isnil then GNil else GSlice (map GFloat l)))
            | _ => Err
            end
          else
            match o with
            | RNil => Ok None
            | RList l => do gs <- elems et l ;; Ok (Some (TSlice et, GSlice gs))
            | _ => Err
            end
      | TArray n et =>
          match o with
          | RList l =>
              if Nat.ltb n (length l) then Err                                     (* the list does not fit the array *)
              else do gs <- elems et l ;; Ok (Some (TArray n et, GArray (gs ++ repeat (zero et) (n - length l))))
          | _ => Err
          end
      | TMap et =>
          match o with
          | RNil => Ok None
          | RMap m => do gs <- entries et m ;; Ok (Some (TMap et, GMap gs))
          | _ => Err
          end
      | TPtr TTime =>                                        (* StructConverter for *time.Time: no exported fields *)
          match o with
          | RProxy pt c p => Ok (Some (pt, GRef c p))
          | RProxyNil pt => Ok (Some (pt, GNil))
          | RProxyOwn pt v => Ok (Some (pt, GBox v))
          | RMap _ => Ok (Some (TPtr TTime, GBox (GTime 0)))
          | _ => Err
          end
      | TPtr (TStruct sid sfs) =>                            (* StructConverter for the pointer type *)
          match o with
          | RProxy pt c p => Ok (Some (pt, GRef c p))
          | RProxyNil pt => Ok (Some (pt, GNil))
          | RProxyOwn pt v => Ok (Some (pt, GBox v))
          | RMap m =>
              do sv <- struct_of_map f sfs m ;; Ok (Some (TPtr (TStruct sid sfs), GBox sv))
          | _ => Err
          end
      | TPtr pt =>
          match o with
          | RNil => Ok None
          | _ => do r <- to_go f false pt o ;;
                 match r with
                 | None => Panic                                                    (* reflect.New(reflect.TypeOf(nil)) *)
                 | Some (dt, v) => Ok (Some (TPtr dt, GBox v))                      (* pointer to the DYNAMIC type of v *)
                 end
          end
      | TStruct sid sfs =>                                   (* StructConverter for the value type *)
          match o with
          | RProxy pt c p =>                                                        (* no check of the proxied type *)
              match heap_get h c p with
              | Some (GBox v) | Some v => Ok (Some (match under pt with TPtr st => st | x => x end, v))
              | None => Panic
              end
          | RProxyNil _ => Panic                                                    (* Elem() of a nil pointer *)
          | RProxyOwn pt v => Ok (Some (match under pt with TPtr st => st | x => x end, v))
          | RMap m => do sv <- struct_of_map f sfs m ;; Ok (Some (t, sv))
          | _ => Err
          end
      | TIface => Ok (match iface_of o with GDyn dt v => Some (dt, v) | _ => None end)   (* obj.Interface() *)
      | TNamed _ _ => Err                                    (* not reachable: under never yields TNamed *)
      end
    end
  (* a struct from a script map: fields named by the keys are set (through the FIELD converters), others zero *)
  with struct_of_map (fuel : nat) (fs : list (str * gotype)) (m : list (str * robj)) {struct fuel} : res goval :=
    match fuel with
    | O => Unsup
    | S f =>
      let fix go (m : list (str * robj)) (acc : list goval) : res (list goval) :=
        match m with
        | [] => Ok acc
        | (k, x) :: r =>
            match field_index fs k 0 with
            | None => go r acc
            | Some (i, ft) =>
                let ft' := match ft with TStruct _ _ | TTime => TPtr ft | _ => ft end in      (* newGoField *)
                do r1 <- to_go f true ft' x ;;
                match r1 with
                | None => Panic                                                     (* f.Set(reflect.ValueOf(nil)) *)
                | Some (dt, v) => if assignable ft dt
                                  then go r (set_nth acc i (match ft with TIface => GDyn dt v | _ => v end)) else Panic
                end
            end
        end in
      do vs <- go m (match zero (TStruct 0%N fs) with GStruct z => z | _ => [] end) ;; Ok (GStruct vs)
    end.
End To.

(* ---------- Proxy.GetAttr / SetAttr on a field ---------- *)
Definition struct_fields (pt : gotype) : list (str * gotype) :=
  match pt with TPtr (TStruct _ fs) => fs | TStruct _ fs => fs | _ => [] end.

Definition get_attr (h : heap) (o : robj) (name : str) : res robj :=
  match o with
  | RProxy pt c p =>
      match field_index (struct_fields (under pt)) name 0 with
      | None => Err
      | Some (i, ft) =>
          match heap_get h c (p ++ [i]) with
          | Some v => from_field ft v c (p ++ [i])
          | None => Panic
          end
      end
  | RProxyOwn pt (GStruct vs) =>
      match field_index (struct_fields (under pt)) name 0 with
      | None => Err
      | Some (i, ft) =>
          match nth_error vs i with
          | Some v => match ft with
                      | TStruct _ _ | TTime => Ok (RProxyOwn (TPtr ft) v)
                      | _ => from_go true ft v
                      end
          | None => Panic
          end
      end
  | RProxyNil _ => Panic                                      (* Elem() of a nil pointer *)
  | _ => Err
  end.

(* Proxy.SetAttr: what field.Set stores for the converter's result (dt, v) in a field of type ft.  The converter of
   a struct-typed field (time.Time included) works on the pointer type: the pointed-to struct is stored. *)
Definition field_store (h : heap) (ft dt : gotype) (v : goval) : res goval :=
  match ft, dt with
  | TStruct _ _, TPtr et | TTime, TPtr et =>
      match v with
      | GNil => Ok (zero ft)                                          (* rv.IsNil(): SetZero *)
      | GBox x => if assignable ft et then Ok x else Panic
      | GRef c p => match heap_get h c p with
                    | Some (GBox x) | Some x => if assignable ft et then Ok x else Panic
                    | None => Panic
                    end
      | _ => Panic
      end
  | _, _ => if assignable ft dt then Ok (match ft with TIface => GDyn dt v | _ => v end) else Panic
  end.

(* returns the new heap; a write through a proxy that owns a private copy does not reach Go memory *)
Definition set_attr (fuel : nat) (h : heap) (o : robj) (name : str) (x : robj) : res heap :=
  match o with
  | RProxy pt c p =>
      match field_index (struct_fields (under pt)) name 0 with
      | None => Err
      | Some (i, ft) =>
          let ft' := match ft with TStruct _ _ | TTime => TPtr ft | _ => ft end in
          do r <- to_go h fuel true ft' x ;;
          do g <- (match r with
                   | None => Ok (zero ft)                                           (* SetZero *)
                   | Some (dt, v) => field_store h ft dt v
                   end) ;;
          match heap_set h c (p ++ [i]) g with Some h' => Ok h' | None => Panic end
      end
  | RProxyOwn pt _ =>
      match field_index (struct_fields (under pt)) name 0 with
      | None => Err
      | Some (i, ft) =>
          let ft' := match ft with TStruct _ _ | TTime => TPtr ft | _ => ft end in
          do r <- to_go h fuel true ft' x ;;
          do g <- (match r with
                   | None => Ok (zero ft)
                   | Some (dt, v) => field_store h ft dt v
                   end) ;;
          Ok h
      end
  | RProxyNil _ => Panic
  | _ => Err
  end.

(* ---------- Proxy.call: converting the arguments ---------- *)
(* nil arguments become the zero value of the parameter type; surplus arguments are ignored; too few: error *)
Fixpoint call_args (fuel : nat) (h : heap) (params : list gotype) (args : list robj) : res (list goval) :=
  match params with
  | [] => Ok []
  | pt :: pr =>
      match args with
      | [] => Err
      | a :: ar =>
          do g <- (match a with
                   | RNil => Ok (zero pt)
                   | _ => do r <- to_go h fuel true pt a ;;
                          match r with
                          | None => Panic
                          | Some (dt, v) => if assignable pt dt then Ok (match pt with TIface => GDyn dt v | _ => v end) else Panic
                          end
                   end) ;;
          do gs <- call_args fuel h pr ar ;; Ok (g :: gs)
      end
  end.

(* ---------- how WithGlobal hands a value to the script ---------- *)
(* object.AsObjects: an untyped nil is nil; otherwise NewTypeConverter(reflect.TypeOf(v)).From(v) *)
Definition from_global (tvv : option (gotype * goval)) : res robj :=
  match tvv with
  | None => Ok RNil                                           (* case nil: result[k] = Nil *)
  | Some (t, v) => from_go false t v
  end.

(* ---------- static classes used by the theorems ---------- *)
(* no declared non-struct type anywhere *)
Fixpoint no_named (t : gotype) : bool :=
  match t with
  | TNamed _ _ => false
  | TPtr x | TSlice x | TArray _ x | TMap x => no_named x
  | TStruct _ fs => (fix go (l : list (str * gotype)) : bool :=
                       match l with [] => true | (_, ft) :: r => no_named ft && go r end) fs
  | _ => true
  end.

(* ---------- a small script language for the check: what the harness evaluates on both sides ---------- *)
Inductive sexpr :=
| XLit (o : robj)                      (* a literal: nil, bool, int, float, string, list, map, byte(n), byte_slice, float_slice *)
| XGlobal (i : nat)                    (* g<i>: a Go value given with WithGlobal *)
| XCell (i : nat)                      (* c<i>: a pointer to the struct in heap cell i, given with WithGlobal *)
| XAttr (e : sexpr) (name : str)
| XIndex (e : sexpr) (i : nat)         (* e[i] on a list *)
| XList (l : list sexpr) | XMap (m : list (str * sexpr)).

Inductive script :=
| SExpr (e : sexpr)
| SSet (target : sexpr) (name : str) (rhs : sexpr)      (* target.name = rhs ; target.name *)
| SCall (params : list gotype) (args : list sexpr)      (* a method of the receiver zoo, called with args *)
| SRet (t : gotype) (v : goval).                        (* a method of the receiver zoo returning v : t *)

Inductive outc := OOk | OErr | OPanic | OEscaped | OUnsup.
Record result := { r_out : outc; r_obj : option robj; r_heap : heap; r_got : list (gotype * goval) }.

Fixpoint eval (h : heap) (cells : list gotype) (globs : list robj) (e : sexpr) {struct e} : res robj :=
  match e with
  | XLit o => Ok o
  | XGlobal i => match nth_error globs i with Some o => Ok o | None => Err end
  | XCell i => match nth_error cells i with Some t => Ok (RProxy (TPtr t) i []) | None => Err end
  | XAttr e' n => do o <- eval h cells globs e' ;; get_attr h o n
  | XIndex e' i => do o <- eval h cells globs e' ;;
                   match o with RList l => match nth_error l i with Some x => Ok x | None => Err end | _ => Err end
  | XList l =>
      do os <- (fix go (l : list sexpr) : res (list robj) :=
                  match l with [] => Ok [] | x :: r => do o <- eval h cells globs x ;; do os <- go r ;; Ok (o :: os) end) l ;;
      Ok (RList os)
  | XMap m =>
      do os <- (fix go (m : list (str * sexpr)) : res (list (str * robj)) :=
                  match m with [] => Ok [] | (k, x) :: r => do o <- eval h cells globs x ;; do os <- go r ;; Ok ((k, o) :: os) end) m ;;
      Ok (RMap os)
  end.

Fixpoint eval_all (h : heap) (cells : list gotype) (globs : list robj) (l : list sexpr) : res (list robj) :=
  match l with
  | [] => Ok []
  | x :: r => do o <- eval h cells globs x ;; do os <- eval_all h cells globs r ;; Ok (o :: os)
  end.

Fixpoint convert_globals (gs : list (option (gotype * goval))) : res (list robj) :=
  match gs with
  | [] => Ok []
  | g :: r => do o <- from_global g ;; do os <- convert_globals r ;; Ok (o :: os)
  end.

Definition outc_of {A} (r : res A) : outc :=
  match r with Ok _ => OOk | Err => OErr | Panic => OPanic | Unsup => OUnsup end.

Definition fuel0 : nat := 40.

Definition run_case (cells : list gotype) (h : heap) (gs : list (option (gotype * goval))) (s : script) : result :=
  match convert_globals gs with
  | Panic => {| r_out := OEscaped; r_obj := None; r_heap := h; r_got := [] |}      (* vm.New: before any script code runs *)
  | Err => {| r_out := OEscaped; r_obj := None; r_heap := h; r_got := [] |}        (* vm.New panics with the error *)
  | Unsup => {| r_out := OUnsup; r_obj := None; r_heap := h; r_got := [] |}
  | Ok globs =>
      match s with
      | SExpr e =>
          let r := eval h cells globs e in
          {| r_out := outc_of r; r_obj := match r with Ok o => Some o | _ => None end; r_heap := h; r_got := [] |}
      | SSet target n rhs =>
          match eval h cells globs target with
          | Ok t =>
              match eval h cells globs rhs with
              | Ok x =>
                  match set_attr fuel0 h t n x with
                  | Ok h' =>
                      let r := get_attr h' t n in
                      {| r_out := outc_of r; r_obj := match r with Ok o => Some o | _ => None end; r_heap := h'; r_got := [] |}
                  | r => {| r_out := outc_of r; r_obj := None; r_heap := h; r_got := [] |}
                  end
              | r => {| r_out := outc_of r; r_obj := None; r_heap := h; r_got := [] |}
              end
          | r => {| r_out := outc_of r; r_obj := None; r_heap := h; r_got := [] |}
          end
      | SCall params args =>
          match eval_all h cells globs args with
          | Ok os =>
              match call_args fuel0 h params os with
              | Ok gvs =>
                  {| r_out := OOk; r_obj := Some RNil; r_heap := h;
                     r_got := combine (map (fun pg => match fst pg, snd pg with
                                                      | TIface, GDyn dt _ => dt
                                                      | pt, _ => pt end) (combine params gvs))
                                      (map (fun pg => match fst pg, snd pg with
                                                      | TIface, GDyn _ v => v
                                                      | _, v => v end) (combine params gvs)) |}
              | r => {| r_out := outc_of r; r_obj := None; r_heap := h; r_got := [] |}
              end
          | r => {| r_out := outc_of r; r_obj := None; r_heap := h; r_got := [] |}
          end
      | SRet t v =>
          let r := from_go true t v in
          {| r_out := outc_of r; r_obj := match r with Ok o => Some o | _ => None end; r_heap := h; r_got := [] |}
      end
  end.
