(* Natively recursive object operations over a heap that may be cyclic (object/list.go Equals,
   Inspect, Interface, MarshalJSON, ... all recurse into the items of a list without a visited set).
   Fuel stands for the native Go stack: running out of fuel is the fatal, unrecoverable stack
   overflow of the process, not a value. *)
From Coq Require Import List Arith ZArith Bool.
Import ListNotations.

Inductive val := VInt (z : Z) | VRef (l : nat).
Definition heap := list (list val).          (* list objects by location *)

Definition items (h : heap) (l : nat) : list val := nth l h [].

(* List.Equals: same length and item-wise Equals, recursing into nested lists *)
Fixpoint equals (fuel : nat) (h : heap) (a b : val) : option bool :=
  match fuel with
  | O => None
  | S f =>
      match a, b with
      | VInt x, VInt y => Some (Z.eqb x y)
      | VRef la, VRef lb =>
          let xs := items h la in
          let ys := items h lb in
          if negb (Nat.eqb (length xs) (length ys)) then Some false
          else
            (fix all (l : list (val * val)) : option bool :=
               match l with
               | [] => Some true
               | (x, y) :: r =>
                   match equals f h x y with
                   | None => None
                   | Some false => Some false
                   | Some true => all r
                   end
               end) (combine xs ys)
      | _, _ => Some false
      end
  end.

(* List.Inspect / Interface / MarshalJSON: visit every item, recursing into nested lists;
   the result is the number of scalar leaves printed *)
Fixpoint visit (fuel : nat) (h : heap) (a : val) : option nat :=
  match fuel with
  | O => None
  | S f =>
      match a with
      | VInt _ => Some 1
      | VRef l =>
          (fix go (xs : list val) : option nat :=
             match xs with
             | [] => Some 0
             | x :: r => match visit f h x, go r with
                         | Some n, Some m => Some (n + m)
                         | _, _ => None
                         end
             end) (items h l)
      end
  end.

(* a heap is acyclic when locations can be ranked so that items only refer to smaller ranks *)
Definition ranked (h : heap) (rank : nat -> nat) : Prop :=
  forall l x, In x (items h l) -> match x with VRef l' => rank l' < rank l | VInt _ => True end.

Definition vrank (rank : nat -> nat) (v : val) : nat :=
  match v with VInt _ => 0 | VRef l => S (rank l) end.

(* l := [1]; l.append(l) *)
Definition cyclic_heap : heap := [[VInt 1; VRef 0]].
