(* Names of the lexer model's token kinds (the identifiers of token/token.go), used to tie the
   hand-written tables of the parser model to the tables regenerated from the source. *)
From Coq Require Import List String Bool Arith.
Require Import RV.model.Lexer RV.model.Parser.
Import ListNotations.
Local Open Scope string_scope.

Definition all_kinds : list tkind :=
  [Lexer.AND; Lexer.ASSIGN; Lexer.ASTERISK; Lexer.ASTERISK_EQUALS; Lexer.BACKTICK; Lexer.FSTRING; Lexer.BANG; Lexer.CASE; Lexer.COLON; Lexer.COMMA; Lexer.CONST; Lexer.DECLARE; Lexer.DEFAULT; Lexer.DEFER; Lexer.FUNC; Lexer.ELSE; Lexer.EOF; Lexer.EQ; Lexer.FALSE; Lexer.FLOAT; Lexer.FOR; Lexer.GT; Lexer.GT_GT; Lexer.GT_EQUALS; Lexer.GO; Lexer.IDENT; Lexer.IF; Lexer.INT; Lexer.LBRACE; Lexer.LBRACKET; Lexer.LPAREN; Lexer.LT; Lexer.LT_LT; Lexer.LT_EQUALS; Lexer.MINUS; Lexer.MINUS_EQUALS; Lexer.MINUS_MINUS; Lexer.MOD; Lexer.NOT_EQ; Lexer.NIL; Lexer.NOT; Lexer.PIPE; Lexer.OR; Lexer.PERIOD; Lexer.PLUS; Lexer.AMPERSAND; Lexer.PLUS_EQUALS; Lexer.PLUS_PLUS; Lexer.POW; Lexer.QUESTION; Lexer.RBRACE; Lexer.RBRACKET; Lexer.RETURN; Lexer.RPAREN; Lexer.SEMICOLON; Lexer.SEND; Lexer.SLASH; Lexer.SLASH_EQUALS; Lexer.STRING; Lexer.STRUCT; Lexer.SWITCH; Lexer.TRUE; Lexer.NEWLINE; Lexer.IMPORT; Lexer.BREAK; Lexer.CONTINUE; Lexer.VAR; Lexer.IN; Lexer.RANGE; Lexer.FROM; Lexer.AS; Lexer.ILLEGAL; Lexer.EMPTY].

Definition kind_name (k : tkind) : string :=
  match k with
  | Lexer.AND => "AND"
  | Lexer.ASSIGN => "ASSIGN"
  | Lexer.ASTERISK => "ASTERISK"
  | Lexer.ASTERISK_EQUALS => "ASTERISK_EQUALS"
  | Lexer.BACKTICK => "BACKTICK"
  | Lexer.FSTRING => "FSTRING"
  | Lexer.BANG => "BANG"
  | Lexer.CASE => "CASE"
  | Lexer.COLON => "COLON"
  | Lexer.COMMA => "COMMA"
  | Lexer.CONST => "CONST"
  | Lexer.DECLARE => "DECLARE"
  | Lexer.DEFAULT => "DEFAULT"
  | Lexer.DEFER => "DEFER"
  | Lexer.FUNC => "FUNC"
  | Lexer.ELSE => "ELSE"
  | Lexer.EOF => "EOF"
  | Lexer.EQ => "EQ"
  | Lexer.FALSE => "FALSE"
  | Lexer.FLOAT => "FLOAT"
  | Lexer.FOR => "FOR"
  | Lexer.GT => "GT"
  | Lexer.GT_GT => "GT_GT"
  | Lexer.GT_EQUALS => "GT_EQUALS"
  | Lexer.GO => "GO"
  | Lexer.IDENT => "IDENT"
  | Lexer.IF => "IF"
  | Lexer.INT => "INT"
  | Lexer.LBRACE => "LBRACE"
  | Lexer.LBRACKET => "LBRACKET"
  | Lexer.LPAREN => "LPAREN"
  | Lexer.LT => "LT"
  | Lexer.LT_LT => "LT_LT"
  | Lexer.LT_EQUALS => "LT_EQUALS"
  | Lexer.MINUS => "MINUS"
  | Lexer.MINUS_EQUALS => "MINUS_EQUALS"
  | Lexer.MINUS_MINUS => "MINUS_MINUS"
  | Lexer.MOD => "MOD"
  | Lexer.NOT_EQ => "NOT_EQ"
  | Lexer.NIL => "NIL"
  | Lexer.NOT => "NOT"
  | Lexer.PIPE => "PIPE"
  | Lexer.OR => "OR"
  | Lexer.PERIOD => "PERIOD"
  | Lexer.PLUS => "PLUS"
  | Lexer.AMPERSAND => "AMPERSAND"
  | Lexer.PLUS_EQUALS => "PLUS_EQUALS"
  | Lexer.PLUS_PLUS => "PLUS_PLUS"
  | Lexer.POW => "POW"
  | Lexer.QUESTION => "QUESTION"
  | Lexer.RBRACE => "RBRACE"
  | Lexer.RBRACKET => "RBRACKET"
  | Lexer.RETURN => "RETURN"
  | Lexer.RPAREN => "RPAREN"
  | Lexer.SEMICOLON => "SEMICOLON"
  | Lexer.SEND => "SEND"
  | Lexer.SLASH => "SLASH"
  | Lexer.SLASH_EQUALS => "SLASH_EQUALS"
  | Lexer.STRING => "STRING"
  | Lexer.STRUCT => "STRUCT"
  | Lexer.SWITCH => "SWITCH"
  | Lexer.TRUE => "TRUE"
  | Lexer.NEWLINE => "NEWLINE"
  | Lexer.IMPORT => "IMPORT"
  | Lexer.BREAK => "BREAK"
  | Lexer.CONTINUE => "CONTINUE"
  | Lexer.VAR => "VAR"
  | Lexer.IN => "IN"
  | Lexer.RANGE => "RANGE"
  | Lexer.FROM => "FROM"
  | Lexer.AS => "AS"
  | Lexer.ILLEGAL => "ILLEGAL"
  | Lexer.EMPTY => ""
  end.

Definition kind_of_name (s : string) : option tkind :=
  find (fun k => String.eqb (kind_name k) s) all_kinds.

(* the parser model's precedence function against a regenerated (token name, level) table:
   every listed token has the listed level, and every token kind that is not listed has LOWEST *)
Definition precedence_table_ok (tbl : list (string * nat)) : bool :=
  forallb (fun e => match kind_of_name (fst e) with
                    | Some k => Nat.eqb (precedence k) (snd e)
                    | None => false end) tbl
  && forallb (fun k => existsb (fun e => String.eqb (fst e) (kind_name k)) tbl
                       || Nat.eqb (precedence k) LOWEST) all_kinds.
