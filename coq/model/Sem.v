(* Prototype of the source-level definitional interpreter ("Sem"): a tree-walking evaluator over
   the AST with environments and a store, independent of the compiler and the VM.
   Subset: nil, bool, int (int64 wrap), ASCII strings, lists, string-keyed maps, functions and
   closures, all control flow; floats, sets, imports, channels, pipes are Unsupported. *)
From Coq Require Import List ZArith NArith Bool Arith Lia.
Require Import RV.model.Syntax.
Import ListNotations.
Open Scope Z_scope.

Definition loc := nat.

Inductive value :=
| VNil | VBool (b : bool) | VInt (z : Z) | VStr (s : list N)
| VList (l : loc) | VMap (l : loc)
| VClosure (fid : nat)                    (* index into the closure table *)
| VBuiltin (name : list N)
| VMethod (recv : value) (name : list N)  (* bound container method, e.g. l.append *)
| VErrorV (msg : list N).

Inductive errk :=
| XType | XIndex | XKey | XArgs | XDiv0 | XSlice | XUnpack | XNotCallable | XUndefined | XUser | XAttr
| XUnsupported | XFuel.

Inductive outcome :=
| OVal (v : value) | OErr (e : errk) | OBrk | OCont | ORet (v : value).

(* a scope maps names to store locations; the environment is a stack of scopes *)
Definition scope := list (list N * (loc * bool)).      (* name -> (location, is_const) *)
Definition env := list scope.

Record closure := { cl_name : option (list N); cl_params : list (list N); cl_defaults : list (list N * node);
                    cl_body : list node; cl_env : env }.

Record state := {
  store : list value;                 (* variable cells *)
  lists : list (list value);          (* list objects *)
  maps : list (list (list N * value));(* map objects, kept sorted by key *)
  closures : list closure;
  trace : list (list value);          (* arguments of every print() call, in order *)
  defers : list (list (value * list value));  (* per active function call: deferred (callee, arguments), most recent first *)
  pending : option (value * list value);      (* a call to perform: see the marker node in [eval] *)
}.

Definition wrap64 (z : Z) : Z := (z + 9223372036854775808) mod 18446744073709551616 - 9223372036854775808.

Definition beq (a b : list N) : bool := if list_eq_dec N.eq_dec a b then true else false.

Fixpoint assoc {A} (k : list N) (l : list (list N * A)) : option A :=
  match l with [] => None | (k', v) :: r => if beq k k' then Some v else assoc k r end.

Fixpoint lookup (e : env) (name : list N) : option (loc * bool) :=
  match e with [] => None | s :: r => match assoc name s with Some x => Some x | None => lookup r name end end.

Fixpoint list_set {A} (l : list A) (i : nat) (v : A) : list A :=
  match l, i with [], _ => [] | _ :: r, O => v :: r | x :: r, S j => x :: list_set r j v end.

Definition alloc (s : state) (v : value) : loc * state :=
  (length (store s), {| store := store s ++ [v]; lists := lists s; maps := maps s; closures := closures s; trace := trace s; defers := defers s; pending := pending s |}).
Definition set_store (s : state) (l : loc) (v : value) : state :=
  {| store := list_set (store s) l v; lists := lists s; maps := maps s; closures := closures s; trace := trace s; defers := defers s; pending := pending s |}.
Definition new_list (s : state) (vs : list value) : value * state :=
  (VList (length (lists s)), {| store := store s; lists := lists s ++ [vs]; maps := maps s; closures := closures s; trace := trace s; defers := defers s; pending := pending s |}).
Definition set_list (s : state) (l : loc) (vs : list value) : state :=
  {| store := store s; lists := list_set (lists s) l vs; maps := maps s; closures := closures s; trace := trace s; defers := defers s; pending := pending s |}.
Definition new_map (s : state) (kvs : list (list N * value)) : value * state :=
  (VMap (length (maps s)), {| store := store s; lists := lists s; maps := maps s ++ [kvs]; closures := closures s; trace := trace s; defers := defers s; pending := pending s |}).
Definition set_map (s : state) (l : loc) (kvs : list (list N * value)) : state :=
  {| store := store s; lists := lists s; maps := list_set (maps s) l kvs; closures := closures s; trace := trace s; defers := defers s; pending := pending s |}.
Definition new_closure (s : state) (c : closure) : value * state :=
  (VClosure (length (closures s)), {| store := store s; lists := lists s; maps := maps s; closures := closures s ++ [c]; trace := trace s; defers := defers s; pending := pending s |}).
Definition add_trace (s : state) (vs : list value) : state :=
  {| store := store s; lists := lists s; maps := maps s; closures := closures s; trace := trace s ++ [vs]; defers := defers s; pending := pending s |}.

(* byte-wise string order, as Go compares strings *)
Definition set_defers (s : state) (d : list (list (value * list value))) : state :=
  {| store := store s; lists := lists s; maps := maps s; closures := closures s; trace := trace s; defers := d; pending := pending s |}.
Definition set_pending (s : state) (p : option (value * list value)) : state :=
  {| store := store s; lists := lists s; maps := maps s; closures := closures s; trace := trace s; defers := defers s; pending := p |}.
(* the marker node: evaluating it performs the call stored in [pending] (one fuel level down) - this is how
   a function's deferred calls are run from inside [call] *)
Definition apply_marker : node := NIdent [].

Fixpoint str_cmp (a b : list N) : comparison :=
  match a, b with
  | [], [] => Eq | [], _ => Lt | _, [] => Gt
  | x :: a', y :: b' => match N.compare x y with Eq => str_cmp a' b' | c => c end
  end.

Fixpoint map_insert (k : list N) (v : value) (m : list (list N * value)) : list (list N * value) :=
  match m with
  | [] => [(k, v)]
  | (k', v') :: r => match str_cmp k k' with
                     | Eq => (k, v) :: r
                     | Lt => (k, v) :: (k', v') :: r
                     | Gt => (k', v') :: map_insert k v r
                     end
  end.

Definition truthy (s : state) (v : value) : bool :=
  match v with
  | VNil => false | VBool b => b | VInt z => negb (z =? 0) | VStr t => match t with [] => false | _ => true end
  | VList l => match nth l (lists s) [] with [] => false | _ => true end
  | VMap l => match nth l (maps s) [] with [] => false | _ => true end
  | _ => true
  end.

(* structural equality of values (Equals) *)
Fixpoint veq (fuel : nat) (s : state) (a b : value) : bool :=
  match fuel with
  | O => false
  | S f =>
    match a, b with
    | VNil, VNil => true
    | VBool x, VBool y => Bool.eqb x y
    | VInt x, VInt y => x =? y
    | VStr x, VStr y => beq x y
    | VList x, VList y =>
        let lx := nth x (lists s) [] in let ly := nth y (lists s) [] in
        Nat.eqb (length lx) (length ly) && forallb (fun p => veq f s (fst p) (snd p)) (combine lx ly)
    | VMap x, VMap y =>
        let mx := nth x (maps s) [] in let my := nth y (maps s) [] in
        Nat.eqb (length mx) (length my)
        && forallb (fun p => beq (fst (fst p)) (fst (snd p)) && veq f s (snd (fst p)) (snd (snd p))) (combine mx my)
    | VClosure x, VClosure y => Nat.eqb x y
    | VErrorV x, VErrorV y => beq x y
    | _, _ => false
    end
  end.

Definition all_ascii (t : list N) : bool := forallb (fun c => (c <? 128)%N) t.

(* ResolveIndex *)
Definition resolve_index (i : Z) (n : Z) : option Z :=
  if i >? n - 1 then None else if i >=? 0 then Some i
  else let r := i + n in if (r <? 0) || (r >? n - 1) then None else Some r.

(* ResolveIntSlice with both bounds given *)
Definition resolve_slice (start stop size : Z) : option (Z * Z) :=
  let start' := if start <? 0 then size + start else start in
  if start' <? 0 then None else
  let stop' := if stop <? 0 then size + stop else stop in
  if stop' <? 0 then None else
  if start' >? stop' then None else
  if start' >? size - 1 then None else
  if stop' >? size then None else Some (start', stop').

Definition binop (s : state) (op : list N) (a b : value) : outcome * state :=
  let plus := beq op [43%N] in let minus := beq op [45%N] in let times := beq op [42%N] in
  let div := beq op [47%N] in let md := beq op [37%N] in let band := beq op [38%N] in
  match a, b with
  | VInt x, VInt y =>
      if plus then (OVal (VInt (wrap64 (x + y))), s) else if minus then (OVal (VInt (wrap64 (x - y))), s)
      else if times then (OVal (VInt (wrap64 (x * y))), s)
      else if div then (if y =? 0 then (OErr XDiv0, s) else (OVal (VInt (wrap64 (Z.quot x y))), s))
      else if md then (if y =? 0 then (OErr XDiv0, s) else (OVal (VInt (Z.rem x y)), s))
      else if band then (OVal (VInt (Z.land x y)), s)
      else (OErr XUnsupported, s)
  | VStr x, VStr y => if plus then (OVal (VStr (x ++ y)), s) else (OErr XType, s)
  | VList x, VList y =>
      if plus then let '(v, s') := new_list s (nth x (lists s) [] ++ nth y (lists s) []) in (OVal v, s')
      else (OErr XType, s)
  | _, _ => (OErr XType, s)
  end.

Definition compare_op (s : state) (op : list N) (a b : value) : outcome :=
  if beq op [61;61]%N then OVal (VBool (veq 200 s a b))
  else if beq op [33;61]%N then OVal (VBool (negb (veq 200 s a b)))
  else
    let res (c : comparison) :=
        if beq op [60]%N then OVal (VBool (match c with Lt => true | _ => false end))
        else if beq op [60;61]%N then OVal (VBool (match c with Gt => false | _ => true end))
        else if beq op [62]%N then OVal (VBool (match c with Gt => true | _ => false end))
        else if beq op [62;61]%N then OVal (VBool (match c with Lt => false | _ => true end))
        else OErr XUnsupported in
    match a, b with
    | VInt x, VInt y => res (x ?= y)
    | VStr x, VStr y => res (str_cmp x y)
    | VBool x, VBool y => res (match x, y with true, false => Gt | false, true => Lt | _, _ => Eq end)
    | VNil, VNil => res Eq
    | VList _, VList _ => OErr XUnsupported
    | _, _ => OErr XType
    end.

(* the sequence a container yields under iteration: (key, value) pairs *)
Definition iter_items (s : state) (v : value) : option (list (value * value)) :=
  match v with
  | VList l => Some (combine (map (fun i => VInt (Z.of_nat i)) (seq 0 (length (nth l (lists s) [])))) (nth l (lists s) []))
  | VMap l => Some (map (fun kv => (VStr (fst kv), snd kv)) (nth l (maps s) []))
  | VStr t => if all_ascii t then Some (combine (map (fun i => VInt (Z.of_nat i)) (seq 0 (length t))) (map (fun c => VStr [c]) t)) else None
  | VInt n => if n <? 0 then None else
              Some (map (fun i => (VInt (Z.of_nat i), VInt (Z.of_nat i))) (seq 0 (Z.to_nat n)))
  | _ => None
  end.

(* one step of a live iteration: lists are read by position from the CURRENT contents (a loop body
   that assigns or appends to the list is seen by later iterations); maps iterate over the keys
   present at loop entry, reading the current value; strings and ints are immutable.
   None = exhausted; Some None = the key vanished (a fault in the implementation). *)
Definition iter_get (s : state) (cv : value) (snap : list (value * value)) (pos : nat) : option (option (value * value)) :=
  match cv with
  | VList l => let items := nth l (lists s) [] in
               match nth_error items pos with
               | Some v => Some (Some (VInt (Z.of_nat pos), v))
               | None => None end
  | VMap ml => match nth_error snap pos with
               | Some (VStr k, _) => match assoc k (nth ml (maps s) []) with
                                     | Some v => Some (Some (VStr k, v))
                                     | None => Some None end
               | Some _ => Some None
               | None => None end
  | _ => match nth_error snap pos with Some kv => Some (Some kv) | None => None end
  end.

Definition is_iterable (v : value) : bool :=
  match v with VList _ | VMap _ | VStr _ | VInt _ => true | _ => false end.

Definition get_item (s : state) (c k : value) : outcome :=
  match c, k with
  | VList l, VInt i =>
      let items := nth l (lists s) [] in
      match resolve_index i (Z.of_nat (length items)) with
      | Some j => OVal (nth (Z.to_nat j) items VNil) | None => OErr XIndex end
  | VList _, _ => OErr XType
  | VMap l, VStr k' => match assoc k' (nth l (maps s) []) with Some v => OVal v | None => OErr XKey end
  | VMap _, _ => OErr XType
  | VStr t, VInt i =>
      if negb (all_ascii t) then OErr XUnsupported else
      match resolve_index i (Z.of_nat (length t)) with
      | Some j => OVal (VStr [nth (Z.to_nat j) t 0%N]) | None => OErr XIndex end
  | VStr _, _ => OErr XType
  | _, _ => OErr XType
  end.

Definition len_of (s : state) (v : value) : option Z :=
  match v with
  | VList l => Some (Z.of_nat (length (nth l (lists s) [])))
  | VMap l => Some (Z.of_nat (length (nth l (maps s) [])))
  | VStr t => if all_ascii t then Some (Z.of_nat (length t)) else None
  | _ => None
  end.

Definition names_len := [108;101;110]%N.
Definition names_print := [112;114;105;110;116]%N.
Definition names_append := [97;112;112;101;110;100]%N.

Definition global_env : env := [[(names_len, (0%nat, true)); (names_print, (1%nat, true))]].
Definition init_state : state :=
  {| store := [VBuiltin names_len; VBuiltin names_print]; lists := []; maps := []; closures := []; trace := []; defers := []; pending := None |}.

Definition bind_name (e : env) (name : list N) (l : loc) (const : bool) : env :=
  match e with s :: r => ((name, (l, const)) :: s) :: r | [] => [[(name, (l, const))]] end.

Definition implements_expression (n : node) : bool :=
  match n with NFunc _ _ _ _ => true | _ => is_expression n end.

(* evaluation threads (outcome, env, state): the env changes only through declarations in the
   current scope *)
Definition R := (outcome * env * state)%type.

Section Eval.
  Fixpoint eval (fuel : nat) (e : env) (s : state) (n : node) {struct fuel} : R :=
    match fuel with
    | O => (OErr XFuel, e, s)
    | S f =>
      let eval := eval f in
      (* evaluate a list of expressions left to right *)
      let eval_list := fix el (e : env) (s : state) (l : list node) (acc : list value) : (outcome + list value) * env * state :=
          match l with
          | [] => (inr acc, e, s)
          | x :: r => match eval e s x with
                      | (OVal v, e', s') => el e' s' r (acc ++ [v])
                      | (o, e', s') => (inl o, e', s')
                      end
          end in
      (* a block: new scope; value = value of the last statement if it is an expression, else nil *)
      let eval_stmts := fix es (e : env) (s : state) (l : list node) (last : value) : R :=
          match l with
          | [] => (OVal last, e, s)
          | x :: r => match eval e s x with
                      | (OVal v, e', s') => es e' s' r (if is_expression x then v else VNil)
                      | other => other
                      end
          end in
      let eval_block (e : env) (s : state) (l : list node) : R :=
          match eval_stmts ([] :: e) s l VNil with
          | (o, _, s') => (o, e, s')
          end in
      (* call a function value *)
      let call (e : env) (s : state) (fv : value) (args : list value) : R :=
          match fv with
          | VClosure fid =>
              match nth_error (closures s) fid with
              | None => (OErr XNotCallable, e, s)
              | Some c =>
                  let np := length (cl_params c) in
                  let ndef := length (filter (fun p => match assoc p (cl_defaults c) with Some NNil => false | Some _ => true | None => false end) (cl_params c)) in
                  if (np <? length args)%nat || (length args <? np - ndef)%nat then (OErr XArgs, e, s) else
                  (* bind parameters: given arguments, then literal defaults *)
                  let bind := fix bd (ps : list (list N)) (as_ : list value) (sc : scope) (s : state) : scope * state :=
                      match ps with
                      | [] => (sc, s)
                      | p :: pr =>
                          let '(v, ar) := match as_ with
                                          | a :: ar => (a, ar)
                                          | [] => (match assoc p (cl_defaults c) with
                                                   | Some (NInt z) => VInt z | Some (NString t _) => VStr t
                                                   | Some (NBool b) => VBool b | _ => VNil end, [])
                                          end in
                          let '(l, s') := alloc s v in
                          bd pr ar ((p, (l, false)) :: sc) s'
                      end in
                  let '(sc, s1) := bind (cl_params c) args [] s in
                  (* a named function sees itself *)
                  let '(sc2, s2) := match cl_name c with
                                    | Some nm => let '(l, s') := alloc s1 fv in ((nm, (l, true)) :: sc, s')
                                    | None => (sc, s1) end in
                  (* deferred calls of this activation run when it ends - normally or with an error - most recent first;
                     their results are discarded, and the error of the last one that fails replaces the outcome *)
                  let run_defers := fix rd (ds : list (value * list value)) (s : state) (err : option errk) : option errk * state :=
                      match ds with
                      | [] => (err, s)
                      | d :: r => match eval e (set_pending s (Some d)) apply_marker with
                                  | (OErr k, _, s') => rd r s' (Some k)
                                  | (_, _, s') => rd r s' err
                                  end
                      end in
                  let finish (o : outcome) (s3 : state) : R :=
                      let '(ds, outer) := match defers s3 with d :: r => (d, r) | [] => ([], []) end in
                      match run_defers ds (set_defers s3 outer) None with
                      | (Some k, s4) => (OErr k, e, s4)
                      | (None, s4) => (o, e, s4)
                      end in
                  match eval_stmts ([] :: sc2 :: cl_env c) (set_defers s2 ([] :: defers s2)) (cl_body c) VNil with
                  | (ORet v, _, s3) => finish (OVal v) s3
                  | (OVal v, _, s3) =>
                      (* implicit return: the value of the last statement when it is an expression node *)
                      finish (OVal (match rev (cl_body c) with x :: _ => if implements_expression x then v else VNil | [] => VNil end)) s3
                  | (OErr k, _, s3) => finish (OErr k) s3
                  | (OBrk, _, s3) | (OCont, _, s3) => finish (OErr XUnsupported) s3
                  end
              end
          | VBuiltin nm =>
              if beq nm names_len then
                match args with
                | [v] => match len_of s v with
                         | Some z => (OVal (VInt z), e, s)
                         | None => (match v with VStr _ => OErr XUnsupported | _ => OErr XType end, e, s) end
                | _ => (OErr XArgs, e, s)
                end
              else if beq nm names_print then (OVal VNil, e, add_trace s args)
              else (OErr XUnsupported, e, s)
          | VMethod (VList l) nm =>
              if beq nm names_append then
                match args with
                | [v] => (OVal (VList l), e, set_list s l (nth l (lists s) [] ++ [v]))
                | _ => (OErr XArgs, e, s)
                end
              else (OErr XUnsupported, e, s)
          | _ => (OErr XNotCallable, e, s)
          end in
      (* loops: run the body for each (key,value) *)
      let assign_to (e : env) (s : state) (name : list N) (v : value) : option state :=
          match lookup e name with Some (l, _) => Some (set_store s l v) | None => None end in
      match n with
      | NNil => (OVal VNil, e, s)
      | NInt z => (OVal (VInt z), e, s)
      | NBool b => (OVal (VBool b), e, s)
      | NString t None => (OVal (VStr t), e, s)
      | NString _ (Some _) => (OErr XUnsupported, e, s)
      | NFloat _ => (OErr XUnsupported, e, s)
      | NIdent name =>
          match name with
          | [] => (* the marker (no identifier is empty): perform the pending call *)
              match pending s with
              | Some (fv, args) => call e (set_pending s None) fv args
              | None => (OErr XUnsupported, e, s)
              end
          | _ =>
          match lookup e name with
          | Some (l, _) => (OVal (nth l (store s) VNil), e, s)
          | None => (OErr XUndefined, e, s)
          end
          end
      | NPrefix op r =>
          match eval e s r with
          | (OVal v, e', s') =>
              if beq op [33%N] then (OVal (VBool (negb (truthy s' v))), e', s')
              else match v with VInt z => (OVal (VInt (wrap64 (- z))), e', s') | _ => (OErr XType, e', s') end
          | other => other
          end
      | NInfix op l r =>
          if beq op [38;38]%N then
            match eval e s l with
            | (OVal a, e1, s1) => if truthy s1 a then eval e1 s1 r else (OVal a, e1, s1)
            | other => other
            end
          else if beq op [124;124]%N then
            match eval e s l with
            | (OVal a, e1, s1) => if truthy s1 a then (OVal a, e1, s1) else eval e1 s1 r
            | other => other
            end
          else
            match eval e s l with
            | (OVal a, e1, s1) =>
                match eval e1 s1 r with
                | (OVal b, e2, s2) =>
                    if beq op [61;61]%N || beq op [33;61]%N || beq op [60]%N || beq op [60;61]%N || beq op [62]%N || beq op [62;61]%N
                    then (compare_op s2 op a b, e2, s2)
                    else let '(o, s3) := binop s2 op a b in (o, e2, s3)
                | other => other
                end
            | other => other
            end
      | NIf c cns alt =>
          match eval e s c with
          | (OVal v, e1, s1) =>
              if truthy s1 v then eval_block e1 s1 cns
              else match alt with Some a => eval_block e1 s1 a | None => (OVal VNil, e1, s1) end
          | other => other
          end
      | NTernary c t el =>
          match eval e s c with
          | (OVal v, e1, s1) => if truthy s1 v then eval e1 s1 t else eval e1 s1 el
          | other => other
          end
      | NSwitch v cases =>
          match eval e s v with
          | (OVal sv, e1, s1) =>
              (* compare against every case expression in order; the first equal one selects its body *)
              (fix sel (e : env) (s : state) (cs : list scase) : R :=
                 match cs with
                 | [] =>
                     match find (fun c => match c with SCase d _ _ => d end) cases with
                     | Some (SCase _ _ (Some b)) => eval_block e s b
                     | _ => (OVal VNil, e, s)
                     end
                 | SCase true _ _ :: r => sel e s r
                 | SCase false exprs blk :: r =>
                     (fix tryx (e : env) (s : state) (xs : list node) : R :=
                        match xs with
                        | [] => sel e s r
                        | x :: xr =>
                            match eval e s x with
                            | (OVal cv, e', s') =>
                                if veq 200 s' sv cv
                                then match blk with Some b => eval_block e' s' b | None => (OVal VNil, e', s') end
                                else tryx e' s' xr
                            | other => other
                            end
                        end) e s exprs
                 end) e1 s1 cases
          | other => other
          end
      | NList items =>
          match eval_list e s items [] with
          | (inr vs, e', s') => let '(v, s'') := new_list s' vs in (OVal v, e', s'')
          | (inl o, e', s') => (o, e', s')
          end
      | NMap items =>
          (fix mk (e : env) (s : state) (l : list (node * node)) (acc : list (list N * value)) : R :=
             match l with
             | [] => let '(v, s') := new_map s acc in (OVal v, e, s')
             | (k, vx) :: r =>
                 let kr := match k with
                           | NString t None => (OVal (VStr t), e, s)
                           | NIdent nm => (OVal (VStr nm), e, s)
                           | _ => (OErr XUnsupported, e, s) end in
                 match kr with
                 | (OVal (VStr kk), e1, s1) =>
                     match eval e1 s1 vx with
                     | (OVal vv, e2, s2) =>
                         (* a key written twice in one literal keeps its FIRST value (observation: the
                            implementation builds the map from the last pair to the first) *)
                         mk e2 s2 r (match assoc kk acc with Some _ => acc | None => map_insert kk vv acc end)
                     | other => other
                     end
                 | (OVal _, e1, s1) => (OErr XType, e1, s1)
                 | other => other
                 end
             end) e s items []
      | NIndex l i =>
          match eval e s l with
          | (OVal c, e1, s1) =>
              match eval e1 s1 i with
              | (OVal k, e2, s2) => (get_item s2 c k, e2, s2)
              | other => other
              end
          | other => other
          end
      | NSlice l from to =>
          match eval e s l with
          | (OVal c, e1, s1) =>
              (* lower bound, then upper bound: the stated left-to-right rule *)
              let ev (e : env) (s : state) (o : option node) (dflt : value) : R :=
                  match o with Some x => eval e s x | None => (OVal dflt, e, s) end in
              match len_of s1 c with
              | None => (OErr XType, e1, s1)
              | Some size =>
                  match ev e1 s1 from (VInt 0) with
                  | (OVal fv, e2, s2) =>
                      match ev e2 s2 to (VInt size) with
                      | (OVal tv, e3, s3) =>
                          match fv, tv with
                          | VInt a, VInt b =>
                              match resolve_slice a b size with
                              | None => (OErr XSlice, e3, s3)
                              | Some (st, sp) =>
                                  match c with
                                  | VList ll =>
                                      let '(v, s4) := new_list s3 (firstn (Z.to_nat (sp - st)) (skipn (Z.to_nat st) (nth ll (lists s3) []))) in
                                      (OVal v, e3, s4)
                                  | VStr t => (OVal (VStr (firstn (Z.to_nat (sp - st)) (skipn (Z.to_nat st) t))), e3, s3)
                                  | _ => (OErr XType, e3, s3)
                                  end
                              end
                          | _, _ => (OErr XType, e3, s3)
                          end
                      | other => other
                      end
                  | other => other
                  end
              end
          | other => other
          end
      | NIn l r =>
          (* left operand first: the stated left-to-right rule *)
          match eval e s l with
          | (OVal x, e1, s1) =>
              match eval e1 s1 r with
              | (OVal c, e2, s2) =>
                  match c with
                  | VList ll => (OVal (VBool (existsb (fun y => veq 200 s2 y x) (nth ll (lists s2) []))), e2, s2)
                  | VMap ml => (OVal (VBool (match x with VStr k => match assoc k (nth ml (maps s2) []) with Some _ => true | None => false end | _ => false end)), e2, s2)
                  | VStr _ => (OErr XUnsupported, e2, s2)
                  | _ => (OErr XType, e2, s2)
                  end
              | other => other
              end
          | other => other
          end
      | NNotIn l r =>
          match eval e s (NIn l r) with
          | (OVal (VBool b), e', s') => (OVal (VBool (negb b)), e', s')
          | other => other
          end
      | NFunc name params defaults body =>
          let '(fv, s1) := new_closure s {| cl_name := name; cl_params := params; cl_defaults := defaults;
                                            cl_body := body; cl_env := e |} in
          match name with
          | None => (OVal fv, e, s1)
          | Some nm =>
              (* a named function is also bound (as a constant) in the current scope *)
              match (match e with sc :: _ => assoc nm sc | [] => None end) with
              | Some (l, _) => (OVal fv, e, set_store s1 l fv)
              | None => let '(l, s2) := alloc s1 fv in (OVal fv, bind_name e nm l true, s2)
              end
          end
      | NCall fn args =>
          match eval e s fn with
          | (OVal fv, e1, s1) =>
              match eval_list e1 s1 args [] with
              | (inr vs, e2, s2) => call e2 s2 fv vs
              | (inl o, e2, s2) => (o, e2, s2)
              end
          | other => other
          end
      | NDefer c =>
          (* callee, then arguments, are evaluated now; the call is performed when the enclosing function ends *)
          let reg (e : env) (s : state) (fv : value) (vs : list value) : R :=
              match defers s with
              | d :: r => (OVal VNil, e, set_defers s (((fv, vs) :: d) :: r))
              | [] => (OErr XUnsupported, e, s)        (* outside a function: rejected by the compiler *)
              end in
          match c with
          | NCall fn args =>
              match eval e s fn with
              | (OVal fv, e1, s1) =>
                  match eval_list e1 s1 args [] with
                  | (inr vs, e2, s2) => reg e2 s2 fv vs
                  | (inl o, e2, s2) => (o, e2, s2)
                  end
              | other => other
              end
          | NObjectCall o name args =>
              match eval e s o with
              | (OVal (VList l), e1, s1) =>
                  if beq name names_append then
                    match eval_list e1 s1 args [] with
                    | (inr vs, e2, s2) => reg e2 s2 (VMethod (VList l) name) vs
                    | (inl oc, e2, s2) => (oc, e2, s2)
                    end
                  else (OErr XUnsupported, e1, s1)
              | (OVal _, e1, s1) => (OErr XUnsupported, e1, s1)
              | other => other
              end
          | _ => (OErr XUnsupported, e, s)
          end
      | NObjectCall o name args =>
          match eval e s o with
          | (OVal ov, e1, s1) =>
              match ov with
              | VList _ =>
                  if beq name names_append then
                    match eval_list e1 s1 args [] with
                    | (inr vs, e2, s2) => call e2 s2 (VMethod ov name) vs
                    | (inl oc, e2, s2) => (oc, e2, s2)
                    end
                  else (OErr XUnsupported, e1, s1)
              | _ => (OErr XUnsupported, e1, s1)
              end
          | other => other
          end
      | NVar name v | NConst name v =>
          match eval e s v with
          | (OVal x, e1, s1) =>
              let '(l, s2) := alloc s1 x in
              (OVal VNil, bind_name e1 name l (match n with NConst _ _ => true | _ => false end), s2)
          | other => other
          end
      | NMultiVar names v walrus =>
          match eval e s v with
          | (OVal c, e1, s1) =>
              match c with
              | VList ll =>
                  let items := nth ll (lists s1) [] in
                  if negb (Nat.eqb (length items) (length names)) then (OErr XUnpack, e1, s1) else
                  (fix go (e : env) (s : state) (ns : list (list N)) (vs : list value) : R :=
                     match ns, vs with
                     | nm :: nr, x :: vr =>
                         if walrus then let '(l, s') := alloc s x in go (bind_name e nm l false) s' nr vr
                         else match assign_to e s nm x with Some s' => go e s' nr vr | None => (OErr XUndefined, e, s) end
                     | _, _ => (OVal VNil, e, s)
                     end) e1 s1 names items
              | _ => (OErr XUnsupported, e1, s1)
              end
          | other => other
          end
      | NAssign name op v =>
          if beq op [61%N] then
            match eval e s v with
            | (OVal x, e1, s1) => match assign_to e1 s1 name x with Some s2 => (OVal VNil, e1, s2) | None => (OErr XUndefined, e1, s1) end
            | other => other
            end
          else
            match lookup e name with
            | None => (OErr XUndefined, e, s)
            | Some (l, _) =>
                let old := nth l (store s) VNil in
                match eval e s v with
                | (OVal x, e1, s1) =>
                    let bop := match op with o :: _ => [o] | [] => [] end in
                    match binop s1 bop old x with
                    | (OVal r, s2) => (OVal VNil, e1, set_store s2 l r)
                    | (o, s2) => (o, e1, s2)
                    end
                | other => other
                end
            end
      | NAssignIndex l i op v =>
          if negb (beq op [61%N]) then
            (* compound assignment to an item: the container and the index are evaluated ONCE, then
               the right-hand side, then the operator is applied and the result stored *)
            match eval e s l with
            | (OVal c, e1, s1) =>
                match eval e1 s1 i with
                | (OVal k, e2, s2) =>
                    match get_item s2 c k with
                    | OVal old =>
                        match eval e2 s2 v with
                        | (OVal x, e3, s3) =>
                            let bop := match op with o :: _ => [o] | [] => [] end in
                            match binop s3 bop old x with
                            | (OVal r, s4) =>
                                match c, k with
                                | VList ll, VInt idx =>
                                    let items := nth ll (lists s4) [] in
                                    match resolve_index idx (Z.of_nat (length items)) with
                                    | Some j => (OVal VNil, e3, set_list s4 ll (list_set items (Z.to_nat j) r))
                                    | None => (OErr XIndex, e3, s4)
                                    end
                                | VMap ml, VStr kk => (OVal VNil, e3, set_map s4 ml (map_insert kk r (nth ml (maps s4) [])))
                                | _, _ => (OErr XType, e3, s4)
                                end
                            | (o, s4) => (o, e3, s4)
                            end
                        | other => other
                        end
                    | o => (o, e2, s2)
                    end
                | other => other
                end
            | other => other
            end
          else
          match eval e s v with
          | (OVal x, e1, s1) =>
              match eval e1 s1 l with
              | (OVal c, e2, s2) =>
                  match eval e2 s2 i with
                  | (OVal k, e3, s3) =>
                      match c, k with
                      | VList ll, VInt idx =>
                          let items := nth ll (lists s3) [] in
                          match resolve_index idx (Z.of_nat (length items)) with
                          | Some j => (OVal VNil, e3, set_list s3 ll (list_set items (Z.to_nat j) x))
                          | None => (OErr XIndex, e3, s3)
                          end
                      | VMap ml, VStr kk => (OVal VNil, e3, set_map s3 ml (map_insert kk x (nth ml (maps s3) [])))
                      | _, _ => (OErr XType, e3, s3)
                      end
                  | other => other
                  end
              | other => other
              end
          | other => other
          end
      | NPostfix name op =>
          match lookup e name with
          | None => (OErr XUndefined, e, s)
          | Some (l, _) =>
              match nth l (store s) VNil with
              | VInt z => (OVal VNil, e, set_store s l (VInt (wrap64 (if beq op [43;43]%N then z + 1 else z - 1))))
              | _ => (OErr XType, e, s)
              end
          end
      | NReturn v =>
          match v with
          | None => (ORet VNil, e, s)
          | Some x => match eval e s x with (OVal r, e', s') => (ORet r, e', s') | other => other end
          end
      | NBreak => (OBrk, e, s)
      | NContinue => (OCont, e, s)
      | NFor cond init post body =>
          let loop_scope := [] :: e in
          match cond, init, post with
          | None, None, None =>
              (fix lp (k : nat) (s : state) : R :=
                 match k with
                 | O => (OErr XFuel, e, s)
                 | S k' => match eval_block loop_scope s body with
                           | (OVal _, _, s') | (OCont, _, s') => lp k' s'
                           | (OBrk, _, s') => (OVal VNil, e, s')
                           | (o, _, s') => (o, e, s')
                           end
                 end) f s
          | Some c, None, None =>
              let range_loop (names : list (list N)) (cont : node) : R :=
                  match eval e s cont with
                  | (OVal cv, _, s1) =>
                      match iter_items s1 cv with
                      | None => (if is_iterable cv then OErr XUnsupported else OErr XType, e, s1)
                      | Some items =>
                          (* the loop variables live in the loop's scope: one binding for the whole loop *)
                          let '(sc, s2) := fold_left (fun acc nm => let '(sc, st) := acc in let '(l, st') := alloc st VNil in ((nm, (l, false)) :: sc, st'))
                                                     names ([], s1) in
                          (fix it (k : nat) (pos : nat) (s : state) : R :=
                             match k with
                             | O => (OErr XFuel, e, s)
                             | S k' =>
                               match iter_get s cv items pos with
                               | None => (OVal VNil, e, s)
                               | Some None => (OErr XUnsupported, e, s)
                               | Some (Some (kk, vv)) =>
                                   let s' := match names with
                                             | [a] => match assoc a sc with Some (l, _) => set_store s l kk | None => s end
                                             | [a; b] => let s1 := match assoc a sc with Some (l, _) => set_store s l kk | None => s end in
                                                         match assoc b sc with Some (l, _) => set_store s1 l vv | None => s1 end
                                             | _ => s end in
                                   match eval_block (sc :: e) s' body with
                                   | (OVal _, _, s'') | (OCont, _, s'') => it k' (S pos) s''
                                   | (OBrk, _, s'') => (OVal VNil, e, s'')
                                   | (o, _, s'') => (o, e, s'')
                                   end
                               end
                             end) f 0%nat s2
                      end
                  | (o, _, s1) => (o, e, s1)
                  end in
              match c with
              | NVar name (NRange cont) => range_loop [name] cont
              | NVar name rhs => range_loop [name] rhs
              | NMultiVar [a; b] (NRange cont) _ => range_loop [a; b] cont
              | NMultiVar [a; b] rhs _ => range_loop [a; b] rhs
              | NMultiVar _ _ _ => (OErr XUnsupported, e, s)
              | NRange cont => range_loop [] cont
              | _ =>
                  (fix lp (k : nat) (s : state) : R :=
                     match k with
                     | O => (OErr XFuel, e, s)
                     | S k' =>
                         match eval loop_scope s c with
                         | (OVal cv, _, s1) =>
                             if truthy s1 cv then
                               match eval_block loop_scope s1 body with
                               | (OVal _, _, s') | (OCont, _, s') => lp k' s'
                               | (OBrk, _, s') => (OVal VNil, e, s')
                               | (o, _, s') => (o, e, s')
                               end
                             else (OVal VNil, e, s1)
                         | (o, _, s1) => (o, e, s1)
                         end
                     end) f s
              end
          | _, _, _ =>
              (* three-part loop: init once in the loop scope; condition; body; post *)
              match (match init with Some i => eval loop_scope s i | None => (OVal VNil, loop_scope, s) end) with
              | (OVal _, le, s0) =>
                  (fix lp (k : nat) (s : state) : R :=
                     match k with
                     | O => (OErr XFuel, e, s)
                     | S k' =>
                         match (match cond with Some c => eval le s c | None => (OVal (VBool true), le, s) end) with
                         | (OVal cv, _, s1) =>
                             if truthy s1 cv then
                               let after_body (s' : state) : R :=
                                   match (match post with Some p => eval le s' p | None => (OVal VNil, le, s') end) with
                                   | (OVal _, _, s'') => lp k' s''
                                   | (o, _, s'') => (o, e, s'')
                                   end in
                               match eval_block le s1 body with
                               | (OVal _, _, s') | (OCont, _, s') => after_body s'
                               | (OBrk, _, s') => (OVal VNil, e, s')
                               | (o, _, s') => (o, e, s')
                               end
                             else (OVal VNil, e, s1)
                         | (o, _, s1) => (o, e, s1)
                         end
                     end) f s0
              | (o, _, s0) => (o, e, s0)
              end
          end
      | NForIn v iter body =>
          match eval e s iter with
          | (OVal cv, _, s1) =>
              match iter_items s1 cv with
              | None => (if is_iterable cv then OErr XUnsupported else OErr XType, e, s1)
              | Some items =>
                  let '(l, s2) := alloc s1 VNil in
                  (fix it (k : nat) (pos : nat) (s : state) : R :=
                     match k with
                     | O => (OErr XFuel, e, s)
                     | S k' =>
                       match iter_get s cv items pos with
                       | None => (OVal VNil, e, s)
                       | Some None => (OErr XUnsupported, e, s)
                       | Some (Some (_, vv)) =>
                           match eval_block ([(v, (l, false))] :: e) (set_store s l vv) body with
                           | (OVal _, _, s'') | (OCont, _, s'') => it k' (S pos) s''
                           | (OBrk, _, s'') => (OVal VNil, e, s'')
                           | (o, _, s'') => (o, e, s'')
                           end
                       end
                     end) f 0%nat s2
              end
          | (o, _, s1) => (o, e, s1)
          end
      | _ => (OErr XUnsupported, e, s)
      end
    end.
End Eval.

(* a program: top-level named functions are pre-declared; the result is the value of the last
   statement if it is an expression *)
Definition run (fuel : nat) (stmts : list node) : outcome * state :=
  let '(e0, s0) := fold_left (fun acc st =>
                                match st with
                                | NFunc (Some nm) _ _ _ => let '(e, s) := acc in let '(l, s') := alloc s VNil in (bind_name e nm l true, s')
                                | _ => acc end) stmts ([] :: global_env, init_state) in
  (fix go (e : env) (s : state) (l : list node) (last : value) : outcome * state :=
     match l with
     | [] => (OVal last, s)
     | x :: r => match eval fuel e s x with
                 | (OVal v, e', s') => go e' s' r (if is_expression x then v else VNil)
                 | (o, _, s') => (o, s')
                 end
     end) e0 s0 stmts VNil.
