(* Reduced model of closure conversion as the repaired compiler does it (compiler.compileFunc,
   vm MakeCell/LoadCell/LoadClosure/LoadFree/StoreFree): definitions only.
   The repaired capture scheme: a function literal's free variables that
   belong to functions further out are free variables of the enclosing function too, and the
   enclosing function passes its own cell on (LoadCell). Capture at any depth, any call path. *)
From Coq Require Import List ZArith Arith Lia Bool.
Import ListNotations.

Definition name := nat.
Definition loc := (nat * nat)%type.   (* activation, slot *)
Definition loc_eqb (a b : loc) := Nat.eqb (fst a) (fst b) && Nat.eqb (snd a) (snd b).
Lemma loc_eqb_spec a b : reflect (a = b) (loc_eqb a b).
Proof.
  destruct a as [a1 a2], b as [b1 b2]. unfold loc_eqb. cbn.
  destruct (Nat.eqb_spec a1 b1), (Nat.eqb_spec a2 b2); constructor; congruence.
Qed.

Inductive expr :=
| EConst (z : Z) | EVar (n : name) | EAdd (a b : expr) | ELam (x : name) (b : body) | EApp (g a : expr)
with body :=
| BRet (e : expr) | BDecl (n : name) (e : expr) (b : body) | BAssign (n : name) (e : expr) (b : body).

Fixpoint lookup {A} (n : name) (l : list (name * A)) : option A :=
  match l with [] => None | (m, v) :: r => if Nat.eqb m n then Some v else lookup n r end.
Fixpoint index_of (n : name) (l : list name) : option nat :=
  match l with [] => None | m :: r => if Nat.eqb m n then Some 0 else option_map S (index_of n r) end.

(* names used directly (not inside nested function literals) *)
Fixpoint uses_e (e : expr) : list name :=
  match e with
  | EConst _ => [] | EVar n => [n] | EAdd a b => uses_e a ++ uses_e b
  | ELam _ b => uses_b b | EApp g a => uses_e g ++ uses_e a
  end
with uses_b (b : body) : list name :=
  match b with
  | BRet e => uses_e e
  | BDecl _ e b' => uses_e e ++ uses_b b'
  | BAssign n e b' => n :: uses_e e ++ uses_b b'
  end.

(* int64 arithmetic as the VM performs it *)
Definition wrap64 (z : Z) : Z := ((z + 9223372036854775808) mod 18446744073709551616 - 9223372036854775808)%Z.

(* ---------- target ---------- *)
Inductive instr :=
| IConst (z : Z) | ILoadFast (i : nat) | ILoadFree (j : nat) | IStoreFast (i : nat) | IStoreFree (j : nat)
| IAdd | IMakeCell (i : nat) | ILoadCell (j : nat) | IClosure (code : list instr) (n : nat) | ICall.

Definition is_some {A} (o : option A) := match o with Some _ => true | None => false end.

Definition load (sl : list (name * nat)) (fr : list name) (n : name) : option (list instr) :=
  match lookup n sl with
  | Some i => Some [ILoadFast i]
  | None => match index_of n fr with Some j => Some [ILoadFree j] | None => None end
  end.
Definition store (sl : list (name * nat)) (fr : list name) (n : name) : option (list instr) :=
  match lookup n sl with
  | Some i => Some [IStoreFast i]
  | None => match index_of n fr with Some j => Some [IStoreFree j] | None => None end
  end.

Definition cellinstr (sl : list (name * nat)) (fr : list name) (n : name) : instr :=
  match lookup n sl with
  | Some i => IMakeCell i
  | None => match index_of n fr with Some j => ILoadCell j | None => IMakeCell 0 end
  end.
Definition resolvable (sl : list (name * nat)) (fr : list name) (n : name) : bool :=
  is_some (lookup n sl) || is_some (index_of n fr).

Fixpoint ce (sl : list (name * nat)) (fr : list name) (e : expr) : option (list instr) :=
  match e with
  | EConst z => Some [IConst z]
  | EVar n => load sl fr n
  | EAdd a b =>
      match ce sl fr a, ce sl fr b with
      | Some ca, Some cb' => Some (ca ++ cb' ++ [IAdd]) | _, _ => None end
  | ELam x b =>
      let frs := filter (resolvable sl fr) (uses_b b) in
      match cb [(x, 0)] frs 1 b with
      | Some code => Some (map (cellinstr sl fr) frs ++ [IClosure code (length frs)])
      | None => None
      end
  | EApp g a =>
      match ce sl fr g, ce sl fr a with
      | Some cg, Some ca => Some (cg ++ ca ++ [ICall]) | _, _ => None end
  end
with cb (sl : list (name * nat)) (fr : list name) (k : nat) (b : body) : option (list instr) :=
  match b with
  | BRet e => ce sl fr e
  | BDecl n e b' =>
      match ce sl fr e, cb ((n, k) :: sl) fr (S k) b' with
      | Some c, Some c' => Some (c ++ [IStoreFast k] ++ c') | _, _ => None end
  | BAssign n e b' =>
      match ce sl fr e, store sl fr n, cb sl fr k b' with
      | Some c, Some s, Some c' => Some (c ++ s ++ c') | _, _, _ => None end
  end.

Inductive tval := TInt (z : Z) | TClos (code : list instr) (cells : list loc) | TCell (l : loc).
Record tstate := { thp : loc -> option tval; tna : nat }.
Definition upd {A} (h : loc -> option A) (l : loc) (v : A) : loc -> option A :=
  fun l' => if loc_eqb l' l then Some v else h l'.

Inductive tx : nat -> list loc -> list instr -> list tval * tstate -> list tval * tstate -> Prop :=
| TxNil a cs st : tx a cs [] st st
| TxSeq a cs c1 c2 s1 s2 s3 : tx a cs c1 s1 s2 -> tx a cs c2 s2 s3 -> tx a cs (c1 ++ c2) s1 s3
| TxConst a cs z stk s : tx a cs [IConst z] (stk, s) (TInt z :: stk, s)
| TxLoadFast a cs i stk s v : thp s (a, i) = Some v -> tx a cs [ILoadFast i] (stk, s) (v :: stk, s)
| TxLoadFree a cs j l stk s v :
    nth_error cs j = Some l -> thp s l = Some v -> tx a cs [ILoadFree j] (stk, s) (v :: stk, s)
| TxStoreFast a cs i v stk s :
    tx a cs [IStoreFast i] (v :: stk, s) (stk, {| thp := upd (thp s) (a, i) v; tna := tna s |})
| TxStoreFree a cs j l v stk s :
    nth_error cs j = Some l ->
    tx a cs [IStoreFree j] (v :: stk, s) (stk, {| thp := upd (thp s) l v; tna := tna s |})
| TxAdd a cs x y stk s : tx a cs [IAdd] (TInt y :: TInt x :: stk, s) (TInt (wrap64 (x + y)) :: stk, s)
| TxMakeCell a cs i stk s : tx a cs [IMakeCell i] (stk, s) (TCell (a, i) :: stk, s)
| TxLoadCell a cs j l stk s : nth_error cs j = Some l -> tx a cs [ILoadCell j] (stk, s) (TCell l :: stk, s)
| TxClosure a cs code n ls stk s :
    length ls = n ->
    tx a cs [IClosure code n] (map TCell (rev ls) ++ stk, s) (TClos code ls :: stk, s)
| TxCall a cs code ls arg stk s v s' :
    tx (tna s) ls code ([], {| thp := upd (thp s) (tna s, 0) arg; tna := S (tna s) |}) ([v], s') ->
    tx a cs [ICall] (arg :: TClos code ls :: stk, s) (v :: stk, s').

(* ---------- source ---------- *)
Inductive sval := VInt (z : Z) | VClos (x : name) (b : body) (rho : list (name * loc)).
Record sstate := { sst : loc -> option sval; sna : nat }.

Fixpoint ee (f : nat) (rho : list (name * loc)) (s : sstate) (e : expr) : option (sval * sstate) :=
  match f with O => None | S f =>
    match e with
    | EConst z => Some (VInt z, s)
    | EVar n => match lookup n rho with
                | Some l => match sst s l with Some v => Some (v, s) | None => None end
                | None => None end
    | EAdd a b =>
        match ee f rho s a with
        | Some (VInt x, s1) =>
            match ee f rho s1 b with
            | Some (VInt y, s2) => Some (VInt (wrap64 (x + y)), s2) | _ => None end
        | _ => None end
    | ELam x b => Some (VClos x b rho, s)
    | EApp g a =>
        match ee f rho s g with
        | Some (VClos x b rc, s1) =>
            match ee f rho s1 a with
            | Some (v, s2) =>
                let a' := sna s2 in
                eb f ((x, (a', 0)) :: rc) a' 1 {| sst := upd (sst s2) (a', 0) v; sna := S a' |} b
            | None => None end
        | _ => None end
    end end
with eb (f : nat) (rho : list (name * loc)) (a k : nat) (s : sstate) (b : body) : option (sval * sstate) :=
  match f with O => None | S f =>
    match b with
    | BRet e => ee f rho s e
    | BDecl n e b' =>
        match ee f rho s e with
        | Some (v, s1) =>
            eb f ((n, (a, k)) :: rho) a (S k) {| sst := upd (sst s1) (a, k) v; sna := sna s1 |} b'
        | None => None end
    | BAssign n e b' =>
        match ee f rho s e with
        | Some (v, s1) =>
            match lookup n rho with
            | Some l => eb f rho a k {| sst := upd (sst s1) l v; sna := sna s1 |} b'
            | None => None end
        | None => None end
    end end.


(* whole programs: a body run as activation 0 with no cells *)
Definition s0 : sstate := {| sst := fun _ => None; sna := 1 |}.
Definition t0 : tstate := {| thp := fun _ => None; tna := 1 |}.
