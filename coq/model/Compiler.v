(* Model of risor's compiler (compiler/compiler.go, symbol_table.go, code.go at the pinned commit).
   Compile functions run in a state monad that allocates constants, names, symbols and function
   ids in emission order, and RETURN the emitted slots; break/continue are placeholders patched
   by the enclosing loop (as the Go code back-patches them). *)
From Coq Require Import List ZArith NArith Bool Arith Lia.
Require Import RV.model.Syntax.
Import ListNotations.
Open Scope N_scope.

(* ---------- opcodes ---------- *)
Definition opNop := 1.  Definition opCall := 3.  Definition opReturnValue := 4.
Definition opDefer := 5.  Definition opGo := 6.
Definition opJumpBackward := 10.  Definition opJumpForward := 11.
Definition opPopJumpForwardIfFalse := 12.  Definition opPopJumpForwardIfTrue := 13.
Definition opLoadAttr := 20.  Definition opLoadFast := 21.  Definition opLoadFree := 22.
Definition opLoadGlobal := 23.  Definition opLoadConst := 24.
Definition opStoreAttr := 30.  Definition opStoreFast := 31.  Definition opStoreFree := 32.
Definition opStoreGlobal := 33.
Definition opBinaryOp := 40.  Definition opCompareOp := 41.  Definition opUnaryNegative := 42.
Definition opUnaryNot := 43.
Definition opBuildList := 50.  Definition opBuildMap := 51.  Definition opBuildSet := 52.
Definition opBuildString := 53.
Definition opBinarySubscr := 60.  Definition opStoreSubscr := 61.  Definition opContainsOp := 62.
Definition opLength := 63.  Definition opSlice := 64.  Definition opUnpack := 65.
Definition opSwap := 70.  Definition opCopy := 71.  Definition opPopTop := 72.
Definition opNil := 80.  Definition opFalse := 81.  Definition opTrue := 82.
Definition opForIter := 90.  Definition opGetIter := 91.  Definition opRange := 92.
Definition opFromImport := 100.  Definition opImport := 101.
Definition opReceive := 110.  Definition opSend := 111.
Definition opLoadClosure := 120.  Definition opMakeCell := 121.  Definition opLoadCell := 122.
Definition opPartial := 130.

Definition bAdd := 1. Definition bSubtract := 2. Definition bMultiply := 3. Definition bDivide := 4.
Definition bModulo := 5. Definition bAnd := 6. Definition bOr := 7. Definition bPower := 9.
Definition bLShift := 10. Definition bRShift := 11. Definition bBitwiseAnd := 12.
Definition cLessThan := 1. Definition cLessThanOrEqual := 2. Definition cEqual := 3.
Definition cNotEqual := 4. Definition cGreaterThan := 5. Definition cGreaterThanOrEqual := 6.

Definition PLACEHOLDER := 65535.

Inductive slot := SI (n : N) | SBrk | SCont.
Definition I (l : list N) : list slot := map SI l.
Definition nlen (l : list slot) : N := N.of_nat (length l).

(* ---------- symbols ---------- *)
Record symbol := { sy_name : list N; sy_index : N; sy_const : bool }.
Inductive scope := Global | Local | Free.
Record resolution := { rs_sym : symbol; rs_scope : scope; rs_depth : nat; rs_free : N }.

Record table := {
  tb_id : list N;
  tb_parent : option nat;
  tb_nchildren : nat;
  tb_byname : list (list N * symbol);
  tb_freebyname : list (list N * resolution);
  tb_syms : list symbol;
  tb_free : list resolution;
  tb_block : bool;
}.

(* ---------- compiled output ---------- *)
Inductive dflt := DNil | DInt (z : Z) | DFloat (bits : Z) | DStr (s : list N) | DBool (b : bool).

Inductive konst :=
| KInt (z : Z) | KFloat (bits : Z) | KStr (s : list N)
| KFn (id name : list N) (params : list (list N)) (defaults : list dflt) (c : code)
with code :=
| Code (id name : list N) (named : bool) (table : nat) (instr : list N) (consts : list konst)
       (names : list (list N)) (children : list code) (funcid : list N).

(* a code under construction *)
Record wcode := {
  w_id : list N; w_name : list N; w_named : bool;
  w_functab : nat;            (* the table created for this code (NewChild of the parent's current) *)
  w_tab : nat;                (* code.symbols: current table, changes as blocks open and close *)
  w_consts : list konst; w_names : list (list N); w_children : list code;
  w_pipe : bool; w_funcid : list N;
  w_loops : list (bool * nat); (* stack of (isRangeLoop, switchDepth), innermost first *)
  w_root : bool;
}.

Inductive err :=
| EUndefined (name : list N) | EConstAssign (name : list N) | EExists (name : list N)
| ERedefined (name : list N) | EBreakOutside | EContinueOutside | EReturnOutside | EDeferOutside
| EBadDefaults | EUnsupportedDefault | EInvalidFor | EUnknownOperator | ENestedPipe | EPipeArity
| EMaxArgs | EMapKey | ECompoundOp | EInternal | EFuel | EPanicNilBlock.

Record cstate := {
  st_tabs : list table;
  st_stack : list wcode;      (* head = c.current *)
  st_funcindex : nat;
}.

Definition M (A : Type) := cstate -> err + (A * cstate).
Definition ret {A} (a : A) : M A := fun s => inr (a, s).
Definition fail {A} (e : err) : M A := fun _ => inl e.
Definition bind {A B} (m : M A) (f : A -> M B) : M B :=
  fun s => match m s with inl e => inl e | inr (a, s') => f a s' end.
Notation "'do' x <- m ; k" := (bind m (fun x => k)) (at level 200, x pattern, m at level 100, k at level 200).
Notation "m ;; k" := (bind m (fun _ => k)) (at level 199, right associativity).
Definition get : M cstate := fun s => inr (s, s).
Definition put (s : cstate) : M unit := fun _ => inr (tt, s).

(* ---------- byte strings ---------- *)
Definition beq (a b : list N) : bool := if list_eq_dec N.eq_dec a b then true else false.

Fixpoint assoc {A} (k : list N) (l : list (list N * A)) : option A :=
  match l with
  | [] => None
  | (k', v) :: r => if beq k k' then Some v else assoc k r
  end.

(* decimal rendering of a nat, as fmt %d *)
Fixpoint digits (fuel : nat) (n : N) (acc : list N) : list N :=
  match fuel with
  | O => acc
  | S f => let acc' := (48 + n mod 10) :: acc in
           if n / 10 =? 0 then acc' else digits f (n / 10) acc'
  end.
Definition dec (n : nat) : list N := digits 30 (N.of_nat n) [].

(* ---------- table store ---------- *)
Definition dummy_table : table :=
  {| tb_id := []; tb_parent := None; tb_nchildren := 0; tb_byname := []; tb_freebyname := [];
     tb_syms := []; tb_free := []; tb_block := false |}.

Definition get_tab (t : nat) : M table := fun s => inr (nth t (st_tabs s) dummy_table, s).

Fixpoint list_set {A} (l : list A) (i : nat) (v : A) : list A :=
  match l, i with
  | [], _ => []
  | _ :: r, O => v :: r
  | x :: r, S j => x :: list_set r j v
  end.

Definition set_tab (t : nat) (v : table) : M unit :=
  fun s => inr (tt, {| st_tabs := list_set (st_tabs s) t v; st_stack := st_stack s; st_funcindex := st_funcindex s |}).

Definition new_child (parent : nat) (block : bool) : M nat :=
  do p <- get_tab parent;
  let id := tb_id p ++ [46] ++ dec (tb_nchildren p) in
  set_tab parent {| tb_id := tb_id p; tb_parent := tb_parent p; tb_nchildren := S (tb_nchildren p);
                    tb_byname := tb_byname p; tb_freebyname := tb_freebyname p; tb_syms := tb_syms p;
                    tb_free := tb_free p; tb_block := tb_block p |} ;;
  fun s =>
    let t := {| tb_id := id; tb_parent := Some parent; tb_nchildren := 0; tb_byname := [];
                tb_freebyname := []; tb_syms := []; tb_free := []; tb_block := block |} in
    inr (length (st_tabs s),
         {| st_tabs := st_tabs s ++ [t]; st_stack := st_stack s; st_funcindex := st_funcindex s |}).

(* the table that owns indices for t: first non-block ancestor-or-self *)
Fixpoint owner (fuel : nat) (tabs : list table) (t : nat) : nat :=
  match fuel with
  | O => t
  | S f => let tb := nth t tabs dummy_table in
           if tb_block tb then match tb_parent tb with Some p => owner f tabs p | None => t end else t
  end.

(* GetFunction: None at global scope *)
Fixpoint get_function (fuel : nat) (tabs : list table) (t : nat) : option nat :=
  match fuel with
  | O => None
  | S f => let tb := nth t tabs dummy_table in
           match tb_parent tb with
           | None => None
           | Some p => if tb_block tb then get_function f tabs p else Some t
           end
  end.

Fixpoint function_depth (fuel : nat) (tabs : list table) (t : nat) : nat :=
  match fuel with
  | O => 0
  | S f => let tb := nth t tabs dummy_table in
           match tb_parent tb with
           | None => 0
           | Some p => if tb_block tb then function_depth f tabs p else S (function_depth f tabs p)
           end
  end.

Fixpoint is_global (fuel : nat) (tabs : list table) (t : nat) : bool :=
  match fuel with
  | O => true
  | S f => let tb := nth t tabs dummy_table in
           match tb_parent tb with
           | None => true
           | Some p => if tb_block tb then is_global f tabs p else false
           end
  end.

Definition fuel_of (s : cstate) : nat := S (length (st_tabs s)).

Definition insert_symbol (t : nat) (name : list N) (const : bool) : M symbol :=
  do tb <- get_tab t;
  match assoc name (tb_byname tb) with
  | Some _ => fail (EExists name)
  | None =>
      do s <- get;
      let o := owner (fuel_of s) (st_tabs s) t in
      do otb <- get_tab o;
      let sym := {| sy_name := name; sy_index := N.of_nat (length (tb_syms otb)); sy_const := const |} in
      set_tab o {| tb_id := tb_id otb; tb_parent := tb_parent otb; tb_nchildren := tb_nchildren otb;
                   tb_byname := tb_byname otb; tb_freebyname := tb_freebyname otb;
                   tb_syms := tb_syms otb ++ [sym]; tb_free := tb_free otb; tb_block := tb_block otb |} ;;
      do tb' <- get_tab t;
      set_tab t {| tb_id := tb_id tb'; tb_parent := tb_parent tb'; tb_nchildren := tb_nchildren tb';
                   tb_byname := (name, sym) :: tb_byname tb'; tb_freebyname := tb_freebyname tb';
                   tb_syms := tb_syms tb'; tb_free := tb_free tb'; tb_block := tb_block tb' |} ;;
      ret sym
  end.

Definition opt_nat_eq (a b : option nat) : bool :=
  match a, b with Some x, Some y => Nat.eqb x y | None, None => true | _, _ => false end.

(* search ancestors of t (starting at its parent) for name *)
Fixpoint resolve_up (fuel : nat) (tabs : list table) (t : nat) (active : option nat) (tdepth : nat)
         (name : list N) (a : option nat) : option (symbol * scope * nat) :=
  match fuel with
  | O => None
  | S f =>
      match a with
      | None => None
      | Some an =>
          let atb := nth an tabs dummy_table in
          match assoc name (tb_byname atb) with
          | Some sym =>
              if is_global (S (length tabs)) tabs an then Some (sym, Global, 0%nat)
              else if match active with Some _ => true | None => false end
                      && opt_nat_eq (get_function (S (length tabs)) tabs an) active
                   then Some (sym, Local, 0%nat)
                   else Some (sym, Free, (tdepth - function_depth (S (length tabs)) tabs an)%nat)
          | None => resolve_up f tabs t active tdepth name (tb_parent atb)
          end
      end
  end.

Definition resolve (t : nat) (name : list N) : M (option resolution) :=
  do s <- get;
  let tabs := st_tabs s in
  let fu := fuel_of s in
  let active := get_function fu tabs t in
  do tb <- get_tab t;
  match assoc name (tb_byname tb) with
  | Some sym =>
      ret (Some {| rs_sym := sym; rs_scope := if is_global fu tabs t then Global else Local;
                   rs_depth := 0; rs_free := 0 |})
  | None =>
      match assoc name (tb_freebyname tb) with
      | Some rs => ret (Some rs)
      | None =>
          match resolve_up fu tabs t active (function_depth fu tabs t) name (tb_parent tb) with
          | None => ret None
          | Some (sym, Free, depth) =>
              match active with
              | None => fail EInternal
              | Some af =>
                  do ftb <- get_tab af;
                  let rs := {| rs_sym := sym; rs_scope := Free; rs_depth := depth;
                               rs_free := N.of_nat (length (tb_free ftb)) |} in
                  set_tab af {| tb_id := tb_id ftb; tb_parent := tb_parent ftb; tb_nchildren := tb_nchildren ftb;
                                tb_byname := tb_byname ftb; tb_freebyname := (name, rs) :: tb_freebyname ftb;
                                tb_syms := tb_syms ftb; tb_free := tb_free ftb ++ [rs]; tb_block := tb_block ftb |} ;;
                  ret (Some rs)
              end
          | Some (sym, sc, _) => ret (Some {| rs_sym := sym; rs_scope := sc; rs_depth := 0; rs_free := 0 |})
          end
      end
  end.

(* ---------- current code ---------- *)
Definition cur : M wcode :=
  fun s => match st_stack s with w :: _ => inr (w, s) | [] => inl EInternal end.
Definition set_cur (w : wcode) : M unit :=
  fun s => match st_stack s with
           | _ :: r => inr (tt, {| st_tabs := st_tabs s; st_stack := w :: r; st_funcindex := st_funcindex s |})
           | [] => inl EInternal
           end.

Definition upd_w (f : wcode -> wcode) : M unit := do w <- cur; set_cur (f w).

Definition with_tab (w : wcode) (t : nat) : wcode :=
  {| w_id := w_id w; w_name := w_name w; w_named := w_named w; w_functab := w_functab w; w_tab := t;
     w_consts := w_consts w; w_names := w_names w; w_children := w_children w; w_pipe := w_pipe w;
     w_funcid := w_funcid w; w_loops := w_loops w; w_root := w_root w |}.
Definition with_consts (w : wcode) (c : list konst) : wcode :=
  {| w_id := w_id w; w_name := w_name w; w_named := w_named w; w_functab := w_functab w; w_tab := w_tab w;
     w_consts := c; w_names := w_names w; w_children := w_children w; w_pipe := w_pipe w;
     w_funcid := w_funcid w; w_loops := w_loops w; w_root := w_root w |}.
Definition with_names (w : wcode) (c : list (list N)) : wcode :=
  {| w_id := w_id w; w_name := w_name w; w_named := w_named w; w_functab := w_functab w; w_tab := w_tab w;
     w_consts := w_consts w; w_names := c; w_children := w_children w; w_pipe := w_pipe w;
     w_funcid := w_funcid w; w_loops := w_loops w; w_root := w_root w |}.
Definition with_children (w : wcode) (c : list code) : wcode :=
  {| w_id := w_id w; w_name := w_name w; w_named := w_named w; w_functab := w_functab w; w_tab := w_tab w;
     w_consts := w_consts w; w_names := w_names w; w_children := c; w_pipe := w_pipe w;
     w_funcid := w_funcid w; w_loops := w_loops w; w_root := w_root w |}.
Definition with_pipe (w : wcode) (b : bool) : wcode :=
  {| w_id := w_id w; w_name := w_name w; w_named := w_named w; w_functab := w_functab w; w_tab := w_tab w;
     w_consts := w_consts w; w_names := w_names w; w_children := w_children w; w_pipe := b;
     w_funcid := w_funcid w; w_loops := w_loops w; w_root := w_root w |}.
Definition with_loops (w : wcode) (l : list (bool * nat)) : wcode :=
  {| w_id := w_id w; w_name := w_name w; w_named := w_named w; w_functab := w_functab w; w_tab := w_tab w;
     w_consts := w_consts w; w_names := w_names w; w_children := w_children w; w_pipe := w_pipe w;
     w_funcid := w_funcid w; w_loops := l; w_root := w_root w |}.

Definition constant (k : konst) : M N :=
  do w <- cur;
  set_cur (with_consts w (w_consts w ++ [k])) ;;
  ret (N.of_nat (length (w_consts w))).

Definition add_name (n : list N) : M N :=
  do w <- cur;
  set_cur (with_names w (w_names w ++ [n])) ;;
  ret (N.of_nat (length (w_names w))).

Definition open_block : M unit :=
  do w <- cur; do t <- new_child (w_tab w) true; do w' <- cur; set_cur (with_tab w' t).
Definition close_block : M unit :=
  do w <- cur; do tb <- get_tab (w_tab w);
  match tb_parent tb with Some p => set_cur (with_tab w p) | None => fail EInternal end.

Definition is_root : M bool := do w <- cur; ret (w_root w).

Definition store_sym (sym : symbol) : M (list slot) :=
  do r <- is_root;
  ret (I [if r then opStoreGlobal else opStoreFast; sy_index sym]).

Definition load_res (rs : resolution) : list slot :=
  match rs_scope rs with
  | Global => I [opLoadGlobal; sy_index (rs_sym rs)]
  | Local => I [opLoadFast; sy_index (rs_sym rs)]
  | Free => I [opLoadFree; rs_free rs]
  end.
Definition store_res (rs : resolution) : list slot :=
  match rs_scope rs with
  | Global => I [opStoreGlobal; sy_index (rs_sym rs)]
  | Local => I [opStoreFast; sy_index (rs_sym rs)]
  | Free => I [opStoreFree; rs_free rs]
  end.

Definition resolve_cur (name : list N) : M resolution :=
  do w <- cur;
  do r <- resolve (w_tab w) name;
  match r with Some rs => ret rs | None => fail (EUndefined name) end.

(* patch the placeholders of the loop that just ended: [c] starts at slot offset [off] of the loop *)
Fixpoint patch (off : N) (brkT contT : N) (c : list slot) : list slot :=
  match c with
  | [] => []
  | SBrk :: r => SI (brkT - (off - 1)) :: patch (off + 1) brkT contT r
  | SCont :: r => SI (contT - (off - 1)) :: patch (off + 1) brkT contT r
  | x :: r => x :: patch (off + 1) brkT contT r
  end.

Definition push_loop (is_range : bool) : M unit := upd_w (fun w => with_loops w ((is_range, 0%nat) :: w_loops w)).
(* compileSwitch: loop.switchDepth++ on entry (if inside a loop of the current code), -- on exit *)
Definition switch_enter : M unit :=
  upd_w (fun w => match w_loops w with (r, d) :: rest => with_loops w ((r, S d) :: rest) | [] => w end).
Definition switch_leave : M unit :=
  upd_w (fun w => match w_loops w with (r, d) :: rest => with_loops w ((r, Nat.pred d) :: rest) | [] => w end).
(* ast.Func with a name: a statement that nevertheless leaves its function on the stack *)
Definition is_named_func (n : node) : bool :=
  match n with NFunc (Some _) _ _ _ => true | _ => false end.
Definition pop_between (x : node) : list slot := if is_expression x || is_named_func x then [SI opPopTop] else [].
Definition nil_after (x : node) : list slot :=
  if is_expression x then [] else (if is_named_func x then [SI opPopTop] else []) ++ [SI opNil].
Definition pop_loop : M unit := upd_w (fun w => with_loops w (tl (w_loops w))).

Definition binop_code (op : list N) : option (list slot) :=
  let b x := Some (I [opBinaryOp; x]) in
  let c x := Some (I [opCompareOp; x]) in
  if beq op [43] then b bAdd else if beq op [45] then b bSubtract else if beq op [42] then b bMultiply
  else if beq op [47] then b bDivide else if beq op [37] then b bModulo else if beq op [42;42] then b bPower
  else if beq op [60;60] then b bLShift else if beq op [62;62] then b bRShift else if beq op [38] then b bBitwiseAnd
  else if beq op [62] then c cGreaterThan else if beq op [62;61] then c cGreaterThanOrEqual
  else if beq op [60] then c cLessThan else if beq op [60;61] then c cLessThanOrEqual
  else if beq op [61;61] then c cEqual else if beq op [33;61] then c cNotEqual
  else None.

Definition compound_code (op : list N) : option (list slot) :=
  if beq op [43;61] then Some (I [opBinaryOp; bAdd]) else if beq op [45;61] then Some (I [opBinaryOp; bSubtract])
  else if beq op [42;61] then Some (I [opBinaryOp; bMultiply]) else if beq op [47;61] then Some (I [opBinaryOp; bDivide])
  else None.

Definition implements_expression (n : node) : bool :=
  match n with NFunc _ _ _ _ => true | _ => is_expression n end.

(* normalizeFunctionBlock *)
Fixpoint upto_return (l : list node) : option (list node) :=
  match l with
  | [] => None
  | NReturn v :: _ => Some [NReturn v]
  | x :: r => match upto_return r with Some r' => Some (x :: r') | None => None end
  end.
Definition normalize_function_block (l : list node) : list node :=
  match l with
  | [] => [NReturn (Some NNil)]
  | _ => match upto_return l with
         | Some l' => l'
         | None =>
             let last := List.last l NNil in
             if implements_expression last then removelast l ++ [NReturn (Some last)]
             else l ++ [NReturn (Some NNil)]
         end
  end.

Definition last_tab_component (path : list N) : list N :=
  (fix go (l acc : list N) : list N :=
     match l with [] => acc | c :: r => if c =? 47 then go r [] else go r (acc ++ [c]) end) path [].

Section Compile.
  (* ---------- the mutually recursive compile function, on fuel ---------- *)
  Fixpoint compile (fuel : nat) (n : node) {struct fuel} : M (list slot) :=
    match fuel with
    | O => fail EFuel
    | S f =>
      let compile := compile f in
      let compile_list := fix cl (l : list node) : M (list slot) :=
          match l with [] => ret [] | x :: r => do a <- compile x; do b <- cl r; ret (a ++ b) end in
      (* statements of a block/program: PopTop between, Nil after a trailing statement *)
      let compile_stmts := fix cs (l : list node) : M (list slot) :=
          match l with
          | [] => ret []
          | [x] => do a <- compile x; ret (a ++ nil_after x)
          | x :: r => do a <- compile x; do b <- cs r; ret (a ++ pop_between x ++ b)
          end in
      let compile_block (l : list node) : M (list slot) :=
          open_block ;;
          do c <- (match l with [] => ret (I [opNil]) | _ => compile_stmts l end);
          close_block ;; ret c in
      let compile_fn_stmts := fix cs (l : list node) : M (list slot) :=
          match l with
          | [] => ret []
          | [x] => compile x
          | x :: r => do a <- compile x; do b <- cs r; ret (a ++ pop_between x ++ b)
          end in
      match n with
      | NNil => ret (I [opNil])
      | NInt z => do k <- constant (KInt z); ret (I [opLoadConst; k])
      | NFloat b => do k <- constant (KFloat b); ret (I [opLoadConst; k])
      | NFloatText _ => fail EInternal
      | NTypedNilReturn => fail EPanicNilBlock
      | NBool b => ret (I [if b then opTrue else opFalse])
      | NString v None => do k <- constant (KStr v); ret (I [opLoadConst; k])
      | NString v (Some frags) =>
          do c <- (fix fr (l : list frag) : M (list slot) :=
                     match l with
                     | [] => ret []
                     | FText s :: r => do k <- constant (KStr s); do b <- fr r; ret (I [opLoadConst; k] ++ b)
                     | FVar None :: r => do k <- constant (KStr []); do b <- fr r; ret (I [opLoadConst; k] ++ b)
                     | FVar (Some e) :: r => do a <- compile e; do b <- fr r; ret (a ++ b)
                     end) frags;
          ret (c ++ I [opBuildString; N.of_nat (length frags)])
      | NIdent name => do rs <- resolve_cur name; ret (load_res rs)
      | NPrefix op r =>
          do a <- compile r;
          ret (a ++ (if beq op [33] then I [opUnaryNot] else if beq op [45] then I [opUnaryNegative] else []))
      | NInfix op l r =>
          if beq op [38;38] || beq op [124;124] then
            do a <- compile l;
            do b <- compile r;
            let body := b ++ I [opBinaryOp; if beq op [38;38] then bAnd else bOr; opNop] in
            ret (a ++ I [opCopy; 0; if beq op [38;38] then opPopJumpForwardIfFalse else opPopJumpForwardIfTrue;
                         nlen body + 2] ++ body)
          else
            do a <- compile l;
            do b <- compile r;
            match binop_code op with Some c => ret (a ++ b ++ c) | None => fail EUnknownOperator end
      | NIf c cns alt =>
          do a <- compile c;
          do t <- compile_block cns;
          do e <- (match alt with Some al => compile_block al | None => ret (I [opNil]) end);
          ret (a ++ I [opPopJumpForwardIfFalse; nlen t + 4] ++ t ++ I [opJumpForward; nlen e + 2] ++ e)
      | NTernary c t e =>
          do a <- compile c;
          do tc <- compile t;
          do ec <- compile e;
          ret (a ++ I [opPopJumpForwardIfFalse; nlen tc + 4] ++ tc ++ I [opJumpForward; nlen ec + 2] ++ ec)
      | NCall fn args =>
          if (255 <? length args)%nat then fail EMaxArgs else
          do a <- compile fn;
          do b <- compile_list args;
          do w <- cur;
          ret (a ++ b ++ I [if w_pipe w then opPartial else opCall; N.of_nat (length args)])
      | NObjectCall o name args =>
          do a <- compile o;
          do k <- add_name name;
          if (255 <? length args)%nat then fail EMaxArgs else
          do b <- compile_list args;
          do w <- cur;
          ret (a ++ I [opLoadAttr; k] ++ b ++ I [if w_pipe w then opPartial else opCall; N.of_nat (length args)])
      | NGetAttr o name =>
          do a <- compile o; do k <- add_name name; ret (a ++ I [opLoadAttr; k])
      | NPipe es =>
          do w <- cur;
          if w_pipe w then fail ENestedPipe else
          match es with
          | e0 :: ((_ :: _) as rest) =>
              do a <- compile e0;
              upd_w (fun w => with_pipe w true) ;;
              do b <- (fix pp (l : list node) : M (list slot) :=
                         match l with
                         | [] => ret []
                         | x :: r => do c <- compile x; do d <- pp r; ret (c ++ I [opSwap; 1; opCall; 1] ++ d)
                         end) rest;
              upd_w (fun w => with_pipe w false) ;;
              ret (a ++ b)
          | _ => fail EPipeArity
          end
      | NIndex l i => do a <- compile l; do b <- compile i; ret (a ++ b ++ I [opBinarySubscr])
      | NSlice l from to =>
          do a <- compile l;
          do c <- (match from with Some fr => compile fr
                              | None => do k <- constant (KInt 0); ret (I [opLoadConst; k]) end);
          do b <- (match to with Some t => compile t | None => ret (I [opCopy; 1; opLength]) end);
          ret (a ++ c ++ b ++ I [opSwap; 1; opSlice])
      | NSwitch v cases =>
          do sv <- compile v;
          switch_enter ;;
          (* 1. the tests, in order over non-default cases: Copy 0; expr; CompareOp Equal; PopJumpIfTrue <ph> *)
          do tests <- (fix ts (l : list scase) : M (list (list (list slot))) :=
                         match l with
                         | [] => ret []
                         | SCase true _ _ :: r => ts r
                         | SCase false exprs _ :: r =>
                             do es <- (fix ex (l : list node) : M (list (list slot)) :=
                                         match l with [] => ret [] | x :: r' => do a <- compile x; do b <- ex r'; ret (a :: b) end) exprs;
                             do rr <- ts r; ret (es :: rr)
                         end) cases;
          (* 2. the bodies of the non-default cases, in order *)
          do bodies <- (fix bs (l : list scase) : M (list (list slot)) :=
                          match l with
                          | [] => ret []
                          | SCase true _ _ :: r => bs r
                          | SCase false _ blk :: r =>
                              do b <- (match blk with Some b => compile_block b | None => ret (I [opNil]) end);
                              do rr <- bs r; ret (b :: rr)
                          end) cases;
          (* 3. the default body *)
          do dflt <- (match find (fun c => match c with SCase d _ _ => d end) cases with
                      | Some (SCase _ _ (Some b)) => compile_block b
                      | Some (SCase _ _ None) => ret (I [opNil])
                      | None => ret (I [opNil])
                      end);
          switch_leave ;;
          (* layout: tests ++ [JumpForward -> default] ++ (body_k ++ [JumpForward -> end])* ++ default ++ [Swap 1; PopTop] *)
          let test_len (es : list (list slot)) : N := fold_right (fun e acc => nlen e + 6 + acc) 0 es in
          let tests_total : N := fold_right (fun es acc => test_len es + acc) 0 tests in
          let body_lens : list N := map (fun b => nlen b + 2) bodies in
          let bodies_total : N := fold_right N.add 0 body_lens in
          (* position (relative to start of tests) of body k *)
          let body_start (k : nat) : N := tests_total + 2 + fold_right N.add 0 (firstn k body_lens) in
          let emit_tests :=
              (fix et (l : list (list (list slot))) (k : nat) (pos : N) : list slot :=
                 match l with
                 | [] => []
                 | es :: r =>
                     let '(c, pos') :=
                         (fix ee (l : list (list slot)) (pos : N) : list slot * N :=
                            match l with
                            | [] => ([], pos)
                            | e :: r' =>
                                let jpos := pos + 2 + nlen e + 2 in       (* position of the PopJump opcode *)
                                let '(c', p') := ee r' (jpos + 2) in
                                (I [opCopy; 0] ++ e ++ I [opCompareOp; cEqual; opPopJumpForwardIfTrue; body_start k - jpos] ++ c', p')
                            end) es pos in
                     c ++ et r (S k) pos'
                 end) tests 0%nat 0 in
          let end_pos : N := tests_total + 2 + bodies_total + nlen dflt in
          let emit_bodies :=
              (fix eb (l : list (list slot)) (pos : N) : list slot :=
                 match l with
                 | [] => []
                 | b :: r => let jpos := pos + nlen b in
                             b ++ I [opJumpForward; end_pos - jpos] ++ eb r (jpos + 2)
                 end) bodies (tests_total + 2) in
          ret (sv ++ emit_tests ++ I [opJumpForward; 2 + bodies_total] ++ emit_bodies ++ dflt ++ I [opSwap; 1; opPopTop])
      | NIn l r => do a <- compile l; do b <- compile r; ret (a ++ b ++ I [opSwap; 1; opContainsOp; 0])
      | NNotIn l r => do a <- compile l; do b <- compile r; ret (a ++ b ++ I [opSwap; 1; opContainsOp; 0; opUnaryNot])
      | NRange c => do a <- compile c; ret (a ++ I [opRange])
      | NReceive c => do a <- compile c; ret (a ++ I [opReceive])
      | NList items =>
          do a <- compile_list items; ret (a ++ I [opBuildList; N.of_nat (length items)])
      | NSet items =>
          do a <- compile_list items; ret (a ++ I [opBuildSet; N.of_nat (length items)])
      | NMap items =>
          do a <- (fix mp (l : list (node * node)) : M (list slot) :=
                     match l with
                     | [] => ret []
                     | (k, v) :: r =>
                         do kc <- (match k with
                                   | NString _ _ => compile k
                                   | NIdent name => do c <- constant (KStr name); ret (I [opLoadConst; c])
                                   | _ => fail EMapKey
                                   end);
                         do vc <- compile v; do rr <- mp r; ret (kc ++ vc ++ rr)
                     end) items;
          ret (a ++ I [opBuildMap; N.of_nat (length items)])
      | NVar name v =>
          do a <- compile v;
          do w <- cur;
          do sym <- insert_symbol (w_tab w) name false;
          do st <- store_sym sym; ret (a ++ st)
      | NConst name v =>
          do a <- compile v;
          do w <- cur;
          do sym <- insert_symbol (w_tab w) name true;
          do st <- store_sym sym; ret (a ++ st)
      | NMultiVar names v walrus =>
          do a <- compile v;
          do sts <- (fix st (l : list (list N)) : M (list slot) :=
                       match l with
                       | [] => ret []
                       | nm :: r =>
                           do c <- (if walrus then
                                      do w <- cur; do sym <- insert_symbol (w_tab w) nm false; store_sym sym
                                    else do rs <- resolve_cur nm; ret (store_res rs));
                           do rr <- st r; ret (c ++ rr)
                       end) (rev names);
          ret (a ++ I [opUnpack; N.of_nat (length names)] ++ sts)
      | NBreak =>
          do w <- cur;
          match w_loops w with
          | [] => fail EBreakOutside
          | (is_range, sd) :: _ => ret (repeat (SI opPopTop) sd ++ (if is_range then I [opPopTop] else []) ++ [SI opJumpForward; SBrk])
          end
      | NContinue =>
          do w <- cur;
          match w_loops w with
          | [] => fail EContinueOutside
          | (_, sd) :: _ => ret (repeat (SI opPopTop) sd ++ [SI opJumpForward; SCont])
          end
      | NReturn v =>
          do r <- is_root;
          if r then fail EReturnOutside else
          do a <- (match v with Some e => compile e | None => ret (I [opNil]) end);
          ret (a ++ I [opReturnValue])
      | NAssign name op v =>
          do rs <- resolve_cur name;
          if sy_const (rs_sym rs) then fail (EConstAssign name) else
          if beq op [61] then do a <- compile v; ret (a ++ store_res rs)
          else
            do a <- compile v;
            ret (load_res rs ++ a ++ (match compound_code op with Some c => c | None => [] end) ++ store_res rs)
      | NAssignIndex l i op v =>
          do pre <- (if beq op [61] then compile v
                     else
                       do a <- compile l; do b <- compile i; do c <- compile v;
                       match compound_code op with
                       | Some oc => ret (a ++ b ++ I [opBinarySubscr] ++ c ++ oc)
                       | None => fail ECompoundOp
                       end);
          do a <- compile l; do b <- compile i;
          ret (pre ++ a ++ b ++ I [opStoreSubscr])
      | NSetAttr o name op v =>
          do pre <- (if beq op [61] then compile v
                     else
                       do a <- compile o; do k <- add_name name; do c <- compile v;
                       match compound_code op with
                       | Some oc => ret (a ++ I [opLoadAttr; k] ++ c ++ oc)
                       | None => fail ECompoundOp
                       end);
          do a <- compile o; do k <- add_name name;
          ret (pre ++ a ++ I [opStoreAttr; k])
      | NPostfix name op =>
          do rs <- resolve_cur name;
          do k <- (if beq op [43;43] then constant (KInt 1) else if beq op [45;45] then constant (KInt (-1))
                   else fail EUnknownOperator);
          ret (load_res rs ++ I [opLoadConst; k; opBinaryOp; bAdd] ++ store_res rs)
      | NImport path alias =>
          do k <- constant (KStr path);
          let name := match alias with Some a => a | None => last_tab_component path end in
          do w <- cur;
          do tb <- get_tab (w_tab w);
          do sym <- (match assoc name (tb_byname tb) with
                     | Some s => ret s
                     | None => insert_symbol (w_tab w) name true
                     end);
          do st <- store_sym sym;
          ret (I [opLoadConst; k; opImport] ++ st)
      | NFromImport parents imports =>
          do pc <- (fix ps (l : list (list N)) : M (list slot) :=
                      match l with [] => ret [] | p :: r => do k <- constant (KStr p); do rr <- ps r; ret (I [opLoadConst; k] ++ rr) end) parents;
          do ic <- (fix imps (l : list (list N * option (list N))) : M (list slot) :=
                      match l with [] => ret [] | (nm, _) :: r => do k <- constant (KStr nm); do rr <- imps r; ret (I [opLoadConst; k] ++ rr) end) imports;
          (* aliases[name] = alias: a later import of the same name overrides the alias of an earlier one *)
          let alias_of (nm : list N) : list N :=
              fold_left (fun acc im => if beq (fst im) nm then (match snd im with Some a => a | None => fst im end) else acc) imports nm in
          do sc <- (fix ss (l : list (list N * option (list N))) : M (list slot) :=
                      match l with
                      | [] => ret []
                      | (nm, _) :: r =>
                          let al := alias_of nm in
                          do w <- cur;
                          do tb <- get_tab (w_tab w);
                          do sym <- (match assoc al (tb_byname tb) with
                                     | Some s => ret s
                                     | None => insert_symbol (w_tab w) al true
                                     end);
                          do st <- store_sym sym; do rr <- ss r; ret (st ++ rr)
                      end) imports;
          ret (pc ++ ic ++ I [opFromImport; N.of_nat (length parents); N.of_nat (length imports)] ++ sc)
      | NSend ch v => do a <- compile ch; do b <- compile v; ret (a ++ b ++ I [opSend])
      | NGo call | NDefer call =>
          do r <- is_root;
          if (match n with NDefer _ => r | _ => false end) then fail EDeferOutside else
          do c <- (match call with
                   | NCall fn args =>
                       if (255 <? length args)%nat then fail EMaxArgs else
                       do a <- compile fn; do b <- compile_list args;
                       ret (a ++ b ++ I [opPartial; N.of_nat (length args)])
                   | NObjectCall o name args =>
                       do a <- compile o; do k <- add_name name;
                       if (255 <? length args)%nat then fail EMaxArgs else
                       do b <- compile_list args;
                       ret (a ++ I [opLoadAttr; k] ++ b ++ I [opPartial; N.of_nat (length args)])
                   | _ => ret []
                   end);
          ret (c ++ I [match n with NDefer _ => opDefer | _ => opGo end])
      | NFor cond init post body =>
          match cond, init, post with
          | None, None, None =>
              (* compileSimpleFor *)
              open_block ;; push_loop false ;;
              do b <- compile_block body;
              pop_loop ;; close_block ;;
              let c := b ++ I [opPopTop] in
              let jb := nlen c in
              ret (patch 0 (jb + 2) jb c ++ I [opJumpBackward; jb; opNop])
          | Some c, None, None =>
              let for_range (names : list (list N)) (container : node) : M (list slot) :=
                  do cc <- compile container;
                  open_block ;; push_loop true ;;
                  do sts <- (fix st (l : list (list N)) : M (list slot) :=
                               match l with
                               | [] => ret []
                               | nm :: r =>
                                   do w <- cur; do sym <- insert_symbol (w_tab w) nm false;
                                   do s <- get;
                                   let g := is_global (fuel_of s) (st_tabs s) (w_tab w) in
                                   do rr <- st r;
                                   ret (I [if g then opStoreGlobal else opStoreFast; sy_index sym] ++ rr)
                               end) names;
                  do b <- compile_block body;
                  pop_loop ;; close_block ;;
                  (* ForIter <delta> <n>; stores; body; PopTop; JumpBackward *)
                  let inner := sts ++ b ++ I [opPopTop] in
                  let jb := 3 + nlen inner in                     (* position of JumpBackward relative to ForIter *)
                  let endp := jb + 2 in
                  ret (cc ++ I [opGetIter; opForIter; endp; N.of_nat (length names)]
                          ++ patch 3 endp jb inner ++ I [opJumpBackward; jb]) in
              match c with
              | NVar name rhs =>
                  match rhs with NRange cont => for_range [name] cont | _ => for_range [name] rhs end
              | NMultiVar names rhs _ =>
                  if negb (Nat.eqb (length names) 2) then fail EInvalidFor else
                  match rhs with NRange cont => for_range names cont | _ => for_range names rhs end
              | NRange cont => for_range [] cont
              | _ =>
                  if implements_expression c then
                    (* compileForCondition *)
                    open_block ;; push_loop false ;;
                    do cc <- compile c;
                    do b <- compile_block body;
                    pop_loop ;; close_block ;;
                    let pre := cc ++ I [opPopJumpForwardIfFalse; nlen b + 2 + 1 + 2 + 1] in
                    let inner := pre ++ b ++ I [opPopTop] in
                    let jb := nlen inner in
                    ret (patch 0 (jb + 2) jb inner ++ I [opJumpBackward; jb; opNop])
                  else fail EInvalidFor
              end
          | _, _, _ =>
              (* three-part loop *)
              open_block ;; push_loop false ;;
              do ic <- (match init with
                        | Some i => do x <- compile i; ret (x ++ (if is_expression i then I [opPopTop] else []))
                        | None => ret []
                        end);
              do cc <- (match cond with Some c => compile c | None => ret [] end);
              do b <- compile_block body;
              do pc <- (match post with
                        | Some p => do x <- compile p; ret (x ++ (if is_expression p then I [opPopTop] else []))
                        | None => ret []
                        end);
              pop_loop ;; close_block ;;
              let has_cond := match cond with Some _ => true | None => false end in
              (* loop starts after init *)
              let tail_len := nlen b + 1 + nlen pc + 2 in
              let condj := if has_cond then I [opPopJumpForwardIfFalse; tail_len + 2] else [] in
              let head := cc ++ condj in
              let cont_dst := nlen head + nlen b + 1 in
              let jb := cont_dst + nlen pc in
              let endp := jb + 2 in
              let loop := head ++ b ++ I [opPopTop] ++ pc in
              ret (ic ++ patch 0 endp cont_dst loop ++ I [opJumpBackward; jb])
          end
      | NForIn v iter body =>
          do cc <- compile iter;
          open_block ;; push_loop true ;;
          do w <- cur; do sym <- insert_symbol (w_tab w) v false;
          do s <- get;
          let g := is_global (fuel_of s) (st_tabs s) (w_tab w) in
          do b <- compile_block body;
          pop_loop ;; close_block ;;
          let inner := I [if g then opStoreGlobal else opStoreFast; sy_index sym] ++ b ++ I [opPopTop] in
          let jb := 3 + nlen inner in
          let endp := jb + 2 in
          ret (cc ++ I [opGetIter; opForIter; endp; 3] ++ patch 3 endp jb inner ++ I [opJumpBackward; jb])
      | NFunc name params defaults body =>
          if (255 <? length params)%nat then fail EInternal else
          do s <- get;
          let fidx := S (st_funcindex s) in
          put {| st_tabs := st_tabs s; st_stack := st_stack s; st_funcindex := fidx |} ;;
          let fid := dec fidx in
          do parent <- cur;
          do ft <- new_child (w_tab parent) false;
          let fname := match name with Some nm => nm | None => [] end in
          let named := match name with Some (_ :: _) => true | _ => false end in
          let child := {| w_id := w_id parent ++ [46] ++ dec (length (w_children parent));
                          w_name := fname; w_named := named; w_functab := ft; w_tab := ft;
                          w_consts := []; w_names := []; w_children := []; w_pipe := false;
                          w_funcid := fid; w_loops := []; w_root := false |} in
          (fun s => inr (tt, {| st_tabs := st_tabs s; st_stack := child :: st_stack s; st_funcindex := st_funcindex s |})) ;;
          (* defaults: only literals; trailing parameters only *)
          do dvals <- (fix dv (ps : list (list N)) : M (list (option dflt)) :=
                         match ps with
                         | [] => ret []
                         | p :: r =>
                             do d <- (match assoc p defaults with
                                      | None => ret None
                                      | Some (NInt z) => ret (Some (DInt z))
                                      | Some (NString v _) => ret (Some (DStr v))
                                      | Some (NBool b) => ret (Some (DBool b))
                                      | Some (NFloat b) => ret (Some (DFloat b))
                                      | Some NNil => ret (Some DNil)
                                      | Some _ => fail EUnsupportedDefault
                                      end);
                             do rr <- dv r; ret (d :: rr)
                         end) params;
          (* any default that is not a supported literal is an error even if its name matches no parameter *)
          do _ <- (fix chk (l : list (list N * node)) : M unit :=
                     match l with
                     | [] => ret tt
                     | (_, (NInt _ | NString _ _ | NBool _ | NFloat _ | NNil)) :: r => chk r
                     | _ => fail EUnsupportedDefault
                     end) defaults;
          (if (fix bad (l : list (option dflt)) (seen : bool) : bool :=
                 match l with
                 | [] => false
                 | Some _ :: r => bad r true
                 | None :: r => if seen then true else bad r false
                 end) dvals false
           then match defaults with [] => ret tt | _ => fail EBadDefaults end else ret tt) ;;
          do _ <- (fix ins (ps : list (list N)) : M unit :=
                     match ps with [] => ret tt | p :: r => do _ <- insert_symbol ft p false; ins r end) params;
          (if named then do _ <- insert_symbol ft fname true; ret tt else ret tt) ;;
          (* compileFunctionBlock *)
          open_block ;;
          do bc <- compile_fn_stmts (normalize_function_block body);
          close_block ;;
          (* pop the child code *)
          do cw <- cur;
          do ftb <- get_tab ft;
          let ccode := Code (w_id cw) (w_name cw) (w_named cw) ft
                            (map (fun s => match s with SI n => n | _ => PLACEHOLDER end) bc)
                            (w_consts cw) (w_names cw) (w_children cw) (w_funcid cw) in
          (fun s => match st_stack s with
                    | _ :: r => inr (tt, {| st_tabs := st_tabs s; st_stack := r; st_funcindex := st_funcindex s |})
                    | [] => inl EInternal end) ;;
          upd_w (fun w => with_children w (w_children w ++ [ccode])) ;;
          let fnk := KFn fid fname params (map (fun d => match d with Some x => x | None => DNil end) dvals) ccode in
          do load <- (match tb_free ftb with
                      | [] => do k <- constant fnk; ret (I [opLoadConst; k])
                      | frees =>
                          do cells <- (fix mk (l : list resolution) : M (list slot) :=
                                         match l with
                                         | [] => ret []
                                         | rs :: r =>
                                             do c <- (if (1 <? rs_depth rs)%nat then
                                                        do w <- cur;
                                                        do o <- resolve (w_tab w) (sy_name (rs_sym rs));
                                                        match o with
                                                        | Some ors =>
                                                            match rs_scope ors with
                                                            | Free => ret (I [opLoadCell; rs_free ors])
                                                            | _ => ret (I [opMakeCell; sy_index (rs_sym rs); N.of_nat (rs_depth rs - 1)])
                                                            end
                                                        | None => ret (I [opMakeCell; sy_index (rs_sym rs); N.of_nat (rs_depth rs - 1)])
                                                        end
                                                      else ret (I [opMakeCell; sy_index (rs_sym rs); N.of_nat (rs_depth rs - 1)]));
                                             do rr <- mk r; ret (c ++ rr)
                                         end) frees;
                          do k <- constant fnk;
                          ret (cells ++ I [opLoadClosure; k; N.of_nat (length frees)])
                      end);
          if named then
            do w <- cur;
            do tb <- get_tab (w_tab w);
            do sym <- (match assoc fname (tb_byname tb) with
                       | Some sy => ret sy
                       | None => insert_symbol (w_tab w) fname true
                       end);
            do st <- store_sym sym;
            ret (load ++ I [opCopy; 0] ++ st)
          else ret load
      end
    end.
End Compile.

(* collectFunctionDeclarations + compileProgram *)
Definition collect_decls (stmts : list node) : M unit :=
  (fix go (l : list node) : M unit :=
     match l with
     | [] => ret tt
     | NFunc (Some nm) _ _ _ :: r =>
         do w <- cur;
         do tb <- get_tab (w_tab w);
         match assoc nm (tb_byname tb) with
         | Some _ => fail (ERedefined nm)
         | None => do _ <- insert_symbol (w_tab w) nm true; go r
         end
     | _ :: r => go r
     end) stmts.

Definition main_id : list N := [95;95;109;97;105;110;95;95].   (* "__main__" *)
Definition root_id : list N := [114;111;111;116].               (* "root" *)

Definition init_state (globals : list (list N)) : cstate :=
  let root := {| tb_id := root_id; tb_parent := None; tb_nchildren := 0; tb_byname := []; tb_freebyname := [];
                 tb_syms := []; tb_free := []; tb_block := false |} in
  let w := {| w_id := main_id; w_name := main_id; w_named := false; w_functab := 0%nat; w_tab := 0%nat;
              w_consts := []; w_names := []; w_children := []; w_pipe := false; w_funcid := [];
              w_loops := []; w_root := true |} in
  {| st_tabs := [root]; st_stack := [w]; st_funcindex := 0 |}.

Definition compile_program (fuel : nat) (globals : list (list N)) (stmts : list node) : err + (code * list table) :=
  let m : M code :=
      (fix ins (l : list (list N)) : M unit :=
         match l with [] => ret tt | g :: r => do _ <- insert_symbol 0%nat g false; ins r end) globals ;;
      collect_decls stmts ;;
      do c <- (match stmts with
               | [] => ret (I [opNil])
               | _ => (fix cs (l : list node) : M (list slot) :=
                         match l with
                         | [] => ret []
                         | [x] => do a <- compile fuel x; ret (a ++ nil_after x)
                         | x :: r => do a <- compile fuel x; do b <- cs r;
                                     ret (a ++ pop_between x ++ b)
                         end) stmts
               end);
      do w <- cur;
      ret (Code (w_id w) (w_name w) false 0%nat
                (map (fun s => match s with SI n => n | _ => PLACEHOLDER end) c)
                (w_consts w) (w_names w) (w_children w) []) in
  match m (init_state globals) with
  | inl e => inl e
  | inr (c, s) => inr (c, st_tabs s)
  end.
