From Coq Require Import List ZArith NArith Extraction ExtrOcamlBasic.
Require Import RV.model.Syntax RV.model.Compiler RV.model.VM.
Extraction "vm_model.ml" compile_program VM.run.
