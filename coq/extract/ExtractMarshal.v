From Coq Require Import List NArith Extraction ExtrOcamlBasic.
Require Import RV.model.Marshal.
Extraction "marshal_model.ml" relink defs_ok.
