From Coq Require Import List Arith Extraction ExtrOcamlBasic.
Require Import RV.model.Bytecode.
Extraction "verify_model.ml" verify certify certify_labels.
