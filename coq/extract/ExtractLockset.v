From Coq Require Import List Extraction ExtrOcamlBasic.
Require Import RV.model.Lockset.
Import ListNotations.

Definition ls_pair_ok := pair_ok.
Definition ls_all_pairs_ok := all_pairs_ok.
Definition ls_find_bad_pair := find_bad_pair.
Definition ls_check_witness := check_witness.
Definition ls_conformsb := conformsb.
Definition ls_run := run.
Definition ls_init := init.
Definition ls_raceb := raceb.
Extraction "lockset_model.ml" ls_pair_ok ls_all_pairs_ok ls_find_bad_pair ls_check_witness ls_conformsb ls_run ls_init ls_raceb.
