From Coq Require Import List ZArith Extraction ExtrOcamlBasic.
Require Import RV.model.Ops.
Import ListNotations.

Extraction "ops_model.ml" equals vcompare cmp_op hashkey ohkey_eqb truthy vlen contains set_of_list
  sorted sorted_idx of_int no_nan wf trans_guard has_oty tag_of numeric map_set hkey_eqb runes_of utf8_encode.
