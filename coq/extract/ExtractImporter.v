From Coq Require Import List NArith ZArith Extraction ExtrOcamlBasic.
Require Import RV.model.Paths RV.model.Importer.
Import ListNotations.

Definition cleanN (s : list N) : list N := clean s.
Extraction "importer_model.ml" run_main accepted requested name_okb local_file fs_file default_exts
  action_accepted tree_accepted requests get cleanN tree_ranked rank_of ranked_below.
