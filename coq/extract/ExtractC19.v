From Coq Require Import List NArith ZArith String Extraction ExtrOcamlBasic.
Require Import RV.model.Wrappers RV.model.Codecs RV.gen.GenWrappers.
Import ListNotations.

Definition table : list wrapper := gen_wrappers.
Definition lookup (name : list N) : option wrapper := find_wrapper (string_of_bytes name) gen_wrappers.
Definition callee_name (w : wrapper) : list N := bytes_of_string (w_callee w).
Definition wrapper_name (w : wrapper) : list N := bytes_of_string (w_name w).
Definition run (F : list gval -> gret) (w : wrapper) (args : list obj) : outcome :=
  run_wrapper (fun _ a => F a) w args.
Definition callee_args (w : wrapper) (args : list obj) : option (list gval) :=
  match unpack w args with Ok a => Some (place w a) | Err _ => None end.
Definition hex_codec_encode (v : obj) : obj := codec_encode hex_encode cs_hex v.
Definition hex_codec_decode (v : obj) : obj := codec_decode hex_dec cs_hex v.
Extraction "c19_model.ml" table lookup callee_name wrapper_name run callee_args wrapper_wf w_regular mk_fin
  codec_encode codec_decode cs_base64 cs_base32 cs_gzip cs_urlquery hex_codec_encode hex_codec_decode
  json_roundtrip json_marshal json_encode of_jv veq json_safe json_dom not_nil.
