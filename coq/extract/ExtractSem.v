From Coq Require Import List ZArith NArith Extraction ExtrOcamlBasic.
Require Import RV.model.Syntax RV.model.Sem.
Extraction "sem_model.ml" run.
