From Coq Require Import List ZArith Extraction ExtrOcamlBasic.
Require Import RV.model.Ops RV.model.Containers.
Import ListNotations.

Extraction "containers_model.ml" crun arun abs_store brun rbrun babs str_get str_slice str_len set_of_list map_set
  utf8_encode runes_of g_abs b_view.
