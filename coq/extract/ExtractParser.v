From Coq Require Import List ZArith NArith Extraction ExtrOcamlBasic.
Require Import RV.model.Lexer RV.model.Syntax RV.model.Parser.
Extraction "parser_model.ml" parse.
