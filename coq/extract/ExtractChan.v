From Coq Require Import List NArith Extraction ExtrOcamlBasic.
Require Import RV.model.Chan RV.model.Spawn.
Import ListNotations.

Definition chan_init := init.
Definition chan_step := step.
Definition chan_seq_step := seq_step.
Definition chan_accept := accept.
Definition chan_weak_accept := weak_accept.
Definition chan_delivered := delivered.
Definition chan_exclusive := exclusive.
Definition chan_multi_iter := multi_iter.
Definition chan_run := run.
Definition spawn_predict := predict.
Extraction "chan_model.ml" chan_init chan_step chan_seq_step chan_accept chan_weak_accept chan_delivered
  chan_exclusive chan_multi_iter chan_run spawn_predict.
