From Coq Require Import List NArith ZArith Extraction ExtrOcamlBasic.
Require Import RV.model.Conv.
Import ListNotations.

Extraction "conv_model.ml" run_case iface_of heap_get Z.add Z.mul Z.to_N Z.of_N Z.opp no_named.
