From Coq Require Import List NArith Extraction ExtrOcamlBasic.
Require Import RV.model.Paths.
Import ListNotations.

Definition cleanN (s : list N) : list N := clean s.
Definition resolveN (base path : list N) : res := resolve_path base path.
Definition find_mountN (cwd : list N) (keys : list (list N)) (path : list N) := find_mount cwd keys path.
Definition vrunN (keys : list (list N)) (cwd : list N) (ops : list vop) := vrun keys cwd ops.
Definition mount_twoN (cwd : list N) (keys : list (list N)) (p1 p2 : list N) := mount_two cwd keys p1 p2.
Extraction "paths_model.ml" cleanN resolveN find_mountN vrunN mount_twoN.
