From Coq Require Import List String PArith MSets.MSetPositive Extraction ExtrOcamlBasic.
Require Import RV.model.Graph RV.model.Globals.
Import ListNotations.

Definition mk_edge := E.
Definition mk_world := W.
Definition mk_config := Cfg.
Definition run_config (defaults : world) (c : config) : world := apply_config defaults c.
Definition reach_list (w : world) : option (list positive) :=
  match world_reach w with Some s => Some (PS.elements s) | None => None end.
Definition env_names (w : world) : list string := map fst (w_env w).
Definition lookup (w : world) (name : string) : option positive := lookup_name w name.
Definition all_names (w : world) : list string := names w.
Definition deny_ok (w : world) (name : string) : bool := check_deny w name.
Definition wf (w : world) : bool := wf_world w.
(* a configuration given as the sequence of options that composes it, and host-assembled modules *)
Definition run_options (defaults : world) (opts : list opt) : world := apply_config defaults (config_of opts).
Definition assemble_module (w : world) (n : positive) (members : list (string * positive)) : world := assemble w n members.
Extraction "globals_model.ml" mk_edge mk_world mk_config run_config reach_list env_names lookup all_names deny_ok wf
  run_options assemble_module.
