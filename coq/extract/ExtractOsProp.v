From Coq Require Import List Extraction ExtrOcamlBasic.
Require Import RV.model.OsProp.

Definition eff (d : deriv) : nat := effective_os d.
Definition mk_top := Top.
Definition mk_hostcall := HostCall.
Definition mk_hostclone := HostClone.
Definition mk_spawn := Spawn.
Definition mk_clonesync := CloneSync.
Definition mk_import := Import.
Definition mk_callfn := CallFn.
Definition mk_nest := Nest.
Definition mk_layers := ctx_of_layers.
Extraction "osprop_model.ml" eff mk_top mk_hostcall mk_hostclone mk_spawn mk_clonesync mk_import mk_callfn mk_nest mk_layers.
