From Coq Require Import List ZArith Extraction ExtrOcamlBasic.
Require Import RV.model.Clos.
Extraction "clos_model.ml" eb cb s0.
