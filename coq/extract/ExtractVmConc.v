From Coq Require Import List Extraction ExtrOcamlBasic.
Require Import RV.model.VmConc.
Extraction "vmconc_model.ml" analyse.
