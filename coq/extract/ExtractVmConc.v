From Coq Require Import List Extraction ExtrOcamlBasic.
Require Import RV.model.VmConc.
Extraction "vmconc_model.ml" analyse k_current k_noclone k_textual k_tryrecovers k_wakesilent.
