From Coq Require Import List ZArith NArith Extraction ExtrOcamlBasic.
Require Import RV.model.Syntax RV.model.Compiler.
Extraction "compiler_model.ml" compile_program.
