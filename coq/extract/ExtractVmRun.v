From Coq Require Import List ZArith Extraction ExtrOcamlBasic.
Require Import RV.model.VmRun.
Extraction "vmrun_model.ml" exec0_out cfg_current cfg_nodrop cfg_nopush cfg_pinned cfg_noclone cfg_norunip cfg_nomods deep fact at_depth.
