From Coq Require Import List ZArith NArith Extraction ExtrOcamlBasic.
Require Import RV.model.Lexer.
Extraction "lexer_model.ml" lex.
