(* C13 - rooted filesystems and mounts cannot be escaped by any path string.
   Property theorems only; each is closed by [exact] of a lemma proved in proofs/. *)
From Coq Require Import List Bool NArith.
Require Import RV.model.Paths RV.proofs.PathsProofs RV.proofs.MountProofs.
Require Import RV.model.PhysLinks RV.proofs.PhysLinksProofs.
Import ListNotations.

Lemma byte_slash_dot : @slash ByteAlphabet <> @dot ByteAlphabet.
Proof. discriminate. Qed.

Notation bstr := (list N).

(* A local filesystem rooted at [base] hands to the host only paths whose components are the
   components of [base] followed by normal components (non-empty, not ".", not "..", no separator):
   for every path string, of any length. *)
Theorem C13_local_confined : forall (base path q : bstr),
  base_ok base -> is_empty base || str_eqb base [slash] = false ->
  resolve_path base path = Ok q ->
  exists rest, comps q = comps base ++ rest /\ Forall normal rest.
Proof. intros base path q Hb Hn Hr. exact (resolve_confined byte_slash_dot base path q Hb Hr Hn). Qed.

(* The bases localfs.New accepts (other than "", "/" and ".") satisfy the hypothesis above. *)
Theorem C13_new_base_ok : forall (orig : bstr),
  has_prefix (clean orig) dotdot = false -> clean orig <> [dot] -> base_ok (clean orig).
Proof. exact new_base_ok. Qed.

(* Two-path operations (rename, symlink): the operation is issued only when both arguments
   resolve, and then both host paths are confined. *)
Theorem C13_two_path_ops : forall (base p1 p2 q1 q2 : bstr),
  base_ok base -> is_empty base || str_eqb base [slash] = false ->
  resolve_two base p1 p2 = Some (q1, q2) ->
  (exists r1, comps q1 = comps base ++ r1 /\ Forall normal r1) /\
  (exists r2, comps q2 = comps base ++ r2 /\ Forall normal r2).
Proof. exact (resolve_two_confined byte_slash_dot). Qed.

Theorem C13_two_path_rejects : forall (base p1 p2 : bstr),
  (resolve_path base p1 = Invalid \/ resolve_path base p2 = Invalid) -> resolve_two base p1 p2 = None.
Proof. exact resolve_two_rejects. Qed.

(* A virtual OS serves a path from the mount point that is its longest component-wise prefix, hands
   that mount exactly the remaining components (all normal), whatever the iteration order of the
   mount table. *)
Theorem C13_mount_longest : forall (cwd : bstr) (keys : list bstr) (path k rel : bstr),
  is_rooted cwd = true -> Forall key_ok keys ->
  find_mount cwd keys path = Some (k, rel) ->
  In k keys /\
  comps (mount_path cwd path) = comps k ++ comps rel /\
  Forall normal (comps rel) /\
  (forall k', In k' keys -> is_pre (comps k') (comps (mount_path cwd path)) ->
              length (comps k') <= length (comps k)).
Proof. exact find_mount_longest. Qed.

(* ... and refuses exactly the paths that lie under no mount point. *)
Theorem C13_mount_refuses : forall (cwd : bstr) (keys : list bstr) (path : bstr),
  is_rooted cwd = true -> Forall key_ok keys ->
  (find_mount cwd keys path = None <->
   forall k, In k keys -> ~ is_pre (comps k) (comps (mount_path cwd path))).
Proof. exact find_mount_refuses. Qed.

(* Two-path operations of a virtual OS (rename, symlink): each argument is resolved on its own; when the operation is
   handed to a mount, that mount point is the longest component-wise prefix of BOTH paths (so neither lies under a
   longer, nested mount point, and neither merely shares a name prefix with it), and each is handed over as exactly its
   components below the mount point. *)
Theorem C13_mount_two_path_ops : forall (cwd : bstr) (keys : list bstr) (p1 p2 k r1 r2 : bstr),
  is_rooted cwd = true -> Forall key_ok keys ->
  mount_two cwd keys p1 p2 = Some (k, r1, r2) ->
  find_mount cwd keys p1 = Some (k, r1) /\ find_mount cwd keys p2 = Some (k, r2) /\
  In k keys /\
  comps (mount_path cwd p1) = comps k ++ comps r1 /\ comps (mount_path cwd p2) = comps k ++ comps r2 /\
  Forall normal (comps r1) /\ Forall normal (comps r2) /\
  (forall k', In k' keys ->
     is_pre (comps k') (comps (mount_path cwd p1)) \/ is_pre (comps k') (comps (mount_path cwd p2)) ->
     length (comps k') <= length (comps k)).
Proof. exact mount_two_longest. Qed.

(* ... and nothing is handed to any mount when either path lies under no mount point, or the two paths belong to
   different mount points (a rename across filesystems). *)
Theorem C13_mount_two_path_refuses : forall (cwd : bstr) (keys : list bstr) (p1 p2 : bstr),
  mount_two cwd keys p1 p2 = None <->
  find_mount cwd keys p1 = None \/ find_mount cwd keys p2 = None \/
  (exists k1 r1 k2 r2, find_mount cwd keys p1 = Some (k1, r1) /\ find_mount cwd keys p2 = Some (k2, r2) /\ k1 <> k2).
Proof. exact mount_two_refuses. Qed.

(* The path handed to the mount's own rooted filesystem stays under that filesystem's base. *)
Theorem C13_mount_then_local : forall (cwd : bstr) (keys : list bstr) (path k rel base q : bstr),
  is_rooted cwd = true -> Forall key_ok keys -> base_ok base ->
  is_empty base || str_eqb base [slash] = false ->
  find_mount cwd keys path = Some (k, rel) ->
  resolve_path base rel = Ok q ->
  exists rest, comps q = comps base ++ rest /\ Forall normal rest.
Proof. exact (mount_then_local byte_slash_dot). Qed.

(* Over the lifetime of one virtual OS: a lookup is decided by the mount table, the path and the directory set
   by the LAST Chdir (or the initial one) - earlier lookups and earlier working directories leave no trace. *)
Theorem C13_history_memoryless : forall (keys : list bstr) (cwd0 : bstr) before (d : bstr) between (p : bstr),
  forallb is_use between = true ->
  exists earlier,
    vrun keys cwd0 (before ++ VChdir d :: between ++ [VUse p]) = earlier ++ [find_mount d keys p].
Proof. exact history_memoryless. Qed.

Theorem C13_history_initial : forall (keys : list bstr) (cwd0 : bstr) between (p : bstr),
  forallb is_use between = true ->
  exists earlier, vrun keys cwd0 (between ++ [VUse p]) = earlier ++ [find_mount cwd0 keys p].
Proof. exact history_initial. Qed.

(* Symbolic links made THROUGH the rooted filesystem.  localfs.Symlink(old, new) stores the RESOLVED first argument
   (an absolute host path under the base, without ".."), so for every table of such links (any number of them, at
   any locations, chained in any way), every path the filesystem hands to the host leads - by the kernel's own
   component-by-component resolution, whatever links it passes through and however many - to a place under the
   base.  (Kernel resolution is the executable model PhysLinks.phys; the fuel is the kernel's bound on links.) *)
Definition made_by_symlink (base : bstr) (t : target bstr) : Prop :=
  exists old q, resolve_path base old = Ok q /\ t = Tgt true (comps q).

Lemma normal_plain : forall x : bstr, normal x -> plain bstr (@dotdot ByteAlphabet) x.
Proof.
  intros x (_ & _ & Hdd & _) E. subst x. unfold is_dotdot in Hdd.
  assert (H : str_eqb (@dotdot ByteAlphabet) (@dotdot ByteAlphabet) = true) by (apply str_eqb_eq; reflexivity).
  rewrite H in Hdd. discriminate.
Qed.

Theorem C13_links_lead_inside : forall (base : bstr) (L : links bstr) fuel (path q : bstr) p,
  base_ok base -> is_empty base || str_eqb base [slash] = false ->
  (forall loc t, In (loc, t) L -> made_by_symlink base t) ->
  resolve_path base path = Ok q ->
  leads bstr (@str_eqb ByteAlphabet) (@dotdot ByteAlphabet) fuel L (comps q) = Some p ->
  under bstr (comps base) p.
Proof.
  intros base L fuel path q p Hb Hn HL Hr Hp.
  assert (Hplain : forall rest, Forall normal rest -> Forall (plain bstr (@dotdot ByteAlphabet)) (comps base ++ rest)).
  { intros rest Hrest. apply Forall_app. split.
    - destruct Hb as [_ Hc]. eapply Forall_impl; [|exact Hc]. exact normal_plain.
    - eapply Forall_impl; [|exact Hrest]. exact normal_plain. }
  destruct (C13_local_confined base path q Hb Hn Hr) as [rest [Eq Hrest]].
  refine (leads_confined bstr (@str_eqb ByteAlphabet) (@str_eqb_eq ByteAlphabet) (@dotdot ByteAlphabet) (comps base) L _
            fuel (@comps ByteAlphabet q) p _ _ Hp).
  - intros loc t Hin. destruct (HL loc t Hin) as [old [q' [Hq' Et]]]. subst t. simpl.
    destruct (C13_local_confined base old q' Hb Hn Hq') as [rest' [Eq' Hrest']].
    split; [reflexivity|]. split; [exists rest'; exact Eq'|]. rewrite Eq'. apply Hplain. exact Hrest'.
  - rewrite Eq. apply Hplain. exact Hrest.
  - exists rest. exact Eq.
Qed.

(* Why the stored text has to be the resolved path.  Base /b; the link /b/d/s holds "/b" (made by Symlink("/", "d/s"));
   a link /b/L holding the RELATIVE text "d/s/.." - which cleans to "d", inside the base - leads to "/", the parent of
   the base, and /b/L/x to /x.  With the resolved text "/b/d" it leads to /b/d. *)
Definition cb : bstr := [98]%N.   Definition cd : bstr := [100]%N.   Definition cs : bstr := [115]%N.
Definition cL : bstr := [76]%N.   Definition cx : bstr := [120]%N.
Example C13_relative_link_text_escapes :
  leads bstr (@str_eqb ByteAlphabet) (@dotdot ByteAlphabet) 8
        [([cb; cd; cs], Tgt true [cb]); ([cb; cL], Tgt false [cd; cs; @dotdot ByteAlphabet])] [cb; cL; cx] = Some [cx] /\
  leads bstr (@str_eqb ByteAlphabet) (@dotdot ByteAlphabet) 8
        [([cb; cd; cs], Tgt true [cb]); ([cb; cL], Tgt true [cb; cd])] [cb; cL; cx] = Some [cb; cd; cx].
Proof. vm_compute. split; reflexivity. Qed.
(* the hypotheses of C13_links_lead_inside are met: "/" and "d/s/.." resolve under the base "/b" *)
Example C13_links_hyp_satisfiable :
  made_by_symlink [47;98]%N (Tgt true [cb]) /\ made_by_symlink [47;98]%N (Tgt true [cb; cd]).
Proof.
  split.
  - exists [47]%N, [47;98]%N. split; vm_compute; reflexivity.
  - exists [100;47;115;47;46;46]%N, [47;98;47;100]%N. split; vm_compute; reflexivity.
Qed.

(* Non-vacuity: the hypotheses are met by concrete layouts, and the witness of the repaired defect
   (mount "/tmp", path "/tmpfoo") is refused by the model of the repaired code. *)
Definition s (l : list N) := l.
Definition tmp : bstr := [47;116;109;112]%N.            (* "/tmp" *)
Definition tmpfoo : bstr := [47;116;109;112;102;111;111]%N. (* "/tmpfoo" *)
Definition tmp_foo : bstr := [47;116;109;112;47;102;111;111]%N. (* "/tmp/foo" *)
Example C13_tmpfoo_refused : find_mount [47]%N [tmp] tmpfoo = None.
Proof. vm_compute. reflexivity. Qed.
(* the second argument of a two-path operation: "/tmpfoo/x" is not on the mount "/tmp", "/data/b" is on the nested mount *)
Definition root1 : bstr := [47]%N.
Definition data : bstr := [47;100;97;116;97]%N.                        (* "/data" *)
Example C13_two_sibling_refused :
  mount_two [47]%N [tmp] [47;116;109;112;47;97]%N [47;116;109;112;102;111;111;47;120]%N = None.   (* /tmp/a -> /tmpfoo/x *)
Proof. vm_compute. reflexivity. Qed.
Example C13_two_nested_refused :
  mount_two [47]%N [root1; data] [47;98]%N [47;100;97;116;97;47;98]%N = None.                       (* /b -> /data/b *)
Proof. vm_compute. reflexivity. Qed.
Example C13_two_same_mount_served :
  mount_two [47]%N [root1; data] [47;100;97;116;97;47;97]%N [47;100;97;116;97;47;98]%N
  = Some (data, [47;97]%N, [47;98]%N).                                                              (* /data/a -> /data/b *)
Proof. vm_compute. reflexivity. Qed.
Example C13_tmp_foo_served : find_mount [47]%N [tmp] tmp_foo = Some (tmp, [47;102;111;111]%N).
Proof. vm_compute. reflexivity. Qed.
Example C13_hyp_satisfiable : key_ok tmp /\ base_ok tmp /\ @is_rooted ByteAlphabet [47]%N = true.
Proof.
  split; [split; vm_compute; reflexivity|]. split; [|reflexivity].
  split; [discriminate|]. vm_compute. repeat constructor; try discriminate.
Qed.
Example C13_escape_rejected : resolve_path tmp [46;46;47;101;116;99]%N = Invalid.   (* "../etc" *)
Proof. vm_compute. reflexivity. Qed.
