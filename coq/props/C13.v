(* C13 - rooted filesystems and mounts cannot be escaped by any path string.
   Property theorems only; each is closed by [exact] of a lemma proved in proofs/. *)
From Coq Require Import List Bool NArith.
Require Import RV.model.Paths RV.proofs.PathsProofs RV.proofs.MountProofs.
Import ListNotations.

Lemma byte_slash_dot : @slash ByteAlphabet <> @dot ByteAlphabet.
Proof. discriminate. Qed.

Notation bstr := (list N).

(* A local filesystem rooted at [base] hands to the host only paths whose components are the
   components of [base] followed by normal components (non-empty, not ".", not "..", no separator):
   for every path string, of any length. *)
Theorem C13_local_confined : forall (base path q : bstr),
  base_ok base -> is_empty base || str_eqb base [slash] = false ->
  resolve_path base path = Ok q ->
  exists rest, comps q = comps base ++ rest /\ Forall normal rest.
Proof. intros base path q Hb Hn Hr. exact (resolve_confined byte_slash_dot base path q Hb Hr Hn). Qed.

(* The bases localfs.New accepts (other than "", "/" and ".") satisfy the hypothesis above. *)
Theorem C13_new_base_ok : forall (orig : bstr),
  has_prefix (clean orig) dotdot = false -> clean orig <> [dot] -> base_ok (clean orig).
Proof. exact new_base_ok. Qed.

(* Two-path operations (rename, symlink): the operation is issued only when both arguments
   resolve, and then both host paths are confined. *)
Theorem C13_two_path_ops : forall (base p1 p2 q1 q2 : bstr),
  base_ok base -> is_empty base || str_eqb base [slash] = false ->
  resolve_two base p1 p2 = Some (q1, q2) ->
  (exists r1, comps q1 = comps base ++ r1 /\ Forall normal r1) /\
  (exists r2, comps q2 = comps base ++ r2 /\ Forall normal r2).
Proof. exact (resolve_two_confined byte_slash_dot). Qed.

Theorem C13_two_path_rejects : forall (base p1 p2 : bstr),
  (resolve_path base p1 = Invalid \/ resolve_path base p2 = Invalid) -> resolve_two base p1 p2 = None.
Proof. exact resolve_two_rejects. Qed.

(* A virtual OS serves a path from the mount point that is its longest component-wise prefix, hands
   that mount exactly the remaining components (all normal), whatever the iteration order of the
   mount table. *)
Theorem C13_mount_longest : forall (cwd : bstr) (keys : list bstr) (path k rel : bstr),
  is_rooted cwd = true -> Forall key_ok keys ->
  find_mount cwd keys path = Some (k, rel) ->
  In k keys /\
  comps (mount_path cwd path) = comps k ++ comps rel /\
  Forall normal (comps rel) /\
  (forall k', In k' keys -> is_pre (comps k') (comps (mount_path cwd path)) ->
              length (comps k') <= length (comps k)).
Proof. exact find_mount_longest. Qed.

(* ... and refuses exactly the paths that lie under no mount point. *)
Theorem C13_mount_refuses : forall (cwd : bstr) (keys : list bstr) (path : bstr),
  is_rooted cwd = true -> Forall key_ok keys ->
  (find_mount cwd keys path = None <->
   forall k, In k keys -> ~ is_pre (comps k) (comps (mount_path cwd path))).
Proof. exact find_mount_refuses. Qed.

(* The path handed to the mount's own rooted filesystem stays under that filesystem's base. *)
Theorem C13_mount_then_local : forall (cwd : bstr) (keys : list bstr) (path k rel base q : bstr),
  is_rooted cwd = true -> Forall key_ok keys -> base_ok base ->
  is_empty base || str_eqb base [slash] = false ->
  find_mount cwd keys path = Some (k, rel) ->
  resolve_path base rel = Ok q ->
  exists rest, comps q = comps base ++ rest /\ Forall normal rest.
Proof. exact (mount_then_local byte_slash_dot). Qed.

(* Over the lifetime of one virtual OS: a lookup is decided by the mount table, the path and the directory set
   by the LAST Chdir (or the initial one) - earlier lookups and earlier working directories leave no trace. *)
Theorem C13_history_memoryless : forall (keys : list bstr) (cwd0 : bstr) before (d : bstr) between (p : bstr),
  forallb is_use between = true ->
  exists earlier,
    vrun keys cwd0 (before ++ VChdir d :: between ++ [VUse p]) = earlier ++ [find_mount d keys p].
Proof. exact history_memoryless. Qed.

Theorem C13_history_initial : forall (keys : list bstr) (cwd0 : bstr) between (p : bstr),
  forallb is_use between = true ->
  exists earlier, vrun keys cwd0 (between ++ [VUse p]) = earlier ++ [find_mount cwd0 keys p].
Proof. exact history_initial. Qed.

(* Non-vacuity: the hypotheses are met by concrete layouts, and the witness of the repaired defect
   (mount "/tmp", path "/tmpfoo") is refused by the model of the repaired code. *)
Definition s (l : list N) := l.
Definition tmp : bstr := [47;116;109;112]%N.            (* "/tmp" *)
Definition tmpfoo : bstr := [47;116;109;112;102;111;111]%N. (* "/tmpfoo" *)
Definition tmp_foo : bstr := [47;116;109;112;47;102;111;111]%N. (* "/tmp/foo" *)
Example C13_tmpfoo_refused : find_mount [47]%N [tmp] tmpfoo = None.
Proof. vm_compute. reflexivity. Qed.
Example C13_tmp_foo_served : find_mount [47]%N [tmp] tmp_foo = Some (tmp, [47;102;111;111]%N).
Proof. vm_compute. reflexivity. Qed.
Example C13_hyp_satisfiable : key_ok tmp /\ base_ok tmp /\ @is_rooted ByteAlphabet [47]%N = true.
Proof.
  split; [split; vm_compute; reflexivity|]. split; [|reflexivity].
  split; [discriminate|]. vm_compute. repeat constructor; try discriminate.
Qed.
Example C13_escape_rejected : resolve_path tmp [46;46;47;101;116;99]%N = Invalid.   (* "../etc" *)
Proof. vm_compute. reflexivity. Qed.
