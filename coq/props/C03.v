(* C03 - no source text or script can crash or panic the embedding process.
   Property theorems only; each is closed by [exact] of a lemma proved in proofs/. *)
From Coq Require Import List Arith ZArith.
Require Import RV.model.Cyclic RV.proofs.CyclicProofs.
Import ListNotations.

(* The natively recursive object operations (Equals; and Inspect / Interface / MarshalJSON, which
   visit every item) terminate on every ACYCLIC heap, of any size and nesting, within a stack depth
   bounded by the rank of the value: they cannot exhaust the native stack by recursion alone. *)
Theorem C03_acyclic_visit_terminates : forall h rank, ranked h rank ->
  forall n a, vrank rank a < n -> visit n h a <> None.
Proof. exact visit_acyclic. Qed.

Theorem C03_acyclic_equals_terminates : forall h rank, ranked h rank ->
  forall n a b, vrank rank a < n -> equals n h a b <> None.
Proof. exact equals_acyclic. Qed.

(* Refuted for cyclic data (known finding): for the heap built by  l := [1]; l.append(l)  no amount of
   stack suffices for  l == l , nor for printing / converting l - on the implementation this is a
   fatal, unrecoverable stack overflow of the embedding process. *)
Theorem C03_refuted_cyclic_equals : forall n, equals n cyclic_heap (VRef 0) (VRef 0) = None.
Proof. exact equals_cyclic_diverges. Qed.

Theorem C03_refuted_cyclic_visit : forall n, visit n cyclic_heap (VRef 0) = None.
Proof. exact visit_cyclic_diverges. Qed.

(* Non-vacuity: a three-level acyclic heap is ranked and its traversal terminates. *)
Definition nested_heap : heap := [[VInt 1; VRef 1; VRef 1]; [VRef 2]; [VInt 7]].
Example C03_nested_ranked : ranked nested_heap (fun l => 3 - l).
Proof.
  intros l x Hin. destruct l as [|[|[|l]]]; cbn in Hin;
    repeat (destruct Hin as [<-|Hin]; [cbn; auto with arith|]); try contradiction.
  destruct l; cbn in Hin; contradiction.
Qed.
Example C03_nested_terminates : visit 5 nested_heap (VRef 0) = Some 3 /\ equals 5 nested_heap (VRef 0) (VRef 0) = Some true.
Proof. split; vm_compute; reflexivity. Qed.
