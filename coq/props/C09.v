(* C09 - evaluations on separate VMs are safe to run concurrently.
   Property theorems only.  Model: model/Lockset.v (any number of threads acquiring / releasing
   reader-writer locks and reading / writing shared locations, any schedule).  The facts about the
   code - every access site of the package-level mutable state with the locks that must be held
   there - are REGENERATED from the Go source on every run (gen/GenLockSites.v, harness/cmd/c09gen);
   the theorems about them are kernel computations. *)
From Coq Require Import List Bool Arith String.
Require Import RV.model.Lockset RV.proofs.LocksetProofs RV.gen.GenLockSites.
Import ListNotations.

(* ---------------------------------------------------------------- the lock discipline is sound *)

(* If every pair of access sites of one location, at least one of them a write, is mutually excluded
   by a lock (required in write mode by one site, in any mode by the other), then threads whose every
   access happens at one of the sites holding at least that site's locks NEVER race: any number of
   threads, any programs, any schedule. *)
Theorem C09_lockset_sound : forall (sites : list site) (progs : list (list event)),
  all_pairs_ok sites = true -> Forall (fun p => conformsb sites [] p = true) progs ->
  forall (sched : list nat) (s : list thread), run (init progs) sched = Some s -> ~ race s.
Proof. exact lockset_sound. Qed.

(* ---------------------------------------------------------------- the code as it is *)

(* every pair of access sites of the package-level mutable state (and of the lazily filled fields of shared
   objects) that the translator found in the current source is excluded by a lock: kernel computation over the
   regenerated site list *)
Theorem C09_sites_ok : all_pairs_ok gen_sites = true.
Proof. vm_compute. reflexivity. Qed.

(* ... hence evaluations - any number of them, whatever they run, however scheduled - whose accesses happen
   at those sites with at least those locks held never race *)
Theorem C09_no_race : forall (progs : list (list event)),
  Forall (fun p => conformsb gen_sites [] p = true) progs ->
  forall (sched : list nat) (s : list thread), run (init progs) sched = Some s -> ~ race s.
Proof. exact (fun progs => lockset_sound gen_sites progs C09_sites_ok). Qed.

(* the decision procedure behind it: a site list either obeys the discipline, or its first bad pair yields a
   checked two-thread program that conforms to the list and reaches a race (what the check reports when a
   change of the tree breaks C09_sites_ok) *)
Theorem C09_refuted_or_full_check : refuted_or_ok gen_sites = true.
Proof. vm_compute. reflexivity. Qed.

Theorem C09_refuted_or_full : forall (sites : list site), refuted_or_ok sites = true ->
  (all_pairs_ok sites = true /\
   forall progs, Forall (fun p => conformsb sites [] p = true) progs ->
     forall sched s, run (init progs) sched = Some s -> ~ race s) \/
  (all_pairs_ok sites = false /\
   exists progs sched s, Forall (fun p => conformsb sites [] p = true) progs /\
                         run (init progs) sched = Some s /\ race s).
Proof. exact refuted_or_ok_meaning. Qed.

(* ---------------------------------------------------------------- compiled code is read-only at run time *)

(* no run-time package (vm, object, builtins, importer) calls a method of compiler.Code / SymbolTable /
   Symbol / Function that writes a field (the fields are unexported: nothing else can write them) *)
Theorem C09_code_readonly : gen_runtime_code_mutations = [].
Proof. reflexivity. Qed.

(* ---------------------------------------------------------------- non-vacuity *)

Example C09_discipline_satisfiable :
  let sites := [mk_site 0 true [(0, true)]; mk_site 0 false [(0, false)]] in
  all_pairs_ok sites = true /\
  conformsb sites [] [Acq 0 true; Wr 0; Rel 0] = true /\ conformsb sites [] [Acq 0 false; Rd 0; Rel 0; Acq 0 false; Rd 0; Rel 0] = true /\
  run (init [[Acq 0 true; Wr 0; Rel 0]; [Acq 0 false; Rd 0; Rel 0]; [Acq 0 false; Rd 0; Rel 0]]) [1; 2; 1; 2; 2; 1; 0; 0; 0] <> None /\
  (* a writer cannot enter while a reader holds the lock *)
  run (init [[Acq 0 true; Wr 0; Rel 0]; [Acq 0 false; Rd 0; Rel 0]]) [1; 0] = None.
Proof. vm_compute. repeat split; first [reflexivity | discriminate]. Qed.

Example C09_unlocked_write_races :
  let sites := [mk_site 0 true []; mk_site 0 true [(0, true)]] in
  all_pairs_ok sites = false /\ refuted_or_ok sites = true.
Proof. vm_compute. split; reflexivity. Qed.

Example C09_generated_list_nonempty : 10 <= List.length gen_sites /\ 3 <= List.length gen_lock_names.
Proof. vm_compute. split; repeat constructor. Qed.
