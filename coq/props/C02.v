(* C02 - closures capture variables lexically, at any depth and from any call path.
   Property theorems only; each is closed by [exact] of a lemma proved in proofs/. *)
From Coq Require Import List ZArith Arith.
Require Import RV.model.Clos RV.proofs.ClosProofs.
Import ListNotations.

(* Reduced model of the repaired closure conversion (function literals, declarations, assignment,
   calls; the compiler passes a cell down through every intermediate function: MakeCell for a local
   of the function being executed, LoadCell for a cell this function itself received).
   Whenever the SOURCE semantics - closures capture their defining environment, one binding per
   declaration per activation - evaluates an expression or body to a value, the compiled code run
   in the corresponding activation produces a related value and related stores: a function value
   is related to a closure whose cells are exactly the locations its free names denote in the
   captured environment.  Any nesting depth, any call path, any number of calls. *)
Theorem C02_simulation : forall f, sim_e_stmt f /\ sim_b_stmt f.
Proof. exact sim. Qed.

Theorem C02_closures_lexical : forall f b v s' c,
  eb f [] 0 0 s0 b = Some (v, s') -> cb [] [] 0 b = Some c ->
  exists w t', tx 0 [] c ([], t0) ([w], t') /\ V v w.
Proof. exact closures_lexical. Qed.

(* Non-vacuity.  f(1)(2)(3) with capture at depth 2 (the witness of the repaired defect):
   the source semantics gives 6 and the compiled code exists. *)
Definition depth2 : body :=
  BDecl 0 (ELam 1 (BRet (ELam 2 (BRet (ELam 3 (BRet (EAdd (EAdd (EVar 1) (EVar 2)) (EVar 3))))))))
    (BRet (EApp (EApp (EApp (EVar 0) (EConst 1)) (EConst 2)) (EConst 3))).
Example C02_depth2_source_value : exists s', eb 30 [] 0 0 s0 depth2 = Some (VInt 6, s').
Proof. eexists. vm_compute. reflexivity. Qed.
Example C02_depth2_compiles : exists c, cb [] [] 0 depth2 = Some c.
Proof. eexists. vm_compute. reflexivity. Qed.

(* a counter shared by reference between two calls of the same closure *)
Definition counter : body :=
  BDecl 0 (ELam 1 (BDecl 2 (EVar 1) (BRet (ELam 3 (BAssign 2 (EAdd (EVar 2) (EVar 3)) (BRet (EVar 2)))))))
    (BDecl 4 (EApp (EVar 0) (EConst 10))
       (BDecl 5 (EApp (EVar 4) (EConst 1)) (BRet (EApp (EVar 4) (EConst 1))))).
Example C02_counter_shared : exists s', eb 30 [] 0 0 s0 counter = Some (VInt 12, s').
Proof. eexists. vm_compute. reflexivity. Qed.
