(* C08 - Go values cross the host/script boundary faithfully or are rejected cleanly.
   Property theorems only; each is closed by [exact] of a lemma proved in proofs/ConvProofs.v.

   The model (model/Conv.v) follows object/typeconv.go and object/proxy.go as they are (after the repairs 97c63d0,
   4f36687, b5872d0, c6698f8: untyped nil global, array length, nil elements, struct-valued field): the full statement
   ("every value of every supported type converts faithfully or is rejected with an error; conversion never
   panics") is FALSE of it, and of the code.  The C08_refuted_* theorems give one witness per defect class (each
   is replayed on the implementation by the check); the other theorems prove the property for the guarded class:
   unnamed types built from the scalars with pointer, slice, array and map[string], to any depth. *)
From Coq Require Import List Bool Arith NArith ZArith Lia.
Require Import RV.model.Conv RV.proofs.ConvProofs.
Import ListNotations.
Local Open Scope Z_scope.

Ltac conj_vm := lazymatch goal with
  | |- _ /\ _ => split; [vm_compute; reflexivity|conj_vm]
  | |- _ => vm_compute; reflexivity
  end.

(* ------------------------------------------------------------------ guarded: Go -> script never fails *)

(* For every unnamed type (any depth) and every well-typed value - zero values, nil pointers, nil and empty
   slices and maps, extreme integers included - the conversion to a script object succeeds: no panic, no error. *)
Theorem C08_from_total : forall t, plain_type t = true -> forall d v, wt t v = true ->
  exists o, from_go d t v = Ok o.
Proof. exact from_total. Qed.

(* The script sees the Go integer itself, for every integer kind, unless it is an unsigned value above MaxInt64. *)
Theorem C08_int_faithful : forall k z, in_range k z = true -> z <= 2 ^ 63 - 1 ->
  from_go true (TInt k) (GInt z) = Ok (RInt z).
Proof.
  intros k z H Hs. pose proof (wrap64_small k z H Hs) as E.
  destruct k; cbn [from_go from_scalar]; try rewrite E; reflexivity.
Qed.

(* ------------------------------------------------------------------ guarded: round trip *)

(* Go -> script -> Go.  For every unnamed type and every well-typed value - nil pointers, also inside slices, arrays
   and maps, included; only a pointer to a nil pointer is excluded - the object the script received converts back
   (To) to a Go value of exactly the original type that equals the original up to nil-versus-empty slices and maps
   (a nil pointer converts to "no value", for which the caller stores the zero value: tv_of).  Induction on the
   type: any depth. *)
Theorem C08_roundtrip : forall t, plain_type t = true -> forall h fuel d v o,
  wt t v = true -> solid t v = true -> from_go d t v = Ok o -> (tdepth t < fuel)%nat ->
  to_go h fuel false t o = Ok (tv_of t v).
Proof. exact roundtrip. Qed.

(* ... and the value that came back reads, in the script, exactly as the original did. *)
Theorem C08_roundtrip_reads_same : forall t, plain_type t = true -> forall d v, wt t v = true ->
  from_go d t (norm t v) = from_go d t v.
Proof. exact from_norm. Qed.

(* ------------------------------------------------------------------ a field written from a script reads back *)

(* Whenever `p.name = x` succeeds on a proxy that wraps Go memory, the Go-side field holds exactly the value
   SetAttr derives from the converter's result (the zero value for nil, the pointed-to struct for a struct-valued
   field, the converted value otherwise) and reading `p.name` from the script converts that very value. *)
Theorem C08_setfield_reads_back : forall fuel h pt c p name x h',
  set_attr fuel h (RProxy pt c p) name x = Ok h' ->
  exists i ft r g,
    field_index (struct_fields (under pt)) name 0 = Some (i, ft) /\
    to_go h fuel true (field_conv_type ft) x = Ok r /\
    stored_val h ft r = Ok g /\
    heap_get h' c (p ++ [i]) = Some g /\
    get_attr h' (RProxy pt c p) name = from_field ft g c (p ++ [i]).
Proof. exact setfield_reads_back. Qed.

(* A script list that does not fit a Go array is rejected with an error, for every element type and every list. *)
Theorem C08_array_too_long_rejected : forall h f d n et l,
  (n < length l)%nat -> to_go h (S f) d (TArray n et) (RList l) = Err.
Proof. exact to_go_array_too_long. Qed.

(* ------------------------------------------------------------------ methods receive the arguments passed *)

(* A successful call converted every argument with the converter of its parameter type (nil arguments become the
   zero value); nothing else reaches the Go method. *)
Theorem C08_args_exact : forall fuel h params args gvs,
  call_args fuel h params args = Ok gvs -> args_spec fuel h params args gvs.
Proof. intros fuel h params args gvs. exact (call_args_spec fuel h params args gvs). Qed.

(* Representable scalars arrive unchanged. *)
Theorem C08_args_scalars_exact : forall h f d,
  (forall k z, in_range k z = true -> to_go h (S f) d (TInt k) (RInt z) = Ok (Some (TInt k, GInt z))) /\
  (forall s, to_go h (S f) d TString (RStr s) = Ok (Some (TString, GStr s))) /\
  (forall b, to_go h (S f) d TBool (RBool b) = Ok (Some (TBool, GBool b))) /\
  (forall b, to_go h (S f) d TFloat64 (RFloat b) = Ok (Some (TFloat64, GFloat b))).
Proof.
  intros h f d. split; [intros k z H; exact (to_go_int_exact h f d k z H)|].
  split; [exact (to_go_str_exact h f d)|]. split; [exact (to_go_bool_exact h f d)|exact (to_go_float_exact h f d)].
Qed.

(* ------------------------------------------------------------------ the unguarded statement is false *)

Definition t_duration : gotype := TNamed 9 (TInt KInt64).
Definition t_myint : gotype := TNamed 1 (TInt KInt).
Definition f0 : str := [70; 48]%N.                                  (* "F0" *)
Definition st_of (ft : gotype) : gotype := TStruct 1000 [(f0, ft)].
Definition cell_proxy (ft : gotype) : robj := RProxy (TPtr (st_of ft)) 0 [].

(* Named scalar types (time.Duration, type MyInt int): From asserts the unnamed type. *)
Theorem C08_refuted_named :
  from_global (Some (t_duration, GInt 1000000000)) = Panic                                       (* WithGlobal("x", time.Second) *)
  /\ from_global (Some (t_myint, GInt 3)) = Panic
  /\ get_attr [GStruct [GInt 5]] (cell_proxy t_duration) f0 = Panic                              (* s.D *)
  /\ set_attr 10 [GStruct [GInt 5]] (cell_proxy t_duration) f0 (RInt 7) = Panic                  (* s.D = 7 *)
  /\ call_args 10 [] [t_duration] [RInt 5] = Panic                                               (* r.TakeDur(5) *)
  /\ from_global (Some (TSlice t_myint, GSlice [GInt 1])) = Panic                                (* []MyInt{1} *)
  /\ from_global (Some (TIface, GDyn t_myint (GInt 1))) = Panic.
Proof. conj_vm. Qed.

(* Unsigned 64-bit values above MaxInt64 are not represented by an equal value. *)
Theorem C08_refuted_uint64 :
  wt (TInt KUint64) (GInt (2 ^ 64 - 1)) = true /\ from_go false (TInt KUint64) (GInt (2 ^ 64 - 1)) = Ok (RInt (-1)).
Proof. conj_vm. Qed.

(* Script values that Go cannot hold are still not always rejected with an error: *)
Theorem C08_refuted_to_panics :
  (* a pointer to a declared slice type *)
  call_args 10 [] [TPtr (TNamed 10 (TSlice (TInt KInt)))] [RList [RInt 1]] = Panic
  (* a struct-valued field set INSIDE a map literal that builds the enclosing struct (StructConverter.To) *)
  /\ set_attr 10 [GStruct [GBox (GStruct [GStruct [GInt 1]])]]
        (cell_proxy (TPtr (TStruct 8 [(f0, TStruct 7 [(f0, TInt KInt)])]))) f0 (RMap [(f0, RMap [(f0, RInt 4)])]) = Panic.
Proof. conj_vm. Qed.

(* The former witnesses of repaired defects now convert, or are rejected with an error: *)
Theorem C08_repaired_conversions :
  (* WithGlobal("x", nil) *)
  from_global None = Ok RNil
  (* a list longer than the array: an error *)
  /\ set_attr 10 [GStruct [GArray [GInt 1; GInt 2]]] (cell_proxy (TArray 2 (TInt KInt))) f0 (RList [RInt 4; RInt 5; RInt 6]) = Err
  (* nil inside a slice of pointers: the zero value; the value read from Go can be written back *)
  /\ from_go true (TSlice (TPtr (TInt KInt))) (GSlice [GBox (GInt 1); GNil]) = Ok (RList [RInt 1; RNil])
  /\ set_attr 10 [GStruct [GNil]] (cell_proxy (TSlice (TPtr (TInt KInt)))) f0 (RList [RInt 1; RNil])
      = Ok [GStruct [GSlice [GBox (GInt 1); GNil]]]
  (* a struct-valued field written from a map *)
  /\ set_attr 10 [GStruct [GStruct [GInt 1]]] (cell_proxy (TStruct 7 [(f0, TInt KInt)])) f0 (RMap [(f0, RInt 4)])
      = Ok [GStruct [GStruct [GInt 4]]]
  (* a nil map value is kept, as the zero value *)
  /\ set_attr 10 [GStruct [GNil]] (cell_proxy (TMap TIface)) f0 (RMap [([97]%N, RNil)]) = Ok [GStruct [GMap [([97]%N, GNil)]]].
Proof. conj_vm. Qed.

(* A field written through a proxy of a struct VALUE taken from a slice is lost: it reads back as before. *)
Theorem C08_refuted_copy_proxy :
  let h := [GStruct [GSlice [GStruct [GInt 1]]]] in
  let inner := TStruct 7 [(f0, TInt KInt)] in
  let elem := from_go false inner (GStruct [GInt 1]) in
  exists o, elem = Ok o /\ set_attr 10 h o f0 (RInt 9) = Ok h /\ get_attr h o f0 = Ok (RInt 1).
Proof. eexists. conj_vm. Qed.

(* ------------------------------------------------------------------ non-vacuity *)

Definition t_deep : gotype := TMap (TSlice (TPtr (TArray 2 (TInt KInt8)))).        (* map[string][]*[2]int8 *)
Definition v_deep : goval := GMap [([97]%N, GSlice [GBox (GArray [GInt (-128); GInt 127]); GNil]); ([98]%N, GNil)].
Example C08_guard_satisfiable : plain_type t_deep = true /\ wt t_deep v_deep = true /\ solid t_deep v_deep = true.
Proof. conj_vm. Qed.
Example C08_roundtrip_example :
  exists o, from_go false t_deep v_deep = Ok o /\
            to_go [] 10 false t_deep o = Ok (Some (t_deep, GMap [([97]%N, GSlice [GBox (GArray [GInt (-128); GInt 127]); GNil]); ([98]%N, GSlice [])])).
Proof. eexists. conj_vm. Qed.
Example C08_setfield_example :
  exists h', set_attr 10 [GStruct [GInt 5; GStr []]] (RProxy (TPtr (TStruct 8 [(f0, TInt KInt8); ([70;49]%N, TString)])) 0 []) f0 (RInt (-3)) = Ok h'
             /\ h' = [GStruct [GInt (-3); GStr []]].
Proof. eexists. conj_vm. Qed.
