(* C11 - scripts can reach only the globals the host configuration allows.
   Property theorems only; each is closed by [exact] of a lemma proved in proofs/ (general lemmas) or of a
   generated-graph fact established by [vm_compute] over coq/gen/GenGlobalsGraph.v (regenerated on every run
   from the running packages). *)
From Coq Require Import List Bool String PArith MSets.MSetPositive.
Require Import RV.model.Graph RV.model.Globals RV.proofs.GraphProofs RV.proofs.GlobalsProofs.
Require RV.gen.GenGlobalsGraph.
Import ListNotations.
Open Scope string_scope.

Module Gen := RV.gen.GenGlobalsGraph.

(* two independent default configurations living in one heap *)
Definition G : world := W Gen.env1 Gen.heap Gen.modules.
Definition G' : world := W Gen.env2 Gen.heap Gen.modules.

(* ---------------------------------------------------------------- facts about the generated graph (vm_compute) *)

Lemma gen_wf : wf_world G = true.
Proof. vm_cast_no_check (eq_refl true). Qed.

Lemma gen_all_denied : forallb (check_deny G) (names G) = true.
Proof. vm_cast_no_check (eq_refl true). Qed.

Lemma gen_bounded : heap_bounded G Gen.max_node = true.
Proof. vm_cast_no_check (eq_refl true). Qed.

Definition set_of (o : option PS.t) : PS.t := match o with Some s => s | None => PS.empty end.
Definition S1 : PS.t := set_of (world_reach G).
Definition S2 : PS.t := set_of (world_reach G').
(* what configuration 1 may touch: everything except the objects only configuration 2 can reach *)
Definition P1 : node -> bool := touch1 S1 S2.

Lemma gen_S1 : world_reach G = Some S1.
Proof. vm_compute. reflexivity. Qed.
Lemma gen_S2 : world_reach G' = Some S2.
Proof. vm_compute. reflexivity. Qed.
Lemma gen_P1_closed : forallb (fun e => implb (P1 (e_src e)) (P1 (e_dst e))) Gen.heap = true.
Proof. vm_cast_no_check (eq_refl true). Qed.
Lemma gen_P1_env : forallb (fun p => P1 (snd p)) Gen.env1 = true.
Proof. vm_cast_no_check (eq_refl true). Qed.
(* the two configurations share no module object *)
Lemma gen_no_shared_module : forallb (fun m => negb (PS.mem m S1 && PS.mem m S2)) Gen.modules = true.
Proof. vm_cast_no_check (eq_refl true). Qed.

(* ---------------------------------------------------------------- the closure computation is exact *)

(* For every graph, root set and fuel: when the search answers, it answers exactly the reachable set. *)
Theorem C11_reach_complete : forall fuel (g : graph) roots s,
  reachable_set fuel g roots = Some s -> forall n, Reach g roots n <-> PS.In n s.
Proof. exact reach_complete. Qed.

(* Every access path of a script - identifier, import statement, attribute syntax, getattr builtin, including
   the __module__ back-reference of builtins - is a path of the object graph from the configured globals ... *)
Theorem C11_access_within_graph : forall w n,
  Access w n -> Reach (edges_of (w_heap w)) (env_nodes (w_env w)) n.
Proof. exact access_reach. Qed.

(* ... and conversely every graph path is an access path (so unreachability is not vacuous). *)
Theorem C11_graph_within_access : forall w n, wf_world w = true ->
  Reach (edges_of (w_heap w)) (env_nodes (w_env w)) n -> Access w n.
Proof. exact reach_access. Qed.

(* ---------------------------------------------------------------- deny *)

(* Finite domain, bound = the registered names of the generated default configuration (every default global and
   every member of every default module; 246 on the pinned tree): for each single-name deny configuration the
   object registered under the denied name cannot be obtained by any access path. *)
Theorem C11_denied_unreachable : forall nm, In nm (names G) ->
  exists o, lookup_name G nm = Some o /\ ~ Access (apply_config G (deny1 nm)) o.
Proof. exact (denied_from_check G gen_all_denied). Qed.

(* For every well-formed world (any host-defined modules as well): a denied registered name stops resolving. *)
Theorem C11_deny_unregisters : forall w nm,
  wf_world w = true -> In nm (names w) -> lookup_name (apply_config w (deny1 nm)) nm = None.
Proof. exact deny_unregisters. Qed.

(* WithoutDefaultGlobals (and nothing added): no object at all is accessible, whatever else is denied. *)
Theorem C11_without_defaults : forall d c n,
  c_nodefaults c = true -> c_extra c = [] -> c_over c = [] -> ~ Access (apply_config d c) n.
Proof. exact without_defaults_empty. Qed.

(* ---------------------------------------------------------------- override *)

(* For every well-formed world: the replacement is what the overridden name resolves to. *)
Theorem C11_override_installs : forall w nm v,
  wf_world w = true -> In nm (names w) -> lookup_name (apply_config w (override1 nm v)) nm = Some v.
Proof. exact override_installs. Qed.

(* Finite domain (the same names) x every fresh replacement object v (any identity outside the generated heap):
   after WithGlobalOverride(nm, v) the name resolves to v, v is accessible, and the object that was registered
   under nm cannot be obtained by any access path. *)
Theorem C11_override_observed : forall v nm, (Gen.max_node < v)%positive -> In nm (names G) ->
  exists o, lookup_name G nm = Some o /\
            lookup_name (apply_config G (override1 nm v)) nm = Some v /\
            Access (apply_config G (override1 nm v)) v /\
            (o <> v -> ~ Access (apply_config G (override1 nm v)) o).
Proof. exact (override_observed_from_check G Gen.max_node gen_wf gen_all_denied gen_bounded). Qed.

(* ---------------------------------------------------------------- independence of configurations *)

(* Whatever configuration is applied to one Config value (ANY deny list, ANY overrides and extra globals, as long
   as the host does not hand it objects that belong to the other Config only), every object reachable from the
   other Config's globals keeps exactly the attribute edges it had: removing or overriding in one configuration
   leaves the other unchanged. *)
Theorem C11_configs_independent : forall c,
  (forall x v, In (x, v) (c_extra c) -> P1 v = true) ->
  (forall x v, In (x, v) (c_over c) -> P1 v = true) ->
  forall n, Reach (edges_of Gen.heap) (env_nodes Gen.env2) n ->
  forall e, e_src e = n -> (In e (w_heap (apply_config G c)) <-> In e Gen.heap).
Proof.
  exact (independent_from_checks Gen.heap Gen.modules Gen.env1 Gen.env2 S1 S2 gen_S1 gen_S2
           gen_P1_closed gen_P1_env gen_no_shared_module).
Qed.

(* ---------------------------------------------------------------- configurations composed from a sequence of options *)

(* A configuration is the composition of an arbitrary sequence of options (WithoutDefaultGlobals, WithGlobal(s),
   WithoutGlobal, WithoutGlobals(names...), WithGlobalOverride) in any order.  Deny options ACCUMULATE: for every option
   list, the deny set of the composed Config is exactly the union of the names given to all its WithoutGlobal and
   WithoutGlobals options - none is forgotten because of what comes later, none appears that no option gave. *)
Theorem C11_options_accumulate : forall opts x, In x (c_deny (config_of opts)) <-> denied_by opts x.
Proof. exact config_of_denies. Qed.

(* For EVERY defaults world and EVERY option list: a global name denied by some option of the list and not
   overridden by a WithGlobalOverride of the list is absent from the composed environment - whatever else the list
   denies, adds or overrides, in whatever order (no identifier, import statement or from-import can name it). *)
Theorem C11_composed_deny_wins : forall d opts x,
  denied_by opts x -> has_dot x = false -> ~ overridden_by opts x ->
  env_get (w_env (apply_config d (config_of opts))) x = None.
Proof. exact composed_deny_wins. Qed.

(* ... and the same for any configuration however it was obtained (any deny list). *)
Theorem C11_denied_global_absent : forall d c x,
  In x (c_deny c) -> has_dot x = false -> (forall y v, In (y, v) (c_over c) -> y <> x) ->
  env_get (w_env (apply_config d c)) x = None.
Proof. exact denied_global_absent. Qed.

(* the shape of an embedding application's base deny list followed by a per-tenant WithoutGlobals *)
Definition layered_opts : list opt :=
  [OptWithout "os"; OptWithout "exec.command"; OptWithoutMany ["json"; "cat"]].
Example C11_layered_denies_all :
  c_deny (config_of layered_opts) = ["os"; "exec.command"; "json"; "cat"] /\
  c_deny (config_of (rev layered_opts)) = ["json"; "cat"; "exec.command"; "os"] /\
  forallb (fun x => match lookup_name (apply_config G (config_of layered_opts)) x with None => true | Some _ => false end)
          ["os"; "os.getenv"; "exec.command"; "json"; "cat"] = true /\
  (denied_by layered_opts "os" /\ has_dot "os" = false /\ ~ overridden_by layered_opts "os").
Proof.
  split; [vm_compute; reflexivity|]. split; [vm_compute; reflexivity|]. split; [vm_cast_no_check (eq_refl true)|].
  split; [exists (OptWithout "os"); split; [left; reflexivity|reflexivity]|]. split; [reflexivity|].
  intros [v H]. repeat (destruct H as [H|H]; [discriminate|]). exact H.
Qed.

(* ---------------------------------------------------------------- modules the host assembles from existing builtins *)

(* object.NewBuiltinsModule(n, members) re-parents every builtin it is given: for every well-formed world, every
   member b that is a builtin (has a computed __module__ attribute, whatever it pointed to) answers __module__ with the
   NEW module afterwards ... *)
Theorem C11_assembled_backref : forall w n members a b old,
  wf_world w = true -> In (a, b) members -> In (E b "__module__" false old) (w_heap w) ->
  get_attr (w_heap (assemble w n members)) b "__module__" = Some n.
Proof. exact assemble_backref. Qed.

(* ... and every other attribute edge is kept as it was. *)
Theorem C11_assembled_keeps : forall w n members e,
  In e (w_heap w) -> (e_lbl e <> "__module__" \/ e_mem e = true \/ ~ In (e_src e) (map snd members)) ->
  In e (w_heap (assemble w n members)).
Proof. exact assemble_keeps. Qed.

(* Finite domain (every module among the default globals of the generated graph) x two selections of members (all
   of them; those with a name of even length): a restricted module assembled from the selected members of the full
   module x, installed by WithGlobalOverride(x, n) or as a new global beside WithoutGlobal(x), gives a script no access
   path to the full module object - not through the __module__ back-reference of any member either. *)
Definition fresh_mod : node := Pos.succ Gen.max_node.
Definition keep_all (a : string) : bool := true.
Definition keep_even (a : string) : bool := Nat.even (String.length a).
Lemma gen_assembled_all : forallb (check_assemble G fresh_mod keep_all) (map fst Gen.env1) = true.
Proof. vm_cast_no_check (eq_refl true). Qed.
Lemma gen_assembled_even : forallb (check_assemble G fresh_mod keep_even) (map fst Gen.env1) = true.
Proof. vm_cast_no_check (eq_refl true). Qed.
Theorem C11_assembled_module_confined : forall keep x m,
  keep = keep_all \/ keep = keep_even ->
  In (x, m) Gen.env1 -> env_get Gen.env1 x = Some m -> is_module Gen.modules m = true ->
  ~ Access (apply_config (restricted G fresh_mod m keep) (override1 x fresh_mod)) m /\
  ~ Access (apply_config (restricted G fresh_mod m keep) (beside x fresh_mod)) m.
Proof.
  intros keep x m [->| ->].
  - exact (assembled_from_check G fresh_mod keep_all gen_assembled_all x m).
  - exact (assembled_from_check G fresh_mod keep_even gen_assembled_even x m).
Qed.
Example C11_assembled_hyp_satisfiable :
  existsb (fun p => String.eqb (fst p) "os" && is_module Gen.modules (snd p)) Gen.env1 = true /\
  Nat.leb 3 (List.length (filter (fun p => keep_even (fst p))
               (stored_members Gen.heap (match env_get Gen.env1 "os" with Some m => m | None => 1%positive end)))) = true.
Proof. split; vm_cast_no_check (eq_refl true). Qed.

(* ---------------------------------------------------------------- nested names of any depth *)

(* For every well-formed world (host-defined module trees of any shape), every global module x, every chain of
   nested modules p1...pk reached from it (k >= 0, ANY depth) and every stored attribute a of the module t at the
   end of the chain: WithoutGlobal("x.p1...pk.a") removes exactly the attribute a of t - nothing else in the heap
   or the globals changes - and the denied name no longer resolves. *)
Theorem C11_nested_deny_exact : forall w x m p t e,
  wf_world w = true -> In (x, m) (w_env w) -> is_module (w_mods w) m = true ->
  Forall nodot p -> mod_path (w_heap w) (w_mods w) m p t ->
  In e (w_heap w) -> e_src e = t -> e_mem e = true ->
  apply_config w (deny1 (dotted (x :: p ++ [e_lbl e]))) =
    W (w_env w) (filter (fun e' => negb (member_at t (e_lbl e) e')) (w_heap w)) (w_mods w) /\
  lookup_name (apply_config w (deny1 (dotted (x :: p ++ [e_lbl e])))) (dotted (x :: p ++ [e_lbl e])) = None.
Proof. exact nested_deny_exact. Qed.

(* ... and WithGlobalOverride("x.p1...pk.a", v) redirects exactly that attribute to v. *)
Theorem C11_nested_override_exact : forall w x m p t e,
  wf_world w = true -> In (x, m) (w_env w) -> is_module (w_mods w) m = true ->
  Forall nodot p -> mod_path (w_heap w) (w_mods w) m p t ->
  In e (w_heap w) -> e_src e = t -> e_mem e = true -> forall v,
  apply_config w (override1 (dotted (x :: p ++ [e_lbl e])) v) =
    W (w_env w) (map (fun e' => if member_at t (e_lbl e) e' then E (e_src e') (e_lbl e') true v else e') (w_heap w))
      (w_mods w) /\
  get_attr (w_heap (apply_config w (override1 (dotted (x :: p ++ [e_lbl e])) v))) t (e_lbl e) = Some v.
Proof. exact nested_override_exact. Qed.

(* A host-defined module tree vx{inner{deep{leaf2, deeper{leaf3}}}, deep{leaf2}} (5 modules, 3 builtins). *)
Definition nested_world : world :=
  W [("vx", 1%positive)]
    [ E 1 "inner" true 2; E 1 "deep" true 3; E 2 "deep" true 4; E 3 "leaf2" true 5; E 4 "leaf2" true 6;
      E 4 "deeper" true 7; E 7 "leaf3" true 8 ]%positive
    [1; 2; 3; 4; 7]%positive.

(* the hypotheses of the two theorems are met by the 4- and 5-component names of that tree *)
Example C11_nested_hyp_satisfiable :
  wf_world nested_world = true /\
  mod_path (w_heap nested_world) (w_mods nested_world) 1 ["inner"; "deep"] 4 /\
  mod_path (w_heap nested_world) (w_mods nested_world) 1 ["inner"; "deep"; "deeper"] 7 /\
  dotted ("vx" :: ["inner"; "deep"] ++ ["leaf2"]) = "vx.inner.deep.leaf2".
Proof.
  split; [vm_compute; reflexivity|]. split; [|split; [|reflexivity]].
  - eapply mp_cons; [vm_compute; reflexivity|reflexivity|]. eapply mp_cons; [vm_compute; reflexivity|reflexivity|]. apply mp_nil.
  - eapply mp_cons; [vm_compute; reflexivity|reflexivity|]. eapply mp_cons; [vm_compute; reflexivity|reflexivity|].
    eapply mp_cons; [vm_compute; reflexivity|reflexivity|]. apply mp_nil.
Qed.
Example C11_nested_deny_runs :
  lookup_name (apply_config nested_world (deny1 "vx.inner.deep.leaf2")) "vx.inner.deep.leaf2" = None /\
  lookup_name (apply_config nested_world (deny1 "vx.inner.deep.leaf2")) "vx.deep.leaf2" = Some 5%positive /\
  lookup_name (apply_config nested_world (deny1 "vx.inner.deep.deeper.leaf3")) "vx.inner.deep.deeper.leaf3" = None /\
  lookup_name (apply_config nested_world (override1 "vx.inner.deep.deeper.leaf3" 99)) "vx.inner.deep.deeper.leaf3" = Some 99%positive.
Proof. repeat split; vm_compute; reflexivity. Qed.

(* Regression (defect C11#1, repaired in /repo by e1edc7f): the rule before the repair looked every path element up
   in the ROOT module, so for vx.inner.deep.leaf2 it resolved the module vx.deep (node 3) instead of vx.inner.deep
   (node 4); removing leaf2 there left the denied object (node 6) reachable under its name. *)
Example C11_old_rule_failed :
  resolve_module_old (w_heap nested_world) (w_mods nested_world) 1 ["inner"; "deep"] = Some 3%positive /\
  resolve_module (w_heap nested_world) (w_mods nested_world) 1 ["inner"; "deep"] = Some 4%positive /\
  lookup_name (W (w_env nested_world) (override_attr (w_heap nested_world) 3 "leaf2" None) (w_mods nested_world))
              "vx.inner.deep.leaf2" = Some 6%positive.
Proof. repeat split; vm_compute; reflexivity. Qed.

(* ---------------------------------------------------------------- non-vacuity *)

Example C11_names_many : Nat.leb 100 (List.length (names G)) = true.
Proof. vm_compute. reflexivity. Qed.
Example C11_os_getenv_registered :
  forallb (fun x => existsb (String.eqb x) (names G)) ["os.getenv"; "os"; "getenv"] = true.
Proof. vm_cast_no_check (eq_refl true). Qed.
Example C11_alias_stays : exists o, lookup_name (apply_config G (deny1 "os.getenv")) "getenv" = Some o.
Proof. eexists. vm_compute. reflexivity. Qed.
Example C11_fuel_suffices : world_reach G <> None /\ world_reach G' <> None.
Proof. rewrite gen_S1, gen_S2. split; discriminate. Qed.
Example C11_fresh_exists : (Gen.max_node < Pos.succ Gen.max_node)%positive.
Proof. apply Pos.lt_succ_diag_r. Qed.
Example C11_nested_depth2_ok : lookup_name (apply_config nested_world (deny1 "vx.inner.deep")) "vx.inner.deep" = None.
Proof. vm_compute. reflexivity. Qed.
Example C11_indep_hyp_satisfiable :
  P1 (Pos.succ Gen.max_node) && existsb (fun m => PS.mem m S2) Gen.modules && negb (existsb (fun m => PS.mem m S1 && PS.mem m S2) Gen.modules) = true.
Proof. vm_cast_no_check (eq_refl true). Qed.
