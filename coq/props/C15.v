(* C15 - equality, ordering and hashing of values obey their algebraic laws.
   Property theorems only; each is closed by [exact] of a lemma proved in proofs/OpsProofs.v.
   The model (model/Ops.v) follows object/*.go as it is: where the full statement is false of the code
   there is a [_refuted] theorem with a witness (replayed on the implementation by checks/c15.py) and a
   [_guarded] theorem over the complement of a decidable defect class. *)
From Coq Require Import List Bool ZArith Permutation Sorted.
Require Import RV.model.Ops RV.proofs.OpsProofs.
Import ListNotations.
Open Scope Z_scope.

(* ---------------------------------------------------------------- == *)

(* == is reflexive on every NaN-free value (sets and maps as the implementation can build them). *)
Theorem C15_eq_refl : forall v, no_nan v = true -> wf v = true -> equals v v = true.
Proof. exact equals_refl. Qed.

(* == is symmetric, for all values of all types at any nesting depth (string and byte_slice compare
   their bytes in both directions since fix 786c921). *)
Theorem C15_eq_sym : forall a b,
  no_nan a = true -> no_nan b = true -> wf a = true -> wf b = true ->
  equals a b = equals b a.
Proof. exact equals_sym. Qed.

(* == is transitive within every scalar type (nil, bool, int, float, byte, string, byte_slice, error). *)
Theorem C15_eq_trans_same_type : forall a b c,
  scalar a = true -> tag_of a = tag_of b -> tag_of b = tag_of c ->
  equals a b = true -> equals b c = true -> equals a c = true.
Proof. exact equals_trans_same_type. Qed.

(* Within the type list it is not: ints above 2^53 are == to the float they round to. *)
Theorem C15_eq_trans_refuted : exists a b c,
  tag_of a = TList /\ tag_of b = TList /\ tag_of c = TList /\
  equals a b = true /\ equals b c = true /\ equals a c = false.
Proof.
  exists (VList [VInt 9007199254740993]), (VList [VFloat false 4845873199050653696]), (VList [VInt 9007199254740992]).
  vm_compute. repeat split; reflexivity.
Qed.

(* Outside the class "the middle value contains a float and both outer values contain an int or byte",
   == is transitive for all values of all types, nested containers included. *)
Theorem C15_eq_trans_guarded : forall a b c,
  trans_guard a b c = true -> equals a b = true -> equals b c = true -> equals a c = true.
Proof. exact equals_trans. Qed.

(* != is the exact negation of == (object.Compare). *)
Theorem C15_neq_negation : forall a b, cmp_op ONe a b = option_map negb (cmp_op OEq a b).
Proof. exact neq_negation. Qed.

(* ---------------------------------------------------------------- < <= > >= *)

(* Within each homogeneous orderable type t (int, float without NaN, byte, string, bool, list of t):
   every two values are comparable, compare is antisymmetric, composes transitively (Lt/Eq/Gt table),
   and answers Eq exactly when == holds. *)
Theorem C15_total_preorder : forall t a b c,
  has_oty t a = true -> has_oty t b = true -> has_oty t c = true ->
  (exists x, vcompare a b = Some x) /\
  vcompare b a = option_map CompOpp (vcompare a b) /\
  (forall x y r, vcompare a b = Some x -> vcompare b c = Some y -> ccomp x y = Some r -> vcompare a c = Some r) /\
  (vcompare a b = Some Eq <-> equals a b = true).
Proof. exact oty_laws. Qed.

Theorem C15_total_preorder_int : total_preorder_on (fun v => has_oty OInt v = true).
Proof. exact (oty_total_preorder OInt). Qed.
Theorem C15_total_preorder_float : total_preorder_on (fun v => has_oty OFloat v = true).
Proof. exact (oty_total_preorder OFloat). Qed.
Theorem C15_total_preorder_byte : total_preorder_on (fun v => has_oty OByte v = true).
Proof. exact (oty_total_preorder OByte). Qed.
Theorem C15_total_preorder_string : total_preorder_on (fun v => has_oty OStr v = true).
Proof. exact (oty_total_preorder OStr). Qed.
Theorem C15_total_preorder_bool : total_preorder_on (fun v => has_oty OBool v = true).
Proof. exact (oty_total_preorder OBool). Qed.
Theorem C15_total_preorder_list : forall t, total_preorder_on (fun v => has_oty (OList t) v = true).
Proof. exact (fun t => oty_total_preorder (OList t)). Qed.
(* strings and byte_slices together: one total preorder by their bytes, agreeing with == across the two types *)
Theorem C15_total_preorder_text : total_preorder_on (fun v => is_text v = true).
Proof. exact text_total_preorder. Qed.

(* The same laws in the operators' terms: <= is reflexive, transitive and total, < is its strict part,
   > and >= are the converses, and a <= b <= a exactly when a == b. *)
Theorem C15_le_refl : forall t a, has_oty t a = true -> cmp_op OLe a a = Some true.
Proof. intros t a H. apply cmp_op_le. right. exact (oty_refl t a H). Qed.

Theorem C15_le_trans : forall t a b c, has_oty t a = true -> has_oty t b = true -> has_oty t c = true ->
  cmp_op OLe a b = Some true -> cmp_op OLe b c = Some true -> cmp_op OLe a c = Some true.
Proof. intros t a b c Ha Hb Hc H1 H2. apply cmp_op_le. apply cmp_op_le in H1, H2. exact (oty_trans t a b c Ha Hb Hc H1 H2). Qed.

Theorem C15_le_total : forall t a b, has_oty t a = true -> has_oty t b = true ->
  cmp_op OLe a b = Some true \/ cmp_op OLe b a = Some true.
Proof. intros t a b Ha Hb. destruct (oty_total t a b Ha Hb); [left|right]; apply cmp_op_le; assumption. Qed.

Theorem C15_lt_strict : forall t a b, has_oty t a = true -> has_oty t b = true ->
  (cmp_op OLt a b = Some true <-> (cmp_op OLe a b = Some true /\ cmp_op OLe b a <> Some true)).
Proof. exact cmp_op_lt_strict. Qed.

Theorem C15_gt_converse : forall t a b, has_oty t a = true -> has_oty t b = true -> cmp_op OGt a b = cmp_op OLt b a.
Proof. exact cmp_op_gt_lt. Qed.

Theorem C15_ge_converse : forall t a b, has_oty t a = true -> has_oty t b = true -> cmp_op OGe a b = cmp_op OLe b a.
Proof. exact cmp_op_ge_le. Qed.

Theorem C15_order_agrees_eq : forall t a b, has_oty t a = true -> has_oty t b = true ->
  (vcompare a b = Some Eq <-> equals a b = true).
Proof. exact oty_eq_agrees. Qed.

(* On lists that mix ints and floats at one position <= is not transitive (same rounding). *)
Theorem C15_list_order_refuted : exists a b c,
  tag_of a = TList /\ tag_of b = TList /\ tag_of c = TList /\
  cmp_op OLe a b = Some true /\ cmp_op OLe b c = Some true /\ cmp_op OLe a c = Some false.
Proof.
  exists (VList [VInt 9007199254740993]), (VList [VFloat false 4845873199050653696]), (VList [VInt 9007199254740992]).
  vm_compute. repeat split; reflexivity.
Qed.

(* Across numeric types (int64, byte, non-NaN float64) every two values are comparable and never
   both a < b and b < a: compare(b, a) is the opposite of compare(a, b). *)
Theorem C15_cross_numeric_antisym : forall a b, num_ok a = true -> num_ok b = true ->
  (exists c, vcompare a b = Some c) /\
  vcompare b a = option_map CompOpp (vcompare a b) /\
  ~ (cmp_op OLt a b = Some true /\ cmp_op OLt b a = Some true).
Proof.
  intros a b Ha Hb. split; [exact (numeric_comparable a b Ha Hb)|].
  split; [exact (numeric_antisym a b Ha Hb) | exact (numeric_not_both_lt a b Ha Hb)].
Qed.

(* ---------------------------------------------------------------- hashing, sets, membership *)

(* Values of one hashable type are == exactly when their hash keys are equal as Go map keys ... *)
Theorem C15_set_slot : forall a b ka kb,
  tag_of a = tag_of b -> hashkey a = Some ka -> hashkey b = Some kb ->
  no_nan a = true -> no_nan b = true ->
  (equals a b = true <-> hkey_eqb ka kb = true).
Proof. exact set_slot. Qed.

(* ... so adding both to any set creates one slot. *)
Theorem C15_set_single_slot : forall s a b ka kb,
  tag_of a = tag_of b -> hashkey a = Some ka -> hashkey b = Some kb -> no_nan a = true -> no_nan b = true ->
  equals a b = true -> length (set_add b (set_add a s)) = length (set_add a s).
Proof. exact set_single_slot. Qed.

(* x in list: exactly iterating and comparing with ==. *)
Theorem C15_in_agrees_list : forall l x, contains (VList l) x = Some (existsb (fun v => equals v x) l).
Proof. exact contains_list. Qed.

(* x in map: the same for every x that is not a byte_slice ... *)
Theorem C15_in_agrees_map : forall m x, is_bytes x = false ->
  contains (VMap m) x = Some (existsb (fun kv => equals (VStr (fst kv)) x) m).
Proof. exact contains_map. Qed.

(* ... a byte_slice is == to the string key with its bytes, but map membership asks for a string. *)
Theorem C15_in_map_refuted : exists m x k,
  In k (map fst m) /\ equals (VStr k) x = true /\ contains (VMap m) x = Some false.
Proof. exists [([97], VInt 1)], (VBytes [97]), [97]. vm_compute. repeat split; auto. Qed.

(* x in set goes by hash key; it does not agree with iterating and comparing across types: 1 in {1.0}. *)
Theorem C15_in_set_refuted : exists s x v,
  wf (VSet s) = true /\ In v s /\ equals v x = true /\ contains (VSet s) x = Some false.
Proof.
  exists [VFloat false 4607182418800017408], (VInt 1), (VFloat false 4607182418800017408).
  vm_compute. repeat split; auto.
Qed.

(* It does whenever no member is of another numeric type than x, or a byte_slice against a string x or a
   string against a byte_slice x (in particular for every x of the members' own type). *)
Theorem C15_in_agrees_set_guarded : forall s x,
  hkeys_nodup s = true -> forallb no_nan s = true -> no_nan x = true -> set_in_guard s x = true ->
  contains (VSet s) x = Some (existsb (fun v => equals v x) s).
Proof. exact contains_set. Qed.

(* ---------------------------------------------------------------- sorted() *)

(* Whatever the input, a successful sorted() returns a permutation of it. *)
Theorem C15_sorted_perm : forall l r, sorted l = SOk r -> Permutation l r.
Proof. exact sorted_perm. Qed.

(* On input drawn from any class P of values on which compare is a total preorder (mutually comparable):
   sorted() succeeds, *)
Theorem C15_sorted_total : forall (P : value -> Prop) l,
  total_preorder_on P -> Forall P l -> exists r, sorted l = SOk r.
Proof. exact sorted_total. Qed.

(* its result is ordered by <=, *)
Theorem C15_sorted_ordered : forall (P : value -> Prop) l r,
  total_preorder_on P -> Forall P l -> sorted l = SOk r -> StronglySorted le_v r.
Proof. exact sorted_ordered. Qed.

(* the permutation it performs (sorted_idx carries every element's original position) orders by
   (value, original position): equal elements keep their relative order - stability, *)
Theorem C15_sorted_stable : forall (P : value -> Prop) l,
  total_preorder_on P -> Forall P l ->
  exists r, sorted_idx l = SOk r /\ Permutation (tag_from 0 l) r /\ StronglySorted stable_ord r /\
            sorted l = SOk (map fst r).
Proof.
  intros P l laws F. destruct (sorted_idx_stable P l laws F) as [r [E [Pm S]]].
  exists r. repeat split; auto. rewrite sorted_of_idx, E. reflexivity.
Qed.

(* and sorting again changes nothing. *)
Theorem C15_sorted_idem : forall (P : value -> Prop) l r,
  total_preorder_on P -> Forall P l -> sorted l = SOk r -> sorted r = SOk r.
Proof. exact sorted_idem. Qed.

(* ---------------------------------------------------------------- truthiness *)

Theorem C15_truthy_len : forall v n, vlen v = Some n -> truthy v = negb (Nat.eqb n 0).
Proof. exact truthy_len. Qed.

(* ---------------------------------------------------------------- non-vacuity *)

Example C15_hyp_int_list : has_oty (OList OInt) (VList [VInt 3; VInt (-1)]) = true.
Proof. reflexivity. Qed.
Example C15_hyp_float_no_nan : has_oty OFloat (VFloat true 0) = true /\ has_oty OFloat (VFloat false 9221120237041090560) = false.
Proof. split; reflexivity. Qed.
Example C15_sym_text : equals (VStr [97]) (VBytes [97]) = true /\ equals (VBytes [97]) (VStr [97]) = true /\
                        vcompare (VStr [97]) (VBytes [98]) = Some Lt /\ vcompare (VBytes [98]) (VStr [97]) = Some Gt.
Proof. vm_compute. repeat split; reflexivity. Qed.
Example C15_trans_guard_sat : trans_guard (VInt 1) (VFloat false 4607182418800017408) (VFloat false 4607182418800017408) = true.
Proof. reflexivity. Qed.
Example C15_num_ok_sat : num_ok (VInt 9223372036854775807) = true /\ num_ok (VFloat true 9218868437227405312) = true.
Proof. split; reflexivity. Qed.
Example C15_set_guard_sat : set_in_guard [VInt 1; VStr [97]] (VInt 2) = true /\ set_in_guard [VFloat false 4607182418800017408] (VInt 1) = false.
Proof. split; reflexivity. Qed.
Example C15_sorted_runs : sorted [VInt 3; VFloat false 4607182418800017408; VInt 1; VByte 1]
                          = SOk [VFloat false 4607182418800017408; VInt 1; VByte 1; VInt 3].
Proof. vm_compute. reflexivity. Qed.
Example C15_sorted_homogeneous_class : Forall (fun v => has_oty OInt v = true) [VInt 3; VInt 1; VInt 2].
Proof. repeat constructor. Qed.
Example C15_of_int_rounds : of_int 9007199254740993 = (false, 4845873199050653696) /\ of_int 9007199254740995 = (false, 4845873199050653698).
Proof. split; vm_compute; reflexivity. Qed.
