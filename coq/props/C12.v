(* C12 - a host-supplied OS mediates all file, environment, process and stdio access.
   (a) propagation of the supplied OS to every execution context, by induction on the derivation;
   (b) completeness of mediation over the static call graph regenerated on every run (coq/gen/GenOsCallGraph.v). *)
From Coq Require Import List Bool PArith.
Require Import RV.model.Graph RV.model.OsProp RV.model.CallGraph.
Require Import RV.proofs.GraphProofs RV.proofs.OsPropProofs RV.proofs.CallGraphProofs.
Require RV.gen.GenOsCallGraph.
Import ListNotations.

Module Gen := RV.gen.GenOsCallGraph.

(* ---------------------------------------------------------------- (a) propagation *)

(* For every derivation of an execution context - top level, host calls on the VM or on clones of it, spawned
   goroutines (to any depth), synchronous clone calls, imported modules, callbacks from builtins, in any nesting -
   in which the host supplied the OS o (WithOS option, or o placed in the context it passes): the OS every builtin
   obtains is o. *)
Theorem C12_propagates : forall (o : os) (d : deriv), host_supplies o d -> effective_os d = o.
Proof. exact propagates. Qed.

(* Whichever OS the host supplied for THIS evaluation is the one that serves it: an OS placed on a context replaces the
   one the context carried (a per-request OS layered over a base context; a host builtin that starts a nested
   evaluation under an OS of its own on the context it was called with, at any nesting depth). *)
Theorem C12_layered_context_last_wins : forall (ls : list os) (o : os), ctx_of_layers (ls ++ [o]) = Some o.
Proof. exact layers_last_wins. Qed.
Theorem C12_nested_evaluation_own_os : forall (d : deriv) (o : os) (v : option os), effective_os (Nest d (Some o) v) = o.
Proof. exact nested_layer_wins. Qed.
Example C12_hyp_nested : host_supplies 9 (Spawn (Nest (Import (Nest (Top (Some 7) None) (Some 8) None)) (Some 9) (Some 7))).
Proof. simpl. reflexivity. Qed.
Example C12_nested_inherits : effective_os (Nest (Top (Some 7) None) None (Some 9)) = 7.
Proof. reflexivity. Qed.

(* Script-level steps (spawn, clone call, import, callback) never change which OS is seen. *)
Theorem C12_script_steps_keep_os : forall d,
  effective_os (Spawn d) = effective_os d /\ effective_os (CloneSync d) = effective_os d /\
  effective_os (Import d) = effective_os d /\ effective_os (CallFn d) = effective_os d.
Proof. exact script_steps_keep_os. Qed.

(* ---------------------------------------------------------------- (b) completeness of mediation *)

Lemma gen_mediated : mediated_check Gen.calls Gen.cuts Gen.builtins Gen.real = true.
Proof. vm_cast_no_check (eq_refl true). Qed.

(* Finite domain (every function of modules/os, modules/filepath, modules/fmt, builtins and object/file.go x every
   function of the Go packages os, os/user, io/ioutil, syscall and the variables os.Stdin/Stdout/Stderr/Args of the
   generated program): no builtin reaches the real OS along static calls (function values counted as calls); what
   remains are calls through interfaces, i.e. through the OS the context carries. *)
Theorem C12_mediated : forall b r, In b Gen.builtins -> In r Gen.real ->
  ~ Reach (cut_graph Gen.calls Gen.cuts) [b] r.
Proof. exact (mediated_sound Gen.calls Gen.cuts Gen.builtins Gen.real gen_mediated). Qed.

(* The same for risor's own VirtualOS, an OS a host may supply: none of its methods reaches the real operating system
   (os, os/user, ... functions, os.Stdin/Stdout/Stderr/Args) along static calls - what it serves comes from its own
   configuration and from the filesystems mounted into it. *)
Lemma gen_virtual : mediated_check Gen.calls Gen.cuts Gen.virtual_os Gen.real = true.
Proof. vm_cast_no_check (eq_refl true). Qed.
Theorem C12_virtual_os_self_contained : forall b r, In b Gen.virtual_os -> In r Gen.real ->
  ~ Reach (cut_graph Gen.calls Gen.cuts) [b] r.
Proof. exact (mediated_sound Gen.calls Gen.cuts Gen.virtual_os Gen.real gen_virtual). Qed.
Example C12_virtual_os_nonempty : Nat.leb 30 (length Gen.virtual_os) = true.
Proof. vm_compute. reflexivity. Qed.

(* The closure used above is exact for every graph. *)
Theorem C12_reach_complete : forall fuel (g : graph) roots s,
  reachable_set fuel g roots = Some s -> forall n, Reach g roots n <-> PS.In n s.
Proof. exact reach_complete. Qed.

(* ---------------------------------------------------------------- non-vacuity and documented fall-backs *)

(* the analysis does see real-OS calls: risor's own SimpleOS methods reach them *)
Lemma gen_probe : reaches_some Gen.calls Gen.cuts Gen.probe Gen.real = true.
Proof. vm_cast_no_check (eq_refl true). Qed.
Example C12_probe_reaches_real : exists r, In r Gen.real /\ Reach (cut_graph Gen.calls Gen.cuts) Gen.probe r.
Proof. exact (reaches_some_sound _ _ _ _ gen_probe). Qed.
Example C12_sizes : Nat.leb 100 (length Gen.builtins) && Nat.leb 100 (length Gen.real) &&
                    Nat.leb 500 (count_reached Gen.calls Gen.cuts Gen.builtins) = true.
Proof. vm_cast_no_check (eq_refl true). Qed.

Example C12_hyp_with_os : host_supplies 7 (Spawn (Import (HostClone (Top (Some 7) None) None))).
Proof. simpl. unfold supplied. auto. Qed.
Example C12_hyp_ctx : host_supplies 7 (CallFn (Spawn (HostCall (Top None (Some 7)) (Some 7)))).
Proof. simpl. unfold supplied. auto. Qed.
(* documented fall-backs of the code as it is (not covered by the hypothesis): a context value wins over WithOS;
   a clone called with a bare context falls back to the real OS when the OS was supplied in the context only *)
Example C12_ctx_wins : effective_os (Top (Some 7) (Some 9)) = 9.
Proof. reflexivity. Qed.
Example C12_bare_clone_falls_back : effective_os (HostClone (Top None (Some 7)) None) = real_os.
Proof. reflexivity. Qed.
