(* C06 - cancelling the context stops the evaluation and everything it started.
   Property theorems only; each is closed by [exact] of a lemma proved in proofs/VmConcProofs.v.

   Model (model/VmConc.v): one evaluation = its context, its halt flag, its watcher goroutine and a growing list
   of script threads (thread 0 is risor.Eval's own goroutine; go / spawn / f.spawn add threads that run on
   clones).  A thread is a control stack over program shapes: loops, ticks, blocking primitives (channel
   send/receive/range, sleep, thread wait), callback-carrying builtins (each/map/filter/sorted/call/try),
   spawns and script calls, nested to any depth.  Actions: cancel the context, let the watcher goroutine run,
   step thread i (one poll + instruction, one callback dispatch, one frame of unwinding, or one wake-up from a
   select).  [run k sched c] applies a schedule under the code variant k: k_current is the code as it is; k_noclone,
   k_textual, k_tryrecovers, k_wakesilent are the code without b731f6b, without 644b857+dafa602, without ee030a3 and
   without b9a89d8 (regression witnesses only). *)
From Coq Require Import List Bool Arith Lia.
Require Import RV.model.VmConc RV.proofs.VmConcProofs.
Import ListNotations.

(* C06_inv: in every reachable state of every program under every schedule, every script thread - the
   evaluation itself, callbacks (they run on the same thread), and every clone started by go/spawn at any
   nesting depth - polls the run's halt flag; and that flag is set only after the context was cancelled. *)
Theorem C06_inv : forall (s : shape) (sched : list action),
  let c := run k_current sched (init s) in
  Forall (fun t => tshare t = true) (threads c) /\ (flag c = true -> cancelled c = true).
Proof. exact governed_reachable. Qed.

(* One step of a governed thread after the watcher's step: it is never blocked, executes no tick(), starts no
   thread, and its remaining-steps bound strictly decreases. *)
Theorem C06_progress_step : forall (k : ccfg) (c : cstate) (t : thread),
  cancelled c = true -> flag c = true -> tshare t = true -> tdone t = None ->
  let o := step_thread k c t in
  steps_left (o_thread o) < steps_left t /\ o_tick o = false /\ o_spawn o = None /\ o_mark o = false /\
  enabled c t = true.
Proof. exact step_progress. Qed.

(* C06_progress (bounded response): after the watcher's step, under EVERY schedule, no tick is added, no thread
   appears, and thread i has finished once it was given steps_left t of its own steps - a bound that depends only
   on the depth of its control stack (3 per frame, 3 per pending callback of a builtin), not on any loop. *)
Theorem C06_progress : forall (k : ccfg) (sched : list action) (c : cstate) (i : nat) (t : thread),
  halted c -> nth_error (threads c) i = Some t ->
  let c' := run k sched c in
  halted c' /\ ticks c' = ticks c /\ length (threads c') = length (threads c) /\
  (steps_left t <= count_steps i sched ->
   exists t', nth_error (threads c') i = Some t' /\ tdone t' <> None).
Proof. exact bounded_response. Qed.

(* Fairness is the stated hypothesis: under every fair infinite schedule, from the watcher's step on a point is
   reached after which every thread of the evaluation is finished (Eval has returned, nothing it started runs),
   and the tick counter never moves again. *)
Theorem C06_all_stop : forall (k : ccfg) (f : nat -> action) (c : cstate),
  halted c -> fair f ->
  (exists n, forall m, n <= m -> all_done (run k (prefix f m) c) = true) /\
  (forall m, ticks (run k (prefix f m) c) = ticks c).
Proof. exact halted_all_stop. Qed.

(* From the cancellation itself: in any reachable state in which the context is cancelled, a fair schedule lets
   the watcher run (n0 steps), and then the above holds. *)
Theorem C06_cancel_to_quiescence : forall (s : shape) (sched : list action) (f : nat -> action),
  let c := run k_current sched (init s) in
  cancelled c = true -> fair f ->
  exists n0, (exists n, forall m, n <= m -> all_done (run k_current (prefix f (n0 + m)) c) = true) /\
             (forall m, ticks (run k_current (prefix f (n0 + m)) c) = ticks (run k_current (prefix f n0) c)).
Proof. exact cancelled_all_stop. Qed.

(* Which error comes back: for EVERY program, in every reachable state under every schedule, every error a thread
   is unwinding with or has ended with is the context's own error (errors.Is(err, ctx.Err())). *)
Theorem C06_error_identity : forall (s : shape) (sched : list action),
  let c := run k_current sched (init s) in
  forall t, In t (threads c) ->
    (forall e, tmode t = Unwind e -> e = ECtx) /\ (forall e, tdone t = Some (TErr e) -> e = ECtx).
Proof. exact (fun s sched => error_identity k_current s sched eq_refl). Qed.

(* A cancellation that reached a thread is not swallowed: once the context is cancelled, a thread that is unwinding
   (or whose sorted() holds an error for the end) stays so, step after step, until it ends with an error - try()
   does not turn it back into normal execution. *)
Theorem C06_cancellation_not_swallowed : forall (c : cstate) (t : thread),
  cancelled c = true -> tdone t = None -> failing t = true ->
  let t' := o_thread (step_thread k_current c t) in
  failing t' = true \/ exists e, tdone t' = Some (TErr e).
Proof. exact (fun c t => step_failing k_current c t eq_refl). Qed.

(* Every blocking primitive that the cancellation wakes reports it: channel send/receive/range, sleep, wait. *)
Theorem C06_wake_reports : forall (t : thread) (b : blk), wake k_current t b = unwind t ECtx.
Proof. exact (fun t b => wake_reports_ctx k_current t b eq_refl eq_refl). Qed.

(* ------------------------------------------------------------------ regression: the code without each error repair *)
Definition after_cancel (pre : list action) : list action := pre ++ [ACancel; AFire] ++ repeat (AStep 0) 30.
Definition returns (k : ccfg) (s : shape) (sched : list action) (r : tres) : Prop :=
  let c := run k sched (init s) in cancelled c = true /\ flag c = true /\ main_result c = Some r.

(* without 644b857: [1,2,3].each(func(x) { for { tick() } }) cancelled inside the callback: Errorf(err.Error()) *)
Definition p_each := Callback CbEach 3 (Forever Tick).
Theorem C06_textual_refuted_callback_error : exists s sched, returns k_textual s sched (TErr ECtxText).
Proof. exists p_each, (after_cancel (repeat (AStep 0) 5)). vm_compute. auto. Qed.
Example C06_callback_error_repaired : returns k_current p_each (after_cancel (repeat (AStep 0) 5)) (TErr ECtx).
Proof. vm_compute. auto. Qed.
(* without dafa602: t := spawn(...); t.wait() cancelled while waiting: "wait error: context canceled" *)
Definition p_wait := Seq (Spawn (Block BRecv)) (Block BWait).
Definition s_wait := after_cancel [AStep 0; AStep 0; AStep 0; AStep 0; AStep 1].
Theorem C06_textual_refuted_wait_error : exists s sched, returns k_textual s sched (TErr EWait).
Proof. exists p_wait, s_wait. vm_compute. auto. Qed.
Example C06_wait_error_repaired : returns k_current p_wait s_wait (TErr ECtx).
Proof. vm_compute. auto. Qed.
(* without ee030a3: try(func() { for { tick() } }) as the last expression: the cancellation is swallowed, nil, nil *)
Definition p_try := Callback CbTry 1 (Forever Tick).
Theorem C06_tryrecovers_refuted : exists s sched, returns k_tryrecovers s sched TOk.
Proof. exists p_try, (after_cancel (repeat (AStep 0) 5)). vm_compute. auto. Qed.
Example C06_try_repaired : returns k_current p_try (after_cancel (repeat (AStep 0) 5)) (TErr ECtx).
Proof. vm_compute. auto. Qed.
(* without b9a89d8: for x := range c { } ; tick() - the loop over a channel nobody closes ends silently when the
   context is done, and the code after it completes before the watcher has run *)
Definition p_range := Seq (Block BNext) Tick.
Definition s_range := [AStep 0; AStep 0; ACancel] ++ repeat (AStep 0) 6 ++ [AFire].
Theorem C06_wakesilent_refuted : exists s sched,
  let c := run k_wakesilent sched (init s) in cancelled c = true /\ main_result c = Some TOk /\ 0 < ticks c.
Proof. exists p_range, s_range. vm_compute. auto. Qed.
Example C06_wake_repaired :
  let c := run k_current s_range (init p_range) in main_result c = Some (TErr ECtx) /\ ticks c = 0.
Proof. vm_compute. auto. Qed.

(* ------------------------------------------------------------------ regression: the code without b731f6b *)
Theorem C06_noclone_refuted_spawned_loop : exists s sched,
  let c := run k_noclone sched (init s) in
  cancelled c = true /\ flag c = true /\ main_result c = Some (TErr ECtx) /\
  forall n, let c' := run k_noclone (concat (repeat [AStep 1; AStep 1] n)) c in
            ticks c' = n + ticks c /\ all_done c' = false.
Proof. exact noclone_spawned_loop_survives. Qed.
Example C06_spawned_loop_repaired :
  all_done (run k_current (sched_spawn_loop ++ [AStep 1; AStep 1; AStep 1; AStep 1]) (init prog_spawn_loop)) = true.
Proof. exact spawn_loop_now_stops. Qed.

(* ------------------------------------------------------------------ non-vacuity and the explorer *)
(* depth-3 nesting of spawns, a callback and a blocked thread: a reachable halted state exists, and the
   hypotheses of C06_progress hold in it *)
Definition nested3 : shape :=
  Seq (Spawn (Seq (Spawn (Seq (Spawn (Forever Tick)) (Callback CbMap 2 (Forever Tick)))) (Block BRecv)))
      (Deep 3 (Forever Tick)).
Definition sched3 : list action :=
  repeat (AStep 0) 3 ++ repeat (AStep 1) 3 ++ repeat (AStep 2) 4 ++ repeat (AStep 3) 2 ++ [ACancel; AFire].
Example C06_halted_satisfiable :
  let c := run k_current sched3 (init nested3) in
  cancelled c = true /\ flag c = true /\ forallb tshare (threads c) = true /\ length (threads c) = 4 /\
  all_done c = false /\
  all_done (run k_current (concat (repeat [AStep 0; AStep 1; AStep 2; AStep 3] 16)) c) = true.
Proof. vm_compute. repeat split. Qed.
(* the explorer (all schedules of a concrete program, used by the correspondence): a spawned loop under the code
   as it is and before the repair *)
Example C06_explorer_now : let v := analyse k_current IMarked (Seq (Spawn (Forever Tick)) (Seq Mark (Forever Skip))) in
  v_complete v = true /\ v_stuck v = false /\ v_results v = [TErr ECtx].
Proof. vm_compute. auto. Qed.
Example C06_explorer_noclone : v_stuck (analyse k_noclone IMarked (Seq (Spawn (Forever Tick)) (Seq Mark (Forever Skip)))) = true.
Proof. vm_compute. auto. Qed.
